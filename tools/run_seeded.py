#!/usr/bin/env python3
"""Apply each seeded change to /repo, run the check(s) of the property it breaks, undo it, and
record the outcome in seeded/<id>/result.json.  usage: run_seeded.py [ids…]"""
import sys, os, json, subprocess, time
ROOT = os.path.join(os.path.dirname(os.path.abspath(__file__)), "..")
ids = sys.argv[1:] or sorted(os.listdir(os.path.join(ROOT, "seeded")))
for sid in ids:
    d = os.path.join(ROOT, "seeded", sid)
    patch = os.path.join(d, "patch.diff")
    if not os.path.exists(patch):
        continue
    prop = sid.split("_")[0]
    meta = {}
    mp = os.path.join(d, "meta.json")
    if os.path.exists(mp):
        meta = json.load(open(mp))
    props = meta.get("checks", [prop])
    assert subprocess.run(["git", "-C", "/repo", "status", "--porcelain", "--untracked-files=no"], capture_output=True, text=True).stdout.strip() == "", "/repo not clean"
    r = subprocess.run(["git", "-C", "/repo", "apply", patch], capture_output=True, text=True)
    if r.returncode != 0:
        print(sid, "PATCH DOES NOT APPLY", r.stderr[:200]); continue
    res = {}
    try:
        for p in props:
            t = time.time()
            c = subprocess.run([os.path.join(ROOT, "check"), p, "--tier", "quick"], capture_output=True, text=True, cwd=ROOT)
            lines = [l for l in c.stdout.split("\n") if l.startswith("VIOLATION") or l.startswith("[" + p + "] tier")]
            res[p] = {"exit": c.returncode, "lines": lines, "wall_s": round(time.time() - t, 1)}
    finally:
        subprocess.run(["git", "-C", "/repo", "checkout", "--", "."])
    json.dump(res, open(os.path.join(d, "result.json"), "w"), indent=1)
    for p, v in res.items():
        kind = "MISSED" if v["exit"] == 0 else ("caught(no-input)" if all("no-failing-input-found" in l for l in v["lines"] if l.startswith("VIOLATION")) else "caught")
        print(sid, p, kind, v["wall_s"], "s")
