#!/usr/bin/env python3
"""Write seeded/<id>/meta.json for dirs that lack it, from the agent's README, my verify logs and result.json."""
import os, json, re, glob
ROOT = os.path.join(os.path.dirname(os.path.abspath(__file__)), "..")
for d in sorted(glob.glob(os.path.join(ROOT, "seeded", "*"))):
    sid = os.path.basename(d)
    mp = os.path.join(d, "meta.json")
    old = json.load(open(mp)) if os.path.exists(mp) else {}
    rd = os.path.join(d, "README.agent.md")
    title = ""
    needs = ""
    if os.path.exists(rd):
        txt = open(rd).read()
        m = re.search(r"^#\s*(.+)$", txt, re.M)
        title = m.group(1).strip() if m else ""
        m = re.search(r"##[^\n]*needs[^\n]*\n(.+?)(\n## |\Z)", txt, re.S | re.I)
        if m:
            needs = " ".join(m.group(1).split())[:600]
    logs = sorted(os.path.basename(x) for x in glob.glob(os.path.join(d, "verify_*.log")))
    res = json.load(open(os.path.join(d, "result.json"))) if os.path.exists(os.path.join(d, "result.json")) else {}
    meta = {
        "breaks_property": sid.split("_")[0],
        "change": old.get("change") or title,
        "needs_to_manifest": old.get("needs_to_manifest") or needs,
        "origin": "written by a fresh sub-agent that saw only the property text and its own scratch worktree of /repo (nothing from /verif)",
        "confirmed_by_me": {
            "how": "tools/verify_seed.sh in a scratch worktree: demo passes without the change, demo fails with it, full suite passes with it (only the always-failing sync-server-tls fails)",
            "logs": logs,
        },
        "check_run": {
            "how": "tools/run_seeded.py: git -C /repo apply patch.diff; ./check <prop> --tier quick; git -C /repo checkout -- .",
            "result": res,
        },
    }
    if "checks" in old:
        meta["checks"] = old["checks"]
    json.dump(meta, open(mp, "w"), indent=1)
    caught = {p: ("MISSED" if v["exit"] == 0 else "caught") for p, v in res.items()}
    print(sid, caught)
