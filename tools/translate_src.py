#!/usr/bin/env python3
"""Translate the pure, `match`-shaped functions of /repo's current source into Lean definitions
(lean/TcVerif/Generated/Src*.lean, one module per function group), on every run.

This is the *translator* tie of the brief for the part of the code that is pure decision logic:
  src/server/op.rs      SyncOp::transform, SyncOp::from_op       (the OT core, C01–C04, C14)
  src/operation.rs      Operation::get_uuid, Operation::is_undo_point
  src/task/status.rs    Status::from_taskmap, Status::to_taskmap (C19)
The theorems of Proofs/SrcEquiv.lean state that the translated functions ARE the model's functions
(`Src.transform = Tc.transform`, …), so every theorem about the model's OT core is a theorem about
what the source says now.  A source change that alters one of these functions changes the generated
definition and the equivalence theorem stops checking; a change the translator cannot read (syntax
outside the subset below) makes the generated file fail to compile — both are broken proof
obligations and trigger the search for a failing input (DESIGN B.8).

Subset read (anything else is a translation failure, never a guess):
  items     `enum E { V, V { f: T, .. }, V(T) }`, `fn f(params) -> T { expr }` inside an `impl`
  expr      match, block with a single tail expression, tuple, path, struct literal, call
            `Some(e)`, `vec![..]`, unary `&` `*` (dropped: no aliasing in a pure function),
            `==` `!=` `&&` `||`, `<` `>` `<=` `>=` (through `ROrd`), `if c { e } else { e }`,
            identity conversions `.to_string() .as_ref() .clone() .to_owned()`,
            `.cmp(&e)` (Rust's derived lexicographic order, prelude `ROrd`)
  pattern   `_`, binder, `&p`, tuple, string literal, `Path`, `Path { f: p, f, .. }`, `Path(p)`
  match     arms in order, optional `if` guard; the last arm must be irrefutable or the arms
            exhaustive by constructor (Lean checks that)
"""
import re, os, sys, json

REPO = os.environ.get("TC_REPO", "/repo")
OUTDIR = os.environ.get("TC_SRC_OUT") or os.path.join(os.path.dirname(os.path.abspath(__file__)), "..", "lean", "TcVerif", "Generated")


class Untranslatable(Exception):
    pass


# ------------------------------------------------------------------ lexer

TOKEN = re.compile(r"""
    (?P<ws>\s+)
  | (?P<str>"(?:[^"\\]|\\.)*")
  | (?P<num>[0-9][0-9_]*)
  | (?P<id>[A-Za-z_][A-Za-z0-9_]*)
  | (?P<op>=>|==|!=|&&|\|\||::|\.\.|->|<=|>=|[{}()\[\],;:.&*!<>=|#\-+/])
""", re.X)


def strip_comments(s):
    out, i = [], 0
    while i < len(s):
        if s.startswith("//", i):
            while i < len(s) and s[i] != "\n":
                i += 1
        elif s.startswith("/*", i):
            j = s.find("*/", i + 2)
            i = len(s) if j < 0 else j + 2
        elif s[i] == '"':
            m = re.compile(r'"(?:[^"\\]|\\.)*"').match(s, i)
            if not m:
                raise Untranslatable("unterminated string literal")
            out.append(m.group(0))
            i = m.end()
        else:
            out.append(s[i])
            i += 1
    return "".join(out)


def lex(s):
    toks, i = [], 0
    while i < len(s):
        m = TOKEN.match(s, i)
        if not m:
            raise Untranslatable(f"cannot tokenise at {s[i:i+20]!r}")
        i = m.end()
        k = m.lastgroup
        if k != "ws":
            toks.append((k, m.group(0)))
    return toks


# ------------------------------------------------------------------ parser (AST = nested tuples)

class P:
    def __init__(self, toks):
        self.t, self.i = toks, 0

    def peek(self, k=0):
        return self.t[self.i + k][1] if self.i + k < len(self.t) else None

    def kind(self, k=0):
        return self.t[self.i + k][0] if self.i + k < len(self.t) else None

    def eat(self, v=None):
        if self.i >= len(self.t):
            raise Untranslatable(f"unexpected end of input, wanted {v!r}")
        k, x = self.t[self.i]
        if v is not None and x != v:
            raise Untranslatable(f"expected {v!r}, found {x!r}")
        self.i += 1
        return x

    def path(self):
        parts = [self.eat()]
        while self.peek() == "::":
            self.eat()
            parts.append(self.eat())
        return parts

    # ---- patterns
    def pattern(self):
        x = self.peek()
        if x == "&":
            self.eat()
            if self.peek() == "mut":
                raise Untranslatable("`&mut` pattern")
            return self.pattern()
        if x == "(":
            self.eat()
            ps = []
            while self.peek() != ")":
                ps.append(self.pattern())
                if self.peek() == ",":
                    self.eat()
            self.eat(")")
            return ps[0] if len(ps) == 1 else ("ptuple", ps)
        if self.kind() == "str":
            return ("pstr", self.eat())
        if x == "_":
            self.eat()
            return ("pwild",)
        if self.kind() != "id":
            raise Untranslatable(f"pattern starting with {x!r}")
        if x in ("mut", "ref", "box"):
            raise Untranslatable(f"`{x}` in a pattern")
        p = self.path()
        if self.peek() == "{":
            self.eat()
            fields, rest = [], False
            while self.peek() != "}":
                if self.peek() == "..":
                    self.eat()
                    rest = True
                else:
                    f = self.eat()
                    if self.peek() == ":":
                        self.eat()
                        fields.append((f, self.pattern()))
                    else:
                        fields.append((f, ("pbind", f)))
                if self.peek() == ",":
                    self.eat()
            self.eat("}")
            return ("pstruct", p, fields, rest)
        if self.peek() == "(":
            self.eat()
            ps = []
            while self.peek() != ")":
                ps.append(self.pattern())
                if self.peek() == ",":
                    self.eat()
            self.eat(")")
            return ("ptstruct", p, ps)
        if self.peek() == "@" or self.peek() == "|":
            raise Untranslatable("`@` / `|` patterns")
        if len(p) == 1 and p[0][0].islower():
            return ("pbind", p[0])
        return ("ppath", p)

    # ---- expressions
    def expr(self, nostruct=False):
        return self.binop(0, nostruct)

    LEVELS = [["||"], ["&&"], ["==", "!=", "<", ">", "<=", ">="]]

    def binop(self, lvl, nostruct):
        if lvl == len(self.LEVELS):
            return self.unary(nostruct)
        e = self.binop(lvl + 1, nostruct)
        while self.peek() in self.LEVELS[lvl]:
            op = self.eat()
            r = self.binop(lvl + 1, nostruct)
            e = ("bin", op, e, r)
        return e

    def unary(self, nostruct):
        if self.peek() in ("&", "*"):
            self.eat()
            if self.peek() == "mut":
                raise Untranslatable("`&mut` expression")
            return self.unary(nostruct)
        return self.postfix(self.atom(nostruct))

    def postfix(self, e):
        while self.peek() == ".":
            self.eat()
            name = self.eat()
            if self.peek() != "(":
                raise Untranslatable(f"field access `.{name}`")
            self.eat("(")
            args = []
            while self.peek() != ")":
                args.append(self.expr())
                if self.peek() == ",":
                    self.eat()
            self.eat(")")
            e = ("method", name, e, args)
        if self.peek() == "?":
            raise Untranslatable("`?` operator")
        return e

    def atom(self, nostruct):
        x = self.peek()
        if x == "match":
            self.eat()
            scrut = self.expr(nostruct=True)
            self.eat("{")
            arms = []
            while self.peek() != "}":
                pat = self.pattern()
                guard = None
                if self.peek() == "if":
                    self.eat()
                    guard = self.expr(nostruct=True)
                self.eat("=>")
                body = self.expr()
                arms.append((pat, guard, body))
                if self.peek() == ",":
                    self.eat()
            self.eat("}")
            return ("match", scrut, arms)
        if x == "{":
            self.eat()
            e = self.expr()
            if self.peek() != "}":
                raise Untranslatable(f"block with statements (found {self.peek()!r} after the first expression)")
            self.eat("}")
            return e
        if x == "(":
            self.eat()
            es = []
            while self.peek() != ")":
                es.append(self.expr())
                if self.peek() == ",":
                    self.eat()
            self.eat(")")
            return es[0] if len(es) == 1 else ("tuple", es)
        if self.kind() == "str":
            return ("str", self.eat())
        if self.kind() == "num":
            return ("num", self.eat().replace("_", ""))
        if self.kind() != "id":
            raise Untranslatable(f"expression starting with {x!r}")
        if x == "if":
            self.eat()
            if self.peek() == "let":
                raise Untranslatable("`if let`")
            c = self.expr(nostruct=True)
            if self.peek() != "{":
                raise Untranslatable("`if` without a block")
            t = self.atom(False)
            if self.peek() != "else":
                raise Untranslatable("`if` without `else` (a statement, not a value)")
            self.eat("else")
            if self.peek() not in ("if", "{"):
                raise Untranslatable("malformed `else`")
            return ("if", c, t, self.atom(False))
        if x in ("let", "for", "while", "loop", "return", "unsafe", "move", "async"):
            raise Untranslatable(f"`{x}` expression/statement")
        p = self.path()
        if self.peek() == "!":
            self.eat()
            if p != ["vec"]:
                raise Untranslatable(f"macro {'::'.join(p)}!")
            self.eat("[")
            es = []
            while self.peek() != "]":
                es.append(self.expr())
                if self.peek() == ",":
                    self.eat()
            self.eat("]")
            return ("vec", es)
        if self.peek() == "(":
            self.eat()
            args = []
            while self.peek() != ")":
                args.append(self.expr())
                if self.peek() == ",":
                    self.eat()
            self.eat(")")
            return ("call", p, args)
        if self.peek() == "{" and not nostruct and p[-1][0].isupper():
            self.eat()
            fields = []
            while self.peek() != "}":
                if self.peek() == "..":
                    raise Untranslatable("struct update syntax")
                f = self.eat()
                if self.peek() == ":":
                    self.eat()
                    fields.append((f, self.expr()))
                else:
                    fields.append((f, ("path", [f])))
                if self.peek() == ",":
                    self.eat()
            self.eat("}")
            return ("struct", p, fields)
        return ("path", p)


# ------------------------------------------------------------------ items

def find_enum(toks, name):
    """[(variant, kind, [field names])]; kind in unit/struct/tuple"""
    for i in range(len(toks) - 2):
        if toks[i][1] == "enum" and toks[i + 1][1] == name and toks[i + 2][1] == "{":
            p = P(toks)
            p.i = i + 3
            vs = []
            while p.peek() != "}":
                while p.peek() == "#":        # attributes on variants
                    p.eat(); skip_group(p, "[", "]")
                v = p.eat()
                if p.peek() == "{":
                    p.eat()
                    fs = []
                    while p.peek() != "}":
                        f = p.eat(); p.eat(":")
                        ty = skip_type(p)
                        fs.append((f, ty))
                        if p.peek() == ",":
                            p.eat()
                    p.eat("}")
                    vs.append((v, "struct", fs))
                elif p.peek() == "(":
                    p.eat()
                    fs = []
                    while p.peek() != ")":
                        fs.append((str(len(fs)), skip_type(p)))
                        if p.peek() == ",":
                            p.eat()
                    p.eat(")")
                    vs.append((v, "tuple", fs))
                else:
                    vs.append((v, "unit", []))
                if p.peek() == ",":
                    p.eat()
            return vs
    raise Untranslatable(f"enum {name} not found")


def skip_group(p, o, c):
    p.eat(o)
    d = 1
    while d:
        x = p.eat()
        d += (x == o) - (x == c)


def skip_type(p):
    """consume a type up to `,` `)` `}` `{` at depth 0; return its text"""
    out, d = [], 0
    while True:
        x = p.peek()
        if x is None:
            break
        if d == 0 and x in (",", ")", "}", "{", "=", ";"):
            break
        if x in ("<", "(", "["):
            d += 1
        if x in (">", ")", "]"):
            d -= 1
        out.append(p.eat())
    return "".join(out)


def find_fn(toks, name):
    """(params [(name, type)], return type text, body AST)"""
    hits = [i for i in range(len(toks) - 1) if toks[i][1] == "fn" and toks[i + 1][1] == name]
    if len(hits) != 1:
        raise Untranslatable(f"fn {name}: found {len(hits)} definitions")
    p = P(toks)
    p.i = hits[0] + 2
    if p.peek() == "<":
        raise Untranslatable(f"fn {name} is generic")
    p.eat("(")
    params = []
    while p.peek() != ")":
        if p.peek() == "&":
            p.eat()
        if p.peek() == "mut":
            raise Untranslatable(f"fn {name}: mutable parameter")
        n = p.eat()
        if n == "self":
            params.append(("self", "Self"))
        else:
            p.eat(":")
            params.append((n, skip_type(p)))
        if p.peek() == ",":
            p.eat()
    p.eat(")")
    ret = ""
    if p.peek() == "->":
        p.eat()
        ret = skip_type(p)
    p.eat("{")
    p.i -= 1
    body = p.atom(False)
    return params, ret, body


# ------------------------------------------------------------------ Lean emission

# Rust enum -> (Lean type, {variant: (Lean constructor, expected field names in the model's order)})
ENUMS = {
    "SyncOp": ("Tc.SyncOp", {"Create": ("Tc.SyncOp.create", ["uuid"]), "Delete": ("Tc.SyncOp.delete", ["uuid"]),
                             "Update": ("Tc.SyncOp.update", ["uuid", "property", "value", "timestamp"])}),
    "Operation": ("Tc.Op", {"Create": ("Tc.Op.create", ["uuid"]), "Delete": ("Tc.Op.delete", ["uuid", "old_task"]),
                            "Update": ("Tc.Op.update", ["uuid", "property", "old_value", "value", "timestamp"]),
                            "UndoPoint": ("Tc.Op.undoPoint", [])}),
    "Status": ("Tc.Src.Status", {"Pending": ("Tc.Src.Status.pending", []), "Completed": ("Tc.Src.Status.completed", []),
                                 "Deleted": ("Tc.Src.Status.deleted", []), "Recurring": ("Tc.Src.Status.recurring", []),
                                 "Unknown": ("Tc.Src.Status.unknown", ["0"])}),
}
ORDERING = {"Equal": "Ordering.eq", "Less": "Ordering.lt", "Greater": "Ordering.gt"}
IDENTITY_METHODS = {"to_string", "as_ref", "clone", "to_owned", "into", "as_str"}
LEAN_KEYWORDS = {"end", "from", "at", "do", "then", "else", "fun", "let", "have", "show", "open", "in", "with", "match", "if"}
TYPES = {"SyncOp": "Tc.SyncOp", "Operation": "Tc.Op", "Self": None, "&str": "String", "str": "String", "String": "String",
         "Status": "Tc.Src.Status", "bool": "Bool", "Option<SyncOp>": "Option Tc.SyncOp", "Option<Self>": None,
         "Option<Uuid>": "Option Nat", "(Option<SyncOp>,Option<SyncOp>)": "Option Tc.SyncOp × Option Tc.SyncOp"}


class Emit:
    def __init__(self, self_enum, decls):
        self.self_enum = self_enum      # Rust name of the impl's type
        self.decls = decls              # enum name -> parsed declaration from the source
        self.n = 0

    def var(self, v):
        return v + "'" if v in LEAN_KEYWORDS else v

    def resolve(self, path):
        """Rust path naming an enum variant -> (enum, variant)"""
        if len(path) >= 3 and path[-3:-1] == ["cmp", "Ordering"] or (len(path) == 2 and path[0] == "Ordering"):
            return ("Ordering", path[-1])
        if len(path) == 1:
            # `use SyncOp::*;` in op.rs: bare variant names
            for e, (_, vs) in ENUMS.items():
                if path[0] in vs and e == self.self_enum:
                    return (e, path[0])
            raise Untranslatable(f"bare path {path[0]} is not a variant of {self.self_enum}")
        e = self.self_enum if path[-2] == "Self" else path[-2]
        if e not in ENUMS or path[-1] not in ENUMS[e][1]:
            raise Untranslatable(f"unknown variant {'::'.join(path)}")
        return (e, path[-1])

    def ctor(self, e, v):
        if e == "Ordering":
            if v not in ORDERING:
                raise Untranslatable(f"Ordering::{v}")
            return ORDERING[v], []
        return ENUMS[e][1][v]

    # ---- patterns: returns Lean pattern text
    def pat(self, p):
        k = p[0]
        if k == "pwild":
            return "_"
        if k == "pbind":
            return self.var(p[1])
        if k == "pstr":
            return p[1]
        if k == "ptuple":
            return "(" + ", ".join(self.pat(x) for x in p[1]) + ")"
        if k == "ppath" and p[1] == ["None"]:
            return "none"
        if k == "ptstruct" and p[1] == ["Some"] and len(p[2]) == 1:
            return "(some " + self.pat(p[2][0]) + ")"
        if k == "ppath":
            e, v = self.resolve(p[1])
            c, fs = self.ctor(e, v)
            if fs:
                raise Untranslatable(f"pattern {'::'.join(p[1])} without its fields")
            return c
        if k == "pstruct":
            e, v = self.resolve(p[1])
            c, fs = self.ctor(e, v)
            given = dict(p[2])
            for f in given:
                if f not in fs:
                    raise Untranslatable(f"pattern names field {f} which the model's {c} does not have")
            if not p[3] and set(given) != set(fs):
                raise Untranslatable(f"pattern of {c} lists fields {sorted(given)} without `..`")
            return "(" + " ".join([c] + [self.pat(given[f]) if f in given else "_" for f in fs]) + ")"
        if k == "ptstruct":
            e, v = self.resolve(p[1])
            c, fs = self.ctor(e, v)
            if len(fs) != len(p[2]):
                raise Untranslatable(f"arity of {c}")
            return "(" + " ".join([c] + [self.pat(x) for x in p[2]]) + ")"
        raise Untranslatable(f"pattern {k}")

    def irrefutable(self, p):
        return p[0] in ("pwild", "pbind") or (p[0] == "ptuple" and all(self.irrefutable(x) for x in p[1]))

    # ---- expressions
    def expr(self, e, ind):
        k = e[0]
        if k == "path":
            p = e[1]
            if len(p) == 1 and (p[0][0].islower() or p[0] == "_"):
                return self.var(p[0])
            if p == ["None"]:
                return "none"
            en, v = self.resolve(p)
            c, fs = self.ctor(en, v)
            if fs:
                raise Untranslatable(f"{'::'.join(p)} used without fields")
            return c
        if k == "str":
            return e[1]
        if k == "num":
            return e[1]
        if k == "tuple":
            return "(" + ", ".join(self.expr(x, ind) for x in e[1]) + ")"
        if k == "vec":
            return "[" + ", ".join(self.expr(x, ind) for x in e[1]) + "]"
        if k == "bin":
            a, b = self.expr(e[2], ind), self.expr(e[3], ind)
            if e[1] in ("<", ">", "<=", ">="):     # Rust's (derived) order, not Lean's
                rel = {"<": "= Ordering.lt", ">": "= Ordering.gt", "<=": "≠ Ordering.gt", ">=": "≠ Ordering.lt"}[e[1]]
                return f"(Tc.Src.ROrd.rcmp {a} {b} {rel})"
            op = {"==": "=", "!=": "≠", "&&": "∧", "||": "∨"}[e[1]]
            return f"({a} {op} {b})"
        if k == "if":
            pad = "  " * ind
            return f"(if {self.expr(e[1], ind)} then {self.expr(e[2], ind + 1)}\n{pad} else {self.expr(e[3], ind + 1)})"
        if k == "call":
            p, args = e[1], e[2]
            if p == ["Some"] and len(args) == 1:
                return f"(some {self.expr(args[0], ind)})"
            en, v = self.resolve(p)
            c, fs = self.ctor(en, v)
            if len(fs) != len(args):
                raise Untranslatable(f"arity of {c}")
            return "(" + " ".join([c] + [self.expr(a, ind) for a in args]) + ")"
        if k == "struct":
            en, v = self.resolve(e[1])
            c, fs = self.ctor(en, v)
            given = dict(e[2])
            if set(given) != set(fs):
                raise Untranslatable(f"struct literal {c} with fields {sorted(given)}, model has {fs}")
            return "(" + " ".join([c] + [self.expr(given[f], ind) for f in fs]) + ")"
        if k == "method":
            name, recv, args = e[1], e[2], e[3]
            if name in IDENTITY_METHODS and not args:
                return self.expr(recv, ind)
            if name == "cmp" and len(args) == 1:
                return f"(Tc.Src.ROrd.rcmp {self.expr(recv, ind)} {self.expr(args[0], ind)})"
            raise Untranslatable(f"method .{name}()")
        if k == "match":
            return self.match(e, ind)
        raise Untranslatable(f"expression {k}")

    def match(self, e, ind):
        scrut, arms = e[1], e[2]
        scruts = scrut[1] if scrut[0] == "tuple" else [scrut]
        ss = [self.expr(s, ind) for s in scruts]
        for s in ss:
            if not re.fullmatch(r"[A-Za-z_][A-Za-z0-9_']*|\(Tc\.Src\.ROrd\.rcmp .*\)", s):
                raise Untranslatable(f"match scrutinee {s}")
        return self.arms(ss, arms, 0, ind)

    def arms(self, ss, arms, i, ind):
        pad = "  " * ind
        if i == len(arms):
            raise Untranslatable("match without a final irrefutable arm (exhaustiveness by constructors is only accepted for unguarded arms)")
        # a tail of unguarded arms is emitted as one Lean match (Lean checks exhaustiveness)
        if all(g is None for _, g, _ in arms[i:]) and not any(a[0][0] == "pstr" for a in arms[i:]):
            lines = [f"(match {', '.join(ss)} with"]
            for pat, _, body in arms[i:]:
                pats = pat[1] if (pat[0] == "ptuple" and len(ss) > 1) else [pat]
                if len(pats) == 1 and len(ss) > 1 and pats[0][0] == "pwild":
                    pats = [("pwild",)] * len(ss)       # `_` for the whole tuple
                if len(pats) != len(ss):
                    raise Untranslatable("tuple pattern arity")
                lines.append(f"{pad}  | {', '.join(self.pat(x) for x in pats)} => {self.expr(body, ind + 2)}")
            return ("\n").join(lines) + ")"
        pat, guard, body = arms[i]
        pats = pat[1] if (pat[0] == "ptuple" and len(ss) > 1) else [pat]
        if len(pats) == 1 and len(ss) > 1 and pats[0][0] == "pwild":
            pats = [("pwild",)] * len(ss)
        if len(pats) != len(ss):
            raise Untranslatable("tuple pattern arity")
        b = self.expr(body, ind + 2)
        if all(self.irrefutable(x) for x in pats) and guard is None:
            lets = "".join(f"let {self.var(x[1])} := {s}; " for x, s in zip(pats, ss) if x[0] == "pbind")
            return f"({lets}{b})"
        self.n += 1
        k = f"rest{self.n}"
        rest = self.arms(ss, arms, i + 1, ind + 1)
        if len(pats) == 1 and pats[0][0] == "pstr":
            cond = f"{ss[0]} = {pats[0][1]}" + (f" ∧ {self.expr(guard, ind)}" if guard else "")
            return f"(if {cond} then {b}\n{pad} else {rest})"
        if guard is None:
            return (f"(match {', '.join(ss)} with\n{pad}  | {', '.join(self.pat(x) for x in pats)} => {b}\n"
                    f"{pad}  | {', '.join('_' for _ in ss)} => {rest})")
        g = self.expr(guard, ind)
        return (f"(let {k} := fun (_ : Unit) => {rest}\n{pad} match {', '.join(ss)} with\n"
                f"{pad}  | {', '.join(self.pat(x) for x in pats)} => if {g} then {b} else {k} ()\n"
                f"{pad}  | {', '.join('_' for _ in ss)} => {k} ())")


def check_enum(decl, rust_name):
    """the source's enum must have exactly the variants and fields the model's type has"""
    _, model = ENUMS[rust_name]
    got = {v: [f for f, _ in fs] for v, _, fs in decl}
    want = {v: fs for v, (_, fs) in model.items()}
    if got != want:
        raise Untranslatable(f"enum {rust_name} changed: source {got}, model {want}")


def lean_type(ty, self_enum):
    ty = ty.replace(" ", "")
    if ty in ("Self", "&Self"):
        return ENUMS[self_enum][0]
    ty = ty.replace("Self", self_enum)
    ty = ty.lstrip("&")
    if ty in TYPES and TYPES[ty]:
        return TYPES[ty]
    m = re.fullmatch(r"Option<(\w+)>", ty)
    if m and m.group(1) in ENUMS:
        return f"Option {ENUMS[m.group(1)][0]}"
    raise Untranslatable(f"type {ty}")


def translate_fn(toks, decls, self_enum, rust_name, lean_name):
    params, ret, body = find_fn(toks, rust_name)
    em = Emit(self_enum, decls)
    ps = " ".join(f"({em.var(n)} : {lean_type(t, self_enum)})" for n, t in params)
    rt = lean_type(ret, self_enum)
    b = em.expr(body, 1)
    if rt == "Bool" and body[0] == "bin":      # a comparison used as a value
        b = f"decide {b}"
    return f"def {lean_name} {ps} : {rt} :=\n  {b}\n"


JOBS = [
    # (file, impl enum, rust fn, lean name, generated module)
    ("src/server/op.rs", "SyncOp", "transform", "transform", "SrcTransform"),
    ("src/server/op.rs", "SyncOp", "from_op", "fromOp", "SrcFromOp"),
    ("src/operation.rs", "Operation", "get_uuid", "getUuid", "SrcGetUuid"),
    ("src/operation.rs", "Operation", "is_undo_point", "isUndoPoint", "SrcGetUuid"),
    ("src/task/status.rs", "Status", "from_taskmap", "statusFromTaskmap", "SrcStatus"),
    ("src/task/status.rs", "Status", "to_taskmap", "statusToTaskmap", "SrcStatus"),
]

HEADER = """import TcVerif.Model.SrcPrelude
/-! GENERATED by tools/translate_src.py from /repo's current sources on every run. Do not edit. -/
set_option linter.unusedVariables false
namespace Tc.Src

"""


def strip_tests(s):
    i = s.find("#[cfg(test)]")
    return s if i < 0 else s[:i]


def main():
    outs, report, failed = {}, {}, []
    cache = {}
    for path, enum, rust, lean, mod in JOBS:
        out = outs.setdefault(mod, [HEADER])
        try:
            if path not in cache:
                cache[path] = lex(strip_comments(strip_tests(open(os.path.join(REPO, path)).read())))
            toks = cache[path]
            decl = find_enum(toks, enum)
            check_enum(decl, enum)
            if rust == "from_op":    # it also mentions Operation: its declaration must match too
                otoks = lex(strip_comments(strip_tests(open(os.path.join(REPO, "src/operation.rs")).read())))
                check_enum(find_enum(otoks, "Operation"), "Operation")
            text = translate_fn(toks, {enum: decl}, enum, rust, lean)
            out.append(f"/-- `{enum}::{rust}` ({path}) -/\n{text}\n")
            report[lean] = "translated"
        except Untranslatable as ex:
            failed.append(f"{enum}::{rust}: {ex}")
            report[lean] = f"UNTRANSLATABLE: {ex}"
            # the obligation must break, not vanish: an elaboration error names the reason
            out.append(f"/- translation of `{enum}::{rust}` ({path}) failed: {ex} -/\n"
                       f"def {lean} : Nat := translation_failed_{lean}\n\n")
        except Exception as ex:   # a translator bug is a broken tie as well
            failed.append(f"{enum}::{rust}: translator error {ex!r}")
            report[lean] = f"TRANSLATOR-ERROR: {ex!r}"
            out.append(f"def {lean} : Nat := translation_failed_{lean}\n\n")
    rewritten = []
    os.makedirs(OUTDIR, exist_ok=True)
    for mod, out in outs.items():
        text = "".join(out) + "end Tc.Src\n"
        fp = os.path.join(OUTDIR, mod + ".lean")
        old = open(fp).read() if os.path.exists(fp) else None
        if old != text:
            open(fp, "w").write(text)
            rewritten.append(mod)
    print(json.dumps({"translated": report, "failed": failed, "rewritten": rewritten}))


if __name__ == "__main__":
    main()
