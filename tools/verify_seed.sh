#!/bin/sh
# usage: verify_seed.sh <seeded dir> <scratch worktree>   — confirms a seeded change independently
# (a) demo passes without the change, (b) demo fails with it, (c) the existing suite passes with it
set -u
S=$(cd "$1" && pwd); W=$2; N=$(basename "$S" | tr 'A-Z' 'a-z')
cd "$W" || exit 2
git checkout -q -- . ; rm -f tests/demo_seed_*.rs
cp "$S/demo.rs" tests/demo_seed_$N.rs
cargo test --offline --test demo_seed_$N > "$S/verify_demo_without.log" 2>&1; A=$?
git apply "$S/patch.diff" || { echo "$N: patch does not apply"; exit 3; }
cargo test --offline --test demo_seed_$N > "$S/verify_demo_with.log" 2>&1; B=$?
rm -f tests/demo_seed_$N.rs
cargo test --workspace --no-fail-fast --offline > "$S/verify_suite_with.log" 2>&1
FAILS=$(grep -E "^test .* FAILED|^test result: FAILED" "$S/verify_suite_with.log" | grep -v sync_server_tls | grep -v "^test result: FAILED. 0 passed; 1 failed" | wc -l)
PASSED=$(grep -E "^test result: ok" "$S/verify_suite_with.log" | sed -E 's/.*ok\. ([0-9]+) passed.*/\1/' | paste -sd+ | bc)
git checkout -q -- . 
echo "$N: demo_without_change_rc=$A demo_with_change_rc=$B suite_other_failures=$FAILS suite_passed=$PASSED"
