#!/bin/sh
# Harmless rewrites of translated functions (corpus/harmless/*.diff) must NOT break the tie:
# each is applied to a scratch copy of the translated sources, translated, and the equivalence
# proof of Proofs/SrcTransform.lean is re-checked against the result.  Prints one line per rewrite.
set -u
V=$(cd "$(dirname "$0")/.." && pwd); T=$(mktemp -d); rc=0
for d in "$V"/corpus/harmless/*.diff; do
  n=$(basename "$d" .diff); w=$T/$n; mkdir -p $w/src/server $w/src/task $w/out
  cp /repo/src/server/op.rs $w/src/server/; cp /repo/src/operation.rs $w/src/; cp /repo/src/task/status.rs $w/src/task/
  patch -s -p1 -d $w -i "$d" || { echo "$n: patch does not apply (source moved on)"; continue; }
  TC_REPO=$w TC_SRC_OUT=$w/out python3 "$V/tools/translate_src.py" > $w/tr.json
  python3 - "$w" "$V" <<'P'
import sys
w, v = sys.argv[1], sys.argv[2]
gen = open(w + '/out/SrcTransform.lean').read()
proof = open(v + '/lean/TcVerif/Proofs/SrcTransform.lean').read()
open(w + '/t.lean', 'w').write(gen + proof[proof.index('namespace Tc'):])
P
  if (cd "$V/lean" && lake env lean $w/t.lean 2>&1 | grep -q 'error'); then echo "$n: equivalence proof BROKEN by a harmless rewrite"; rc=1; else echo "$n: still proved equal to the model"; fi
done
rm -rf $T; exit $rc
