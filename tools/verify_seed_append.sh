#!/bin/sh
# usage: verify_seed_append.sh <seeded dir> <scratch worktree> <source file to append the demo to> <test filter>
# like verify_seed.sh, for demonstrations that are #[cfg(test)] modules appended to a source file
set -u
S=$(cd "$1" && pwd); W=$2; F=$3; T=$4; N=$(basename "$S" | tr 'A-Z' 'a-z')
cd "$W" || exit 2
git checkout -q -- .
cat "$S/demo.rs" >> "$F"
cargo test --offline --lib "$T" > "$S/verify_demo_without.log" 2>&1; A=$?
git checkout -q -- .
git apply "$S/patch.diff" || { echo "$N: patch does not apply"; exit 3; }
cat "$S/demo.rs" >> "$F"
cargo test --offline --lib "$T" > "$S/verify_demo_with.log" 2>&1; B=$?
git checkout -q -- .
git apply "$S/patch.diff"
cargo test --workspace --no-fail-fast --offline > "$S/verify_suite_with.log" 2>&1
FAILS=$(grep -E "^test .* FAILED|^test result: FAILED" "$S/verify_suite_with.log" | grep -v sync_server_tls | grep -v "^test result: FAILED. 0 passed; 1 failed" | wc -l)
PASSED=$(grep -E "^test result: ok" "$S/verify_suite_with.log" | sed -E 's/.*ok\. ([0-9]+) passed.*/\1/' | paste -sd+ | bc)
git checkout -q -- .
echo "$N: demo_without_change_rc=$A demo_with_change_rc=$B suite_other_failures=$FAILS suite_passed=$PASSED"
