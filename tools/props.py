"""Per-property configuration of ./check (DESIGN §5, §7)."""

TB_COMMON = [
    "Lean 4.33 kernel; axioms propext, Classical.choice, Quot.sound only (audited per theorem on every run)",
    "hand-written Lean model tied to /repo by the correspondence check (Rust harness, Lean driver, Python orchestration are trusted)",
    "tools/extract_facts.py (constants regenerated from the source on every run)",
]
TB_SYNC = TB_COMMON + [
    "Uuid::new_v4 freshness; the harness-side reference server (in-memory chain) is a correct ChainSpec",
    "modelled, not verified: storage transactions are atomic (StorageTxn contract); serde_json/chrono rendering as Model/Json (checked byte-for-byte by the correspondence run)",
]


def has_seq(lines, a, b):
    """some line matching a is followed (later, before the sync ends) by one matching b"""
    seen = False
    for l in lines:
        if l.startswith("sync "):
            seen = False
        if a(l):
            seen = True
        elif seen and b(l):
            return True
    return False


def nt_rebase(imp, ops):
    # a sync pulled a version and then pushed: pending ops were rebased over a foreign version
    return has_seq(imp, lambda l: l.startswith("gc ") and "-> v" in l, lambda l: l.startswith("av "))


def nt_reject(imp, ops):
    return any(l.startswith("av ") and "-> exp" in l for l in imp)


def nt_fault(imp, ops):
    return any(l == "sync aborted" for l in imp) and any(l.startswith("av ") for l in imp)


def nt_snapshot(imp, ops):
    return any(l.startswith("as ") for l in imp)


def nt_wire(imp, ops):
    return any(l.startswith("av ") and '"Update"' in l for l in imp)


HIST_Q = {"cases": 400, "max_len": 30}
HIST_T = {"cases": 20000, "max_len": 80}

PROPS = {
    "C01": {
        "module": "TcVerif.Props.C01",
        "theorems": ["Tc.C01_convergence", "Tc.C01_all_equal", "Tc.C01_replica_invariant",
                     "Tc.C01_chain_valid", "Tc.C01_exec_reachable", "Tc.C01_needs_valid"],
        "leanchecker_modules": ["TcVerif.Proofs.Ot", "TcVerif.Proofs.SyncInv", "TcVerif.Proofs.SyncExec"],
        "runs": [
            {"family": "hist", "flags": [], "quick": HIST_Q, "thorough": HIST_T},
        ],
        "judge_preds": ["converged", "invariant"],
        "nontrivial": nt_rebase,
        "rule": "random histories of guarded create/update/delete commits, raw batches, undo points and sequential syncs on 2-4 replicas "
                "(1-3 tasks, 4 property names, 6 values incl. empty/non-BMP/control chars, 6 timestamps with ties and decreasing order, "
                "4% of cases with 400-700 kB values so that one sync sends several versions; 20% of cases put some replicas on SQLite); "
                "corpus cases run first; non-trivial = some sync pulled a foreign version and then pushed its own (pending operations were rebased); "
                "distinct = distinct SHA-1 of the case's operation lines",
        "trusted_base": TB_SYNC,
        "assumptions": ["local operations are valid where committed (documented contract; the editing API guarantees it, C19)",
                        "the server is a correct version chain (C08)"],
    },
}
