"""Per-property configuration of ./check (DESIGN §5, §7)."""

TB_COMMON = [
    "Lean 4.33 kernel; axioms propext, Classical.choice, Quot.sound only (audited per theorem on every run)",
    "hand-written Lean model tied to /repo by the correspondence check (Rust harness, Lean driver, Python orchestration are trusted)",
    "tools/extract_facts.py (constants regenerated from the source on every run)",
    "tools/translate_src.py (Rust-subset parser and Lean emitter) and Model/SrcPrelude.lean (Rust's derived Ord) for the functions translated from the source on every run: SyncOp::transform, SyncOp::from_op, Operation::get_uuid, Operation::is_undo_point, Status::{from,to}_taskmap",
]
TB_SYNC = TB_COMMON + [
    "Uuid::new_v4 freshness; the harness-side reference server (in-memory chain) is a correct ChainSpec",
    "modelled, not verified: storage transactions are atomic (StorageTxn contract); serde_json/chrono rendering as Model/Json (checked byte-for-byte by the correspondence run)",
]


def has_seq(lines, a, b):
    """some line matching a is followed (later, before the sync ends) by one matching b"""
    seen = False
    for l in lines:
        if l.startswith("sync "):
            seen = False
        if a(l):
            seen = True
        elif seen and b(l):
            return True
    return False


def nt_rebase(imp, ops):
    # a sync pulled a version and then pushed: pending ops were rebased over a foreign version
    return has_seq(imp, lambda l: l.startswith("gc ") and "-> v" in l, lambda l: l.startswith("av "))


def nt_reject(imp, ops):
    return any(l.startswith("av ") and "-> exp" in l for l in imp)


def nt_fault(imp, ops):
    return any(l == "sync aborted" for l in imp) and any(l.startswith("av ") for l in imp)


def nt_snapshot(imp, ops):
    return any(l.startswith("as ") for l in imp)


def nt_wire(imp, ops):
    return any(l.startswith("av ") and '"Update"' in l for l in imp)


import re as _re


def re_match_x3(l):
    m = _re.match(r"X (\d+) ", l)
    return bool(m) and int(m.group(1)) >= 3


TB_REP = TB_COMMON + ["modelled, not verified: each replica action is one atomic storage transaction; storage enumeration order is an input"]
REP_RULE = ("one replica (in-memory, one third on SQLite): random sequences of arbitrary operation batches (creates, deletes with old contents, updates with "
            "old values, undo points; 1/4 of cases also commit invalid operations and untrue old values), get_undo_operations, undo, undo of stale lists, "
            "working-set rebuilds in both modes, expire_tasks, syncs against a private server; a full dump after every action")

TASK_RULE = ("one in-memory replica: arbitrary stored task maps over the recognised keys and prefixes (status, timestamps, tag_*, annotation_*, dep_* in all four "
             "uuid syntaxes and malformed, UDAs, empty key) with a value pool of empty, 0, -1, +5, ' 7', 1e3, i64 max, i64 max+1, chrono max/max+1, chrono min/min-1, "
             "non-ASCII digits, statuses, 70 kB, separators; create_task / get_task / import_task_with_uuid; every Task mutator and TaskData::update/delete with "
             "arbitrary arguments (valid, invalid and synthetic tags, model keys as UDA names); commits; a sweep of every read accessor of Task, TaskData, "
             "WorkingSet, DependencyMap and Replica under catch_unwind; working-set rebuilds")

HIST_Q = {"cases": 400, "max_len": 30}
HIST_T = {"cases": 8000, "max_len": 80}

PROPS = {
    "C01": {
        "module": "TcVerif.Props.C01",
        "theorems": ["Tc.C01_source_transform_is_model", "Tc.C01_source_transform_diamond", "Tc.C01_convergence", "Tc.C01_all_equal", "Tc.C01_replica_invariant",
                     "Tc.C01_chain_valid", "Tc.C01_exec_reachable", "Tc.C01_needs_valid"],
        "leanchecker_modules": ["TcVerif.Proofs.Ot", "TcVerif.Proofs.SyncInv", "TcVerif.Proofs.SyncExec"],
        "runs": [
            {"family": "hist", "flags": [], "quick": HIST_Q, "thorough": HIST_T},
        ],
        "judge_preds": ["converged", "invariant"],
        "nontrivial": nt_rebase,
        "rule": "random histories of guarded create/update/delete commits, raw batches, undo points and sequential syncs on 2-4 replicas "
                "(1-3 tasks, 4 property names, 6 values incl. empty/non-BMP/control chars, 6 timestamps with ties and decreasing order, "
                "4% of cases with 400-700 kB values so that one sync sends several versions; 20% of cases put some replicas on SQLite); "
                "corpus cases run first; non-trivial = some sync pulled a foreign version and then pushed its own (pending operations were rebased); "
                "distinct = distinct SHA-1 of the case's operation lines",
        "trusted_base": TB_SYNC,
        "assumptions": ["local operations are valid where committed (documented contract; the editing API guarantees it, C19)",
                        "the server is a correct version chain (C08)"],
    },
    "C02": {
        "module": "TcVerif.Props.C02",
        "theorems": ["Tc.C01_source_transform_is_model", "Tc.C02_no_out_of_sync", "Tc.C02_reject_is_never_fatal", "Tc.C02_convergence",
                     "Tc.C02_inflight_invariant", "Tc.C02_pending_changes", "Tc.C01_exec_reachable"],
        "leanchecker_modules": ["TcVerif.Proofs.SyncInv", "TcVerif.Proofs.SyncExec"],
        "runs": [
            {"family": "hist", "flags": ["--stepped"], "quick": {"cases": 400, "max_len": 40}, "thorough": {"cases": 6000, "max_len": 90}},
        ],
        "judge_preds": ["converged", "invariant", "no-out-of-sync"],
        "nontrivial": nt_reject,
        "rule": "histories as for C01 in which syncs are begun (B) and then advanced one server request at a time (T) in a random interleaving "
                "with other replicas' requests, commits and whole syncs, plus rare aborts; the real Replica::sync futures are polled "
                "by hand and parked at a gate inside the harness-side Server, so every interleaving replays exactly; non-trivial = some "
                "add_version was rejected with ExpectedParentVersion (a race was lost and retried); distinct by SHA-1 of the case lines",
        "trusted_base": TB_SYNC,
        "assumptions": ["each server request is atomic (C08/C09 for the real backends)", "valid local operations", "fresh version ids"],
    },
    "C04": {
        "module": "TcVerif.Props.C04",
        "theorems": ["Tc.C01_source_transform_is_model", "Tc.C04_source_transform_self", "Tc.C04_abort_restores", "Tc.C04_invariant_always", "Tc.C04_self_cancel", "Tc.C04_pull_own_version",
                     "Tc.C04_repeat_converges", "Tc.C04_never_stuck", "Tc.C01_exec_reachable"],
        "leanchecker_modules": ["TcVerif.Proofs.Ot", "TcVerif.Proofs.SyncInv"],
        "runs": [
            {"family": "hist", "flags": ["--faults"], "quick": {"cases": 400, "max_len": 35}, "thorough": {"cases": 6000, "max_len": 80}},
            {"family": "hist", "flags": ["--faults", "--stepped"], "quick": {"cases": 150, "max_len": 40}, "thorough": {"cases": 3000, "max_len": 80}},
            # an interrupted FIRST sync of a late joiner (snapshot, then the versions after it): nothing may stay behind
            {"family": "hist", "flags": ["--faults", "--snapshots"], "quick": {"cases": 150, "max_len": 35}, "thorough": {"cases": 600, "max_len": 50}},
        ],
        "judge_preds": ["converged", "invariant", "no-out-of-sync"],
        "nontrivial": nt_fault,
        "rule": "histories as for C01/C02 with faulty syncs: the j-th server request fails before its effect / after its effect (reply lost), "
                "or the k-th StorageTxn call stops the process (every later storage call and server request fails too) or returns one error; "
                "20% of cases keep replicas on SQLite; after the history every replica syncs fault-free twice; non-trivial = a sync was "
                "aborted in a case that also pushed versions; distinct by SHA-1 of the case lines",
        "trusted_base": TB_SYNC + ["SQLite leg: an uncommitted transaction is rolled back (C06)"],
        "assumptions": ["a stopped process makes no further request", "valid local operations", "the server is a correct version chain"],
    },
    "C12": {
        "module": "TcVerif.Props.C12",
        "theorems": ["Tc.C12_snapshot_is_chain_state", "Tc.C12_uploaded_is_chain_state", "Tc.C12_fresh_from_snapshot",
                     "Tc.C12_nonempty_never_replaced", "Tc.C12_urgency_gate", "Tc.C01_exec_reachable"],
        "leanchecker_modules": ["TcVerif.Proofs.SyncInv"],
        "runs": [
            {"family": "hist", "flags": ["--snapshots"], "quick": {"cases": 300, "max_len": 35}, "thorough": {"cases": 4000, "max_len": 80}},
            {"family": "hist", "flags": ["--snapshots", "--stepped"], "quick": {"cases": 100, "max_len": 35}, "thorough": {"cases": 1500, "max_len": 80}},
        ],
        "judge_preds": ["snapshot", "converged", "invariant"],
        "nontrivial": nt_snapshot,
        "rule": "histories as for C01 with server urgency none/low/high per sync and avoid_snapshots on/off; in every case the server, once "
                "a snapshot exists, discards all earlier versions and a replica that was never used joins (first a sync, then edits); the "
                "snapshot bytes the harness server receives are inflated and parsed independently and compared with the chain state of "
                "their version computed by the Lean model from the JSON versions the server received; non-trivial = a snapshot was uploaded",
        "trusted_base": TB_SYNC + ["zlib (flate2) inflates what it deflated; the harness decodes snapshots with flate2 + serde_json::Value"],
        "assumptions": ["valid local operations", "the server is a correct version chain"],
    },
    "C03": {
        "module": "TcVerif.Props.C03",
        "theorems": ["Tc.C01_source_transform_is_model", "Tc.C03_source_transform_symm", "Tc.C03_source_conflict_rule", "Tc.C03_source_other_rules", "Tc.C03_transform_symm", "Tc.C03_order_independent₂", "Tc.merged_comm", "Tc.C03_later_update_wins",
                     "Tc.C03_delete_beats_update", "Tc.C03_different_props_kept", "Tc.C03_different_tasks_kept",
                     "Tc.C03_concurrent_creates_merge", "Tc.C03_causal_override", "Tc.C03_dropped_only_by_rule",
                     "Tc.rebase_symm", "Tc.C01_exec_reachable"],
        "leanchecker_modules": ["TcVerif.Proofs.Ot", "TcVerif.Proofs.RebaseSymm"],
        "runs": [
            {"family": "hist", "flags": ["--conflicts"], "quick": {"cases": 250, "max_len": 30}, "thorough": {"cases": 6000, "max_len": 30}},
        ],
        "judge_preds": ["orderindep", "winner", "converged", "invariant"],
        "nontrivial": lambda imp, ops: sum(1 for l in ops if l.startswith("C ") and " update 1 " in l) >= 2,
        "rule": "conflict groups: 2-3 replicas on a common synchronized base (task 1 everywhere, task 2 nowhere, task 3 sometimes) each make "
                "1-3 concurrent changes (updates over 2 properties x 4 values incl. removal x 4 timestamps with ties, deletes, creates), "
                "sometimes followed by a causally later change; EVERY permutation of the sync order is run as its own case and the Lean "
                "judge requires all orders of a group to end in the same tasks, equal to the chain replay; the model's prediction "
                "(proved winners) is compared line by line; non-trivial = at least two concurrent updates of the shared task; distinct by SHA-1",
        "trusted_base": TB_SYNC,
        "assumptions": ["valid local operations", "three-replica order independence is exercised by the correspondence run; the Lean theorem is for two replicas (TP2 not yet proved)"],
    },
    "C05": {
        "module": "TcVerif.Props.C05",
        "theorems": ["Tc.C05_batch_equals_one_at_a_time", "Tc.C05_create_rule", "Tc.C05_update_rule", "Tc.C05_delete_rule",
                     "Tc.C05_missing_noop", "Tc.C05_logged_in_order", "Tc.C05_commit_preserves_invariant", "Tc.C05_all_or_nothing",
                     "Tc.cached_eq_fold", "Tc.foldl_applyLocal_eq"],
        "leanchecker_modules": ["TcVerif.Proofs.Cached"],
        "runs": [
            {"family": "rep", "flags": [], "quick": {"cases": 400, "max_len": 25}, "thorough": {"cases": 20000, "max_len": 60}},
        ],
        "judge_preds": ["invariant", "log"],
        "nontrivial": lambda imp, ops: any(re_match_x3(l) for l in ops),
        "rule": REP_RULE + "; non-trivial = the case commits a batch of at least three operations; distinct by SHA-1 of the case lines",
        "trusted_base": TB_REP,
        "assumptions": ["a StorageTxn is atomic: commit installs everything, dropping installs nothing (C06, C16)"],
    },
    "C07": {
        "module": "TcVerif.Props.C07",
        "theorems": ["Tc.C07_source_is_undo_point", "Tc.C07_undo_restores", "Tc.C07_undone_never_sent", "Tc.C07_mismatch_noop", "Tc.C07_no_undo_after_sync",
                     "Tc.C07_get_undo_ops", "Tc.undo_restores"],
        "leanchecker_modules": ["TcVerif.Proofs.Undo"],
        "runs": [
            {"family": "rep", "flags": [], "quick": {"cases": 400, "max_len": 25}, "thorough": {"cases": 20000, "max_len": 60}},
        ],
        "judge_preds": ["undo", "invariant"],
        "nontrivial": lambda imp, ops: any(a.startswith("> U") and b == "true" for a, b in zip(imp, imp[1:])),
        "rule": REP_RULE + "; non-trivial = some undo succeeded; distinct by SHA-1 of the case lines",
        "trusted_base": TB_REP,
        "assumptions": ["operations were recorded by the editing API (valid, true old values: C19); cases flagged wild=1 commit untrue old values and are exempt from the invariant predicate",
                        "edge recorded, not a finding: a list consisting only of undo points is withdrawn but reported as false"],
    },
    "C15": {
        "module": "TcVerif.Props.C15",
        "theorems": ["Tc.C15_source_status", "Tc.C15_slot0", "Tc.C15_no_renumber_stable", "Tc.C15_no_renumber_newcomers_after", "Tc.C15_renumber_compact",
                     "Tc.C15_renumber_order", "Tc.C15_exact", "Tc.C15_commit_adds_at_end", "Tc.C15_commit_adds_iff", "Tc.C15_no_duplicates"],
        "leanchecker_modules": [],
        "runs": [
            {"family": "rep", "flags": [], "quick": {"cases": 400, "max_len": 25}, "thorough": {"cases": 20000, "max_len": 60}},
        ],
        "judge_preds": ["ws"],
        "nontrivial": lambda imp, ops: any(l.startswith("> W") for l in imp) and any(l.startswith("ws ") and len(l.split()) >= 4 for l in imp),
        "rule": REP_RULE + "; non-trivial = a rebuild ran in a case whose working set reached at least two entries after slot 0; distinct by SHA-1",
        "trusted_base": TB_REP + ["the mutual order of working-set newcomers follows the storage's enumeration order, which the harness records and feeds to the model; that the enumeration is exactly the stored tasks is checked"],
        "assumptions": ["the prior working set has no duplicates (an invariant of commit/rebuild; checked by the judge at every dump)"],
    },
    "C20": {
        "module": "TcVerif.Props.C20",
        "theorems": ["Tc.C20_source_status", "Tc.C20_expiry_days", "Tc.C20_predicate", "Tc.C20_other_status_kept", "Tc.C20_unreadable_kept", "Tc.C20_recent_kept",
                     "Tc.C20_expire_exact", "Tc.C20_expiry_propagates", "Tc.C03_delete_beats_update"],
        "leanchecker_modules": [],
        "runs": [
            {"family": "rep", "flags": [], "quick": {"cases": 400, "max_len": 25}, "thorough": {"cases": 20000, "max_len": 60}},
            {"family": "hist", "flags": ["--conflicts"], "quick": {"cases": 120, "max_len": 30}, "thorough": {"cases": 4000, "max_len": 30}},
            # "a concurrent edit elsewhere does not bring it back" also needs the editing API to record only valid operations
            {"family": "task", "flags": [], "quick": {"cases": 150, "max_len": 40}, "thorough": {"cases": 2000, "max_len": 60}},
        ],
        "judge_preds": ["expire", "orderindep", "converged", "api-valid"],
        "nontrivial": lambda imp, ops: any(l.startswith("expire ok ") and l != "expire ok 0" for l in imp),
        "rule": REP_RULE + "; statuses x modification times (now-179d, -181d, -200..1200d, future, missing, non-numeric, empty, out of i64 / chrono range, '+5'); "
                "the +-2 s window around now-180d is not generated (Utc::now() cannot be injected); propagation: conflict groups (delete vs concurrent "
                "update in every sync order) of family hist; non-trivial = an expiry deleted at least one task; distinct by SHA-1",
        "trusted_base": TB_REP + ["Utc::now() read by the harness immediately before expire_tasks stands for the instant the library reads"],
        "assumptions": ["boundary within 2 s of now-180 days excluded"],
    },
    "C16": {
        "module": "TcVerif.Props.C16",
        "theorems": ["Tc.C16_source_get_uuid", "Tc.C16_abandon_invisible", "Tc.C16_commit_visible", "Tc.C16_readonly_refuses", "Tc.C16_readonly_reads",
                     "Tc.C16_rows_add_index", "Tc.C16_rows_add_vec", "Tc.C16_rows_set_vec"],
        "leanchecker_modules": [],
        "runs": [
            {"family": "store", "flags": [], "quick": {"cases": 500, "max_len": 60}, "thorough": {"cases": 12000, "max_len": 120}},
        ],
        "judge_preds": ["equiv"],
        "nontrivial": lambda imp, ops: sum(1 for l in ops if l == "commit") >= 1 and len(ops) >= 20,
        "rule": "random sequences of StorageTxn calls (all 21 methods; strings incl. empty, non-BMP, quotes, numeric-looking) that respect the contract "
                "(set_working_set_item within range, mostly remove_operation of the last unsynced operation), with BEGIN / DROP / commit, close+reopen, "
                "downgrades of the SQLite file to the 0.8 / 0.9 / (0,1) layouts (verified to have taken effect) followed by reopen, generated on "
                "InMemoryStorage and replayed on SqliteStorage (one group = two cases that must print identical results), plus SQLite-only cases that "
                "reopen read-only; all three are also diffed against the Lean StoreSpec; non-trivial = at least 20 calls with a commit; distinct by SHA-1",
        "trusted_base": TB_COMMON + ["SQLite (bundled) executes each statement as documented, keeps committed data across close/reopen",
                                     "the rusqlite-based downgrade of a database file reproduces the layout older TaskChampion versions wrote (built from the statements in schema.rs)"],
        "assumptions": ["calls respect the storage contract (index in range; one commit per transaction: a transaction is over after commit, even a refused one)",
                        "partial: the Lean refinement is proved for transaction visibility, read-only mode and add_to_working_set on rows; the remaining SQLite statements are covered by the three-way run only"],
    },
    "C17": {
        "module": "TcVerif.Props.C17",
        "theorems": ["Tc.C17_commit_step", "Tc.C17_serial_commits", "Tc.C17_undo_step", "Tc.C17_stale_undo_noop", "Tc.unsynced_take"],
        "leanchecker_modules": [],
        "runs": [
            {"family": "sqlconc", "flags": [], "quick": {"cases": 40, "max_len": 25}, "thorough": {"cases": 1200, "max_len": 60}},
        ],
        "judge_preds": ["lost", "torn", "failed-visible", "ws", "noerr"],
        "nontrivial": lambda imp, ops: sum(1 for l in ops if " C " in l and l.endswith("-> ok")) >= 6,
        "rule": "2-8 threads, each with its own SqliteStorage handle (own actor thread, own connection) on one database directory, start together behind a barrier and perform "
                "3-25 actions each: commits of batches (an undo point, then creates and updates of the worker's own tasks, status changes in and out of pending, updates of "
                "the worker's own property of one task shared by all), undo (get_undo_operations then commit_reversed_operations), working-set rebuilds with and without "
                "renumbering, and full reads; every result is recorded. Afterwards a fresh handle reads the stored operations in stored order, the tasks and the working set. "
                "Model side: the replay of the stored operations from nothing must equal the stored tasks (the law the C17 theorems give for any one-at-a-time order). Judge: "
                "stored operations = acknowledged batches minus the operations of acknowledged undos, as multisets; every batch present as one contiguous block in order; no "
                "operation of a transaction that reported failure; working set without duplicates. non-trivial = at least six acknowledged commits; distinct by SHA-1. "
                "The schedule is the operating system's: a failing case is re-judged from its recorded logs, it cannot be re-run identically",
        "trusted_base": TB_COMMON + ["thread schedules are whatever the OS produces on 16 cores; processes (as opposed to threads) sharing the directory are exercised only by C06's child process"],
        "assumptions": ["partial: serialisation itself (BEGIN IMMEDIATE, busy timeout) is SQLite's; checked through its consequences, not proved"],
    },
    "C18": {
        "module": "TcVerif.Props.C18",
        "theorems": ["Tc.C18_timestamp_total", "Tc.C18_timestamp_is_accessor", "Tc.C18_pinned_counterexample", "Tc.C18_repair_conservative",
                     "Tc.C18_uninterpretable_timestamp", "Tc.C18_malformed_tag_ignored", "Tc.C18_malformed_annotation_ignored",
                     "Tc.C18_malformed_dependency_ignored", "Tc.C18_status_total", "Tc.C18_ws_slot0_invariant", "Tc.C18_ws_assert_unreachable"],
        "leanchecker_modules": [],
        "runs": [
            {"family": "task", "flags": [], "quick": {"cases": 400, "max_len": 40}, "thorough": {"cases": 4000, "max_len": 60}},
        ],
        "source_ties": ["panic_sites.py"],
        "judge_preds": ["no-panic"],
        "nontrivial": lambda imp, ops: any(l.startswith("R ") for l in ops) and any(l.startswith("A ") for l in ops),
        "rule": TASK_RULE + "; non-trivial = arbitrary stored content was written and the accessor sweep ran afterwards; distinct by SHA-1",
        "trusted_base": TB_COMMON + ["panics are observed through catch_unwind around every accessor call; the panic-site inventory of the anchored files is compared with the reviewed list on every run"],
        "assumptions": ["is_waiting is compared with wait times at least a day from now"],
    },
    "C19": {
        "module": "TcVerif.Props.C19",
        "theorems": ["Tc.C19_source_status_roundtrip", "Tc.C19_source_status_known", "Tc.C19_commit_matches_object", "Tc.setValue_faithful", "Tc.setStatus_faithful", "Tc.start_faithful", "Tc.dataUpdate_faithful",
                     "Tc.C19_end_rule_close", "Tc.C19_end_rule_reopen", "Tc.C19_modified_once", "Tc.C19_reserved_rejected",
                     "Tc.C19_read_back", "Tc.C19_other_keys_kept", "Tc.C19_depmap_exact"],
        "leanchecker_modules": [],
        "runs": [
            {"family": "task", "flags": [], "quick": {"cases": 400, "max_len": 40}, "thorough": {"cases": 4000, "max_len": 60}},
        ],
        "judge_preds": ["api-valid", "old-values", "object", "end-rule", "reserved", "modified-once", "depmap"],
        "nontrivial": lambda imp, ops: sum(1 for l in ops if l.startswith("M ")) >= 3 and any(l == "P" for l in ops),
        "rule": TASK_RULE + "; non-trivial = at least three mutator calls and a commit; distinct by SHA-1",
        "trusted_base": TB_COMMON + ["Utc::now() is read by the harness inside the same second as the mutator (the harness waits when the clock is within 150 ms of a second boundary)"],
        "assumptions": ["a deleted TaskData is dropped by the caller (documented)", "create_task twice for one new uuid without a commit in between records two Creates (the replica cannot know): not generated as a violation"],
    },
    "C06": {
        "module": "TcVerif.Props.C06",
        "theorems": ["Tc.C06_uncommitted_invisible", "Tc.C06_committed_visible", "Tc.C06_interrupted_action_states",
                     "Tc.C06_single_transaction_atomic", "Tc.C06_commit_atomic", "Tc.C06_rebuild_atomic", "Tc.C06_undo_is_two_transactions"],
        "leanchecker_modules": [],
        "runs": [
            {"family": "rep", "flags": ["--crash"], "quick": {"cases": 60, "max_len": 25}, "thorough": {"cases": 1500, "max_len": 40}},
            {"family": "sqlkill", "driver": "rep", "flags": [], "quick": {"cases": 40, "max_len": 400}, "thorough": {"cases": 600, "max_len": 1500}},
            # interrupted syncs of several replicas (one third on SQLite), incl. the first sync of a late joiner that
            # starts from a snapshot: after the interruption the replica holds the before-state (dump after every fault)
            {"family": "hist", "flags": ["--faults", "--snapshots"], "quick": {"cases": 100, "max_len": 35}, "thorough": {"cases": 300, "max_len": 50}},
        ],
        "judge_preds": ["atomic"],
        "nontrivial": lambda imp, ops: any(l.startswith("F ") for l in ops),
        "rule": "rep --crash: one replica on SQLite; random batches of operations, undo, explicit undo, working-set rebuilds (both modes), expiry and syncs, about half of them with the "
                "k-th storage call from now (k = 1..16: every call index of every action is hit over a run) failing — the transaction is abandoned — after which the replica object "
                "is dropped and the database opened through a fresh SqliteStorage; the harness records whether no transaction, the first of two, or all of them committed (before / "
                "mid / after) and the reopened contents (tasks, working set, operations) must equal the model's state for that outcome. sqlkill: a child process performs up to "
                "max_len such actions on a SQLite replica, announcing each before and acknowledging it after, and is SIGKILLed after a random 0-150 ms; the parent opens the "
                "database with a fresh handle: every acknowledged action must be there and the action in flight entirely or not at all (labelled by comparison with the same "
                "actions replayed in memory), compared with the model. The Lean judge fails 'mid' outcomes (half of a two-transaction action) and any visible effect of an "
                "abandoned transaction. non-trivial = the case has an interrupted action; distinct by SHA-1",
        "trusted_base": TB_COMMON + ["SIGKILL of a process stands for 'the process is killed'; loss of power / OS crash (fsync behaviour of the WAL) is not exercised",
                                     "the ObsStorage wrapper (counts and fails storage calls) is transparent otherwise"],
        "assumptions": ["partial: that SQLite implements the transaction abstraction is checked, not proved"],
    },
    "C08": {
        "module": "TcVerif.Props.C08",
        "theorems": ["Tc.C08_chain_invariant", "Tc.C08_rejected_unchanged", "Tc.C08_accept_iff", "Tc.C08_child_bytes_exact",
                     "Tc.C08_child_stable", "Tc.C08_unknown_parent_none", "Tc.C08_latest_has_no_child", "Tc.C08_snapshot_intact"],
        "leanchecker_modules": [],
        "runs": [
            {"family": "backend", "flags": [], "quick": {"cases": 40, "max_len": 30}, "thorough": {"cases": 400, "max_len": 60}},
        ],
        "judge_preds": ["linear", "child", "snapshot", "noerr"],
        "nontrivial": lambda imp, ops: sum(1 for l in imp if l.startswith("ok v")) >= 2 and any(l.startswith("exp ") for l in imp),
        "rule": "cases rotate over the five backend configurations (local on-disk SQLite, git local-only, git with a shared bare remote and 1-3 clones, "
                "object store (real CloudServer over the in-memory Service hook), HTTP client against an in-harness server written from docs/http.md); each case "
                "is a random sequence of add_version (parent = latest, a stale version, nil, or a never-seen id; payload empty / 1 byte / non-UTF-8 / all 256 byte "
                "values / up to 3000 bytes), get_child_version (nil, every known id, unknown ids), add_snapshot, get_snapshot and handle re-opening, from 1-3 "
                "handles; every answer is compared with ChainSrv (the Lean spec the theorems are about) and judged by the chain rules recomputed from the "
                "implementation's own answers; non-trivial = at least two accepted versions and one rejection; distinct by SHA-1",
        "trusted_base": TB_COMMON + ["the in-harness HTTP server stands for 'a protocol-conformant sync server' (written from docs/http.md, not from taskchampion-sync-server)",
                                     "the in-memory object store hook (MemService) stands for a real object store with compare-and-swap",
                                     "git itself (commits, push rejection of non-fast-forward updates)"],
        "assumptions": ["handles of one case are used one call at a time (concurrent use of the object store is C09); cleanup runs are excluded here (C10); crashes are C11"],
    },
    "C09": {
        "module": "TcVerif.Props.C09",
        "theorems": ["Tc.C09_acked_stays_on_chain", "Tc.C09_served_only_chain", "Tc.C09_chain_wellformed", "Tc.C09_one_child",
                     "Tc.C09_trace_reachable", "Tc.Cloud.check_sound", "Tc.Cloud.inv_step"],
        "leanchecker_modules": ["TcVerif.Proofs.CloudChain", "TcVerif.Proofs.CloudCheck"],
        "runs": [
            {"family": "cloudconc", "flags": [], "quick": {"cases": 150, "max_len": 80}, "thorough": {"cases": 6000, "max_len": 120}},
        ],
        "judge_preds": ["acked", "onechild", "served", "noerr"],
        "nontrivial": lambda imp, ops: any("cas latest" in l and l.rstrip().endswith("false") for l in ops) or any("(gone)" in l for l in ops)
                                        or sum(1 for l in ops if "cas latest" in l) >= 3,
        "rule": "2-4 real CloudServer clients on one in-memory object store (hook); a random schedule decides whose next single store request runs (every get / put / "
                "del / compare-and-swap / list start / listed name is one step); clients start add_version (parent = the newest acknowledged version mostly, also stale, nil, "
                "never-seen ids), get_child_version, add_snapshot, get_snapshot at random moments and all run to completion at the end; the request log is checked event by "
                "event by Tc.Cloud.check (a Lean function proved sound w.r.t. the machine's Step relation), every returned value against the machine's ghost acked / served, "
                "and the final store against the machine's; the Lean judge recomputes the final chain from the stored object names and checks acknowledged and served versions "
                "against it; non-trivial = a lost compare-and-swap race, a listed object that vanished, or at least three swaps in the case; distinct by SHA-1",
        "trusted_base": TB_COMMON + ["the in-memory object store hook (MemService): one request at a time, compare-and-swap atomic, a listing reports a subset of the names present "
                                     "when it started — what docs/src/object-store.md asks of a real store",
                                     "sealing / unsealing of payloads is exercised, covered by C13"],
        "assumptions": ["clients use as parents only nil, ids they were given by the server, or ids the store has never seen (a client cannot guess an unacknowledged id)",
                        "no cleanup runs here (C10) and no faults (C11)"],
    },
    "C10": {
        "module": "TcVerif.Props.C10",
        "theorems": ["Tc.C10_retained_suffix_retrievable", "Tc.C10_served_and_acked", "Tc.C10_only_covered_versions_retired",
                     "Tc.C10_trace_reachable", "Cl.check_sound", "Cl.inv_step_easy"],
        "leanchecker_modules": ["TcVerif.Proofs.CleanupModel", "TcVerif.Proofs.CleanupLemmas", "TcVerif.Proofs.CleanupInv", "TcVerif.Proofs.CleanupStep", "TcVerif.Proofs.CleanupCheck"],
        "runs": [
            {"family": "cleanconc", "flags": [], "quick": {"cases": 120, "max_len": 120}, "thorough": {"cases": 4000, "max_len": 200}},
        ],
        "judge_preds": ["retained", "walk", "acked", "onechild", "served", "noerr"],
        "nontrivial": lambda imp, ops: any(" del v-" in l or " del s-" in l for l in ops if "CLEAN" not in l.split(" :: ")[0]) and any("BEGIN" in l and "CLEAN" in l for l in ops),
        "rule": "as C09 (2-4 real CloudServer clients, random single-request schedules) with add_snapshot of acknowledged versions, explicit cleanup runs (hook) started at random "
                "moments on any client and interleaved request by request with everything else, and the store's clock moved so that cases hold versions both older and younger "
                "than the retention age; every request, including every single deletion a cleanup issues, is checked by Cl.check (proved sound w.r.t. the machine with "
                "cleanup), return values against the ghost state, the final store against the machine's; the Lean judge checks on the final store that a stored snapshot of a "
                "chain version with all later versions present exists (or, if no snapshot was ever stored, the whole chain), and a fresh client of the real server must be able "
                "to walk from get_snapshot (or nil) to latest; non-trivial = a cleanup ran and deleted something; distinct by SHA-1",
        "trusted_base": TB_COMMON + ["the in-memory object store hook (as C09) incl. its creation-time clock; the explicit cleanup entry point calls the same CloudServer::cleanup that "
                                     "add_version calls at random"],
        "assumptions": ["snapshots are stored only for versions the server acknowledged (what Replica::sync does)",
                        "'older than the retention age' is abstracted: the machine allows retiring any version at or before the retained snapshot"],
    },
    "C11": {
        "module": "TcVerif.Props.C11",
        "theorems": ["Tc.C11_interrupted_add_all_or_nothing", "Tc.C11_interrupted_add_respects_parent", "Tc.C11_event_chainOk",
                     "Tc.C11_chain_protocol_survives", "Tc.C11_accepted_stays", "Tc.C11_accept_iff_after",
                     "Tc.C11_replica_interrupted_absent", "Tc.C11_replica_recovers", "Tc.C11_object_store_stop_anywhere"],
        "leanchecker_modules": [],
        "runs": [
            {"family": "backend", "flags": ["--crash"], "quick": {"cases": 48, "max_len": 20}, "thorough": {"cases": 480, "max_len": 40}},
        ],
        "judge_preds": ["linear", "child", "snapshot", "noerr", "atomic", "recover"],
        "nontrivial": lambda imp, ops: any(l.startswith("interrupted") for l in imp) or any(l == "sync err" for l in imp),
        "rule": "cases rotate over local SQLite, object store, git local-only and git with a shared remote (1-3 handles / clones), and alternate between two shapes. "
                "Server level: a random call sequence as in C08 in which about half of the add_version / add_snapshot calls are interrupted — local and git: an error "
                "injected at a named failpoint between the internal steps (between insert and latest-update, before commit; after the version file, after the meta file, "
                "after the git commit i.e. before the push); object store: the m-th object-store request of the call fails before or after being carried out — after "
                "which the handle is dropped and re-opened (process stop) and EVERY handle is asked for the child of the parent: all must agree, and show either the "
                "submitted bytes under a new id (accepted) or nothing (absent); the model follows the recorded outcome, and all later answers must match ChainSrv. "
                "Replica level: two real replicas create tasks and synchronize through the backend while their add_version is interrupted the same way (failed sync = "
                "process stop of that handle); finally everybody synchronizes twice and every replica must hold every task ever created, nothing else, all equal. "
                "non-trivial = at least one interrupted request or failed sync in the case; distinct by SHA-1",
        "trusted_base": TB_COMMON + ["a failpoint error followed by dropping the handle stands for a process stop at that point: SQLite's own crash atomicity (journal) and git's "
                                     "object/ref atomicity under a real kill are trusted, not exercised",
                                     "the in-memory object store hook stands for a real object store (request-level atomicity)"],
        "assumptions": ["the HTTP backend is not part of this property's quantifier (the server side is external); faults at single statements inside one SQLite transaction are "
                        "indistinguishable from a fault before the transaction (rollback, C06)"],
    },
    "C14": {
        "module": "TcVerif.Props.C14",
        "theorems": ["Tc.C14_source_from_op", "Tc.C14_document_roundtrip", "Tc.C14_timestamp_roundtrip", "Tc.C14_sent_document_decodes", "Tc.C14_old_values_never_leave", "Tc.C14_nothing_but_sync_ops", "Tc.C14_every_change_sent", "Tc.C14_document_shape",
                     "Tc.C14_string_roundtrip", "Tc.C14_string_value_roundtrip", "Tc.parseBody_esc", "Tc.C14_uuid_roundtrip"],
        "leanchecker_modules": [],
        "runs": [
            {"family": "wire", "flags": [], "quick": {"cases": 1500, "max_len": 6}, "thorough": {"cases": 40000, "max_len": 10}},
            {"family": "hist", "flags": [], "quick": HIST_Q, "thorough": HIST_T},
            {"family": "hist", "flags": ["--foreign"], "quick": {"cases": 300, "max_len": 35}, "thorough": {"cases": 6000, "max_len": 60}},
        ],
        "judge_preds": ["format", "order", "secret", "roundtrip", "foreign", "wire"],
        "nontrivial": lambda imp, ops: any(l.startswith("DEC") or l.startswith("ENC") for l in ops) or any(" -> ok v" in l for l in imp),
        "rule": "wire family: per case six lines; ENC = a random batch of local operations (creates, deletes carrying the deleted task's content, updates with and without a "
                "previous value, undo points; property names and values from a pool with quotes, backslashes, control characters, U+2028, BOM, U+10FFFF, NUL, long repeats; "
                "timestamps incl. epoch, 1969, 2000-02-29, year 0001/9999, sub-second) encoded by the real sync encoder (hook) — the Lean judge requires the document to decode "
                "under the model's reader to exactly the operations made in order, to re-print identically (hence no other fields) and to contain no marker of the previous "
                "values, and the real decoder must read it back; DEC = a document from a foreign writer in the harness (random field order, white space, any character as "
                "\\uXXXX incl. surrogate pairs, \\/, upper-case / simple / braced uuids, timestamps with 0-9 fraction digits and Z / +00:00 / -00:00 / +02:00 / -05:30 offsets), "
                "and one in six with a single defect (truncated or non-hex uuid, missing or duplicated field, extra field, bad timestamp, number for a string, unknown operation, "
                "truncated document, trailing bytes, invalid UTF-8) — the real decoder (hook, same serde path as TaskDb::sync) and the model's reader must agree on operations "
                "or rejection. hist --foreign: versions written by another implementation (built by the harness; they may contain a Create of a task that exists, which is invalid where it stands) land on the server among the replicas' own syncs and every replica's requests, results and stored tasks must equal the model's (applying an invalid operation changes nothing and loses nothing that is pending). hist family: every version really sent by Replica::sync in random multi-replica histories must satisfy the same decode / re-print law (predicate wire). "
                "non-trivial = every wire case; hist cases in which a version was accepted; distinct by SHA-1",
        "trusted_base": TB_COMMON + ["serde_json / chrono / uuid are exercised, not modelled; the model's reader is an independent implementation of the documented grammar"],
        "assumptions": ["partial: the whole-document round trip decode(print ops) = ops is checked per run and on a kernel-evaluated example, not proved for all ops (string level is proved)"],
    },
    "C13": {
        "module": "TcVerif.Props.C13",
        "theorems": ["Tc.Crypto.unseal_seal", "Tc.Crypto.seal_layout", "Tc.Crypto.aad_layout", "Tc.Crypto.unseal_rejects_short",
                     "Tc.Crypto.unseal_rejects_version", "Tc.Crypto.unseal_accepts_only_matching_tag", "Tc.Crypto.aeadOpen_seal",
                     "Tc.Crypto.C13_facts_match_docs", "Tc.Crypto.envVersion_one", "Tc.Crypto.appId_one"],
        "leanchecker_modules": [],
        "runs": [
            {"family": "seal", "flags": [], "quick": {"cases": 3, "max_len": 6}, "thorough": {"cases": 12, "max_len": 20, }},
            {"family": "backend", "flags": ["--sealed-check", "--kind=cloud", "--kind=http", "--kind=git-local"],
             "quick": {"cases": 3, "max_len": 8}, "thorough": {"cases": 12, "max_len": 12}},
        ],
        "judge_preds": ["tamper", "roundtrip", "layout", "leak", "nonce", "sealed"],
        "nontrivial": lambda imp, ops: sum(1 for l in ops if l.startswith("TAMPER")) >= 100 or any(l.startswith("OPEN") for l in ops),
        "rule": "per case one (secret, salt) pair (fixed 'secret', random bytes, empty secret; 16 random salt bytes or a client-id uuid) and several payloads (empty, 1 byte, "
                "a history segment, all 256 byte values, non-UTF-8, 200 bytes) with random and nil version ids: the real Cryptor seals (hook) and Lean — deriving the key "
                "itself with the extracted iteration count — opens; Lean seals with chosen nonces and the real Cryptor opens; every single-byte flip (bit 0; all 8 bits in "
                "the thorough tier), every truncation, one appended byte, two wrong version ids and a key from a different secret must be rejected by both; no 8-byte window "
                "of a payload occurs in its envelope; all nonces distinct; non-trivial = at least 100 tampered inputs in the case; distinct by SHA-1",
        "trusted_base": TB_COMMON + ["ChaCha20-Poly1305 is a secure AEAD and PBKDF2-HMAC-SHA256 a sound KDF (Lean proves format, round trip and accept-only-if-the-tag-matches, not unforgeability or secrecy)",
                                     "the OS random number generator yields fresh nonces (checked for distinctness only)"],
        "assumptions": ["partial: cryptographic strength is not a theorem; that each remote backend (object store, git, HTTP) stores only sealed bytes bound to the right version id is checked on what they really stored (backend family, --sealed-check: Lean derives the key from secret and stored salt and opens the stored object / file / request body)"],
    },
}
