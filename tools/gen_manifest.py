#!/usr/bin/env python3
"""Write MANIFEST.json from tools/props.py + tools/manifest_text.py (kept valid at all times)."""
import json, os, sys
ROOT = os.path.join(os.path.dirname(os.path.abspath(__file__)), "..")
sys.path.insert(0, os.path.dirname(os.path.abspath(__file__)))
from props import PROPS
from manifest_text import TEXT, NOT_APPLICABLE, HOOK_COMMITS

checks = []
for pid in sorted(PROPS):
    t = TEXT[pid]
    checks.append({
        "property_id": pid,
        "quick_cmd": f"./check {pid} --tier quick",
        "thorough_cmd": f"./check {pid} --tier thorough",
        "evidence_file": f"/verif/evidence/{pid}.json",
        "replay_cmd_template": f"./check {pid} --replay {{path}}",
        "engine": "lean+harness",
        "level_claimed": {"category": "proof", "text": t["level"], "design_ref": t["design_ref"]},
        "level_note": t["note"],
        "technique": t["technique"],
    })
m = {
    "version": 1,
    "setup_cmd": "./setup.sh",
    "hooks": {
        "guard": "gothenburgbitfactory_taskchampion_verif",
        "enable": "RUSTFLAGS=--cfg gothenburgbitfactory_taskchampion_verif (set in /verif/harness/.cargo/config.toml; the harness depends on /repo by path)",
        "baseline_off_cmd": "cd /repo && cargo test --workspace --no-fail-fast --offline",
        "source_commits": HOOK_COMMITS,
        "add_only": True,
    },
    "engines": [
        {"name": "lean", "path": "/verif/lean", "serves_properties": sorted(PROPS), "kind_free_text": "Lean 4 model, theorems, axiom audit, compiled driver tcmodel (model and judge modes)"},
        {"name": "harness", "path": "/verif/harness", "serves_properties": sorted(PROPS), "kind_free_text": "Rust correspondence harness driving the real code in-process (path dependency on /repo)"},
    ],
    "checks": checks,
    "notes": "Machine-checked proof in Lean 4 over a hand-written executable model, tied to /repo on every run by a differential correspondence check and a Lean-evaluated judge. See DESIGN.md.",
    "not_applicable": [{"property_id": p, "reason": r} for p, r in sorted(NOT_APPLICABLE.items()) if p not in PROPS],
}
json.dump(m, open(os.path.join(ROOT, "MANIFEST.json"), "w"), indent=1)
print("MANIFEST.json written:", len(checks), "checks,", len(m["not_applicable"]), "not applicable")
