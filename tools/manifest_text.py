"""Texts for MANIFEST.json."""
HOOK_COMMITS = ["4db5999", "516c80b", "6e40793", "cac4ccd", "7b287ff", "9e4e37e"]

PENDING = "check not built yet in this session (claimed by DESIGN.md; will be claimed when its theorems and correspondence family are in place)"
NOT_APPLICABLE = {f"C{i:02d}": PENDING for i in range(1, 21)}

NOTE_SYNC = ("Trusted: Lean kernel + {propext, Classical.choice, Quot.sound}; the hand-written model (tied by the correspondence run and "
             "the Lean judge on every run); Rust harness / Lean driver / Python orchestration; constants extractor. Assumed: valid local "
             "operations (documented contract), fresh version ids, a server that is a correct version chain, atomic storage transactions.")

TEXT = {
    "C01": {
        "level": "Lean theorems for every reachable state of the small-step sync machine (any number of replicas, histories, batch sizes, "
                 "aborts): a replica with nothing pending at the chain tip holds exactly the replay of the chain (C01_convergence, "
                 "C01_all_equal), the replica invariant holds at all times, every chain version is valid where applied; the executable "
                 "model that is run against the implementation only takes steps of that machine (C01_exec_reachable). Tied to the code "
                 "by per-line differential runs of the real Replica/TaskDb sync against the model and by the Lean judge evaluated on "
                 "what the implementation did.",
        "design_ref": "DESIGN.md §5 C01",
        "note": NOTE_SYNC,
        "technique": "Lean 4 proof (invariant by induction over a small-step sync machine; TP1/rebase lemmas) + source translation of SyncOp::transform proved equal to the model's (regenerated from src/server/op.rs on every run) + correspondence check",
    },
    "C02": {
        "level": "Lean theorems over every interleaving (single server requests of any number of concurrent syncs, commits, aborts): no "
                 "reachable state has a sync that failed with OutOfSync; a rejected push is never the fatal second rejection; the in-flight "
                 "transaction of every racing sync satisfies the replica invariant; across any step the pending list of a sync changes only "
                 "by being rebased over a pulled version, shortened by an accepted batch, or not at all (so a retry sends the rebased list "
                 "and an operation that lost a conflict never returns); convergence as in C01. Tied to the code by stepping real "
                 "Replica::sync futures one server request at a time under a deterministic scheduler and comparing every request, payload "
                 "and result with the model.",
        "design_ref": "DESIGN.md §5 C02",
        "note": NOTE_SYNC,
        "technique": "Lean 4 proof (small-step interleaving semantics, invariant) + source translation of SyncOp::transform (src/server/op.rs, regenerated on every run) proved equal to the model's + stepped correspondence check",
    },
    "C04": {
        "level": "Lean theorems: abort at any point restores the committed replica record; the replica invariant holds in every reachable "
                 "state including right after any fault; a replica meeting its own accepted version cancels it exactly (self_cancel: nothing "
                 "applied twice, nothing sent twice); after any faults a quiescent replica holds the chain replay and no sync is ever "
                 "OutOfSync. Tied to the code by injecting each fault kind at server requests and storage calls of real syncs (in-memory and "
                 "SQLite) and comparing with the model; the Lean judge recomputes the invariant from stored data.",
        "design_ref": "DESIGN.md §5 C04",
        "note": NOTE_SYNC + " SQLite rollback of an uncommitted transaction is trusted (C06).",
        "technique": "Lean 4 proof (fault transitions in the sync machine, self-cancel lemma) + source translation of SyncOp::transform (src/server/op.rs, regenerated on every run) proved equal to the model's + fault-injection correspondence check",
    },
    "C12": {
        "level": "Lean theorems: in every reachable state the server's snapshot for version v equals the replay of the chain up to v, and so "
                 "does every snapshot a sync is about to upload; a replica starting from a snapshot converges to the replay of the whole "
                 "chain; only a replica with nil base and nothing pending (hence no tasks) ever installs a snapshot; the urgency/avoid "
                 "decision table. Codec: JSON part modelled (C14), zlib trusted. Tied to the code by decoding the uploaded snapshot bytes "
                 "independently and by late-joining replicas on a server that discarded pre-snapshot versions.",
        "design_ref": "DESIGN.md §5 C12",
        "note": NOTE_SYNC + " zlib is trusted.",
        "technique": "Lean 4 proof (snapshot invariant of the sync machine, decision table) + correspondence check",
    },
    "C03": {
        "level": "Lean theorems for all base states, ids, strings and timestamps (earlier, later, equal): transform is symmetric; rebasing is "
                 "symmetric (rebase_symm) and hence two replicas end in the same state whichever synchronizes first "
                 "(C03_order_independent₂); one theorem per documented rule (later (timestamp,value) wins, delete beats update, different "
                 "properties / tasks both kept, concurrent creates merge, causal override); an operation is dropped only against a named "
                 "witness under a documented rule (C03_dropped_only_by_rule). Three-replica order independence is NOT yet a theorem "
                 "(partial): it is covered by running every sync order of generated three-replica conflict groups on the implementation.",
        "design_ref": "DESIGN.md §5 C03",
        "note": NOTE_SYNC,
        "technique": "Lean 4 proof (algebraic laws of transform/rebase, decision table) + source translation of SyncOp::transform (src/server/op.rs, regenerated on every run) proved equal to the model's + all-sync-orders correspondence check",
    },
    "C05": {
        "level": "Lean theorems for every batch (valid or not) and prior state: the cached batch application of apply_operations equals "
                 "applying the operations one at a time under the documented rules (create/update/delete/missing-task rules are separate "
                 "theorems); the batch is appended in order to the unsynchronized list; the replica invariant tasks = base ⊕ unsynchronized "
                 "is preserved by every commit; the transaction outcome is all or nothing (given an atomic StorageTxn). Tied to the code by "
                 "running random batches through Replica::commit_operations on both storages against the model, with the Lean judge "
                 "recomputing the invariant from the dumps.",
        "design_ref": "DESIGN.md §5 C05",
        "note": "Trusted: Lean kernel + standard axioms; model tied by correspondence + judge; atomicity of a storage transaction is C06/C16's subject.",
        "technique": "Lean 4 proof (refinement of the write-cached loop to a fold; invariant preservation) + correspondence check",
    },
    "C07": {
        "level": "Lean theorems: for every accurate operation sequence and prior state, commit followed by the reversal restores tasks and "
                 "operation log exactly (deleted tasks re-created property by property) and reports success iff a real change was undone; "
                 "the undone operations leave the unsynchronized list (never sent); an empty or non-tail list changes nothing and reports "
                 "false; after a sync nothing can be undone; get_undo_operations returns the batch from the last undo point. Tied to the "
                 "code by undo / stale-undo / interleaved-sync histories on both storages.",
        "design_ref": "DESIGN.md §5 C07",
        "note": "Trusted as C05. Assumes accurate operations (the editing API's guarantee, C19).",
        "technique": "Lean 4 proof (round-trip law by induction over operation lists) + correspondence check",
    },
    "C15": {
        "level": "Lean theorems for every task set, prior working set (gaps, stale, deleted-outright entries) and enumeration order: after a "
                 "rebuild exactly the pending/recurring tasks are members, slot 0 is empty; without renumbering survivors keep their index and "
                 "newcomers come after every index in use; with renumbering no gaps and survivors keep their relative order; a commit only "
                 "appends tasks that became pending. ('each exactly once' is checked by the judge at every dump, not yet a theorem.) Tied to "
                 "the code on both storages by rebuild sequences in both modes.",
        "design_ref": "DESIGN.md §5 C15",
        "note": "Trusted as C05; storage enumeration order is an input to the model.",
        "technique": "Lean 4 proof (list lemmas about the stored working set) + correspondence check",
    },
    "C20": {
        "level": "Lean theorems: the expiry predicate spelled out (status deleted, modified parses as i64 in chrono's range, older than the "
                 "extracted 180 days), its negative corollaries (other statuses, missing/unreadable/recent times are kept), expire deletes "
                 "exactly the predicate's extension and records ordinary Delete operations, and a concurrent update never resurrects the "
                 "task in either sync order. Tied to the code by expiry runs over a status x modification-time grid and delete-vs-update "
                 "conflict groups in all sync orders.",
        "design_ref": "DESIGN.md §5 C20",
        "note": "Trusted as C05; now is read by the harness just before the call; the ±2 s boundary is excluded.",
        "technique": "Lean 4 proof (decision logic stated outright; corollary of the transform rules) + correspondence check",
    },
    "C16": {
        "level": "PARTIAL. Lean theorems on the storage contract machine (StoreSpec): an uncommitted transaction never changes the stored data, "
                 "commit installs exactly the transaction's view, read-only mode refuses every mutating call and commit and leaves reads "
                 "untouched; the SQLite row representation of the working set yields the same index and the same vector as appending. "
                 "Observational equivalence of the two real backends and persistence across close/reopen, schema upgrades from 0.8 / 0.9 / "
                 "(0,1) and read-only handles are decided by a three-way differential run (InMemoryStorage, SqliteStorage, Lean StoreSpec) "
                 "on every return value — the runtime remainder (SQLite itself) cannot be a theorem here.",
        "design_ref": "DESIGN.md §5 C16",
        "note": "Trusted: Lean kernel + standard axioms; SQLite; the harness's schema downgrade. Contract-respecting call sequences only.",
        "technique": "Lean 4 proof (refinement to an abstract storage spec, partial) + three-way correspondence check",
    },
    "C18": {
        "level": "Lean theorems: the timestamp accessors are total for every stored value (the pinned code's panic on out-of-range integers is "
                 "kept as a machine-checked counterexample, and the repair is shown conservative); unparsable values read as not set; malformed "
                 "tag / annotation / dependency keys contribute nothing; statuses are total with an explicit unknown case; every working-set "
                 "operation of the storage contract keeps slot 0 empty, so WorkingSet::new's assertion cannot fire. Tied to the code by sweeping "
                 "every read accessor under panic capture over arbitrary stored content, comparing all values with the model, and by comparing "
                 "the panic-site inventory of the anchored source files with the reviewed list.",
        "design_ref": "DESIGN.md §5 C18",
        "note": "Trusted: Lean kernel + standard axioms; model tied by correspondence; catch_unwind observes panics; Rust's i64 parsing, chrono's range, Uuid::parse_str and char::is_whitespace as modelled (compared value by value).",
        "technique": "Lean 4 proof (totality with explicit Outcome for partial Rust operations) + correspondence check + source inventory",
    },
    "C19": {
        "level": "Lean theorems: every mutator is faithful — replaying the operations it records on the object's previous map yields the object's "
                 "new map and every update carries the true previous value — and faithfulness composes, so for any sequence of mutator calls "
                 "committing the recorded operations leaves the stored task identical to the object (C19_commit_matches_object); the end rule "
                 "(set iff absent on completed/deleted, cleared on pending/recurring); modified refreshed once per object and never when set "
                 "explicitly; reserved names refused with nothing recorded; written values read back and other keys are kept; the dependency "
                 "map is exactly {(a,b) | a in working set, dep_<b> key parses, b stored with status pending}. Tied to the code by random mutator "
                 "sequences with the Lean judge replaying the recorded operations.",
        "design_ref": "DESIGN.md §5 C19",
        "note": "Trusted as C18; now is a parameter of the model (read by the harness within the same second).",
        "technique": "Lean 4 proof (per-mutator refinement lemma composed by induction over call sequences; decision logic) + correspondence check",
    },
    "C06": {
        "level": "PARTIAL, with an open known finding (F22). Lean theorems: in the transaction abstraction, work not committed is never visible however the transaction ends, "
                 "committed work is entirely visible; the states an interruption of a replica action can leave are exactly the states between its transactions; actions that "
                 "are one transaction (commit_operations, rebuild_working_set) are atomic; undo and sync are two transactions and a concrete state shows the in-between state "
                 "is neither before nor after (C06_undo_is_two_transactions) — reproduced on the real code and listed as known finding. That SQLite implements the abstraction "
                 "is checked: every action interrupted at every storage call index with reopen through a fresh handle, and SIGKILL of a child process at random instants, the "
                 "reopened contents compared with the model.",
        "design_ref": "DESIGN.md §5 C06",
        "note": "Trusted: Lean kernel + standard axioms; SQLite's behaviour under power loss not exercised; ObsStorage wrapper.",
        "technique": "Lean 4 proof (transaction abstraction, action = sequence of transactions, counterexample by decide) + fault-injection and kill -9 correspondence check",
    },
    "C08": {
        "level": "Lean theorems about ChainSrv, the version-chain specification every backend is compared with: accepted iff the parent is the latest "
                 "version or none exists (C08_accept_iff); a rejection names the latest and leaves the state unchanged; the chain stays linear with "
                 "unique ids and parents (C08_chain_invariant); the child of a parent is the accepted version, byte for byte, for ever after "
                 "(child_bytes_exact, child_stable); unknown parents and the latest version have no child; a stored snapshot is returned intact with "
                 "its version. Tied to the code by driving all five backend configurations through the public Server trait with random call sequences "
                 "from 1-3 handles and comparing every answer with ChainSrv.",
        "design_ref": "DESIGN.md §5 C08",
        "note": "Trusted: Lean kernel + standard axioms; the hand-written spec (tied by the correspondence run on every run); harness HTTP server from docs/http.md; "
                "in-memory object store hook; git.",
        "technique": "Lean 4 proof (refinement target ChainSrv with its invariant) + correspondence check of five backends against it",
    },
    "C09": {
        "level": "Lean theorems over a small-step machine of the object-store protocol (any number of clients, one store request per step, arbitrary interleaving, "
                 "weak listings, clients stopping anywhere): every acknowledged version stays on the chain; every served version is a chain element served as the child of its "
                 "chain predecessor with exactly the submitted bytes, so leftovers of lost races are never served; the chain has no duplicates, ends in `latest`, and a parent "
                 "has at most one child on it. Tied to the code by an executable step checker proved sound w.r.t. the machine (check_sound, C09_trace_reachable): the real "
                 "CloudServer's request log under random single-request schedules must be accepted event by event, its return values must match the machine's ghost state, "
                 "and the final store must equal the machine's.",
        "design_ref": "DESIGN.md §5 C09",
        "note": "Trusted: Lean kernel + standard axioms; the in-memory object store hook and its log; the trace parser of the Lean driver (not verified; the checker it feeds is).",
        "technique": "Lean 4 proof (13-clause invariant by induction over an interleaving semantics) + trace-refinement correspondence check with a verified step checker",
    },
    "C10": {
        "level": "Lean theorems over the object-store machine extended with snapshots and the (repaired) cleanup, every store request a step, any interleaving of any number "
                 "of clients and cleanups, every call abandonable after any request: in every reachable state either no snapshot was ever stored and the whole chain is "
                 "present, or a stored snapshot of a chain version exists with every later version present (C10_retained_suffix_retrievable); only versions at or before a "
                 "stored snapshot are ever retired; served / acknowledged guarantees of C09 persist. Tied to the code by a step checker proved sound w.r.t. the machine: every "
                 "request of the real CloudServer — each single deletion of each cleanup — must be a step the machine allows; plus a fresh-client walk on the final store.",
        "design_ref": "DESIGN.md §5 C10",
        "note": "Trusted: as C09. The pinned cleanup violated the property (F5, F14: two fix commits); the machine describes the repaired rule.",
        "technique": "Lean 4 proof (invariant over an interleaving semantics with history variables) + trace-refinement correspondence check with a verified step checker",
    },
    "C11": {
        "level": "Lean theorems: an interrupted add_version leaves either the state of a completed call or the state before it, never a version a completed "
                 "call would have refused; after ANY history of completed and interrupted requests the versions still form one linear chain (so every C08 law keeps "
                 "holding) and everything accepted earlier is still there unchanged; for a replica the interruption is the sync machine's abort, with or without the "
                 "push having taken effect, so invariant, no-OutOfSync and convergence (C01/C02/C04 theorems) cover it. Tied to the code by stopping the real local, "
                 "git (local and shared remote) and object-store backends at each internal step of add_version / add_snapshot (named failpoints, per-request faults), "
                 "re-opening them, and checking all-or-nothing visibility from every handle, continued protocol conformance, and convergence of whole replicas "
                 "synchronizing through the interrupted backend.",
        "design_ref": "DESIGN.md §5 C11",
        "note": "Trusted: Lean kernel + standard axioms; failpoint-error + reopen as a stand-in for a kill (SQLite journal / git atomicity under a real kill trusted); "
                "in-memory object store hook.",
        "technique": "Lean 4 proof (event-sequence invariant over ChainSrv; reuse of the sync-machine theorems) + fault-injection correspondence check on four backend configurations",
    },
    "C14": {
        "level": "Lean theorems: the document sent is a function of the synchronized part of the operations only — batches differing only in previous values or "
                 "deleted tasks' contents send the same characters (C14_old_values_never_leave), undo points are dropped and order kept, every other operation is sent; the "
                 "document has exactly the documented shape and fields (C14_document_shape); the conversion that decides what leaves is the source's SyncOp::from_op, "
                 "translated from src/server/op.rs on every run (C14_source_from_op); and the WHOLE DOCUMENT is read back exactly by the reader of the documented format: "
                 "decodeVersion (printVersion ops) = some ops for all 128-bit task ids, all property names and values (any characters), all instants of the years 0000-9999 with "
                 "nanosecond resolution (C14_document_roundtrip; ingredients C14_timestamp_roundtrip — civil-date inverse via monotonicity of the year formula and a 400-row "
                 "kernel table —, C14_string_roundtrip, C14_uuid_roundtrip, fuel of the generic reader). PARTIAL only in that serde_json/chrono/uuid printing exactly "
                 "printVersion is checked, not proved: tied to the code by running the real encoder and decoder (same serde path as TaskDb::sync) against the model's "
                 "independent printer and reader on generated batches, on documents from a foreign writer, and on malformed documents; and by judging every version real syncs send.",
        "design_ref": "DESIGN.md §5 C14, Build report B.8",
        "note": "Trusted: Lean kernel + standard axioms; serde_json/chrono/uuid exercised not modelled; decode/encode hook mirrors TaskDb::sync's two serde calls; tools/translate_src.py for from_op.",
        "technique": "Lean 4 proof (non-interference and shape by definition unfolding; print/parse round trip of strings, uuids, RFC 3339 timestamps and whole documents by induction, omega and one 400-row kernel-evaluated table) + source translation of SyncOp::from_op + bidirectional correspondence check of encoder and decoder",
    },
    "C17": {
        "level": "PARTIAL. Lean theorems about the serial semantics: for every sequence of one-at-a-time successful transactions from any handles — commits of arbitrary "
                 "batches, undos that still fit the end of the log, undos that no longer do — the stored tasks are the replay of the stored operations in stored order "
                 "(ReplayInv preserved by C17_commit_step / C17_undo_step), the log is the committed batches in that order, each whole, none lost or duplicated "
                 "(C17_serial_commits), an undo removes exactly its operations as one block, a stale undo changes nothing. That concurrent handles' transactions are "
                 "serialised at all is SQLite's doing and is checked through these consequences on databases that 2-8 threads with their own handles worked on concurrently.",
        "design_ref": "DESIGN.md §5 C17",
        "note": "Trusted: Lean kernel + standard axioms; OS thread schedules (not controlled, not replayable); SQLite locking.",
        "technique": "Lean 4 proof (replay invariant by induction over serial transaction histories) + audit-based correspondence check under real concurrency",
    },
    "C13": {
        "level": "PARTIAL. Lean theorems about an independent RFC-level implementation of the documented scheme (SHA-256, HMAC, PBKDF2, ChaCha20, "
                 "Poly1305, the AEAD construction, the envelope): unseal∘seal = id for every key, 12-byte nonce, version id and payload; the "
                 "layout (format byte 1, nonce, length = payload + 29; 17 bytes of associated data = app id 1 ‖ version id); short input and a "
                 "wrong format byte are rejected before decryption; acceptance implies the Poly1305 tag recomputed for this key, nonce and "
                 "version id matches; the constants extracted from the source are the documented ones (600000 iterations). That any modified "
                 "or foreign envelope is ALWAYS rejected, and that nothing leaks, rests on the AEAD's security and is not a theorem. Tied to the "
                 "code by Lean opening what the real code sealed (deriving the key itself) and vice versa, and by a tamper sweep on which both "
                 "sides must agree.",
        "design_ref": "DESIGN.md §5 C13",
        "note": "Trusted: Lean kernel + standard axioms; security of ChaCha20-Poly1305 and PBKDF2; freshness of OS randomness.",
        "technique": "Lean 4 proof (round-trip and layout laws over an RFC-level crypto model) + bidirectional correspondence check with tamper sweep",
    },
}
