"""Texts for MANIFEST.json."""
HOOK_COMMITS = []

PENDING = "check not built yet in this session (claimed by DESIGN.md; will be claimed when its theorems and correspondence family are in place)"
NOT_APPLICABLE = {f"C{i:02d}": PENDING for i in range(1, 21)}

NOTE_SYNC = ("Trusted: Lean kernel + {propext, Classical.choice, Quot.sound}; the hand-written model (tied by the correspondence run and "
             "the Lean judge on every run); Rust harness / Lean driver / Python orchestration; constants extractor. Assumed: valid local "
             "operations (documented contract), fresh version ids, a server that is a correct version chain, atomic storage transactions.")

TEXT = {
    "C01": {
        "level": "Lean theorems for every reachable state of the small-step sync machine (any number of replicas, histories, batch sizes, "
                 "aborts): a replica with nothing pending at the chain tip holds exactly the replay of the chain (C01_convergence, "
                 "C01_all_equal), the replica invariant holds at all times, every chain version is valid where applied; the executable "
                 "model that is run against the implementation only takes steps of that machine (C01_exec_reachable). Tied to the code "
                 "by per-line differential runs of the real Replica/TaskDb sync against the model and by the Lean judge evaluated on "
                 "what the implementation did.",
        "design_ref": "DESIGN.md §5 C01",
        "note": NOTE_SYNC,
        "technique": "Lean 4 proof (invariant by induction over a small-step sync machine; TP1/rebase lemmas) + correspondence check",
    },
}
