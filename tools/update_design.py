#!/usr/bin/env python3
"""Refresh the generated parts of DESIGN.md: the seeded-changes table (from seeded/*/meta.json, result.json)."""
import json, glob, os, re
ROOT = os.path.join(os.path.dirname(os.path.abspath(__file__)), "..")
rows = []
for d in sorted(glob.glob(os.path.join(ROOT, "seeded", "*"))):
    sid = os.path.basename(d)
    m = json.load(open(d + "/meta.json")) if os.path.exists(d + "/meta.json") else {}
    r = json.load(open(d + "/result.json")) if os.path.exists(d + "/result.json") else {}
    ch = " ".join(m.get("change", "").split())[:150].replace("|", "/")
    res = ", ".join(f"{p}: {'caught' if v['exit'] != 0 else 'MISSED'}" for p, v in r.items()) or "not run"
    rows.append(f"| {sid} | {ch} | {res} |")
p = os.path.join(ROOT, "DESIGN.md")
s = open(p).read()
s = re.sub(r"<!-- SEED-TABLE-BEGIN -->.*?<!-- SEED-TABLE-END -->",
           "<!-- SEED-TABLE-BEGIN -->\n" + "\n".join(rows) + "\n<!-- SEED-TABLE-END -->", s, flags=re.S)
open(p, "w").write(s)
print(len(rows), "rows")
