#!/bin/sh
# usage: import_seed.sh <prop> <n> <agent worktree>   — copy an agent's out/change<n>.diff etc. to seeded/<prop>_r2_<n>/ and verify it there
set -u
P=$1; N=$2; W=$3; D=/verif/seeded/${P}_${R:-r2}_$N
mkdir -p $D
cp $W/out/change$N.diff $D/patch.diff; cp $W/out/demo$N.rs $D/demo.rs; cp $W/out/README$N.md $D/README.agent.md
CARGO_NET_OFFLINE=true /verif/tools/verify_seed.sh $D $W
