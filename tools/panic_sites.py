#!/usr/bin/env python3
"""Inventory of potential panic sites in the non-test code of the files C18 anchors (DESIGN §3.6):
unwrap( / expect( / unreachable! / panic! / assert! / todo! / unimplemented!, each with file,
enclosing fn and a normalised snippet.  Indexing/slicing is listed too.  `--write` stores the
current inventory as the expected one (done by hand after reviewing every site against the model)."""
import re, os, sys, json
REPO = os.environ.get("TC_REPO", "/repo")
FILES = ["src/task/task.rs", "src/task/time.rs", "src/task/tag.rs", "src/task/status.rs", "src/task/data.rs",
         "src/task/annotation.rs", "src/workingset.rs", "src/depmap.rs", "src/replica.rs"]
PAT = re.compile(r"\.unwrap\(\)|\.expect\(|unreachable!|panic!|\bassert!|\bassert_eq!|todo!|unimplemented!|\[[^\]\n]*\.\.[^\]\n]*\]|\w\[\w+\]")
EXPECTED = os.path.join(os.path.dirname(os.path.abspath(__file__)), "panic_sites_expected.json")

def sites():
    out = []
    for f in FILES:
        try:
            text = open(os.path.join(REPO, f)).read()
        except Exception:
            continue
        i = text.find("#[cfg(test)]")
        if i >= 0:
            text = text[:i]
        fn = "?"
        for line in text.split("\n"):
            m = re.search(r"\bfn\s+(\w+)", line)
            if m:
                fn = m.group(1)
            code = line.split("//")[0]
            if code.strip().startswith("#[") or code.strip().startswith("///"):
                continue
            for mm in PAT.finditer(code):
                out.append({"file": f, "fn": fn, "what": mm.group(0), "snippet": re.sub(r"\s+", " ", code.strip())[:100]})
    return out

cur = sites()
if "--write" in sys.argv:
    json.dump(cur, open(EXPECTED, "w"), indent=1)
    print("written", len(cur))
    sys.exit(0)
exp = json.load(open(EXPECTED)) if os.path.exists(EXPECTED) else []
key = lambda s: (s["file"], s["fn"], s["what"], s["snippet"])
new = [s for s in cur if key(s) not in {key(e) for e in exp}]
gone = [e for e in exp if key(e) not in {key(s) for s in cur}]
print(json.dumps({"sites": len(cur), "new": new, "gone": len(gone)}))
