import TcVerif.Model.Basic
import TcVerif.Model.SyncOp
