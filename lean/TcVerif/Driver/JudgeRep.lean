import TcVerif.Driver.Rep
/-!
# Judge for family `rep`: predicates evaluated on what the IMPLEMENTATION did

Input: `impl.out` of family `rep` (each executed line echoed as `> line`, its result, then the
dump `tasks= / ws / nops= / unsynced`).  Predicates:

* `invariant` (C05, C07): tasks = (tasks at the last sync) ⊕ unsynced operations, at every dump
  (in cases flagged `wild=1`, which commit operations with untrue old values, only until the
  first successful undo: undoing such operations legitimately leaves the invariant);
* `log`       (C05): a commit appends exactly its batch, in order, to the unsynchronized list;
* `undo`      (C07): a refused / failed undo changes nothing; a successful one removes exactly the
  supplied operations from the end of the list;
* `ws`        (C15): slot 0 empty, no duplicates; after a rebuild exactly the pending/recurring
  tasks; renumbering ⇒ 1..n without gaps, survivors in their old relative order; not
  renumbering ⇒ survivors keep their numbers, newcomers after every number in use; a commit
  only appends;
* `expire`    (C20): expiry deletes exactly the tasks the predicate names and nothing else, as
  ordinary Delete operations carrying the old contents.
-/
namespace Tc.Driver

structure Dump where
  tasks : List (Nat × List (String × String)) := []
  tasksTxt : String := ""
  ws : List (Option Nat) := []
  uns : List Op := []
  valid : Bool := false

def dbOf (l : List (Nat × List (String × String))) : DB :=
  fun u => (l.find? (·.1 == u)).map fun p => TaskMap.ofList p.2

def lookupTask (d : Dump) (u : Nat) : Option (List (String × String)) := (d.tasks.find? (·.1 == u)).map (·.2)

def statusOf (m : List (String × String)) : Option String := (m.find? (·.1 == "status")).map (·.2)

def isMember (d : Dump) (u : Nat) : Bool :=
  match lookupTask d u with
  | some m => isPendingOrRecurring (statusOf m)
  | none => false

structure RJ where
  hdr : String := ""
  active : Bool := false
  wild : Bool := false
  prev : Dump := { valid := true, ws := [none], tasksTxt := "[]" }   -- the dump before the current action
  cur : Dump := {}
  base : List (Nat × List (String × String)) := []   -- tasks at the last sync
  baseDue : Bool := false
  action : List String := []
  result : String := ""
  fails : List String := []
  tainted : Bool := false    -- an undo of operations with untrue old values happened (wild cases only)
  killMode : Bool := false   -- `sqlkill` cases: no dump after every action, only after the restart

def wsMembers (ws : List (Option Nat)) : List Nat := ws.filterMap id

def indexOf? (ws : List (Option Nat)) (u : Nat) : Option Nat := ws.findIdx? (· == some u)

def hasDup (l : List Nat) : Bool := (sortDedup l).length != l.length

/-- checks at one dump, given the action that led to it -/
def checkDump (j : RJ) : List String :=
  let p := j.prev
  let c := j.cur
  let act := j.action
  let keys := sortDedup ((c.tasks ++ p.tasks ++ j.base).flatMap (fun t => t.2.map (·.1)) ++ c.uns.flatMap lopKeys)
  let uuids := sortDedup ((c.tasks ++ j.base).map (·.1) ++ c.uns.filterMap Op.uuid?)
  -- invariant
  let inv :=
    if j.tainted then []
    else
      let baseT := tabulate uuids keys (dbOf j.base)
      let expect := canonTable uuids keys (applyLTable uuids keys baseT (c.uns.filterMap Op.toSync))
      if expect == c.tasksTxt then [] else [s!"invariant broken tasks={c.tasksTxt} base⊕unsynced={expect}"]
  -- working set: always
  let ws0 := (if c.ws.head? == some none then [] else ["ws slot0-occupied"]) ++
             (if hasDup (wsMembers c.ws) then [s!"ws duplicate {c.ws}"] else [])
  let rebuiltChecks (renumber : Bool) : List String :=
    let mem := wsMembers c.ws
    let should := sortDedup ((c.tasks.filter fun t => isPendingOrRecurring (statusOf t.2)).map (·.1))
    (if sortDedup mem == should then [] else [s!"ws not-exact has={sortDedup mem} pending={should}"]) ++
    (if renumber then
      (if c.ws.tail.all Option.isSome then [] else [s!"ws renumber-gap {c.ws}"]) ++
      -- survivors keep their relative order and come before newcomers
      (let surv := (wsMembers p.ws).filter fun u => isMember c u
       if (wsMembers c.ws).take surv.length == surv then [] else [s!"ws renumber-order old={p.ws} new={c.ws}"])
    else
      -- survivors keep their numbers; newcomers after every number in use
      (let moved := (wsMembers p.ws).filter fun u => isMember c u && indexOf? c.ws u != indexOf? p.ws u
       if moved.isEmpty then [] else [s!"ws moved {moved} old={p.ws} new={c.ws}"]) ++
      (let survIdx := (wsMembers p.ws).filterMap fun u => if isMember c u then indexOf? c.ws u else none
       let maxSurv := survIdx.foldl max 0
       let newc := (wsMembers c.ws).filter fun u => !(wsMembers p.ws).contains u
       let bad := newc.filter fun u => match indexOf? c.ws u with | some i => i ≤ maxSurv | none => true
       if bad.isEmpty then [] else [s!"ws newcomer-not-after {bad} old={p.ws} new={c.ws}"]))
  let actChecks : List String :=
    match act with
    | "X" :: _ :: rest =>
      let ops := (splitOps rest).filterMap parseLOp
      (if c.uns == p.uns ++ ops then [] else ["log not-appended"]) ++
      -- a commit only appends to the working set
      (if p.ws.isPrefixOf c.ws || ops.isEmpty then [] else [s!"ws commit-disturbed old={p.ws} new={c.ws}"]) ++
      (let newc := (wsMembers c.ws).filter fun u => !(wsMembers p.ws).contains u
       let want := sortDedup ((ops.filterMap addsToWs).filter fun u => !(wsMembers p.ws).contains u)
       if sortDedup newc == want then [] else [s!"ws commit-added {newc} expected={want}"])
    | "U" :: _ =>
      if j.result == "true" then
        let undo := lastUndoSuffix p.uns
        (if c.uns == p.uns.take (p.uns.length - undo.length) then [] else ["undo wrong-ops-removed"]) ++ rebuiltChecks false
      else if c.tasksTxt == p.tasksTxt && c.uns == p.uns && c.ws == p.ws then []
      else
        -- the one documented edge: a list of undo points only is withdrawn but reported as false
        let undo := lastUndoSuffix p.uns
        if j.result == "false" && undo.all Op.isUndoPoint && c.uns == p.uns.take (p.uns.length - undo.length)
            && c.tasksTxt == p.tasksTxt && c.ws == p.ws then []
        else [s!"undo refused-but-changed result={j.result}"]
    | "V" :: _ :: rest =>
      let (optoks, _) := splitColon rest
      let undo := (splitOps optoks).filterMap parseLOp
      if j.result == "true" then
        (if p.uns.drop (p.uns.length - undo.length) == undo && c.uns == p.uns.take (p.uns.length - undo.length) then []
         else ["undo accepted-non-tail"]) ++ rebuiltChecks false
      else if c.tasksTxt == p.tasksTxt && c.uns == p.uns && c.ws == p.ws then []
      else if j.result == "false" && undo.all Op.isUndoPoint && p.uns.drop (p.uns.length - undo.length) == undo
            && c.uns == p.uns.take (p.uns.length - undo.length) && c.tasksTxt == p.tasksTxt && c.ws == p.ws then []
      else [s!"undo refused-but-changed result={j.result}"]
    | "W" :: r :: _ =>
      (if c.tasksTxt == p.tasksTxt && c.uns == p.uns then [] else ["ws rebuild-changed-data"]) ++ rebuiltChecks (r == "1")
    | "Y" :: _ =>
      (if c.uns.isEmpty then [] else ["undo unsynced-after-sync"]) ++
      (if c.tasksTxt == p.tasksTxt then [] else ["invariant sync-changed-tasks"]) ++ rebuiltChecks false
    | "E" :: now :: _ =>
      match now.toInt? with
      | none => ["parse bad-E-line"]
      | some nowS =>
        let nowNs := nowS * 1000000000
        let expect := sortDedup ((p.tasks.filter fun t => expired nowNs (TaskMap.ofList t.2)).map (·.1))
        let gone := sortDedup ((p.tasks.filter fun t => (lookupTask c t.1).isNone).map (·.1))
        let kept := p.tasks.filter fun t => !gone.contains t.1
        (if gone == expect then [] else [s!"expire wrong-set deleted={gone} predicate={expect}"]) ++
        (if kept.all (fun t => lookupTask c t.1 == some t.2) && c.tasks.length == kept.length then [] else ["expire touched-other-tasks"]) ++
        (let newOps := c.uns.drop p.uns.length
         let okOps := newOps.all fun o => match o with
           | .delete u old => gone.contains u && (lookupTask p u).map (fun m => sortDedup (m.map fun kv => kv.1 ++ "=" ++ kv.2)) == some (sortDedup (old.map fun kv => kv.1 ++ "=" ++ kv.2))
           | _ => false
         if c.uns.take p.uns.length == p.uns && okOps && newOps.length == gone.length then [] else ["expire wrong-operations"])
    | _ => []
  inv ++ ws0 ++ actChecks

def rjFlush (j : RJ) : List String :=
  if !j.active then []
  else match j.fails with
    | [] => [s!"judge {j.hdr} :: ok"]
    | fs => (sortDedup fs).map fun f => s!"judge {j.hdr} :: FAIL {f}"

def rjLine (j : RJ) (line : String) : RJ × List String :=
  if line.startsWith "# case" then
    ({ hdr := line, active := true, wild := (line.splitOn " ").contains "wild=1",
       killMode := (line.splitOn " ").any (·.startsWith "kill-after-us=") }, rjFlush j)
  else if line == "> Q" then (j, [])
  else if line.startsWith "> F " then
    -- an interrupted action: `after` is judged like the action itself, `before` must leave the
    -- previous dump, `mid` (half of a two-transaction action) is what C06 forbids
    match (line.drop 2).toString.splitOn " " with
    | _ :: _ :: outcome :: rest =>
      if outcome == "after" then ({ j with action := rest, result := "", cur := {} }, [])
      else if outcome == "before" then ({ j with action := ["F-before"], result := "", cur := {} }, [])
      else ({ j with action := "F-mid" :: rest, result := "", cur := {},
                     fails := j.fails ++ [s!"atomic {rest.headD "?"}-left-half-done"] }, [])
    | _ => (j, [])
  else if line.startsWith "> " then
    ({ j with action := (line.drop 2).toString.splitOn " ", result := "", cur := {} }, [])
  else if line.startsWith "tasks=" then
    let txt := (line.drop 6).toString
    match parseCanonDB txt with
    | some t => ({ j with cur := { j.cur with tasks := t, tasksTxt := txt } }, [])
    | none => ({ j with fails := j.fails ++ [s!"parse bad-tasks-line"] }, [])
  else if line.startsWith "ws" then
    let toks := (line.splitOn " ").drop 1
    ({ j with cur := { j.cur with ws := toks.map fun t => t.toNat? } }, [])
  else if line.startsWith "nops=" then (j, [])
  else if line.startsWith "unsynced " then
    let toks := (line.splitOn " ").drop 2
    let ops := (splitOps toks).filterMap parseLOp
    let j := { j with cur := { j.cur with uns := ops, valid := true } }
    -- the dump is complete: judge it (the bare final dump of a replayed case has action Q)
    let isQ := j.action.isEmpty
    let base := if j.action.head? == some "Y" || j.action.take 2 == ["F-mid", "Y"] then j.cur.tasks else j.base
    let j := { j with base := base }
    let undone := (j.action.head? == some "U" || j.action.head? == some "V") && j.result == "true"
    let j := { j with tainted := j.tainted || (j.wild && undone) }
    let fs :=
      if j.killMode then []
      else if j.action == ["F-before"] then
        (if j.cur.tasksTxt == j.prev.tasksTxt && j.cur.ws == j.prev.ws && j.cur.uns.length == j.prev.uns.length then []
         else ["atomic effects-of-an-abandoned-transaction-are-visible"])
      else if j.action.head? == some "F-mid" then []
      else if isQ then [] else checkDump j
    ({ j with fails := j.fails ++ (fs.map briefWordsR), prev := j.cur, action := [] }, [])
  else if line.startsWith "durable-violation " then
    -- sqlkill: the harness compared what handles opened after the kill see with the acknowledged actions
    ({ j with fails := j.fails ++ [s!"atomic durable {((line.drop 18).toString.replace " " "-")}"] }, [])
  else if line == "panic" || line.startsWith "err:" || line.startsWith "sync err" || line == "rebuilt err" || line == "expire err" then
    ({ j with fails := j.fails ++ [s!"invariant unexpected-error {line}"] }, [])
  else ({ j with result := line }, [])
where
  briefWordsR (s : String) : String :=
    " ".intercalate ((s.splitOn " ").map fun w => if w.length > 300 then (w.take 120).toString ++ "…" else w)

end Tc.Driver
