import TcVerif.Model.Json
/-!
# Driver utilities: the line protocol's lexical layer and canonical printing

Trusted (part of the correspondence check, not of the proofs): hex coding, number parsing,
sorting for canonical output.
-/
namespace Tc.Driver

def hexDigit (n : Nat) : Char := Json.hexDigitChar n

def hexOfBytes (b : ByteArray) : String :=
  String.ofList (b.toList.flatMap fun x => [hexDigit (x.toNat / 16), hexDigit (x.toNat % 16)])

/-- strings are hex-encoded UTF-8 on the wire; the empty string is `.` -/
def encStr (s : String) : String :=
  if s.isEmpty then "." else hexOfBytes s.toUTF8

def hexToBytes (cs : List Char) : Option (List UInt8) :=
  match cs with
  | [] => some []
  | a :: b :: rest =>
    match Json.hexVal a, Json.hexVal b, hexToBytes rest with
    | some x, some y, some r => some (UInt8.ofNat (x * 16 + y) :: r)
    | _, _, _ => none
  | _ => none

def decHex (s : String) : Option String :=
  match hexToBytes s.toList with
  | some bs => String.fromUTF8? (ByteArray.mk bs.toArray)
  | none => none

def repeatStr (s : String) (n : Nat) : String := Id.run do
  let mut out := ""
  for _ in [0:n] do
    out := out ++ s
  return out

/-- token → string: `.` empty, `<hex>`, or `~<n>~<hex>` = the decoded string repeated n times -/
def decStr (tok : String) : Option String :=
  if tok = "." then some ""
  else if tok.startsWith "~" then
    match (tok.drop 1).toString.splitOn "~" with
    | [n, h] =>
      match n.toNat?, decHex h with
      | some n, some s => some (repeatStr s n)
      | _, _ => none
    | _ => none
  else decHex tok

/-- optional string: `-` is None -/
def decOptStr (tok : String) : Option (Option String) :=
  if tok = "-" then some none else (decStr tok).map some

def fnv1a (b : ByteArray) : UInt64 := Id.run do
  let mut h : UInt64 := 0xcbf29ce484222325
  for x in b do
    h := (h ^^^ x.toUInt64) * 0x100000001b3
  return h

/-- long payloads are abbreviated identically on both sides -/
def shorten (s : String) : String :=
  if s.utf8ByteSize ≤ 4000 then s
  else s!"<len={s.utf8ByteSize} fnv={fnv1a s.toUTF8}>"

def insertSorted [Ord α] (x : α) : List α → List α
  | [] => [x]
  | y :: ys => match compare x y with
    | .lt => x :: y :: ys
    | .eq => y :: ys
    | .gt => y :: insertSorted x ys

def sortDedup [Ord α] (l : List α) : List α := l.foldl (fun acc x => insertSorted x acc) []

/-- canonical rendering of a task map over a key universe: `{hexk=hexv,…}` sorted by hex key -/
def canonTask (keys : List String) (t : TaskMap) : String :=
  let entries := keys.filterMap fun k => (t k).map fun v => (encStr k, encStr v)
  let sorted := sortDedup (entries.map fun (a, b) => a ++ "=" ++ b)
  "{" ++ ",".intercalate sorted ++ "}"

/-- canonical rendering of a task set over a universe of uuids and keys -/
def canonDB (uuids : List Nat) (keys : List String) (db : DB) : String :=
  let us := sortDedup uuids
  let parts := us.filterMap fun u => (db u).map fun t => s!"{u}{canonTask keys t}"
  "[" ++ ";".intercalate parts ++ "]"

/-- Tabulate a task set over the finite universe the driver knows (every uuid and key that has
    appeared in the input).  A definition that returns a function is compiled with its full arity,
    so `let`-bound work inside it is redone on every lookup; the drivers therefore re-tabulate the
    model's task sets into *data* after every step and continue from `dbOfTable table`, which is the
    same function on the universe.  Trusted driver code (outputs are only computed on the universe). -/
def tabulate (uuids : List Nat) (keys : List String) (db : DB) : List (Nat × List (String × String)) :=
  uuids.filterMap fun u => (db u).map fun t => (u, keys.filterMap fun k => (t k).map fun v => (k, v))

def dbOfTable (table : List (Nat × List (String × String))) : DB :=
  fun u => (table.find? (·.1 == u)).map fun p => TaskMap.ofList p.2

/-- `applyL` computed on tables (data), re-tabulating after every operation -/
def applyLTable (uuids : List Nat) (keys : List String) (t : List (Nat × List (String × String)))
    (ops : List SyncOp) : List (Nat × List (String × String)) :=
  ops.foldl (fun t o => tabulate uuids keys (apply (dbOfTable t) o)) t

/-- `cs chain k` computed on tables -/
def csTable (uuids : List Nat) (keys : List String) (chain : List (List SyncOp)) (k : Nat) :
    List (Nat × List (String × String)) :=
  (chain.take k).foldl (fun t v => applyLTable uuids keys t v) []

def canonTable (uuids : List Nat) (keys : List String) (t : List (Nat × List (String × String))) : String :=
  canonDB uuids keys (dbOfTable t)

/-- protocol rendering of an operation (the same token syntax as the `C` lines) -/
def opToks : SyncOp → String
  | .create u => s!"create {u}"
  | .delete u => s!"delete {u}"
  | .update u k v ts =>
      let vs := match v with | none => "-" | some s => encStr s
      s!"update {u} {encStr k} {vs} {ts / 1000000000} {ts % 1000000000}"

def parseOp : List String → Option SyncOp
  | ["create", u] => u.toNat?.map .create
  | ["delete", u] => u.toNat?.map .delete
  | ["update", u, k, v, s, n] =>
    match u.toNat?, decStr k, decOptStr v, s.toInt?, n.toNat? with
    | some u, some k, some v, some s, some n => some (.update u k v (s * 1000000000 + n))
    | _, _, _, _, _ => none
  | _ => none

def opKeys : SyncOp → List String
  | .update _ k _ _ => [k]
  | _ => []

def splitOpsAux : List String → List String → List (List String)
  | [], cur => if cur = [] then [] else [cur.reverse]
  | t :: ts, cur =>
    if t = ";" then (if cur = [] then splitOpsAux ts [] else cur.reverse :: splitOpsAux ts [])
    else splitOpsAux ts (t :: cur)

def splitOps (toks : List String) : List (List String) := splitOpsAux toks []


def parseOldMap (tok : String) : Option (List (String × String)) :=
  -- {hexk=hexv,…}
  if !(tok.startsWith "{" && tok.endsWith "}") then none
  else
    let inner := ((tok.drop 1).dropEnd 1).toString
    if inner.isEmpty then some []
    else
      (inner.splitOn ",").foldr (fun kv acc =>
        match acc, kv.splitOn "=" with
        | some l, [k, v] =>
          match decStr k, decStr v with
          | some k, some v => some ((k, v) :: l)
          | _, _ => none
        | _, _ => none) (some [])


def parseCanonTask (s : String) : Option (Nat × List (String × String)) :=
  -- <u>{k=v,…}
  match s.splitOn "{" with
  | [u, rest] =>
    match u.toNat?, parseOldMap ("{" ++ rest) with
    | some u, some m => some (u, m)
    | _, _ => none
  | _ => none

def parseCanonDB (s : String) : Option (List (Nat × List (String × String))) :=
  if !(s.startsWith "[" && s.endsWith "]") then none
  else
    let inner := ((s.drop 1).dropEnd 1).toString
    if inner.isEmpty then some []
    else (inner.splitOn ";").foldr (fun t acc => match acc, parseCanonTask t with
      | some l, some x => some (x :: l)
      | _, _ => none) (some [])


def afterPrefix (s : String) (p : String) : Option String :=
  if s.startsWith p then some (s.drop p.length).toString else none


end Tc.Driver
