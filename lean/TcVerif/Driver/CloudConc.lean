import TcVerif.Driver.Util
import TcVerif.Proofs.CloudCheck
/-!
# Driver, family `cloudconc`: the object-store server's request trace against the proven machine

Every store request the real `CloudServer` made (as logged by the in-memory object store, in
execution order, under the harness's schedule) is turned into an event of `Tc.Cloud.check`; the
trace is accepted iff every event is a step the machine allows (`checkAll_reachable`: the final
state is then `Reachable`, so `served_only_chain` / `acked_stays_on_chain` hold of it), the store
contents the machine predicts equal the real ones, and every value returned to a client is the one
the machine's ghost state justifies.
-/
namespace Tc.Driver
open Tc.Cloud

def cSym (t : String) : Option Nat :=
  if t == "nil" then some 0
  else if t == "none" then none
  else if t.startsWith "n" then (t.drop 1).toString.toNat?
  else if t.startsWith "x" then ((t.drop 1).toString.toNat?).map (· + 1000000)
  else none

def cFmt (n : Nat) : String := if n == 0 then "nil" else if n ≥ 1000000 then s!"x{n - 1000000}" else s!"n{n}"

/-- `v-P-N` → (P, N) -/
def vName (t : String) : Option (Nat × Nat) :=
  match t.splitOn "-" with
  | ["v", p, n] => match cSym p, cSym n with | some p, some n => some (p, n) | _, _ => none
  | _ => none

inductive CCall where
  | idle
  | av (P d : Nat) (stage : Nat) (N : Nat)
  | gc (P : Nat) (stage : Nat)
  | other
deriving Repr, BEq

structure CCState where
  n : Nat := 0
  sys : Sys := Cloud.init
  calls : List CCall := []
  bad : Option String := none
  submitted : List (Nat × Nat × Nat) := []     -- judge: (parent, id, data) of every put
  ackedL : List (Nat × Nat) := []              -- judge: (parent, id) of every `ret ok`
  servedL : List (Nat × Nat × Nat) := []       -- judge: every `ret ver`

def CCState.call (s : CCState) (i : Nat) : CCall := s.calls.getD i .idle
def CCState.setCall (s : CCState) (i : Nat) (c : CCall) : CCState := { s with calls := s.calls.set i c }

def CCState.fire (s : CCState) (ev : Ev) (why : String) : CCState :=
  match s.bad with
  | some _ => s
  | none =>
    match check s.n s.sys ev with
    | some S' => { s with sys := S' }
    | none => { s with bad := some s!"not-a-step-of-the-machine {why}" }

def CCState.flag (s : CCState) (why : String) : CCState :=
  match s.bad with | some _ => s | none => { s with bad := some why }

def optEq (a : Option Nat) (b : Option Nat) : Bool := a == b

def reportedOf (toks : List String) : List Nat :=
  match toks.findSome? fun t => afterPrefix t "reported=" with
  | some "-" => []
  | some l => (l.splitOn ",").filterMap fun nm => (vName nm).map (·.2)
  | none => []

/-- one logged request of client i -/
def ccEvent (s : CCState) (i : Nat) (toks : List String) : CCState :=
  let call := s.call i
  match toks with
  | ["get", "latest", "->", x] =>
    let obs := cSym x
    let s := if optEq obs s.sys.latest then s else s.flag s!"store-view latest observed={x} machine={(s.sys.latest.map cFmt).getD "none"}"
    match call with
    | .av P d 0 _ =>
      if obs == none || obs == some P then (s.fire (.avRead i P d) s!"avRead c{i}").setCall i (.av P d 1 0)
      else s.setCall i (.av P d 9 0)
    | .av _ _ 5 _ => s
    | .gc P 1 =>
      let s := s.fire (.gcLatest i) s!"gcLatest c{i}"
      match s.sys.pcs i with
      | .g4 _ _ => s.setCall i (.gc P 3)
      | _ => s.setCall i (.gc P 2)
    | .other => s
    | _ => s.flag s!"unexpected get-latest c{i}"
  | ["put", name, "->", "ok"] =>
    if name.startsWith "s-" then s else
    match vName name, call with
    | some (p, n), .av P d 1 _ =>
      if p != P then s.flag s!"put-under-wrong-parent c{i}"
      else ({ (s.fire (.avPut i n) s!"avPut c{i} {name}") with submitted := s.submitted ++ [(P, n, d)] }).setCall i (.av P d 2 n)
    | _, _ => s.flag s!"unexpected put c{i} {name}"
  | ["cas", "latest", l, "=>", nw, "->", ok] =>
    match call with
    | .av P d 2 N =>
      let s := if cSym nw == some N then s else s.flag s!"cas-installs-other-id c{i}"
      let s := match s.sys.pcs i with
        | .a2 _ _ l0 _ => if optEq l0 (cSym l) then s else s.flag s!"cas-expects-other-value c{i}"
        | _ => s
      let s := s.fire (.avCas i (ok == "true")) s!"avCas c{i} {ok}"
      s.setCall i (.av P d (if ok == "true" then 3 else 4) N)
    | _ => s.flag s!"unexpected cas c{i}"
  | ["del", name, "->", "ok"] =>
    if name.startsWith "s-" then s else
    match vName name, call with
    | some (_, n), .av P d 4 N =>
      if n != N then s.flag s!"deletes-other-version c{i} {name}"
      else (s.fire (.avDel i) s!"avDel c{i}").setCall i (.av P d 5 N)
    | _, _ => s.flag s!"unexpected del c{i} {name}"
  | "list" :: pfx :: "start" :: rest =>
    if pfx.startsWith "s-" then s else
    match (pfx.splitOn "-"), call with
    | ["v", q, ""], .gc P 0 =>
      if cSym q != some P then s.flag s!"lists-other-parent c{i}" else
      let cs := reportedOf rest
      if cs.isEmpty then s.setCall i (.gc P 4)
      else (s.fire (.gcList i P cs) s!"gcList c{i} {pfx} {cs.map cFmt}").setCall i (.gc P 1)
    | ["v", q, ""], .gc _ 2 =>
      match cSym q with
      | some q => s.fire (.gcProbe i q (!(reportedOf rest).isEmpty)) s!"gcProbe c{i} {pfx}"
      | none => s.flag "parse"
    | _, .other => s
    | _, _ => s.flag s!"unexpected list c{i} {pfx}"
  | "list" :: _ => s          -- pages and the end of a listing
  | "get" :: name :: "->" :: r :: _ =>
    if name.startsWith "s-" then s else
    match vName name, call with
    | some (p, n), .gc P st =>
      if st != 2 && st != 3 then s.flag s!"unexpected get c{i} {name}" else
      let s := if st == 2 then s.fire (.gcChoose i) s!"gcChoose c{i}" else s
      let s := match s.sys.pcs i with
        | .g4 P' c => if P' == p && c == n && p == P then s else s.flag s!"fetches-other-version c{i} {name}"
        | _ => s
      (s.fire (.gcGet i (r != "none")) s!"gcGet c{i} {name} {r}").setCall i (.gc P 4)
    | _, _ => s.flag s!"unexpected get c{i} {name}"
  | _ => s          -- snapshot objects and anything else: no effect on the chain

def ccRet (s : CCState) (i : Nat) (toks : List String) : CCState :=
  let call := s.call i
  let s := match toks, call with
    | ["ok", v], .av P _ 3 N =>
      let s := if cSym v == some N && s.sys.acked.contains N then s else s.flag s!"acknowledged-without-successful-swap c{i} {v}"
      { s with ackedL := s.ackedL ++ [(P, N)] }
    | ["ok", v], _ => s.flag s!"acknowledged-without-successful-swap c{i} {v}"
    | ["exp", _], .av _ _ st _ => if st == 9 || st == 5 then s else s.flag s!"rejected-after-successful-swap c{i}"
    | ["ver", v, par, d], .gc P 4 =>
      let want := (P, (cSym v).getD 0, d.toNat?.getD 0)
      let s := if par == s!"parent={cFmt P}" && s.sys.served.head? == some want then s
               else s.flag s!"returned-version-not-served-by-machine c{i} {v} {par} {d}"
      { s with servedL := s.servedL ++ [want] }
    | ["ver", v, _, _], _ => s.flag s!"returned-version-not-served-by-machine c{i} {v}"
    | ["none"], .gc _ _ => s
    | _, .other => s
    | [r], _ => s.flag s!"unexpected-error-or-return c{i} {r.take 80}"
    | _, _ => s.flag s!"unexpected-return c{i}"
  ((s.fire (.stop i) "stop").setCall i .idle)

def insertSortedStr (x : String) (l : List String) : List String := insertSorted x l

def ccLine (s : CCState) (line : String) : CCState × List String :=
  let parts := (line.trimAscii.toString.splitOn " :: ")
  let head := (parts.headD "").splitOn " "
  let evs := parts.drop 1
  let runEvs (s : CCState) : CCState := evs.foldl (fun s e =>
    match e.splitOn " " with
    | "ret" :: c :: rest => match c.toNat? with | some c => ccRet s c rest | none => s
    | c :: rest =>
      if c.startsWith "c" then match (c.drop 1).toString.toNat? with | some c => ccEvent s c rest | none => s
      else s
    | _ => s) s
  let verdict (s0 s1 : CCState) : List String :=
    match s0.bad, s1.bad with
    | none, some w => [s!"ILLEGAL {w}"]
    | _, _ => ["ok"]
  match head with
  | ["CLIENTS", n] => ({ n := n.toNat?.getD 0, calls := List.replicate (n.toNat?.getD 0) .idle }, [])
  | ["AGE", _] => (s, ["ok"])
  | "BEGIN" :: c :: call =>
    match c.toNat? with
    | some c =>
      if s.call c != .idle then (s, ["busy"]) else
      let s1 := match call with
        | ["AV", p, d] => match cSym p, d.toNat? with
          | some p, some d => s.setCall c (.av p d 0 0)
          | _, _ => s.flag "parse"
        | ["GC", p] => match cSym p with | some p => s.setCall c (.gc p 0) | none => s.flag "parse"
        | _ => s.setCall c .other
      let s2 := runEvs s1
      (s2, verdict s s2)
    | none => (s, ["bad-op"])
  | "STEP" :: c :: _ =>
    match c.toNat? with
    | some c =>
      if s.call c == .idle && evs.isEmpty then (s, ["idle"]) else
      let s2 := runEvs s
      (s2, verdict s s2)
    | none => (s, ["bad-op"])
  | ["END"] =>
    -- the store the machine predicts is the store that is there
    let lat := evs.findSome? fun e => afterPrefix e "latest "
    let objs := ((evs.findSome? fun e => afterPrefix e "objects ").getD "").splitOn " " |>.filter (·.startsWith "v-")
    let mine := sortDedup (s.sys.vers.map fun o => s!"v-{cFmt o.parent}-{cFmt o.child}")
    let s2 := if lat == some ((s.sys.latest.map cFmt).getD "none") then s else s.flag s!"final latest differs machine={(s.sys.latest.map cFmt).getD "none"}"
    let s2 := if sortDedup objs == mine then s2 else s2.flag s!"final objects differ machine={mine}"
    (s2, verdict s s2)
  | [""] => (s, [])
  | _ => (s, ["bad-op"])

/-! ## Judge: the outcome predicates of C09 on what the implementation returned and left behind -/

def chainFrom (objs : List (Nat × Nat)) : Nat → Nat → List Nat
  | 0, _ => []
  | fuel + 1, c =>
    match objs.find? (·.2 == c) with
    | some (p, _) => chainFrom objs fuel p ++ [c]
    | none => []

structure CJ where
  hdr : String := ""
  st : CCState := {}
  fails : List String := []

def cjFinal (st : CCState) (evs : List String) : List String :=
  let lat := ((evs.findSome? fun e => afterPrefix e "latest ").bind cSym)
  let objs := (((evs.findSome? fun e => afterPrefix e "objects ").getD "").splitOn " ").filterMap vName
  let chain := match lat with | some l => chainFrom objs (objs.length + 1) l | none => []
  let pairs := (chain.zip (chain.drop 1))     -- consecutive (parent, child)
  let firstOk (p c : Nat) : Bool := chain.head? == some c && objs.contains (p, c)
  let onChain (p c : Nat) : Bool := pairs.contains (p, c) || firstOk p c
  let f1 := st.ackedL.filterMap fun (p, n) =>
    if onChain p n then none else some s!"acked version-{cFmt n}-acknowledged-but-not-on-the-final-chain"
  let f2 := st.ackedL.filterMap fun (p, n) =>
    if (st.ackedL.filter fun (p', n') => p' == p && n' != n).isEmpty then none else some s!"onechild parent-{cFmt p}-has-two-accepted-children"
  let f3 := st.servedL.filterMap fun (p, n, d) =>
    if !onChain p n then some s!"served version-{cFmt n}-served-but-not-on-the-final-chain"
    else if !st.submitted.contains (p, n, d) then some s!"served version-{cFmt n}-served-with-other-bytes"
    else none
  f1 ++ f2 ++ f3

def cjLine (j : CJ) (l : String) : CJ × List String :=
  let flush (j : CJ) : List String :=
    if j.hdr.isEmpty then [] else
    match j.fails.eraseDups with
    | [] => [s!"judge {j.hdr} :: ok"]
    | fs => fs.map fun f => s!"judge {j.hdr} :: FAIL {f}"
  if l.startsWith "# case" then ({ hdr := l }, flush j)
  else if l.startsWith "> " then
    let line := (l.drop 2).toString
    let (st, _) := ccLine j.st line
    let j := { j with st := st }
    -- no faults are injected in this family: a call that returns an error is a failure of its own
    let errs := ((line.splitOn " :: ").filter fun e => e.startsWith "ret " && ((e.splitOn " ").getD 2 "").startsWith "err").map
      fun e => s!"noerr call-failed {e.take 100}"
    let j := { j with fails := j.fails ++ errs }
    if line.startsWith "END" then
      ({ j with fails := j.fails ++ cjFinal st ((line.splitOn " :: ").drop 1) }, [])
    else (j, [])
  else if l == "panic" then ({ j with fails := j.fails ++ ["noerr panic"] }, [])
  else (j, [])

def cjFlush (j : CJ) : List String :=
  if j.hdr.isEmpty then [] else
  match j.fails.eraseDups with
  | [] => [s!"judge {j.hdr} :: ok"]
  | fs => fs.map fun f => s!"judge {j.hdr} :: FAIL {f}"

end Tc.Driver
