import TcVerif.Driver.TaskFam
/-!
# Judge for family `task` (C18, C19): predicates on what the IMPLEMENTATION did

* `no-panic`   (C18): no read accessor, mutator or sweep panicked;
* `api-valid`  (C19/C20): `create_task` / `import_task_with_uuid` record a Create only for a task
  that does not exist;
* `old-values` (C19): replaying the recorded operations of the object from the map it was loaded
  with, every update carries the value the property really had before, and the replay ends in
  the map the object shows;
* `object`     (C19): after a commit the stored task equals the object (when nothing else touched
  the task since the object was obtained);
* `end-rule`   (C19): completing / deleting sets `end` iff absent, re-opening clears it;
* `reserved`   (C19): synthetic tags and model keys as UDA names are refused with a usage error and
  record nothing;
* `modified-once` (C19): at most one automatic `modified` update per object lifetime.
-/
namespace Tc.Driver

structure TJ where
  hdr : String := ""
  active : Bool := false
  fails : List String := []
  exist : List Nat := []
  objU : Option Nat := none
  baseMap : TMap := []
  opsAtObtain : Nat := 0
  clean : Bool := false
  cmd : List String := []
  result : String := ""
  lastOps : List String := []      -- raw op strings of the last `ops` line
  explicitModified : Nat := 0
  prevMap : TMap := []             -- object map before the current mutator
  firstExplicit : Option Bool := none   -- was the first mutator of this object an explicit set of `modified`?
  cachedDep : String := ""

def parseOpNoTs (toks : List String) : Option Op :=
  match toks with
  | ["create", u] => u.toNat?.map .create
  | ["undo"] => some .undoPoint
  | ["delete", u, m] => match u.toNat?, parseOldMap m with
    | some u, some m => some (.delete u m)
    | _, _ => none
  | ["update", u, k, old, v] => match u.toNat?, decStr k, decOptStr old, decOptStr v with
    | some u, some k, some old, some v => some (.update u k old v 0)
    | _, _, _, _ => none
  | _ => none

def viewMap (line : String) : Option TMap :=
  ((line.splitOn " ").findSome? fun t => afterPrefix t "map=").bind parseOldMap

def tmapEq (a b : TMap) : Bool :=
  sortDedup (a.map fun kv => kv.1 ++ "\x00" ++ kv.2) == sortDedup (b.map fun kv => kv.1 ++ "\x00" ++ kv.2)

/-- replay the object's operations from its base map, checking the recorded old values -/
def replayObj (u : Nat) (base : Option TMap) (ops : List Op) : Option TMap × List String :=
  ops.foldl (fun (acc : Option TMap × List String) o =>
    let (m, errs) := acc
    match o with
    | .create w => if w == u then (some (m.getD []), if m.isSome then errs ++ ["api-valid create-of-loaded-task"] else errs) else acc
    | .delete w old => if w == u then
        (none, if (m.map fun mm => tmapEq mm old) == some true then errs else errs ++ [s!"old-values delete-old-task has={m.map fmtTMap} recorded={fmtTMap old}"])
      else acc
    | .update w k old v _ => if w == u then
        match m with
        | some mm => (some (mm.set k v), if mm.get k == old then errs else errs ++ [s!"old-values wrong property={encStr k} had={(mm.get k).map encStr} recorded={old.map encStr}"])
        | none => (none, errs ++ ["api-valid update-of-missing-task"])
      else acc
    | .undoPoint => acc) (base, [])

def knownKeyTok (tok : String) : Bool := ((decStr tok).map isKnownKey).getD false

def tjFlush (j : TJ) : List String :=
  if !j.active then []
  else match j.fails with
    | [] => [s!"judge {j.hdr} :: ok"]
    | fs => (fs.eraseDups).map fun f => s!"judge {j.hdr} :: FAIL {briefW f}"
where
  briefW (s : String) : String :=
    " ".intercalate ((s.splitOn " ").map fun w => if w.length > 300 then (w.take 120).toString ++ "…" else w)

def tjLine (j : TJ) (line : String) : TJ × List String :=
  if line.startsWith "# case" then ({ hdr := line, active := true }, tjFlush j)
  else if line.startsWith "> " then
    ({ j with cmd := (line.drop 2).toString.splitOn " ", result := "" }, [])
  else if line.startsWith "panic" then ({ j with fails := j.fails ++ [s!"no-panic {line} during={" ".intercalate (j.cmd.take 3)}"] }, [])
  else
    match j.cmd with
    | "R" :: u :: _ =>
      let u := u.toNat?.getD 0
      ({ j with exist := if j.exist.contains u then j.exist else u :: j.exist, clean := j.clean && j.objU != some u }, [])
    | "K" :: _ :: u :: _ =>
      let u := u.toNat?.getD 0
      if line == "obj new" then
        let f := if j.exist.contains u then ["api-valid create-of-existing-task"] else []
        ({ j with fails := j.fails ++ f, objU := some u, result := line }, [])
      else if line == "obj existing" then ({ j with objU := some u, result := line }, [])
      else if line.startsWith "ops " then
        let raw := (splitOps ((line.splitOn " ").drop 2)).map fun t => " ".intercalate t
        -- `obj new`: the Create was just pushed; it belongs to this object's operations
        let pos := if j.result == "obj new" then raw.length - 1 else raw.length
        ({ j with lastOps := raw, opsAtObtain := pos, clean := pos == 0 }, [])
      else if line.startsWith "view " then
        let m := (viewMap line).getD []
        ({ j with baseMap := m, prevMap := m, explicitModified := 0, firstExplicit := none }, [])
      else (j, [])
    | "L" :: _ :: u :: _ =>
      if line == "obj none" then ({ j with objU := none }, [])
      else if line.startsWith "ops " then
        let raw := (splitOps ((line.splitOn " ").drop 2)).map fun t => " ".intercalate t
        ({ j with lastOps := raw, opsAtObtain := raw.length, clean := raw.isEmpty }, [])
      else if line.startsWith "view " then
        let m := (viewMap line).getD []
        ({ j with objU := u.toNat?, baseMap := m, prevMap := m, explicitModified := 0, firstExplicit := none }, [])
      else (j, [])
    | "I" :: _ :: u :: _ =>
      let u := u.toNat?.getD 0
      if line.startsWith "iops " then
        let ops := (splitOps ((line.splitOn " ").drop 2)).filterMap parseOpNoTs
        let bad := ops.any fun o => match o with | .create w => j.exist.contains w | _ => false
        ({ j with fails := j.fails ++ (if bad then ["api-valid import-recorded-create-of-existing-task"] else []),
                  exist := if j.exist.contains u then j.exist else u :: j.exist }, [])
      else if line.startsWith "ops " then
        let raw := (splitOps ((line.splitOn " ").drop 2)).map fun t => " ".intercalate t
        ({ j with lastOps := raw, opsAtObtain := raw.length, clean := raw.isEmpty }, [])
      else if line.startsWith "view " then
        let m := (viewMap line).getD []
        ({ j with objU := some u, baseMap := m, prevMap := m, explicitModified := 0, firstExplicit := none }, [])
      else (j, [])
    | "M" :: _ :: name :: args =>
      if line == "ok" || line == "usage-error" || line == "bad-arg" || line == "needs-task" || line == "no-object" then
        ({ j with result := line }, [])
      else if line.startsWith "ops " then
        let raw := (splitOps ((line.splitOn " ").drop 2)).map fun t => " ".intercalate t
        let grew := raw.length != j.lastOps.length
        let f := if j.result == "usage-error" && grew then ["reserved usage-error-recorded-operations"] else []
        ({ j with lastOps := raw, fails := j.fails ++ f }, [])
      else if line.startsWith "view " || line.startsWith "dview " then
        match j.objU, viewMap line with
        | some u, some m =>
          let ops := (j.lastOps.drop j.opsAtObtain).filterMap fun s => parseOpNoTs (s.splitOn " ")
          let isNew := ops.head? == some (.create u)
          let (final, errs) := replayObj u (if isNew then none else some j.baseMap) ops
          let cons := if j.result == "ok" || j.result == "usage-error" then
              (if (final.map fun f => tmapEq f m) == some true || (final.isNone && m.isEmpty) then [] else [s!"old-values replay-differs object={fmtTMap m} replay={final.map fmtTMap}"])
            else []
          -- reserved names
          let isSynth (tok : String) : Bool := match (decStr tok).bind parseTag with | some (.synthetic _) => true | _ => false
          let reserved :=
            if (name == "add_tag" || name == "remove_tag") && (args.head?.map isSynth).getD false && j.result != "usage-error" then ["reserved synthetic-tag-accepted"]
            else if (name == "set_uda" || name == "remove_uda") && (args.head?.map knownKeyTok).getD false && j.result != "usage-error" then ["reserved model-key-accepted-as-uda"]
            else []
          -- end rule
          let stTok := if name == "done" then some "completed" else if name == "set_status" then args.head?.bind decStr else none
          let endRule := match stTok with
            | some st =>
              if j.result != "ok" then []
              else if st == "completed" || st == "deleted" then
                (if m.has "end" then (if j.prevMap.has "end" && m.get "end" != j.prevMap.get "end" then ["end-rule end-overwritten"] else []) else ["end-rule end-not-set"])
              else if st == "pending" || st == "recurring" then (if m.has "end" then ["end-rule end-not-cleared"] else [])
              else []
            | none => []
          let expl := j.explicitModified + (if name == "set_modified" || ((name == "set_value" || name == "td_update") && args.head? == some (encStr "modified")) then 1 else 0)
          let nMod := (ops.filter fun o => match o with | .update w k _ _ _ => w == u && k == "modified" | _ => false).length
          let isExpl := name == "set_modified" || ((name == "set_value" || name == "td_update") && args.head? == some (encStr "modified"))
          let firstExpl := match j.firstExplicit with | some b => b | none => isExpl
          -- one automatic stamp per object lifetime, none once `modified` was set explicitly first
          let autoAllowed := if firstExpl then 0 else 1
          let modOnce := if line.startsWith "view " && j.result == "ok" && nMod > expl + autoAllowed then
              [s!"modified-once {nMod} updates of modified, {expl} explicit, first mutator explicit={firstExpl}"] else []
          ({ j with fails := j.fails ++ errs ++ cons ++ reserved ++ endRule ++ modOnce, prevMap := m, explicitModified := expl,
                    firstExplicit := if j.result == "ok" then some firstExpl else j.firstExplicit }, [])
        | _, _ => (j, [])
      else (j, [])
    | "A" :: _ =>
      if line.startsWith "depmap-cached " then ({ j with cachedDep := (line.drop 14).toString }, [])
      else if line.startsWith "depmap " then
        let fresh := (line.drop 7).toString
        ({ j with fails := j.fails ++ (if fresh == j.cachedDep then [] else [s!"depmap cached-differs-from-fresh cached={j.cachedDep} fresh={fresh}"]) }, [])
      else (j, [])
    | ["P"] =>
      if line.startsWith "stored " then
        -- committed: existence follows the committed operations
        let ops := j.lastOps.filterMap fun s => parseOpNoTs (s.splitOn " ")
        let exist := ops.foldl (fun ex o => match o with
          | .create w => if ex.contains w then ex else w :: ex
          | .delete w _ => ex.filter (· != w)
          | _ => ex) j.exist
        let toks := line.splitOn " "
        let f := match toks with
          | ["stored", st, "object", ob] =>
            if j.clean && j.objU.isSome && st != ob && !(st == "none" && ob == "{}") then [s!"object commit-mismatch stored={st} object={ob}"] else []
          | _ => []
        let newBase := match toks with | ["stored", _, "object", ob] => (parseOldMap ob).getD [] | _ => j.baseMap
        ({ j with fails := j.fails ++ f, exist := exist, lastOps := [], opsAtObtain := 0, baseMap := newBase, explicitModified := 0,
                  clean := j.clean }, [])
      else (j, [])
    | _ => (j, [])

end Tc.Driver
