import TcVerif.Driver.Util
import TcVerif.Model.JsonParse
/-!
# Driver, family `wire`: the history-segment format (C14)

`ENC <op> ; <op> …` — local operations (with `undo`, `old=` parts the model never looks at) → the
document sent; `DEC <hex>` — a document → the operations read from it, or `rejected`.
-/
namespace Tc.Driver

def bytesOfHexTok (h : String) : Option ByteArray :=
  if h == "." then some ByteArray.empty
  else (hexToBytes h.toList).map fun bs => ByteArray.mk bs.toArray

/-- the synchronized operations of an `ENC` line: undo points and `old=` tokens are dropped -/
def encOps (rest : List String) : List SyncOp :=
  (splitOps rest).filterMap fun toks => parseOp (toks.filter fun t => !t.startsWith "old=")

def fmtOpsLine (ops : List SyncOp) : String :=
  if ops.isEmpty then "ops" else "ops " ++ " ; ".intercalate (ops.map opToks)

def decodeDoc (h : String) : Option (List SyncOp) :=
  match bytesOfHexTok h with
  | none => none
  | some b =>
    match String.fromUTF8? b with
    | none => none
    | some s => Json.decodeVersion s.toList

def wireLine (line : String) : List String :=
  match line.trimAscii.toString.splitOn " " with
  | "ENC" :: rest =>
    let doc := Json.printVersion (encOps rest)
    let back := match Json.decodeVersion doc with
      | some ops => "back" ++ (fmtOpsLine ops).drop 3
      | none => "back rejected"
    [s!"doc {hexOfBytes (String.ofList doc).toUTF8}", back]
  | ["DEC", h] =>
    match decodeDoc h with
    | some ops => [fmtOpsLine ops]
    | none => ["rejected"]
  | [""] => []
  | _ => ["bad-op"]

/-! ## Judge -/

structure WJ where
  hdr : String := ""
  cmd : List String := []
  fails : List String := []

def isInfix (needle hay : List Char) : Bool :=
  match hay with
  | [] => needle.isEmpty
  | _ :: t => needle.isPrefixOf hay || isInfix needle t

def wjAnswer (j : WJ) (l : String) : WJ :=
  let fail (f : String) : WJ := { j with fails := j.fails ++ [f] }
  if l == "panic" then fail "format panic"
  else match j.cmd with
  | "ENC" :: rest =>
    match l.splitOn " " with
    | ["doc", h] =>
      match (bytesOfHexTok h).bind String.fromUTF8? with
      | none => fail "format not-utf8"
      | some s =>
        match Json.decodeVersion s.toList with
        | none => fail s!"format sent-document-not-in-documented-format {shorten s}"
        | some ops =>
          -- exactly the documented fields and nothing else: re-encoding reproduces it
          let j1 := if String.ofList (Json.printVersion ops) == s then j else fail s!"format not-canonical {shorten s}"
          -- the operations made, in the order made, undo points dropped
          let j2 := if ops == encOps rest then j1 else { j1 with fails := j1.fails ++ [s!"order sent={ops.map opToks} made={(encOps rest).map opToks}"] }
          -- nothing of previous values / deleted tasks' contents
          if isInfix "old-secret".toList s.toList then { j2 with fails := j2.fails ++ ["secret old-value-or-deleted-content-sent"] } else j2
    | "back" :: _ =>
      if l == "back" ++ (fmtOpsLine (encOps rest)).drop 3 then j else fail s!"roundtrip own-document-read-back-differently {l.take 80}"
    | _ => fail s!"format {l.take 60}"
  | ["DEC", h] =>
    match decodeDoc h with
    | some ops => if l == fmtOpsLine ops then j else fail s!"foreign well-formed-document-misread got={l.take 80} want={(fmtOpsLine ops).take 80}"
    | none => j     -- what is done with a malformed document is for the correspondence, not the property
  | _ => j

def wjFlush (j : WJ) : List String :=
  if j.hdr.isEmpty then []
  else match j.fails.eraseDups with
    | [] => [s!"judge {j.hdr} :: ok"]
    | fs => fs.map fun f => s!"judge {j.hdr} :: FAIL {f}"

def wjLine (j : WJ) (l : String) : WJ × List String :=
  if l.startsWith "# case" then ({ hdr := l }, wjFlush j)
  else if l.startsWith "> " then ({ j with cmd := (l.drop 2).toString.splitOn " " }, [])
  else if l.startsWith "#" || l.isEmpty then (j, [])
  else (wjAnswer j l, [])

end Tc.Driver
