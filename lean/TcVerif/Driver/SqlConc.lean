import TcVerif.Driver.Rep
/-!
# Driver, family `sqlconc`: the audit of a database that several handles worked on concurrently

Model side: the replay of the stored operations, in their stored order, from nothing — which by
`C17_serial_commits` / `C17_undo_step` is what the stored tasks must be if the handles'
transactions happened one at a time.  Judge: bookkeeping of acknowledged and failed transactions
against the stored log.
-/
namespace Tc.Driver

def parseOpsAfter (toks : List String) : List Op := (splitOps toks).filterMap parseLOp

def sqlConcLine (line : String) : List String :=
  match line.trimAscii.toString.splitOn " " with
  | "AUDIT" :: "ws" :: _ :: "ops" :: rest =>
    let ops := parseOpsAfter rest
    let uuids := sortDedup (ops.filterMap Op.uuid?)
    let keys := sortDedup (ops.flatMap lopKeys)
    -- (on tables: data, re-tabulated after every operation)
    let t := applyLTable uuids keys [] (ops.filterMap Op.toSync)
    [s!"tasks={canonTable uuids keys t}"]
  | _ => []

structure SJ where
  hdr : String := ""
  okOps : List (List String) := []      -- acknowledged batches (rendered operations)
  errOps : List String := []            -- operations of commits that reported failure
  undone : List (List String) := []     -- operations removed by undos that reported true
  ws : List String := []                -- the stored working set (from the AUDIT line)
  fails : List String := []

def renderOps (toks : List String) : List String := (parseOpsAfter toks).map lopToks

/-- remove one occurrence of every element of `b` from `a`; none if some element is missing -/
def msubtract (a : List String) : List String → Option (List String)
  | [] => some a
  | x :: xs => if a.contains x then msubtract (a.erase x) xs else none

def isInfixL (needle hay : List String) : Bool :=
  match hay with
  | [] => needle.isEmpty
  | _ :: t => needle.isPrefixOf hay || isInfixL needle t

def sjLine (j : SJ) (l : String) : SJ × List String :=
  let flush (j : SJ) : List String :=
    if j.hdr.isEmpty then [] else
    match j.fails.eraseDups with
    | [] => [s!"judge {j.hdr} :: ok"]
    | fs => fs.map fun f => s!"judge {j.hdr} :: FAIL {f}"
  if l.startsWith "# case" then ({ hdr := l }, flush j)
  else if l == "panic" then ({ j with fails := j.fails ++ ["noerr panic"] }, [])
  else if l.startsWith "tasks=" then
    -- every pending task is in the working set: a commit that makes a task pending adds it in the
    -- same transaction, a rebuild keeps it, an undo ends with a rebuild
    match parseCanonDB (l.drop 6).toString with
    | some t =>
      let pend := t.filter fun (_, kvs) => kvs.any fun (k, v) => k == "status" && v == "pending"
      let missing := pend.filter fun (u, _) => !j.ws.contains s!"{u}"
      ({ j with fails := j.fails ++ (missing.map fun (u, _) => s!"ws pending-task-missing {u}") }, [])
    | none => ({ j with fails := j.fails ++ ["parse tasks"] }, [])
  else if !l.startsWith "> " then (j, [])
  else
    let toks := (l.drop 2).toString.splitOn " "
    match toks with
    | "W" :: _ :: "C" :: rest =>
      let res := rest.getLast?.getD ""
      let ops := renderOps (rest.dropLast.dropLast)
      if res == "ok" then ({ j with okOps := j.okOps ++ [ops] }, [])
      else ({ j with errOps := j.errOps ++ (ops.filter (· != "undo")) }, [])
    | "W" :: _ :: "U" :: rest =>
      let res := rest.getLast?.getD ""
      if res == "true" then ({ j with undone := j.undone ++ [renderOps (rest.dropLast.dropLast)] }, []) else (j, [])
    | "W" :: _ :: "PANIC" :: _ => ({ j with fails := j.fails ++ ["noerr worker-panic"] }, [])
    | "AUDIT" :: "ws" :: ws :: "ops" :: rest =>
      let stored := renderOps rest
      -- the setup batch
      let setup := ["undo", "create 1", "create 2"]
      let allOk := setup ++ j.okOps.flatten
      -- every acknowledged operation is stored exactly once, except those an acknowledged undo removed
      let f1 := match msubtract allOk j.undone.flatten with
        | none => ["lost an-undo-removed-operations-that-were-never-acknowledged"]
        | some expect =>
          let a := sortDedup stored
          let b := sortDedup expect
          if stored.length != expect.length || a != b then
            let missing := b.filter (!a.contains ·)
            let extra := a.filter (!b.contains ·)
            [s!"lost stored={stored.length} expected={expect.length} missing={missing.take 3} extra={extra.take 3}"]
          else []
      -- a batch that is there is there as one block, in order
      let f2 := j.okOps.filterMap fun b =>
        let present := b.filter (fun o => o != "undo" && stored.contains o)
        if present.isEmpty then none
        else if isInfixL b stored then none else some s!"torn batch-not-stored-as-one-block {(b.drop 1).headD ""}"
      -- nothing of a transaction that reported failure
      let f3 := (j.errOps.filter stored.contains).map fun o => s!"failed-visible {o.take 60}"
      -- working set: slot 0 unused, no task twice
      let wsl := ws.splitOn ","
      let members := wsl.filter (· != "-")
      let f4 := (if wsl.head? != some "-" then ["ws slot-0-used"] else []) ++
        (if (sortDedup members).length != members.length then [s!"ws duplicate-entry {ws.take 80}"] else [])
      ({ j with fails := j.fails ++ f1 ++ f2 ++ f3 ++ f4, ws := wsl }, [])
    | _ => (j, [])

def sjFlush (j : SJ) : List String :=
  if j.hdr.isEmpty then [] else
  match j.fails.eraseDups with
  | [] => [s!"judge {j.hdr} :: ok"]
  | fs => fs.map fun f => s!"judge {j.hdr} :: FAIL {f}"

end Tc.Driver
