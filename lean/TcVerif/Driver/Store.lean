import TcVerif.Driver.Rep
import TcVerif.Model.Store
/-!
# Driver, family `store`: the StorageTxn contract, call by call
-/
namespace Tc.Driver

structure SState where
  data : SData := {}
  txn : Option STxn := none
  uuids : List Nat := []
  keys : List String := []
  readOnly : Bool := false

def fmtTaskOpt (keys : List String) : Option TaskMap → String
  | none => "none"
  | some t => canonTask keys t

def fmtRet (s : SState) (w : SData) : Ret → String
  | .unit => "ok"
  | .bool b => if b then "true" else "false"
  | .task t => fmtTaskOpt s.keys t
  | .tasks us => canonDB us s.keys (fun u => if us.contains u then w.tasks u else none)
  | .uuids us => "uuids" ++ String.join ((sortDedup us).map fun u => s!" {u}")
  | .version v => s!"v {v}"
  | .ops l => "ops " ++ fmtOpList l
  | .num n => s!"n {n}"
  | .ws l => fmtWs l
  | .err => "err"
  | .readOnly => "read-only"

def parseCall : List String → Option Call
  | ["get_task", u] => u.toNat?.map .getTask
  | ["create_task", u] => u.toNat?.map .createTask
  | ["set_task", u, m] => match u.toNat?, parseOldMap m with
    | some u, some m => some (.setTask u m)
    | _, _ => none
  | ["delete_task", u] => u.toNat?.map .deleteTask
  | ["all_tasks"] => some .allTasks
  | ["all_task_uuids"] => some .allTaskUuids
  | ["base_version"] => some .baseVersion
  | ["set_base_version", v] => v.toNat?.map .setBaseVersion
  | ["get_task_operations", u] => u.toNat?.map .getTaskOperations
  | ["unsynced_operations"] => some .unsyncedOperations
  | ["num_unsynced_operations"] => some .numUnsyncedOperations
  | "add_operation" :: rest => (parseLOp rest).map .addOperation
  | "remove_operation" :: rest => (parseLOp rest).map .removeOperation
  | ["sync_complete"] => some .syncComplete
  | ["get_working_set"] => some .getWorkingSet
  | ["add_to_working_set", u] => u.toNat?.map .addToWorkingSet
  | ["set_working_set_item", i, x] => match i.toNat? with
    | some i => if x == "-" then some (.setWorkingSetItem i none) else x.toNat?.map fun u => .setWorkingSetItem i (some u)
    | none => none
  | ["clear_working_set"] => some .clearWorkingSet
  | ["get_pending_tasks"] => some .getPendingTasks
  | ["is_empty"] => some .isEmpty
  | ["commit"] => some .commit
  | _ => none

def callUuids : Call → List Nat
  | .getTask u | .createTask u | .setTask u _ | .deleteTask u | .getTaskOperations u | .addToWorkingSet u => [u]
  | .setWorkingSetItem _ (some u) => [u]
  | .addOperation o | .removeOperation o => (o.uuid?).toList
  | _ => []

def callKeys : Call → List String
  | .setTask _ m => m.map (·.1)
  | .addOperation o | .removeOperation o => lopKeys o
  | _ => []

def freezeSData (us : List Nat) (ks : List String) (d : SData) : SData :=
  let table := tabulate us ks d.tasks
  { d with tasks := dbOfTable table }

def storeLine (s : SState) (line : String) : SState × List String :=
  match line.trimAscii.toString.splitOn " " with
  | ["BEGIN"] => ({ s with txn := some (STxn.begin s.data s.readOnly) }, ["begun"])
  | ["DROP"] => ({ s with txn := none }, ["dropped"])
  | ["REOPEN"] => ({ s with txn := none, readOnly := false }, ["reopened"])
  | ["REOPEN_RO"] => ({ s with txn := none, readOnly := true }, ["reopened"])
  | ["DOWNGRADE", _] => ({ s with txn := none, readOnly := false }, ["reopened"])
  | [""] => (s, [])
  | toks =>
    match parseCall toks with
    | none => (s, ["bad-op"])
    | some c =>
      match s.txn with
      | none => (s, ["no-txn"])
      | some t =>
        let s := { s with uuids := sortDedup (callUuids c ++ s.uuids), keys := sortDedup (callKeys c ++ s.keys) }
        let (t', r) := t.step s.uuids c
        let out := fmtRet s t'.work r
        let t' := { t' with work := freezeSData s.uuids s.keys t'.work, committed := freezeSData s.uuids s.keys t'.committed }
        match c, r with
        | .commit, .unit => ({ s with data := t'.committed, txn := none }, [out])
        | .commit, _ => ({ s with txn := none }, [out])   -- a refused commit ends the transaction too
        | _, _ => ({ s with txn := some t' }, [out])

end Tc.Driver
