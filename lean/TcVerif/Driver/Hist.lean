import TcVerif.Driver.Util
import TcVerif.Model.SyncMachine
import TcVerif.Generated.Facts
/-!
# Driver, family `hist`: histories of commits and syncs (sequential, stepped, aborted)

Line protocol (DESIGN §3.2).  Input lines:

```
C <r> create <u> | C <r> delete <u> | C <r> update <u> <k> <v|-> <secs> <nanos>    guarded valid commit
X <r> <n> ; op ; op …        raw commit of n operations as one batch, applied only if valid (model: `Step.commit`)
P <r>                        commit a lone undo point
S <r> <avoid> <urg>          whole sync, no interleaving
B <r> <avoid>                begin a sync (stepped mode)
T <r> <urg>                  next request of r's sync
A <r>                        abort r's sync
F <r> <avoid> <urg> <m> …    a sync that is aborted after m server requests (their effects included)
Q                            dump
```
-/
namespace Tc.Driver

structure HState where
  sys : Sys := init
  uuids : List Nat := []
  keys : List String := []
  nreps : Nat := 0

/-- the batch limit literal of `sync.rs`, extracted from the source on every run -/
def limit : Nat := Facts.batchLimit

def parseUrg : String → Urgency
  | "h" => .high
  | "l" => .low
  | _ => .none

def fmtOps (ops : List SyncOp) : String := shorten (String.ofList (Json.printVersion ops))

def HState.note (st : HState) (ops : List SyncOp) : HState :=
  { st with uuids := ops.map SyncOp.uuid ++ st.uuids, keys := sortDedup (ops.flatMap opKeys ++ st.keys) }

def fmtOut (st : HState) : Out → String
  | .gotVersion p _ => s!"gc {p} -> v{p+1}"
  | .noChild p => s!"gc {p} -> none"
  | .added p ops => s!"av {p} {fmtOps ops} -> ok v{p+1}"
  | .expected p ops l => s!"av {p} {fmtOps ops} -> exp {l}"
  | .snapshotAdded v d => s!"as {v} {canonDB st.uuids st.keys d}"
  | .gotSnapshot v => s!"gs -> v{v}"
  | .noSnapshot => "gs -> none"
  | .finished => "sync ok"
  | .outOfSync p ops l => s!"av {p} {fmtOps ops} -> exp {l}\nsync out-of-sync"
  | .idle => "idle"

def outIsRequest : Out → Bool
  | .finished | .outOfSync _ _ _ | .idle => false
  | _ => true

/-- run replica r's sync until it ends, or until `maxReq` server requests have been made -/
def runSync (st : HState) (r : Nat) (urg : Urgency) (maxReq : Option Nat) : HState × List String := Id.run do
  let mut S := st.sys
  let mut outs : Array String := #[]
  let mut nreq := 0
  for _ in [0:100000] do
    if maxReq == some nreq then
      S := S.abort r
      outs := outs.push "sync aborted"
      break
    let (S', o) := S.request Json.opSize limit urg r
    S := S'
    outs := outs.push (fmtOut st o)
    if outIsRequest o then nreq := nreq + 1 else break
  return ({ st with sys := S }, outs.toList)

/-- a guarded single-operation commit: performed iff the operation is valid on the replica -/
def guarded (st : HState) (r : Nat) (op : SyncOp) : HState × List String :=
  let st := st.note [op]
  if (st.sys.reps r).fl.isSome then (st, ["busy"])
  else if valid (st.sys.reps r).T op then
    ({ st with sys := st.sys.commit r [op] 0 }, ["ok"])
  else (st, ["skip"])

def freezeFlight (us : List Nat) (ks : List String) (f : Flight) : Flight :=
  let table := tabulate us ks f.T
  { f with T := dbOfTable table }

def freezeRep (us : List Nat) (ks : List String) (x : Rep) : Rep :=
  let table := tabulate us ks x.T
  let fl := x.fl.map (freezeFlight us ks)
  { x with T := dbOfTable table, fl := fl }

/-- re-tabulate every task set of the system (see `tabulate`) -/
def HState.freeze (st : HState) : HState :=
  let us := sortDedup st.uuids
  let reps := (List.range st.nreps).map fun r => freezeRep us st.keys (st.sys.reps r)
  let snap := st.sys.snap.map fun (v, d) => (v, tabulate us st.keys d)
  let sys : Sys := { st.sys with reps := fun r => reps.getD r (st.sys.reps r), snap := snap.map fun (v, t) => (v, dbOfTable t) }
  { st with sys := sys, uuids := us }

def stepLineRaw (st : HState) (line : String) : HState × List String :=
  match line.trimAscii.toString.splitOn " " with
  | ["R", n] => ({ st with nreps := n.toNat?.getD 0 }, [])
  | "C" :: r :: rest =>
    match r.toNat?, parseOp rest with
    | some r, some op => guarded st r op
    | _, _ => (st, ["bad-op"])
  | "W" :: rest =>
    -- a version written by another implementation lands on the server; its operations need not be
    -- valid where they stand (a redundant Create): outside the hypotheses of the C01 theorems,
    -- inside the correspondence — applying an invalid operation changes nothing
    let ops := (splitOps rest).filterMap parseOp
    let st := st.note ops
    let S := st.sys
    ({ st with sys := { S with chain := S.chain ++ [ops] } }, [s!"foreign v{S.chain.length + 1}"])
  | "X" :: r :: _ :: rest =>
    match r.toNat? with
    | some r =>
      let ops := (splitOps rest).filterMap parseOp
      let st := st.note ops
      if (st.sys.reps r).fl.isSome then (st, ["busy"])
      else if validL (st.sys.reps r).T ops then ({ st with sys := st.sys.commit r ops 0 }, ["ok"])
      else (st, ["skip"])
    | none => (st, ["bad-op"])
  | ["P", r] =>
    match r.toNat? with
    | some r => ({ st with sys := st.sys.commit r [] 1 }, ["ok"])
    | none => (st, ["bad-op"])
  | ["S", r, avoid, urg] =>
    match r.toNat? with
    | some r =>
      let st := { st with sys := st.sys.begin r (avoid == "1") }
      runSync st r (parseUrg urg) none
    | none => (st, ["bad-op"])
  | "F" :: r :: avoid :: urg :: m :: _ =>
    match r.toNat?, m.toNat? with
    | some r, some m =>
      let st := { st with sys := st.sys.begin r (avoid == "1") }
      runSync st r (parseUrg urg) (some m)
    | some r, none =>
      if m == "done" then
        let st := { st with sys := st.sys.begin r (avoid == "1") }
        runSync st r (parseUrg urg) none
      else (st, ["bad-op"])
    | _, _ => (st, ["bad-op"])
  | ["B", r, avoid] =>
    match r.toNat? with
    | some r => ({ st with sys := st.sys.begin r (avoid == "1") }, ["begun"])
    | none => (st, ["bad-op"])
  | ["T", r, urg] =>
    match r.toNat? with
    | some r =>
      let (S', o) := st.sys.request Json.opSize limit (parseUrg urg) r
      -- the implementation commits right after its last response, without another request
      if S'.atEnd r then
        let (S'', o') := S'.request Json.opSize limit (parseUrg urg) r
        ({ st with sys := S'' }, [fmtOut st o, fmtOut st o'])
      else
        ({ st with sys := S' }, [fmtOut st o])
    | none => (st, ["bad-op"])
  | ["A", r] =>
    match r.toNat? with
    | some r => ({ st with sys := st.sys.abort r }, ["sync aborted"])
    | none => (st, ["bad-op"])
  | ["D"] =>
    -- the server discards the versions before its snapshot; the model's chain keeps them (no
    -- replica of a conforming implementation asks for them again)
    (st, [s!"discarded {match st.sys.snap with | some (v, _) => v | none => 0}"])
  | ["Q"] =>
    let S := st.sys
    let reps := (List.range st.nreps).map fun r =>
      let x := S.reps r
      if x.fl.isSome then s!"rep {r} busy"
      else s!"rep {r} base={x.k} nops={x.L.length} tasks={canonDB st.uuids st.keys x.T}"
    let pends := (List.range st.nreps).map fun r =>
      let x := S.reps r
      if x.fl.isSome then s!"pend {r} busy"
      else s!"pend {r} {x.L.length}" ++ String.join (x.L.map fun o => " ; " ++ opToks o)
    let chain := (List.range S.chain.length).map fun i =>
      s!"v{i+1} {String.ofList (Json.printVersion (S.chain.getD i []))}"
    let snap := match S.snap with
      | none => "snap none"
      | some (v, d) => s!"snap {v} {canonDB st.uuids st.keys d}"
    (st, reps ++ pends ++ [s!"chain len={S.chain.length}"] ++ chain ++ [snap])
  | [""] => (st, [])
  | _ => (st, ["bad-op"])

def stepLine (st : HState) (line : String) : HState × List String :=
  let (st', outs) := stepLineRaw st line
  (if line.startsWith "Q" || line.startsWith "R" then st' else st'.freeze, outs)

end Tc.Driver
