import TcVerif.Driver.Rep
import TcVerif.Model.Task
/-!
# Driver, family `task`: Task / TaskData mutators and read accessors on one replica
-/
namespace Tc.Driver

structure TState where
  stored : List (Nat × TMap) := []        -- committed tasks
  ws : List (Option Nat) := [none]
  obj : Option TaskObj := none
  addedUndo : Bool := false               -- `Replica::make_operations` has already added its undo point
  objIsData : Bool := false               -- the object is a low-level TaskData (after td_update / td_delete)
  ops : List Op := []                      -- operations recorded since the last commit

def fmtTMap (m : TMap) : String :=
  "{" ++ ",".intercalate (sortDedup (m.map fun (k, v) => encStr k ++ "=" ++ encStr v)) ++ "}"

def fmtOptInt : Option Int → String
  | none => "-"
  | some i => toString i

def fmtList (l : List String) : String := "[" ++ ",".intercalate (sortDedup l) ++ "]"

def fmtTagKind : TagKind → String
  | .user s => "u:" ++ encStr s
  | .synthetic s => "s:" ++ s

def fmtView (t : TaskObj) (now : Int) : String :=
  -- BLOCKED / UNBLOCKED / BLOCKING depend on the dependency-map snapshot a Task object carries;
  -- they are compared through the `depmap` line instead
  let tags := ((t.keyTags.map fmtTagKind) ++ (t.syntheticNoDeps now).map ("s:" ++ ·)).filter
    fun x => !["s:BLOCKED", "s:UNBLOCKED", "s:BLOCKING"].contains x
  s!"view status={encStr t.status} desc={encStr ((t.map.get "description").getD "")} prio={encStr ((t.map.get "priority").getD "")}" ++
  s!" entry={fmtOptInt (t.timestamp "entry")} wait={fmtOptInt (t.timestamp "wait")} modified={fmtOptInt (t.timestamp "modified")}" ++
  s!" due={fmtOptInt (t.timestamp "due")} active={t.isActive} waiting={t.isWaiting now} tags={fmtList tags}" ++
  s!" ann={fmtList (t.annotations.map fun (s, d) => toString s ++ ":" ++ encStr d)}" ++
  s!" udas={fmtList (t.udas.map fun (k, v) => encStr k ++ "=" ++ encStr v)}" ++
  s!" deps={fmtList (t.dependencies.map toString)} map={fmtTMap t.map}"

/-- operations without their timestamps (the implementation stamps them with `Utc::now()`) -/
def lopToksNoTs : Op → String
  | .create u => s!"create {u}"
  | .undoPoint => "undo"
  | .delete u m => s!"delete {u} {fmtOldMap m}"
  | .update u k old v _ => s!"update {u} {encStr k} {fmtOptStr old} {fmtOptStr v}"

def fmtOpsNoTs (l : List Op) : String := s!"ops {l.length}" ++ String.join (l.map fun o => " ; " ++ lopToksNoTs o)

def storedGet (s : TState) (u : Nat) : Option TMap := (s.stored.find? (·.1 == u)).map (·.2)

def storedSet (st : List (Nat × TMap)) (u : Nat) (m : Option TMap) : List (Nat × TMap) :=
  let rest := st.filter (·.1 != u)
  match m with | some m => rest ++ [(u, m)] | none => rest

/-- apply committed operations to the stored tasks (tolerant, as `apply_operations`) and the
    commit-time working-set addition -/
def commitStored (s : TState) (ops : List Op) : TState :=
  let stored := ops.foldl (fun st o => match o with
    | .create u => if (st.find? (·.1 == u)).isSome then st else storedSet st u (some [])
    | .delete u _ => storedSet st u none
    | .update u k _ v _ => match (st.find? (·.1 == u)).map (·.2) with
        | some m => storedSet st u (some (m.set k v))
        | none => st
    | .undoPoint => st) s.stored
  { s with stored := stored, ws := wsAddMissing s.ws (ops.filterMap addsToWs), ops := [] }

def optIntTok (t : String) : Option (Option Int) := if t == "-" then some none else t.toInt?.map some

def applyMut (t : TaskObj) (now : Int) : List String → Option MutResult
  | ["set_status", s] => (decStr s).map fun s => let (a, b) := t.setStatus now s; .ok a b
  | ["set_description", v] => (decStr v).map fun v => let (a, b) := t.setValue now "description" (some v); .ok a b
  | ["set_priority", v] => (decStr v).map fun v => let (a, b) := t.setValue now "priority" (some v); .ok a b
  | ["set_entry", v] => (optIntTok v).map fun v => let (a, b) := t.setTimestamp now "entry" v; .ok a b
  | ["set_wait", v] => (optIntTok v).map fun v => let (a, b) := t.setTimestamp now "wait" v; .ok a b
  | ["set_due", v] => (optIntTok v).map fun v => let (a, b) := t.setTimestamp now "due" v; .ok a b
  | ["set_modified", v] => v.toInt?.map fun v => let (a, b) := t.setTimestamp now "modified" (some v); .ok a b
  | ["set_value", k, v] => match decStr k, decOptStr v with
    | some k, some v => some (let (a, b) := t.setValue now k v; .ok a b)
    | _, _ => none
  | ["start"] => some (let (a, b) := t.start now; .ok a b)
  | ["stop"] => some (let (a, b) := t.setTimestamp now "start" none; .ok a b)
  | ["done"] => some (let (a, b) := t.setStatus now "completed"; .ok a b)
  | ["add_tag", s] => (decStr s).bind fun s => (parseTag s).map fun tag => t.addTag now tag true
  | ["remove_tag", s] => (decStr s).bind fun s => (parseTag s).map fun tag => t.addTag now tag false
  | ["add_annotation", e, d] => match e.toInt?, decStr d with
    | some e, some d => some (let (a, b) := t.setValue now ("annotation_" ++ toString e) (some d); .ok a b)
    | _, _ => none
  | ["remove_annotation", e] => e.toInt?.map fun e => let (a, b) := t.setValue now ("annotation_" ++ toString e) none; .ok a b
  | ["set_uda", k, v] => match decStr k, decStr v with
    | some k, some v => some (t.setUda now k (some v))
    | _, _ => none
  | ["remove_uda", k] => (decStr k).map fun k => t.setUda now k none
  | ["add_dependency", u] => u.toNat?.map fun u => let (a, b) := t.setValue now ("dep_" ++ uuidStr u) (some ""); .ok a b
  | ["remove_dependency", u] => u.toNat?.map fun u => let (a, b) := t.setValue now ("dep_" ++ uuidStr u) none; .ok a b
  | ["td_update", k, v] => match decStr k, decOptStr v with
    | some k, some v => some (let (a, b) := t.dataUpdate k v now; .ok a b)
    | _, _ => none
  | ["td_delete"] => some (.ok { t with map := [] } [.delete t.uuid t.map])
  | _ => none

def taskLine (s : TState) (line : String) : TState × List String :=
  match line.trimAscii.toString.splitOn " " with
  | ["N"] => ({}, ["new"])
  | ["R", u, m] =>
    match u.toNat?, parseOldMap m with
    | some u, some m =>
      -- dedupe keys: the last occurrence wins (as inserting into a hash map)
      let m' : TMap := m.foldl (fun acc kv => acc.set kv.1 (some kv.2)) []
      -- the harness commits valid operations that lead to exactly this map; what matters beyond
      -- the stored map is the commit-time working-set addition (a `status` update)
      let cur := storedGet s u
      let stOld := cur.bind (·.get "status")
      let stNew := m'.get "status"
      let wsOps : List Op := if stOld != stNew then [.update u "status" stOld stNew 0] else []
      let s1 := { s with stored := storedSet s.stored u (some m'), ws := wsAddMissing s.ws (wsOps.filterMap addsToWs) }
      (s1, ["ok"])
    | _, _ => (s, ["bad-op"])
  | ["K", now, u] =>
    let now := now.toInt?.getD 0
    match u.toNat? with
    | some u =>
      match storedGet s u with
      | some m => ({ s with obj := some { uuid := u, map := m }, objIsData := false }, ["obj existing", fmtOpsNoTs s.ops, fmtView { uuid := u, map := m } now])
      | none => ({ s with obj := some { uuid := u, map := [] }, objIsData := false, ops := s.ops ++ [.create u] },
                 ["obj new", fmtOpsNoTs (s.ops ++ [.create u]), fmtView { uuid := u, map := [] } now])
    | none => (s, ["bad-op"])
  | ["L", now, u] =>
    let now := now.toInt?.getD 0
    match u.toNat? with
    | some u =>
      match storedGet s u with
      | some m => ({ s with obj := some { uuid := u, map := m }, objIsData := false }, ["obj loaded", fmtOpsNoTs s.ops, fmtView { uuid := u, map := m } now])
      | none => ({ s with obj := none, objIsData := false }, ["obj none"])
    | none => (s, ["bad-op"])
  | ["I", now, u] =>
    let now := now.toInt?.getD 0
    match u.toNat? with
    | some u =>
      -- `import_task_with_uuid` commits its own operations (an undo point the first time this
      -- replica object makes operations, then a Create only if the task does not exist — after
      -- repair F18); the caller's pending `ops` are untouched
      let iops : List Op := if (storedGet s u).isSome then [] else (if s.addedUndo then [] else [.undoPoint]) ++ [.create u]
      let s' := { commitStored s iops with ops := s.ops, addedUndo := s.addedUndo || !iops.isEmpty }
      let m := (storedGet s' u).getD []
      ({ s' with obj := some { uuid := u, map := m }, objIsData := false },
       ["obj imported", "i" ++ fmtOpsNoTs iops, fmtOpsNoTs s.ops, fmtView { uuid := u, map := m } now])
    | none => (s, ["bad-op"])
  | "M" :: now :: rest =>
    match now.toInt?, s.obj with
    | some now, some t =>
      let isTd := rest.head? == some "td_update" || rest.head? == some "td_delete"
      let view (t : TaskObj) (isData : Bool) := if isData then s!"dview map={fmtTMap t.map}" else fmtView t now
      if s.objIsData && !isTd then (s, ["needs-task"]) else
      match applyMut t now rest with
      | none => (s, ["bad-arg"])
      | some r =>
        match r with
        | .usage => (s, ["usage-error", fmtOpsNoTs s.ops, view t s.objIsData])
        | .ok t' ops =>
          let s' := { s with obj := some t', ops := s.ops ++ ops, objIsData := s.objIsData || isTd }
          let out := ["ok", fmtOpsNoTs s'.ops, view t' s'.objIsData]
          -- a deleted TaskData is dropped
          (if rest.head? == some "td_delete" then { s' with obj := none, objIsData := false } else s', out)
    | _, _ => (s, ["no-object"])
  | ["P"] =>
    let s' := commitStored s s.ops
    match s.obj with
    | some t =>
      let st := storedGet s' t.uuid
      (s', [s!"stored {(st.map fmtTMap).getD "none"} object {fmtTMap t.map}"])
    | none => (s', ["stored - object -"])
  | ["V", now] =>
    match now.toInt?, s.obj with
    | some now, some t => (s, [if s.objIsData then s!"dview map={fmtTMap t.map}" else fmtView t now])
    | _, _ => (s, ["no-object"])
  | ["A", now] =>
    match now.toInt? with
    | some now =>
      let us := sortDedup (s.stored.map (·.1))
      let views := us.filterMap fun u => (storedGet s u).map fun m => s!"task {u} " ++ fmtView { uuid := u, map := m } now
      let edges := depEdges s.ws (fun u => storedGet s u)
      -- (the cached dependency map is dropped by every commit, so it equals the fresh one)
      (s, views ++ [s!"depmap-cached {fmtList (edges.map fun (a, b) => s!"{a}>{b}")}", s!"depmap {fmtList (edges.map fun (a, b) => s!"{a}>{b}")}",
                    s!"wsset {fmtList ((s.ws.filterMap id).map toString)}"])
    | none => (s, ["bad-op"])
  | ["W", r] =>
    -- rebuild_working_set: membership by status; the order of newcomers = ascending uuid is NOT
    -- observable here (the harness compares the set of members and the invariants only)
    let db : DB := fun u => (storedGet s u).map TaskMap.ofList
    let all := sortDedup (s.stored.map (·.1))
    ({ s with ws := rebuildSpec db (r == "1") s.ws all }, ["rebuilt"])
  | [""] => (s, [])
  | _ => (s, ["bad-op"])

end Tc.Driver
