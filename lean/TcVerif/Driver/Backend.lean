import TcVerif.Driver.Util
import TcVerif.Model.Chain
import TcVerif.Driver.Seal
/-!
# Driver, family `backend`: Server-trait calls against `ChainSpec`

Ids are symbolic: `nil`, `v<k>` (the k-th accepted version), `x<n>` (an id the server never saw).
-/
namespace Tc.Driver

structure BState where
  srv : ChainSrv := {}
  sealSt : SealState := {}
  snapshotsKept : Bool := true     -- `local` never stores snapshots
  created : List Nat := []         -- replica-level rounds: tasks created so far
  nreps : Nat := 2

def symId (tok : String) : Option Nat :=
  if tok == "nil" then some 0
  else if tok.startsWith "v" then (tok.drop 1).toString.toNat?
  else if tok.startsWith "x" then ((tok.drop 1).toString.toNat?).map (· + 1000000)
  else none

def fmtSym (n : Nat) : String :=
  if n == 0 then "nil" else if n ≥ 1000000 then s!"x{n - 1000000}" else s!"v{n}"

def backendLine (s : BState) (line : String) : BState × List String :=
  match line.trimAscii.toString.splitOn " " with
  | "H" :: _ => (s, [])
  | ["BACKEND", b] => ({ s with snapshotsKept := b != "local" }, [])
  | ["AV", _, p, b] =>
    match symId p with
    | some p =>
      let fresh := s.srv.versions.length + 1
      let (srv', r) := s.srv.addVersion p b fresh
      ({ s with srv := srv' }, [match r with | .ok id => s!"ok {fmtSym id}" | .expected l => s!"exp {fmtSym l}"])
    | none => (s, ["bad-op"])
  | ["FP", _, _] => (s, [])
  | ["AV", _, p, b, res] =>
    -- an interrupted add_version: the line says which of the two allowed outcomes the backend shows
    match symId p with
    | some p =>
      if res == "!accepted" then
        let fresh := s.srv.versions.length + 1
        let (srv', r) := s.srv.addVersion p b fresh
        ({ s with srv := srv' }, [match r with | .ok id => s!"interrupted accepted {fmtSym id}" | .expected _ => "interrupted accepted-but-not-acceptable"])
      else if res == "!absent" then (s, ["interrupted absent"])
      else (s, [s!"interrupted neither-accepted-nor-absent"])
    | none => (s, ["bad-op"])
  | ["AS", _, v, b, res] =>
    match symId v with
    | some v =>
      if res == "!stored" then ({ s with srv := if s.snapshotsKept then s.srv.addSnapshot v b else s.srv }, ["interrupted stored"])
      else if res == "!absent" then (s, ["interrupted absent"])
      else (s, ["interrupted neither-stored-nor-absent"])
    | none => (s, ["bad-op"])
  | ["EP", r, _, k, "->", res] =>
    match r.toNat?, k.toNat? with
    | some r, some k => ({ s with created := s.created ++ [k], nreps := max s.nreps (r + 1) }, [s!"sync {res}"])
    | _, _ => (s, ["bad-op"])
  | ["EPEND"] =>
    -- every task ever created, on every replica: an interrupted add_version loses and duplicates nothing
    let ts := sortDedup (s.created.map fun k => s!"{k}:t{k}")
    (s, (List.range s.nreps).map fun r => s!"rep {r} [{",".intercalate ts}]")
  | ["GC", _, p] =>
    match symId p with
    | some p =>
      match s.srv.getChild p with
      | some (id, par, b) => (s, [s!"{fmtSym id} parent={fmtSym par} {b}"])
      | none => (s, ["none"])
    | none => (s, ["bad-op"])
  | ["AS", _, v, b] =>
    match symId v with
    | some v => ({ s with srv := if s.snapshotsKept then s.srv.addSnapshot v b else s.srv }, ["ok"])
    | none => (s, ["bad-op"])
  | ["GS", _, "->", v] =>
    -- which of the stored snapshots a backend hands out is its choice; the line carries it and
    -- the model checks that it is a stored one and supplies its bytes
    if v == "none" then (s, [if s.srv.snapshots.isEmpty then "none" else "none-but-stored"])
    else match symId v with
      | some v =>
        match s.srv.snapshots.reverse.find? (·.1 == v) with
        | some (_, b) => (s, [s!"snap {fmtSym v} {b}"])
        | none => (s, [s!"snap {fmtSym v} <never-stored>"])
      | none => (s, ["bad-op"])
  | ["REOPEN", _, "!accepted", p, b] =>
    -- a stopped process came back and finished its interrupted add_version
    match symId p with
    | some p =>
      let fresh := s.srv.versions.length + 1
      let (srv', r) := s.srv.addVersion p b fresh
      ({ s with srv := srv' }, [match r with | .ok id => s!"reopened accepted {fmtSym id}" | .expected _ => "reopened accepted-but-not-acceptable"])
    | none => (s, ["bad-op"])
  | ["REOPEN", _] => (s, ["reopened"])
  | "REOPEN" :: _ => (s, ["reopened neither-accepted-nor-absent"])
  | "KEY" :: _ | "OPEN" :: _ =>
    -- what the backend really stored for a version: opened with a key the model derives itself
    let (ss, outs) := sealLine s.sealSt line
    ({ s with sealSt := ss }, outs)
  | [""] => (s, [])
  | _ => (s, ["bad-op"])

/-! ## Judge: the chain rules evaluated on what the implementation answered

State is rebuilt from the implementation's own answers (an accepted version is whatever it said
`ok v<k>` to), so one wrong answer does not cascade. -/

structure BJ where
  hdr : String := ""
  cmd : List String := []
  local_ : Bool := false
  accepted : List (Nat × Nat × String) := []      -- (k, parent, bytes), oldest first
  snaps : List (Nat × String) := []               -- stored, oldest first
  fails : List String := []
  epFirst : Option String := none
  epCreated : List Nat := []

def BJ.latest (j : BJ) : Nat := match j.accepted.getLast? with | some (k, _, _) => k | none => 0

def BJ.fail (j : BJ) (f : String) : BJ := { j with fails := j.fails ++ [f] }

/-- one answer line of the implementation, for the command in `j.cmd` -/
def bjAnswer (j : BJ) (l : String) : BJ :=
  let ws := l.splitOn " "
  if l == "panic" || l.startsWith "err" then j.fail s!"noerr {(j.cmd.take 1)} {l.take 60}"
  else match j.cmd with
  | ["AV", _, p, b] =>
    match symId p, ws with
    | some p, ["ok", v] =>
      let k := (symId v).getD 0
      let j := if j.accepted.isEmpty || p == j.latest then j
               else j.fail s!"linear accepted-parent-{fmtSym p}-while-latest-{fmtSym j.latest}"
      let j := if k == j.accepted.length + 1 then j else j.fail s!"linear id-reused {v}"
      { j with accepted := j.accepted ++ [(k, p, b)] }
    | some p, ["exp", lv] =>
      let j := if (symId lv) == some j.latest then j else j.fail s!"linear rejection-names-{lv}-latest-{fmtSym j.latest}"
      if j.accepted.isEmpty || p == j.latest then j.fail s!"linear rejected-child-of-latest-{fmtSym p}" else j
    | _, _ => j.fail s!"parse AV {l.take 60}"
  | ["AV", _, p, b, _] =>
    match symId p, ws with
    | some p, ["interrupted", "accepted", v] =>
      let k := (symId v).getD 0
      let j := if j.accepted.isEmpty || p == j.latest then j
               else j.fail s!"atomic interrupted-accepted-parent-{fmtSym p}-while-latest-{fmtSym j.latest}"
      { j with accepted := j.accepted ++ [(k, p, b)] }
    | some _, ["interrupted", "absent"] => j
    | _, _ => j.fail s!"atomic {l.take 60}"
  | ["AS", _, v, b, _] =>
    match symId v, ws with
    | some v, ["interrupted", "stored"] => { j with snaps := j.snaps ++ [(v, b)] }
    | some _, ["interrupted", "absent"] => j
    | _, _ => j.fail s!"atomic snapshot {l.take 60}"
  | ["REOPEN", _, "!accepted", p, b] =>
    match symId p, ws with
    | some p, ["reopened", "accepted", v] =>
      let k := (symId v).getD 0
      let j := if j.accepted.isEmpty || p == j.latest then j
               else j.fail s!"atomic late-accepted-parent-{fmtSym p}-while-latest-{fmtSym j.latest}"
      { j with accepted := j.accepted ++ [(k, p, b)] }
    | _, _ => j.fail s!"atomic {l.take 60}"
  | "REOPEN" :: _ => if l == "reopened" then j else j.fail s!"atomic {l.take 60}"
  | "EP" :: _ :: _ :: k :: _ =>
    let j := { j with epCreated := j.epCreated ++ [k.toNat?.getD 0] }
    if l == "sync ok" || l == "sync err" then j else j.fail s!"recover {l.take 60}"
  | ["EPEND"] =>
    if l.startsWith "rep " then
      let body := (l.splitOn " ").getD 2 ""
      let want := "[" ++ ",".intercalate (sortDedup (j.epCreated.map fun k => s!"{k}:t{k}")) ++ "]"
      let j := if body == want then j else j.fail s!"recover tasks-lost-or-invented got={body.take 60} want={want.take 60}"
      match j.epFirst with
      | none => { j with epFirst := some body }
      | some b0 => if b0 == body then j else j.fail s!"recover replicas-differ {b0.take 40} vs {body.take 40}"
    else j.fail s!"recover {l.take 60}"
  | ["GC", _, p] =>
    match symId p with
    | some p =>
      match j.accepted.find? (·.2.1 == p), ws with
      | some (k, _, b), [v, par, b'] =>
        if symId v == some k && par == s!"parent={fmtSym p}" && b' == b then j
        else j.fail s!"child wrong-child-of-{fmtSym p} got={v} want={fmtSym k} bytes-equal={b' == b}"
      | some (k, _, _), _ => j.fail s!"child lost-child-of-{fmtSym p} want={fmtSym k} got={l.take 40}"
      | none, ["none"] => j
      | none, _ => j.fail s!"child invented-child-of-{fmtSym p} got={l.take 40}"
    | none => j
  | ["AS", _, v, b] =>
    match symId v with
    | some v => if l == "ok" then { j with snaps := j.snaps ++ [(v, b)] } else j.fail s!"snapshot add {l.take 40}"
    | none => j
  | ["GS", _, "->", _] =>
    match ws with
    | ["none"] => if j.local_ || j.snaps.isEmpty then j else j.fail "snapshot stored-but-none"
    | ["snap", v, b] =>
      match symId v with
      | some v =>
        match j.snaps.reverse.find? (·.1 == v) with
        | some (_, b0) => if b0 == b then j else j.fail s!"snapshot bytes-differ {fmtSym v}"
        | none => j.fail s!"snapshot never-stored {fmtSym v}"
      | none => j.fail "parse GS"
    | _ => j.fail s!"snapshot {l.take 40}"
  | "OPEN" :: _ =>
    -- the harness's line is `ok <submitted payload>`; the model side (diff) opens the real bytes
    if l.startsWith "ok" then j else j.fail "sealed not-openable"
  | _ => if l == "leak FOUND" then j.fail "sealed plaintext-in-stored-bytes" else j

def bjFlush (j : BJ) : List String :=
  if j.hdr.isEmpty then []
  else match j.fails.eraseDups with
    | [] => [s!"judge {j.hdr} :: ok"]
    | fs => fs.map fun f => s!"judge {j.hdr} :: FAIL {f}"

def bjLine (j : BJ) (l : String) : BJ × List String :=
  if l.startsWith "# case" then ({ hdr := l }, bjFlush j)
  else if l.startsWith "> " then
    let c := (l.drop 2).toString.splitOn " "
    match c with
    | ["BACKEND", b] => ({ j with cmd := c, local_ := b == "local" }, [])
    | _ => ({ j with cmd := c }, [])
  else if l.startsWith "#" || l.isEmpty then (j, [])
  else (bjAnswer j l, [])

end Tc.Driver
