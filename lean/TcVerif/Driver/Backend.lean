import TcVerif.Driver.Util
import TcVerif.Model.Chain
/-!
# Driver, family `backend`: Server-trait calls against `ChainSpec`

Ids are symbolic: `nil`, `v<k>` (the k-th accepted version), `x<n>` (an id the server never saw).
-/
namespace Tc.Driver

structure BState where
  srv : ChainSrv := {}
  snapshotsKept : Bool := true     -- `local` never stores snapshots

def symId (tok : String) : Option Nat :=
  if tok == "nil" then some 0
  else if tok.startsWith "v" then (tok.drop 1).toString.toNat?
  else if tok.startsWith "x" then ((tok.drop 1).toString.toNat?).map (· + 1000000)
  else none

def fmtSym (n : Nat) : String :=
  if n == 0 then "nil" else if n ≥ 1000000 then s!"x{n - 1000000}" else s!"v{n}"

def backendLine (s : BState) (line : String) : BState × List String :=
  match line.trimAscii.toString.splitOn " " with
  | "H" :: _ => (s, [])
  | ["BACKEND", b] => ({ s with snapshotsKept := b != "local" }, [])
  | ["AV", _, p, b] =>
    match symId p with
    | some p =>
      let fresh := s.srv.versions.length + 1
      let (srv', r) := s.srv.addVersion p b fresh
      ({ s with srv := srv' }, [match r with | .ok id => s!"ok {fmtSym id}" | .expected l => s!"exp {fmtSym l}"])
    | none => (s, ["bad-op"])
  | ["GC", _, p] =>
    match symId p with
    | some p =>
      match s.srv.getChild p with
      | some (id, par, b) => (s, [s!"{fmtSym id} parent={fmtSym par} {b}"])
      | none => (s, ["none"])
    | none => (s, ["bad-op"])
  | ["AS", _, v, b] =>
    match symId v with
    | some v => ({ s with srv := if s.snapshotsKept then s.srv.addSnapshot v b else s.srv }, ["ok"])
    | none => (s, ["bad-op"])
  | ["GS", _, "->", v] =>
    -- which of the stored snapshots a backend hands out is its choice; the line carries it and
    -- the model checks that it is a stored one and supplies its bytes
    if v == "none" then (s, [if s.srv.snapshots.isEmpty then "none" else "none-but-stored"])
    else match symId v with
      | some v =>
        match s.srv.snapshots.reverse.find? (·.1 == v) with
        | some (_, b) => (s, [s!"snap {fmtSym v} {b}"])
        | none => (s, [s!"snap {fmtSym v} <never-stored>"])
      | none => (s, ["bad-op"])
  | "REOPEN" :: _ => (s, ["reopened"])
  | [""] => (s, [])
  | _ => (s, ["bad-op"])

end Tc.Driver
