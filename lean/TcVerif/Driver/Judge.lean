import TcVerif.Driver.Util
import TcVerif.Model.JsonParse
import TcVerif.Model.SyncMachine
/-!
# Judge mode: evaluate the properties' decidable predicates on what the IMPLEMENTATION did

Input: `impl.out` of family `hist` (the observation stream).  For every case, at its dump:

* `converged`  (C01, C02, C04): every replica has nothing pending and is based on the tip, and
  holds exactly `replay chain` (computed here, by the model's `cs`, from the JSON the server
  received, decoded by the model's own reader);
* `invariant`  (C04, C05): each replica's tasks = `cs chain base ⊕ pending`;
* `no-out-of-sync` (C02): no sync ended in OutOfSync or an unexpected error;
* `snapshot`   (C12): every uploaded snapshot for version v equals `cs chain v`;
* `wire`       (C14): every version sent decodes under the documented grammar and re-encodes
  to the very same bytes (no extra fields, documented order, documented timestamp rendering).

Output: one line per case: `judge <case header> :: ok` or `… :: FAIL <predicate> <detail>`.
-/
namespace Tc.Driver

structure JCase where
  hdr : String := ""
  reps : List (Nat × Nat × Nat × String) := []       -- r, base, nops, tasks
  pends : List (Nat × List SyncOp) := []
  chainTxt : List String := []                        -- version JSON texts, oldest first
  snaps : List (Nat × String) := []                   -- every `as v db` seen + final snap
  sent : List String := []                            -- every `av` payload (not abbreviated)
  fails : List String := []
  chainLen : Nat := 0
  active : Bool := false
  groups : List (String × String) := []               -- conflict groups seen so far: id ↦ final tasks
  lastReps : List (Nat × Nat × Nat × String) := []    -- the most recent complete dump (for the end-of-case predicates)
  lastPends : List (Nat × List SyncOp) := []
  lastChain : List String := []
  dumps : Nat := 0
  nline : Nat := 0                                     -- echoed input lines seen so far
  lastCmd : List String := []
  pendUpd : List (Nat × Nat × String × Option String × Int) := []   -- concurrent updates that were committed: replica, task, property, value, timestamp
  structural : List Nat := []                          -- tasks created / deleted concurrently or later
  laterUpd : List (Nat × String) := []                 -- (task, property) updated again after the concurrent section

def parseKV (tok : String) (k : String) : Option Nat :=
  (afterPrefix tok (k ++ "=")).bind String.toNat?

def judgeDump (c : JCase) (final : Bool) : List String :=
  -- decode the chain with the model's reader
  let decoded := c.chainTxt.map fun t => Json.decodeVersion t.toList
  let chain : List (List SyncOp) := decoded.map fun d => d.getD []
  let badDecode := (decoded.zipIdx.filter fun (d, _) => d.isNone).map fun (_, i) => s!"wire undecodable-version v{i+1}"
  let reenc := (c.chainTxt.zip chain).zipIdx.filterMap fun ((t, ops), i) =>
    if String.ofList (Json.printVersion ops) == t then none else some s!"wire not-canonical v{i+1}"
  let allOps := chain.flatten ++ (c.pends.flatMap (·.2))
  let uuids := allOps.map SyncOp.uuid
  let keys := sortDedup (allOps.flatMap opKeys)
  let n := chain.length
  let us := sortDedup uuids
  let replayTxt := canonTable us keys (csTable us keys chain n)
  let conv := if !final then [] else c.reps.filterMap fun (r, base, nops, tasks) =>
    if base ≠ n ∨ nops ≠ 0 then some s!"converged not-quiescent rep{r} base={base} nops={nops} tip={n}"
    else if tasks ≠ replayTxt then some s!"converged diverged rep{r} has={tasks} replay={replayTxt}"
    else none
  let inv := c.reps.filterMap fun (r, base, _, tasks) =>
    match c.pends.find? (·.1 == r) with
    | none => none
    | some (_, pend) =>
      let baseT := csTable us keys chain base
      let expect := canonTable us keys (applyLTable us keys baseT pend)
      if tasks ≠ expect then some s!"invariant broken rep{r} has={tasks} base⊕pending={expect}"
      else if !(decide (validL (dbOfTable baseT) pend)) then
        some s!"invariant pending-invalid rep{r} base={base} pending={pend.map opToks}"
      else none
  let snaps := c.snaps.filterMap fun (v, db) =>
    let expect := canonTable us keys (csTable us keys chain v)
    if v > n then some s!"snapshot for-unknown-version v{v}"
    else if db ≠ expect then some s!"snapshot wrong v{v} has={db} chain-state={expect}" else none
  let sent := c.sent.filterMap fun t =>
    match Json.decodeVersion t.toList with
    | none => some s!"wire undecodable-request {shorten t}"
    | some ops => if String.ofList (Json.printVersion ops) == t then none else some s!"wire not-canonical-request {shorten t}"
  badDecode ++ reenc ++ conv ++ inv ++ snaps ++ sent

def groupOf (hdr : String) : Option String :=
  (hdr.splitOn " ").findSome? fun t => afterPrefix t "group="

/-- order independence (C03): all cases of one group — the same concurrent changes synchronized
    in different orders — must end in the same tasks -/
def orderCheck (c : JCase) : List String × List (String × String) :=
  match groupOf c.hdr, c.lastReps.head? with
  | some g, some (_, _, _, tasks) =>
    match c.groups.find? (·.1 == g) with
    | some (_, t0) => if t0 == tasks then ([], c.groups) else ([s!"orderindep differs this-order={tasks} other-order={t0}"], c.groups)
    | none => ([], (g, tasks) :: c.groups)
  | _, _ => ([], c.groups)

/-- keep verdict lines readable: long tokens (whole task sets, megabyte values) are cut -/
def briefWords (s : String) : String :=
  " ".intercalate ((s.splitOn " ").map fun w =>
    if w.length > 400 then (w.take 160).toString ++ s!"…<{w.length} chars, fnv={fnv1a w.toUTF8}>" else w)

def hdrNat (hdr : String) (key : String) : Option Nat :=
  (hdr.splitOn " ").findSome? fun t => (afterPrefix t (key ++ "=")).bind String.toNat?

def laterPair (t1 : Int) (v1 : Option String) (t2 : Int) (v2 : Option String) : Bool :=
  decide (t1 < t2) || (decide (t1 = t2) && vlt v1 v2)

/-- **winner** (C03): in a conflict group, for every (task, property) that was only touched by
    concurrent updates — at most one per replica, the task neither created nor deleted
    concurrently, nothing changed it afterwards — the final value is that of the update with the
    greatest (timestamp, value), whatever the sync order. -/
def winnerCheck (c : JCase) : List String :=
  match groupOf c.hdr, c.lastReps.head? with
  | some _, some (_, _, _, tasksTxt) =>
    match parseCanonDB tasksTxt with
    | none => ["parse bad-final-tasks"]
    | some tasks =>
      let pairs := (c.pendUpd.map fun (_, u, k, _, _) => (u, k)).eraseDups
      pairs.filterMap fun (u, k) =>
        let ups := c.pendUpd.filter fun (_, u', k', _, _) => u' == u && k' == k
        let reps := ups.map (·.1)
        if c.structural.contains u || c.laterUpd.contains (u, k) || (sortDedup reps).length != reps.length then none
        else
          match ups with
          | [] => none
          | (_, _, _, v0, t0) :: rest =>
            let (wv, _) := rest.foldl (fun (bv, bt) (_, _, _, v, t) => if laterPair bt bv t v then (v, t) else (bv, bt)) (v0, t0)
            match tasks.find? (·.1 == u) with
            | none => none      -- the task does not exist in the end (never created): nothing to compare
            | some (_, m) =>
              let got := (m.find? (·.1 == k)).map (·.2)
              if got == wv then none
              else some s!"winner wrong task={u} property={encStr k} final={got.map encStr} expected={wv.map encStr} updates={ups.map fun (r, _, _, v, t) => (r, v.map encStr, t)}"
  | _, _ => []

def flushCase (c : JCase) : List String :=
  if !c.active then []
  else
    let final := judgeDump { c with reps := c.lastReps, pends := c.lastPends, chainTxt := c.lastChain, snaps := [], sent := [] } true
    let nodump := if c.dumps == 0 then ["parse no-dump"] else []
    -- a case in which another implementation's version (possibly with operations that are invalid
    -- where they stand) landed on the chain is outside the hypotheses of the convergence theorems:
    -- only the wire predicates are judged there, the rest is the correspondence's business
    let foreign := (c.hdr.splitOn " ").contains "foreign=1"
    let all := c.fails ++ final ++ nodump ++ (orderCheck c).1 ++ winnerCheck c
    let all := if foreign then all.filter (fun f => f.startsWith "wire" || f.startsWith "parse") else all
    match all with
    | [] => [s!"judge {c.hdr} :: ok"]
    | fs => fs.map fun f => s!"judge {c.hdr} :: FAIL {briefWords f}"

/-- extract the JSON payload of an `av <p> <json> -> …` line -/
def avPayload (line : String) : Option String :=
  match line.splitOn " -> " with
  | [] => none
  | parts =>
    let head := " -> ".intercalate (parts.dropLast)
    match head.splitOn " " with
    | "av" :: _ :: rest => some (" ".intercalate rest)
    | _ => none

def judgeLine (c : JCase) (line : String) : JCase × List String :=
  if line.startsWith "# case" then
    ({ hdr := line, active := true, groups := (orderCheck c).2 }, flushCase c)
  else if line.startsWith "> " then
    ({ c with nline := c.nline + 1, lastCmd := (line.drop 2).toString.splitOn " " }, [])
  else if line == "ok" then
    -- a commit went through: remember what the conflict predicates need
    let setup := (hdrNat c.hdr "setup").getD 0
    let pend := (hdrNat c.hdr "pend").getD 0
    let inPending := setup < c.nline && c.nline ≤ setup + pend
    let c := match c.lastCmd with
      | ["C", r, "update", u, k, v, s, n] =>
        match r.toNat?, u.toNat?, decStr k, decOptStr v, s.toInt?, n.toNat? with
        | some r, some u, some k, some v, some s, some n =>
          if inPending then { c with pendUpd := c.pendUpd ++ [(r, u, k, v, s * 1000000000 + n)] }
          else if c.nline > setup + pend then { c with laterUpd := (u, k) :: c.laterUpd } else c
        | _, _, _, _, _, _ => c
      | ["C", _, "create", u] | ["C", _, "delete", u] =>
        if c.nline > setup then { c with structural := (u.toNat?.getD 0) :: c.structural } else c
      | _ => c
    (c, [])
  else if line.startsWith "rep " && line.endsWith " busy" then (c, [])
  else if line.startsWith "pend " && line.endsWith " busy" then (c, [])
  else if line.startsWith "rep " then
    match line.splitOn " " with
    | "rep" :: r :: b :: n :: rest =>
      match r.toNat?, parseKV b "base", parseKV n "nops", afterPrefix (" ".intercalate rest) "tasks=" with
      | some r, some b, some n, some t => ({ c with reps := c.reps ++ [(r, b, n, t)] }, [])
      | _, _, _, _ => ({ c with fails := c.fails ++ [s!"parse bad-rep-line {line}"] }, [])
    | _ => (c, [])
  else if line.startsWith "pend " then
    match line.splitOn " " with
    | "pend" :: r :: _ :: rest =>
      match r.toNat? with
      | some r => ({ c with pends := c.pends ++ [(r, (splitOpsAux rest []).filterMap parseOp)] }, [])
      | none => (c, [])
    | _ => (c, [])
  else if line.startsWith "chain len=" then
    ({ c with chainLen := (parseKV line "chain len").getD 0 }, [])
  else if line.startsWith "v" && (line.drop 1).toString.front.isDigit then
    match line.splitOn " " with
    | _ :: rest => ({ c with chainTxt := c.chainTxt ++ [" ".intercalate rest] }, [])
    | _ => (c, [])
  else if line.startsWith "as " then
    match line.splitOn " " with
    | ["as", v, db] => ({ c with snaps := c.snaps ++ [(v.toNat?.getD 0, db)] }, [])
    | _ => ({ c with fails := c.fails ++ [s!"parse bad-as-line {line}"] }, [])
  else if line.startsWith "snap " then
    -- the last line of a dump: judge the mid-history predicates now, keep the dump for the end
    let c := match line.splitOn " " with
      | ["snap", v, db] => { c with snaps := c.snaps ++ [(v.toNat?.getD 0, db)] }
      | _ => c
    let fs := judgeDump c false
    ({ c with fails := c.fails ++ fs, lastReps := c.reps, lastPends := c.pends, lastChain := c.chainTxt,
              reps := [], pends := [], chainTxt := [], snaps := [], sent := [], dumps := c.dumps + 1 }, [])
  else if line.startsWith "av " then
    match avPayload line with
    | some p => if p.startsWith "<len=" then (c, []) else ({ c with sent := c.sent ++ [p] }, [])
    | none => (c, [])
  else if line == "sync out-of-sync" then
    ({ c with fails := c.fails ++ ["no-out-of-sync out-of-sync"] }, [])
  else if line.startsWith "sync err" || line.startsWith "err" || line == "panic" then
    ({ c with fails := c.fails ++ [s!"no-out-of-sync unexpected-error {line}"] }, [])
  else (c, [])

end Tc.Driver
