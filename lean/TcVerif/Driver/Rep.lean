import TcVerif.Driver.Util
import TcVerif.Model.Replica
/-!
# Driver, family `rep`: one replica — commits of arbitrary batches, undo, working-set rebuilds,
expiry, syncs against a private server.

Where the implementation's result depends on the order in which its storage enumerates tasks
(hash-map order: the mutual order of working-set newcomers, the order of expiry deletions) the
harness records the order it observed after the `:` and the model uses it; that the *set* is right
is checked here and reported in the output line.
-/
namespace Tc.Driver

structure PState where
  st : RState := RState.empty
  uuids : List Nat := []
  keys : List String := []

def parseLOp : List String → Option Op
  | ["create", u] => u.toNat?.map .create
  | ["undo"] => some .undoPoint
  | ["delete", u, m] =>
    match u.toNat?, parseOldMap m with
    | some u, some m => some (.delete u m)
    | _, _ => none
  | ["update", u, k, old, v, s, n] =>
    match u.toNat?, decStr k, decOptStr old, decOptStr v, s.toInt?, n.toNat? with
    | some u, some k, some old, some v, some s, some n => some (.update u k old v (s * 1000000000 + n))
    | _, _, _, _, _, _ => none
  | _ => none

def fmtOldMap (m : List (String × String)) : String :=
  "{" ++ ",".intercalate (sortDedup (m.map fun (k, v) => encStr k ++ "=" ++ encStr v)) ++ "}"

def fmtOptStr : Option String → String
  | none => "-"
  | some s => encStr s

def lopToks : Op → String
  | .create u => s!"create {u}"
  | .undoPoint => "undo"
  | .delete u m => s!"delete {u} {fmtOldMap m}"
  | .update u k old v ts => s!"update {u} {encStr k} {fmtOptStr old} {fmtOptStr v} {ts / 1000000000} {ts % 1000000000}"

def fmtOpList (l : List Op) : String :=
  s!"{l.length}" ++ String.join (l.map fun o => " ; " ++ lopToks o)

def lopKeys : Op → List String
  | .update _ k _ _ _ => [k]
  | .delete _ m => m.map (·.1)
  | _ => []

def PState.note (p : PState) (ops : List Op) : PState :=
  { p with uuids := sortDedup (ops.filterMap Op.uuid? ++ p.uuids), keys := sortDedup (ops.flatMap lopKeys ++ p.keys) }

def fmtWs (ws : List (Option Nat)) : String :=
  "ws" ++ String.join (ws.map fun e => match e with | none => " -" | some u => s!" {u}")

/-- split tokens at the first ":" -/
def splitColon (toks : List String) : List String × List String :=
  (toks.takeWhile (· ≠ ":"), (toks.dropWhile (· ≠ ":")).drop 1)

def parseOrder (toks : List String) : List Nat := toks.filterMap String.toNat?

def taskAssoc (keys : List String) (t : TaskMap) : List (String × String) :=
  keys.filterMap fun k => (t k).map fun v => (k, v)

def sameSet (a b : List Nat) : Bool := sortDedup a == sortDedup b && a.length == b.length

def PState.freeze (p : PState) : PState :=
  let table := tabulate p.uuids p.keys p.st.tasks
  { p with st := { p.st with tasks := dbOfTable table } }

def repLineRaw (p : PState) (line : String) : PState × List String :=
  match line.trimAscii.toString.splitOn " " with
  | "N" :: _ => ({}, ["new"])
  | "X" :: _ :: rest =>
    let ops := (splitOps rest).filterMap parseLOp
    if ops.length ≠ (splitOps rest).length then (p, ["bad-op"])
    else
      let p := p.note ops
      ({ p with st := commitOps p.st ops }, ["ok"])
  | ["G"] => (p, ["undo " ++ fmtOpList (getUndoOps p.st)])
  | "U" :: rest =>
    let (_, order) := splitColon rest
    let undo := getUndoOps p.st
    match commitReversed p.st undo with
    | .error => (p, ["error"])
    | .done st' applied =>
      if applied then ({ p with st := rebuildWs st' false (parseOrder order) }, ["true"])
      else ({ p with st := st' }, ["false"])
  | "V" :: _ :: rest =>
    let (optoks, order) := splitColon rest
    let undo := (splitOps optoks).filterMap parseLOp
    let p := p.note undo
    match commitReversed p.st undo with
    | .error => (p, ["error"])
    | .done st' applied =>
      if applied then ({ p with st := rebuildWs st' false (parseOrder order) }, ["true"])
      else ({ p with st := st' }, ["false"])
  | "W" :: r :: rest =>
    let (_, order) := splitColon rest
    let all := parseOrder order
    -- the enumeration must be exactly the stored tasks
    let present := p.uuids.filter fun u => (p.st.tasks u).isSome
    let note := if sameSet all present then "ok" else s!"ENUMERATION-MISMATCH model={present} impl={all}"
    ({ p with st := rebuildWs p.st (r == "1") all }, [s!"rebuilt {note}"])
  | "Y" :: rest =>
    let (_, order) := splitColon rest
    let st' := { p.st with ops := p.st.ops.map fun o => (true, o.2) }
    ({ p with st := rebuildWs st' false (parseOrder order) }, ["synced"])
  | "E" :: now :: rest =>
    let (_, order) := splitColon rest
    let obs := parseOrder order
    match now.toInt? with
    | none => (p, ["bad-op"])
    | some nowS =>
      let nowNs := nowS * 1000000000
      let expect := p.uuids.filter fun u =>
        match p.st.tasks u with | some t => expired nowNs t | none => false
      let verdict := if sameSet obs expect then s!"expire ok {obs.length}" else s!"expire MISMATCH model={expect} impl={obs}"
      let ops := obs.filterMap fun u => (p.st.tasks u).map fun t => Op.delete u (taskAssoc p.keys t)
      ({ p with st := commitOps p.st ops }, [verdict])
  | ["Q"] =>
    let st := p.st
    let uns := st.unsynced
    (p, [s!"tasks={canonDB p.uuids p.keys st.tasks}", fmtWs st.ws,
         s!"nops={(uns.filter (!·.isUndoPoint)).length} nundo={(uns.filter (·.isUndoPoint)).length}",
         "unsynced " ++ fmtOpList uns])
  | [""] => (p, [])
  | _ => (p, ["bad-op"])

/-- `F <k|kill> <outcome> <action…>`: the action was interrupted (a storage call failed, or the
    process was killed) and the database reopened.  `after`: the action took effect as a whole;
    `before`: no effect at all; `mid`: only for the actions that are two transactions (undo and
    sync: the operations, then the working-set rebuild) — the first one took effect. -/
def repLineF (p : PState) (line : String) : PState × List String :=
  match line.trimAscii.toString.splitOn " " with
  | "F" :: _ :: outcome :: rest =>
    let inner := " ".intercalate rest
    if outcome == "after" then repLineRaw p inner
    else if outcome == "before" then (p, ["interrupted before"])
    else if outcome == "mid" then
      match rest with
      | "U" :: _ =>
        match commitReversed p.st (getUndoOps p.st) with
        | .done st' true => ({ p with st := st' }, ["interrupted mid"])
        | _ => (p, ["interrupted no-such-state"])
      | "V" :: _ :: r =>
        let (optoks, _) := splitColon r
        let undo := (splitOps optoks).filterMap parseLOp
        let p := p.note undo
        match commitReversed p.st undo with
        | .done st' true => ({ p with st := st' }, ["interrupted mid"])
        | _ => (p, ["interrupted no-such-state"])
      | "Y" :: _ =>
        ({ p with st := { p.st with ops := p.st.ops.map fun o => (true, o.2) } }, ["interrupted mid"])
      | _ => (p, ["interrupted no-such-state"])
    else (p, ["bad-op"])
  | _ => repLineRaw p line

def repLine (p : PState) (line : String) : PState × List String :=
  let (p', outs) := repLineF p line
  (if line.startsWith "Q" then p' else p'.freeze, outs)

end Tc.Driver
