import TcVerif.Driver.Hist
import TcVerif.Driver.Judge
import TcVerif.Driver.Rep
import TcVerif.Driver.JudgeRep

open Tc.Driver

partial def loopHist (h : IO.FS.Stream) (out : IO.FS.Stream) (st : HState) : IO Unit := do
  let line ← h.getLine
  if line.isEmpty then return ()
  if line.startsWith "#" then
    out.putStrLn line.trimAscii.toString
    loopHist h out (if line.startsWith "# case" then {} else st)
  else
    out.putStrLn ("> " ++ line.trimAscii.toString)
    let (st', outs) := stepLine st line
    for o in outs do
      out.putStrLn o
    loopHist h out st'

partial def loopRep (h : IO.FS.Stream) (out : IO.FS.Stream) (st : PState) : IO Unit := do
  let line ← h.getLine
  if line.isEmpty then return ()
  if line.startsWith "#" then
    out.putStrLn line.trimAscii.toString
    loopRep h out (if line.startsWith "# case" then {} else st)
  else
    out.putStrLn ("> " ++ line.trimAscii.toString)
    let (st', outs) := repLine st line
    for o in outs do
      out.putStrLn o
    loopRep h out st'

partial def loopJudge (h : IO.FS.Stream) (out : IO.FS.Stream) (c : JCase) : IO Unit := do
  let line ← h.getLine
  if line.isEmpty then
    for o in flushCase c do out.putStrLn o
    return ()
  let (c', outs) := judgeLine c (line.dropEndWhile (· == '\n')).toString
  for o in outs do out.putStrLn o
  loopJudge h out c'

partial def loopJudgeRep (h : IO.FS.Stream) (out : IO.FS.Stream) (j : RJ) : IO Unit := do
  let line ← h.getLine
  if line.isEmpty then
    for o in rjFlush j do out.putStrLn o
    return ()
  let (j', outs) := rjLine j (line.dropEndWhile (· == '\n')).toString
  for o in outs do out.putStrLn o
  loopJudgeRep h out j'

def main (args : List String) : IO UInt32 := do
  let stdin ← IO.getStdin
  let stdout ← IO.getStdout
  match args with
  | ["model", "hist"] => loopHist stdin stdout {}; return 0
  | ["judge", "hist"] => loopJudge stdin stdout {}; return 0
  | ["model", "rep"] => loopRep stdin stdout {}; return 0
  | ["judge", "rep"] => loopJudgeRep stdin stdout {}; return 0
  | _ =>
    IO.eprintln "usage: tcmodel model <family> < ops.txt"
    return 2
