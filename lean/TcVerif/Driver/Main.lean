import TcVerif.Driver.Hist

open Tc.Driver

partial def loopHist (h : IO.FS.Stream) (out : IO.FS.Stream) (st : HState) : IO Unit := do
  let line ← h.getLine
  if line.isEmpty then return ()
  if line.startsWith "#" then
    out.putStrLn line.trimAscii.toString
    loopHist h out (if line.startsWith "# case" then {} else st)
  else
    let (st', outs) := stepLine st line
    for o in outs do
      out.putStrLn o
    loopHist h out st'

def main (args : List String) : IO UInt32 := do
  let stdin ← IO.getStdin
  let stdout ← IO.getStdout
  match args with
  | ["model", "hist"] => loopHist stdin stdout {}; return 0
  | _ =>
    IO.eprintln "usage: tcmodel model <family> < ops.txt"
    return 2
