import TcVerif.Driver.Hist
import TcVerif.Driver.Judge
import TcVerif.Driver.Rep
import TcVerif.Driver.JudgeRep
import TcVerif.Driver.Store
import TcVerif.Driver.TaskFam
import TcVerif.Driver.JudgeTask
import TcVerif.Driver.Seal
import TcVerif.Driver.Backend
import TcVerif.Driver.Wire
import TcVerif.Driver.CloudConc
import TcVerif.Driver.CleanConc
import TcVerif.Driver.SqlConc

open Tc.Driver

partial def loopHist (h : IO.FS.Stream) (out : IO.FS.Stream) (st : HState) : IO Unit := do
  let line ← h.getLine
  if line.isEmpty then return ()
  if line.startsWith "#" then
    out.putStrLn line.trimAscii.toString
    loopHist h out (if line.startsWith "# case" then {} else st)
  else
    out.putStrLn ("> " ++ line.trimAscii.toString)
    let (st', outs) := stepLine st line
    for o in outs do
      out.putStrLn o
    loopHist h out st'

partial def loopRep (h : IO.FS.Stream) (out : IO.FS.Stream) (st : PState) : IO Unit := do
  let line ← h.getLine
  if line.isEmpty then return ()
  if line.startsWith "#" then
    out.putStrLn line.trimAscii.toString
    loopRep h out (if line.startsWith "# case" then {} else st)
  else
    out.putStrLn ("> " ++ line.trimAscii.toString)
    let (st', outs) := repLine st line
    for o in outs do
      out.putStrLn o
    loopRep h out st'

partial def loopJudge (h : IO.FS.Stream) (out : IO.FS.Stream) (c : JCase) : IO Unit := do
  let line ← h.getLine
  if line.isEmpty then
    for o in flushCase c do out.putStrLn o
    return ()
  let (c', outs) := judgeLine c (line.dropEndWhile (· == '\n')).toString
  for o in outs do out.putStrLn o
  loopJudge h out c'

partial def loopTask (h : IO.FS.Stream) (out : IO.FS.Stream) (st : TState) : IO Unit := do
  let line ← h.getLine
  if line.isEmpty then return ()
  if line.startsWith "#" then
    out.putStrLn line.trimAscii.toString
    loopTask h out (if line.startsWith "# case" then {} else st)
  else
    out.putStrLn ("> " ++ line.trimAscii.toString)
    let (st', outs) := taskLine st line
    for o in outs do
      out.putStrLn o
    loopTask h out st'

partial def loopJudgeTask (h : IO.FS.Stream) (out : IO.FS.Stream) (j : TJ) : IO Unit := do
  let line ← h.getLine
  if line.isEmpty then
    for o in tjFlush j do out.putStrLn o
    return ()
  let (j', outs) := tjLine j (line.dropEndWhile (· == '\n')).toString
  for o in outs do out.putStrLn o
  loopJudgeTask h out j'

partial def loopSeal (h : IO.FS.Stream) (out : IO.FS.Stream) (st : SealState) (echo : Bool) : IO Unit := do
  let line ← h.getLine
  if line.isEmpty then return ()
  if line.startsWith "#" then
    if echo then out.putStrLn line.trimAscii.toString
    loopSeal h out st echo
  else
    if echo then out.putStrLn ("> " ++ (shorten line.trimAscii.toString))
    let (st', outs) := sealLine st line
    for o in outs do
      out.putStrLn o
    out.flush
    loopSeal h out st' echo

/-- family `seal`: predicates on the implementation's answers -/
partial def loopJudgeSeal (h : IO.FS.Stream) (out : IO.FS.Stream) (hdr : String) (cmd : String) (fails : List String) : IO Unit := do
  let line ← h.getLine
  let flush : IO Unit := do
    if !hdr.isEmpty then
      match fails with
      | [] => out.putStrLn s!"judge {hdr} :: ok"
      | fs => for f in fs.eraseDups do out.putStrLn s!"judge {hdr} :: FAIL {f}"
  if line.isEmpty then flush; return ()
  let l := (line.dropEndWhile (· == '\n')).toString
  if l.startsWith "# case" then
    flush
    loopJudgeSeal h out l "" []
  else if l.startsWith "> " then loopJudgeSeal h out hdr ((l.drop 2).toString.splitOn " ").head! fails
  else
    let f :=
      if cmd == "TAMPER" && l.startsWith "ok" then ["tamper accepted-non-genuine-envelope"]
      else if cmd == "OPEN" && l == "err" then ["roundtrip genuine-envelope-rejected"]
      else if cmd == "LAYOUT" && l != "layout first=1 len-ok=true" then [s!"layout {l}"]
      else if cmd == "LEAKCHECK" && l != "leak none" then ["leak plaintext-in-sealed-bytes"]
      else if cmd == "NONCECHECK" && l != "nonces distinct" then [s!"nonce {l}"]
      else if l == "panic" then ["tamper panic"]
      else []
    loopJudgeSeal h out hdr cmd (fails ++ f)

partial def loopStore (h : IO.FS.Stream) (out : IO.FS.Stream) (st : SState) : IO Unit := do
  let line ← h.getLine
  if line.isEmpty then return ()
  if line.startsWith "#" then
    out.putStrLn line.trimAscii.toString
    loopStore h out (if line.startsWith "# case" then {} else st)
  else
    out.putStrLn ("> " ++ line.trimAscii.toString)
    let (st', outs) := storeLine st line
    for o in outs do
      out.putStrLn o
    loopStore h out st'

/-- family `store`: all cases of one group (the same calls on different backends) must print the
    same results -/
partial def loopJudgeStore (h : IO.FS.Stream) (out : IO.FS.Stream) (hdr : String) (cur : Array String)
    (groups : List (String × Array String)) : IO Unit := do
  let line ← h.getLine
  let flush : IO (List (String × Array String)) := do
    if hdr.isEmpty then return groups
    let bad := cur.toList.filter fun l => l == "panic" || l == "bad-op"
    match groupOf hdr with
    | some g =>
      match groups.find? (·.1 == g) with
      | some (_, other) =>
        if other == cur && bad.isEmpty then out.putStrLn s!"judge {hdr} :: ok"
        else
          let i := ((List.range (max other.size cur.size)).find? fun i => other[i]? != cur[i]?).getD 0
          out.putStrLn s!"judge {hdr} :: FAIL equiv differs line={i} this={(cur[i]?).getD "<end>"} other={(other[i]?).getD "<end>"}"
        return groups
      | none =>
        if bad.isEmpty then out.putStrLn s!"judge {hdr} :: ok" else out.putStrLn s!"judge {hdr} :: FAIL equiv panic-or-bad-op"
        return (g, cur) :: groups
    | none =>
      if bad.isEmpty then out.putStrLn s!"judge {hdr} :: ok" else out.putStrLn s!"judge {hdr} :: FAIL equiv panic-or-bad-op"
      return groups
  if line.isEmpty then
    let _ ← flush
    return ()
  let l := (line.dropEndWhile (· == '\n')).toString
  if l.startsWith "# case" then
    let groups' ← flush
    loopJudgeStore h out l #[] groups'
  else
    loopJudgeStore h out hdr (cur.push l) groups

partial def loopJudgeRep (h : IO.FS.Stream) (out : IO.FS.Stream) (j : RJ) : IO Unit := do
  let line ← h.getLine
  if line.isEmpty then
    for o in rjFlush j do out.putStrLn o
    return ()
  let (j', outs) := rjLine j (line.dropEndWhile (· == '\n')).toString
  for o in outs do out.putStrLn o
  loopJudgeRep h out j'

partial def loopBackend (h : IO.FS.Stream) (out : IO.FS.Stream) (st : BState) : IO Unit := do
  let line ← h.getLine
  if line.isEmpty then return ()
  if line.startsWith "#" then
    out.putStrLn line.trimAscii.toString
    loopBackend h out (if line.startsWith "# case" then {} else st)
  else
    out.putStrLn ("> " ++ line.trimAscii.toString)
    let (st', outs) := backendLine st line
    for o in outs do
      out.putStrLn o
    loopBackend h out st'

partial def loopJudgeBackend (h : IO.FS.Stream) (out : IO.FS.Stream) (j : BJ) : IO Unit := do
  let line ← h.getLine
  if line.isEmpty then
    for o in bjFlush j do out.putStrLn o
    return ()
  let (j', outs) := bjLine j (line.dropEndWhile (· == '\n')).toString
  for o in outs do out.putStrLn o
  loopJudgeBackend h out j'

partial def loopWire (h : IO.FS.Stream) (out : IO.FS.Stream) : IO Unit := do
  let line ← h.getLine
  if line.isEmpty then return ()
  if line.startsWith "#" then
    out.putStrLn line.trimAscii.toString
  else
    out.putStrLn ("> " ++ line.trimAscii.toString)
    for o in wireLine line do
      out.putStrLn o
  loopWire h out

partial def loopJudgeWire (h : IO.FS.Stream) (out : IO.FS.Stream) (j : WJ) : IO Unit := do
  let line ← h.getLine
  if line.isEmpty then
    for o in wjFlush j do out.putStrLn o
    return ()
  let (j', outs) := wjLine j (line.dropEndWhile (· == '\n')).toString
  for o in outs do out.putStrLn o
  loopJudgeWire h out j'

partial def loopCloudConc (h : IO.FS.Stream) (out : IO.FS.Stream) (st : CCState) : IO Unit := do
  let line ← h.getLine
  if line.isEmpty then return ()
  if line.startsWith "#" then
    out.putStrLn line.trimAscii.toString
    loopCloudConc h out (if line.startsWith "# case" then {} else st)
  else
    out.putStrLn ("> " ++ line.trimAscii.toString)
    let (st', outs) := ccLine st line
    for o in outs do
      out.putStrLn o
    loopCloudConc h out st'

partial def loopJudgeCloudConc (h : IO.FS.Stream) (out : IO.FS.Stream) (j : CJ) : IO Unit := do
  let line ← h.getLine
  if line.isEmpty then
    for o in cjFlush j do out.putStrLn o
    return ()
  let (j', outs) := cjLine j (line.dropEndWhile (· == '\n')).toString
  for o in outs do out.putStrLn o
  loopJudgeCloudConc h out j'

partial def loopCleanConc (h : IO.FS.Stream) (out : IO.FS.Stream) (st : KState) : IO Unit := do
  let line ← h.getLine
  if line.isEmpty then return ()
  if line.startsWith "#" then
    out.putStrLn line.trimAscii.toString
    loopCleanConc h out (if line.startsWith "# case" then {} else st)
  else
    out.putStrLn ("> " ++ line.trimAscii.toString)
    let (st', outs) := kLine st line
    for o in outs do
      out.putStrLn o
    loopCleanConc h out st'

partial def loopJudgeCleanConc (h : IO.FS.Stream) (out : IO.FS.Stream) (j : KJ) : IO Unit := do
  let line ← h.getLine
  if line.isEmpty then
    for o in kjFlush j do out.putStrLn o
    return ()
  let (j', outs) := kjLine j (line.dropEndWhile (· == '\n')).toString
  for o in outs do out.putStrLn o
  loopJudgeCleanConc h out j'

partial def loopSqlConc (h : IO.FS.Stream) (out : IO.FS.Stream) : IO Unit := do
  let line ← h.getLine
  if line.isEmpty then return ()
  if line.startsWith "#" then
    out.putStrLn line.trimAscii.toString
  else
    out.putStrLn ("> " ++ line.trimAscii.toString)
    for o in sqlConcLine line do
      out.putStrLn o
  loopSqlConc h out

partial def loopJudgeSqlConc (h : IO.FS.Stream) (out : IO.FS.Stream) (j : SJ) : IO Unit := do
  let line ← h.getLine
  if line.isEmpty then
    for o in sjFlush j do out.putStrLn o
    return ()
  let (j', outs) := sjLine j (line.dropEndWhile (· == '\n')).toString
  for o in outs do out.putStrLn o
  loopJudgeSqlConc h out j'

def main (args : List String) : IO UInt32 := do
  let stdin ← IO.getStdin
  let stdout ← IO.getStdout
  match args with
  | ["model", "hist"] => loopHist stdin stdout {}; return 0
  | ["judge", "hist"] => loopJudge stdin stdout {}; return 0
  | ["model", "rep"] => loopRep stdin stdout {}; return 0
  | ["judge", "rep"] => loopJudgeRep stdin stdout {}; return 0
  | ["model", "store"] => loopStore stdin stdout {}; return 0
  | ["model", "task"] => loopTask stdin stdout {}; return 0
  | ["model", "seal"] => loopSeal stdin stdout {} true; return 0
  | ["sealgen"] => loopSeal stdin stdout {} false; return 0
  | ["judge", "seal"] => loopJudgeSeal stdin stdout "" "" []; return 0
  | ["model", "sqlconc"] => loopSqlConc stdin stdout; return 0
  | ["judge", "sqlconc"] => loopJudgeSqlConc stdin stdout {}; return 0
  | ["model", "cleanconc"] => loopCleanConc stdin stdout {}; return 0
  | ["judge", "cleanconc"] => loopJudgeCleanConc stdin stdout {}; return 0
  | ["model", "cloudconc"] => loopCloudConc stdin stdout {}; return 0
  | ["judge", "cloudconc"] => loopJudgeCloudConc stdin stdout {}; return 0
  | ["model", "wire"] => loopWire stdin stdout; return 0
  | ["judge", "wire"] => loopJudgeWire stdin stdout {}; return 0
  | ["model", "backend"] => loopBackend stdin stdout {}; return 0
  | ["judge", "backend"] => loopJudgeBackend stdin stdout {}; return 0
  | ["judge", "task"] => loopJudgeTask stdin stdout {}; return 0
  | ["judge", "store"] => loopJudgeStore stdin stdout "" #[] []; return 0
  | _ =>
    IO.eprintln "usage: tcmodel model <family> < ops.txt"
    return 2
