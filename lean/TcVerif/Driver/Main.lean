import TcVerif.Driver.Hist
import TcVerif.Driver.Judge

open Tc.Driver

partial def loopHist (h : IO.FS.Stream) (out : IO.FS.Stream) (st : HState) : IO Unit := do
  let line ← h.getLine
  if line.isEmpty then return ()
  if line.startsWith "#" then
    out.putStrLn line.trimAscii.toString
    loopHist h out (if line.startsWith "# case" then {} else st)
  else
    let (st', outs) := stepLine st line
    for o in outs do
      out.putStrLn o
    loopHist h out st'

partial def loopJudge (h : IO.FS.Stream) (out : IO.FS.Stream) (c : JCase) : IO Unit := do
  let line ← h.getLine
  if line.isEmpty then
    for o in flushCase c do out.putStrLn o
    return ()
  let (c', outs) := judgeLine c (line.dropEndWhile (· == '\n')).toString
  for o in outs do out.putStrLn o
  loopJudge h out c'

def main (args : List String) : IO UInt32 := do
  let stdin ← IO.getStdin
  let stdout ← IO.getStdout
  match args with
  | ["model", "hist"] => loopHist stdin stdout {}; return 0
  | ["judge", "hist"] => loopJudge stdin stdout {}; return 0
  | _ =>
    IO.eprintln "usage: tcmodel model <family> < ops.txt"
    return 2
