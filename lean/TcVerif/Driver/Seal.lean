import TcVerif.Driver.Util
import TcVerif.Model.Crypto
/-!
# Driver, family `seal`: the sealing scheme, Lean's RFC-level implementation against the real one
-/
namespace Tc.Driver
open Tc.Crypto

structure SealState where
  key : Option Bytes := none
  keys : List ((String × String) × Bytes) := []      -- cache: (secret, salt) ↦ derived key

def bytesOfHex (s : String) : Option Bytes := if s == "." then some [] else hexToBytes s.toList
def hexOfBytesL (b : Bytes) : String := if b.isEmpty then "." else Crypto.hex b

def sealLine (s : SealState) (line : String) : SealState × List String :=
  match line.trimAscii.toString.splitOn " " with
  | ["KEY", secret, salt] =>
    match s.keys.find? (·.1 == (secret, salt)) with
    | some (_, k) => ({ s with key := some k }, ["key"])
    | none =>
      match bytesOfHex secret, bytesOfHex salt with
      | some se, some sa =>
        let k := deriveKey se sa
        ({ s with key := some k, keys := ((secret, salt), k) :: s.keys }, ["key"])
      | _, _ => (s, ["bad-op"])
  | ["OPEN", vid, env] =>
    match s.key, vid.toNat?, bytesOfHex env with
    | some k, some vid, some env =>
      match unsealEnv k vid env with
      | .ok pt => (s, [s!"ok {hexOfBytesL pt}"])
      | .error _ => (s, ["err"])
    | _, _, _ => (s, ["bad-op"])
  | ["TAMPER", vid, env] =>
    match s.key, vid.toNat?, bytesOfHex env with
    | some k, some vid, some env =>
      match unsealEnv k vid env with
      | .ok pt => (s, [s!"ok {hexOfBytesL pt}"])
      | .error _ => (s, ["err"])
    | _, _, _ => (s, ["bad-op"])
  | ["GEN", vid, nonce, pt] =>
    -- produce an envelope sealed by the model (fed to the implementation as an OPEN line)
    match s.key, vid.toNat?, bytesOfHex nonce, bytesOfHex pt with
    | some k, some vid, some nonce, some pt => (s, [s!"OPEN {vid} {hexOfBytesL (sealEnv k nonce vid pt)}"])
    | _, _, _, _ => (s, ["bad-op"])
  | ["LEAKCHECK"] => (s, ["leak none"])
  | ["NONCECHECK"] => (s, ["nonces distinct"])
  | ["LAYOUT", env, ptlen] =>
    -- the documented layout of what the implementation produced: byte 0 = 1, length = |pt| + 29
    match bytesOfHex env, ptlen.toNat? with
    | some env, some n => (s, [s!"layout first={(env.head?.map UInt8.toNat).getD 999} len-ok={decide (env.length = n + 29)}"])
    | _, _ => (s, ["bad-op"])
  | [""] => (s, [])
  | _ => (s, ["bad-op"])

end Tc.Driver
