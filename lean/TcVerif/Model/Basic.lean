/-!
# Basic value domains of the TaskChampion model

* `TaskMap`  — `HashMap<String,String>` as a partial function (iteration order is not modelled).
* `DB`       — the task set, `Uuid ⇀ TaskMap`; uuids are their 128-bit value as a `Nat`.

Everything here is computable: the driver evaluates these closures on the finite set of
uuids / keys mentioned in its input, so the definitions the theorems are about are the ones
the correspondence check runs.
-/
namespace Tc

abbrev TaskMap := String → Option String
abbrev DB := Nat → Option TaskMap

def emptyTask : TaskMap := fun _ => none
def emptyDB : DB := fun _ => none

def setProp (t : TaskMap) (k : String) (v : Option String) : TaskMap :=
  fun k' => if k' = k then v else t k'

def setTask (db : DB) (u : Nat) (t : Option TaskMap) : DB :=
  fun u' => if u' = u then t else db u'

/-- Build a task map from an association list (first match wins). -/
def TaskMap.ofList : List (String × String) → TaskMap
  | [] => emptyTask
  | (k, v) :: rest => fun k' => if k' = k then some v else TaskMap.ofList rest k'

end Tc
