import TcVerif.Model.SyncOp
/-!
# `src/taskdb/sync.rs::sync` as a small-step machine  (DESIGN Appendix A)

One step = one request to the server (or a local commit, the begin / end of a sync, an abort).
Any number of replicas; the interleaving of their requests is arbitrary.  The server is the
abstract version chain (`ChainSpec`): version `k` (1-based) is `chain[k-1]`; the nil version is 0.

The relation `Step` is what the theorems quantify over.  The executable functions below
(`Sys.commit`, `Sys.begin`, `Sys.request`, `Sys.abort`) are what the driver runs against the
implementation; `Proofs/SyncExec` shows every executable step is a `Step` (or leaves the state
unchanged), so the theorems cover every trace the driver can produce.
-/
namespace Tc

/-- state of the server after its first `k` versions -/
def cs (chain : List (List SyncOp)) (k : Nat) : DB := (chain.take k).foldl applyL emptyDB

/-- in-flight state of one `sync` call: the open storage transaction plus the loop variables -/
structure Flight where
  k : Nat                      -- base version (index in the chain) inside the transaction
  L : List SyncOp              -- pending local operations, rebased over everything pulled so far
  T : DB                       -- tasks inside the transaction
  requested : Option Nat       -- `requested_parent_version_id`
  pulled : Bool                -- the last `get_child_version` answered NoSuchVersion
  snapDue : Bool               -- the next request is `add_snapshot(k, T)`
  askSnap : Bool               -- the next request is `get_snapshot` (storage was entirely empty)
  avoid : Bool                 -- `avoid_snapshots`

structure Rep where
  k : Nat
  L : List SyncOp
  T : DB
  nUndo : Nat                  -- undo points among the unsynced operations
  fl : Option Flight

structure Sys where
  chain : List (List SyncOp)
  snap : Option (Nat × DB)     -- the snapshot the server would hand out
  reps : Nat → Rep
  err : Bool                   -- some sync returned OutOfSync

def Flight.pull (f : Flight) (v : List SyncOp) : Flight :=
  { f with k := f.k + 1, L := (rebase v f.L).2, T := applyL f.T (rebase v f.L).1, pulled := false }
def Flight.pushed (f : Flight) (n : Nat) (snapDue : Bool) : Flight :=
  { f with k := f.k + 1, L := f.L.drop n, pulled := false, snapDue := snapDue }
def Flight.rejected (f : Flight) (p : Nat) : Flight :=
  { f with requested := some p, pulled := false }


def Flight.start (x : Rep) (avoid : Bool) (ask : Bool) : Flight :=
  { k := x.k, L := x.L, T := x.T, requested := none, pulled := false, snapDue := false,
    askSnap := ask, avoid := avoid }
def Flight.fromSnap (v : Nat) (d : DB) (avoid : Bool) : Flight :=
  { k := v, L := [], T := d, requested := none, pulled := false, snapDue := false,
    askSnap := false, avoid := avoid }
def Flight.noSnap (f : Flight) : Flight := { f with askSnap := false }
def Rep.withFl (x : Rep) (f : Option Flight) : Rep := { x with fl := f }
def Rep.committed (x : Rep) (ops : List SyncOp) (u : Nat) : Rep :=
  { x with L := x.L ++ ops, T := applyL x.T ops, nUndo := x.nUndo + u }
def Rep.undone (x : Rep) (n : Nat) (T' : DB) (u : Nat) : Rep :=
  { x with L := x.L.take (x.L.length - n), T := T', nUndo := u }
def Rep.synced (f : Flight) : Rep := { k := f.k, L := [], T := f.T, nUndo := 0, fl := none }
def Flight.pulledAll (f : Flight) : Flight := { f with pulled := true }
def Flight.snapDone (f : Flight) : Flight := { f with snapDue := false }

def setRep (S : Sys) (r : Nat) (x : Rep) : Sys :=
  { S with reps := fun j => if j = r then x else S.reps j }

inductive Step : Sys → Sys → Prop where
  /-- a local commit of valid operations, with `u` undo points (not while syncing) -/
  | commit (S : Sys) (r : Nat) (ops : List SyncOp) (u : Nat) (h : (S.reps r).fl = none)
      (hv : validL (S.reps r).T ops) :
      Step S (setRep S r ((S.reps r).committed ops u))
  /-- a local undo: the last `n` pending operations are withdrawn (C07 shows the task set goes
      back to the state before them) -/
  | undo (S : Sys) (r : Nat) (n : Nat) (u : Nat) (h : (S.reps r).fl = none) (hn : n ≤ (S.reps r).L.length)
      (T' : DB) (hT : T' = applyL (cs S.chain (S.reps r).k) ((S.reps r).L.take ((S.reps r).L.length - n))) :
      Step S (setRep S r ((S.reps r).undone n T' u))
  /-- sync begins; `ask` = the storage was found entirely empty, so `get_snapshot` comes first -/
  | begin (S : Sys) (r : Nat) (avoid ask : Bool) (h : (S.reps r).fl = none) :
      Step S (setRep S r ((S.reps r).withFl (some (Flight.start (S.reps r) avoid ask))))
  /-- GetSnapshot answered with a snapshot: `apply_snapshot` on the (entirely empty) replica -/
  | takeSnap (S : Sys) (r : Nat) (f : Flight) (v : Nat) (d : DB) (h : (S.reps r).fl = some f)
      (ha : f.askSnap = true) (hk : (S.reps r).k = 0) (hL : (S.reps r).L = []) (hs : S.snap = some (v, d)) :
      Step S (setRep S r ((S.reps r).withFl (some (Flight.fromSnap v d f.avoid))))
  /-- GetSnapshot answered None -/
  | noSnap (S : Sys) (r : Nat) (f : Flight) (h : (S.reps r).fl = some f) (ha : f.askSnap = true)
      (hs : S.snap = none) :
      Step S (setRep S r ((S.reps r).withFl (some f.noSnap)))
  /-- GetChildVersion answered with a version: rebase ALL pending ops, apply the transformed server ops -/
  | pullHit (S : Sys) (r : Nat) (f : Flight) (h : (S.reps r).fl = some f) (hs : f.snapDue = false)
      (ha : f.askSnap = false) (hk : f.k < S.chain.length) :
      Step S (setRep S r ((S.reps r).withFl (some (f.pull (S.chain[f.k]'hk)))))
  /-- GetChildVersion answered NoSuchVersion -/
  | pullMiss (S : Sys) (r : Nat) (f : Flight) (h : (S.reps r).fl = some f) (hs : f.snapDue = false)
      (ha : f.askSnap = false) (hk : ¬ f.k < S.chain.length) :
      Step S (setRep S r ((S.reps r).withFl (some f.pulledAll)))
  /-- AddVersion accepted: the batch is a non-empty prefix of the pending list; a snapshot may
      become due only when nothing is left to send -/
  | pushOk (S : Sys) (r : Nat) (f : Flight) (n : Nat) (sd : Bool) (h : (S.reps r).fl = some f)
      (hp : f.pulled = true) (ha : f.askSnap = false) (hn : 0 < n) (hn' : n ≤ f.L.length)
      (hk : f.k = S.chain.length) (hsd : sd = true → f.L.drop n = []) :
      Step S (setRep { S with chain := S.chain ++ [f.L.take n] } r ((S.reps r).withFl (some (f.pushed n sd))))
  /-- AddVersion rejected with ExpectedParentVersion(latest) -/
  | pushReject (S : Sys) (r : Nat) (f : Flight) (h : (S.reps r).fl = some f) (hp : f.pulled = true)
      (ha : f.askSnap = false) (hne : f.L ≠ []) (hk : f.k ≠ S.chain.length) :
      Step S (if f.requested = some S.chain.length then { S with err := true }
              else setRep S r ((S.reps r).withFl (some (f.rejected S.chain.length))))
  /-- AddSnapshot -/
  | addSnap (S : Sys) (r : Nat) (f : Flight) (h : (S.reps r).fl = some f) (hs : f.snapDue = true)
      (ha : f.askSnap = false) :
      Step S (setRep { S with snap := some (f.k, f.T) } r ((S.reps r).withFl (some f.snapDone)))
  /-- nothing left to send: the transaction commits -/
  | finish (S : Sys) (r : Nat) (f : Flight) (h : (S.reps r).fl = some f) (hp : f.pulled = true)
      (ha : f.askSnap = false) (he : f.L = []) :
      Step S (setRep S r (Rep.synced f))
  /-- any fault: the transaction is dropped -/
  | abort (S : Sys) (r : Nat) (f : Flight) (h : (S.reps r).fl = some f) :
      Step S (setRep S r ((S.reps r).withFl none))

def init : Sys :=
  { chain := [], snap := none,
    reps := fun _ => { k := 0, L := [], T := emptyDB, nUndo := 0, fl := none }, err := false }

inductive Reachable : Sys → Prop where
  | init : Reachable init
  | step {S S'} : Reachable S → Step S S' → Reachable S'

/-- the replay of the whole chain -/
def replay (S : Sys) : DB := cs S.chain S.chain.length

/-! ## executable machine -/

/-- Length of the batch `sync` sends: the longest prefix whose summed `size` stays within
    `limit`, but at least one operation (the `for op in &local_ops` loop). -/
def batchLenAux (size : SyncOp → Nat) (limit : Nat) : List SyncOp → Nat → Nat → Nat
  | [], _, len => len
  | o :: os, acc, len =>
      let acc' := acc + size o
      if len > 0 ∧ acc' > limit then len else batchLenAux size limit os acc' (len + 1)

def batchLen (size : SyncOp → Nat) (limit : Nat) (l : List SyncOp) : Nat :=
  batchLenAux size limit l 0 0

inductive Urgency where | none | low | high
deriving DecidableEq, Repr

def Urgency.rank : Urgency → Nat | .none => 0 | .low => 1 | .high => 2

/-- what the server answers to the next request of a flight; for the correspondence log -/
inductive Out where
  | gotVersion (parent : Nat) (ops : List SyncOp)      -- get_child_version(parent) → Version
  | noChild (parent : Nat)                             -- get_child_version(parent) → NoSuchVersion
  | added (parent : Nat) (ops : List SyncOp)           -- add_version(parent, ops) → Ok
  | expected (parent : Nat) (ops : List SyncOp) (latest : Nat)  -- add_version → ExpectedParentVersion
  | snapshotAdded (v : Nat) (d : DB)                   -- add_snapshot(v, d)
  | gotSnapshot (v : Nat)                              -- get_snapshot → Some
  | noSnapshot                                         -- get_snapshot → None
  | finished                                           -- Ok(())
  | outOfSync (parent : Nat) (ops : List SyncOp) (latest : Nat)  -- add_version → Expected, the same as before: Err(OutOfSync)
  | idle                                               -- no sync in progress

def Sys.commit (S : Sys) (r : Nat) (ops : List SyncOp) (u : Nat) : Sys :=
  match (S.reps r).fl with
  | some _ => S
  | none =>
    if validL (S.reps r).T ops then
      setRep S r ((S.reps r).committed ops u)
    else S

/-- `Replica::sync` begins: `is_empty` decides whether `get_snapshot` comes first.  (In reachable
    states `k = 0 ∧ L = []` implies the task set is empty; the working set is not part of this
    machine, the driver's families keep it empty where that matters.) -/
def Sys.begin (S : Sys) (r : Nat) (avoid : Bool) : Sys :=
  match (S.reps r).fl with
  | some _ => S
  | none =>
    let x := S.reps r
    setRep S r (x.withFl (some (Flight.start x avoid (decide (x.k = 0 ∧ x.L = [] ∧ x.nUndo = 0)))))

/-- perform the next server request (or the final commit) of replica `r`'s sync -/
def Sys.request (size : SyncOp → Nat) (limit : Nat) (urg : Urgency) (S : Sys) (r : Nat) : Sys × Out :=
  match (S.reps r).fl with
  | none => (S, .idle)
  | some f =>
    if f.askSnap then
      match S.snap with
      | some (v, d) =>
        if (S.reps r).k = 0 ∧ (S.reps r).L = [] then
          (setRep S r ((S.reps r).withFl (some (Flight.fromSnap v d f.avoid))), .gotSnapshot v)
        else (S, .idle)   -- unreachable: askSnap is only set on an empty replica
      | none => (setRep S r ((S.reps r).withFl (some f.noSnap)), .noSnapshot)
    else if f.snapDue then
      (setRep { S with snap := some (f.k, f.T) } r ((S.reps r).withFl (some f.snapDone)),
       .snapshotAdded f.k f.T)
    else if !f.pulled then
      if h : f.k < S.chain.length then
        (setRep S r ((S.reps r).withFl (some (f.pull (S.chain[f.k]'h)))), .gotVersion f.k (S.chain[f.k]'h))
      else
        (setRep S r ((S.reps r).withFl (some f.pulledAll)), .noChild f.k)
    else if f.L = [] then
      (setRep S r (Rep.synced f), .finished)
    else
      let n := batchLen size limit f.L
      if f.k = S.chain.length then
        let sd := decide (f.L.drop n = []) && decide (urg.rank ≥ (if f.avoid then 2 else 1))
        (setRep { S with chain := S.chain ++ [f.L.take n] } r ((S.reps r).withFl (some (f.pushed n sd))),
         .added f.k (f.L.take n))
      else if f.requested = some S.chain.length then
        (setRep { S with err := true } r ((S.reps r).withFl none), .outOfSync f.k (f.L.take n) S.chain.length)
      else
        (setRep S r ((S.reps r).withFl (some (f.rejected S.chain.length))),
         .expected f.k (f.L.take n) S.chain.length)

/-- the sync of `r` has no further server request to make: the next step is the final commit -/
def Sys.atEnd (S : Sys) (r : Nat) : Bool :=
  match (S.reps r).fl with
  | none => false
  | some f => !f.askSnap && !f.snapDue && f.pulled && decide (f.L = [])

def Sys.abort (S : Sys) (r : Nat) : Sys :=
  match (S.reps r).fl with
  | none => S
  | some _ => setRep S r ((S.reps r).withFl none)

end Tc
