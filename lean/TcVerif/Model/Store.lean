import TcVerif.Model.Replica
/-!
# The storage contract (`src/storage/mod.rs`) as a state machine — `StoreSpec`

A storage holds committed data; a transaction works on a copy; `commit` installs the copy (once),
dropping the transaction discards it.  In read-only access mode every mutating call and `commit`
is refused.  Both provided backends (`InMemoryStorage`, `SqliteStorage`) are compared against this
machine call by call (DESIGN Appendix E); `StoreSql` below is the table-level description of the
SQLite working set and its refinement to the vector.
-/
namespace Tc

structure SData where
  tasks : DB := emptyDB
  base : Nat := 0
  ops : List (Bool × Op) := []
  ws : List (Option Nat) := [none]

inductive Call where
  | getTask (u : Nat)
  | createTask (u : Nat)
  | setTask (u : Nat) (m : List (String × String))
  | deleteTask (u : Nat)
  | allTasks
  | allTaskUuids
  | baseVersion
  | setBaseVersion (v : Nat)
  | getTaskOperations (u : Nat)
  | unsyncedOperations
  | numUnsyncedOperations
  | addOperation (o : Op)
  | removeOperation (o : Op)
  | syncComplete
  | getWorkingSet
  | addToWorkingSet (u : Nat)
  | setWorkingSetItem (i : Nat) (x : Option Nat)
  | clearWorkingSet
  | getPendingTasks
  | isEmpty
  | commit

inductive Ret where
  | unit
  | bool (b : Bool)
  | task (t : Option TaskMap)
  | tasks (us : List Nat)          -- the uuids; the driver prints the maps from the state
  | uuids (us : List Nat)
  | version (v : Nat)
  | ops (l : List Op)
  | num (n : Nat)
  | ws (l : List (Option Nat))
  | err                            -- Err(_) (any kind)
  | readOnly                       -- Err(ReadOnlyStorage)

def Call.mutates : Call → Bool
  | .createTask _ | .setTask _ _ | .deleteTask _ | .setBaseVersion _ | .addOperation _
  | .removeOperation _ | .syncComplete | .addToWorkingSet _ | .setWorkingSetItem _ _
  | .clearWorkingSet | .commit => true
  | _ => false

structure STxn where
  committed : SData
  work : SData
  readOnly : Bool := false

def SData.unsynced (d : SData) : List Op := (d.ops.filter (fun p => !p.1)).map (·.2)

/-- `sync_complete`: mark everything synced, drop operations whose task no longer exists
    (undo points have no task and stay) -/
def syncCompleteOps (tasks : DB) (ops : List (Bool × Op)) : List (Bool × Op) :=
  (ops.filter fun p => match p.2.uuid? with
    | some u => (tasks u).isSome
    | none => true).map fun p => (true, p.2)

/-- remove the last operation if it is unsynced and equal to `o` -/
def removeLast (ops : List (Bool × Op)) (o : Op) : Option (List (Bool × Op)) :=
  match ops.getLast? with
  | some (false, o') => if o' = o then some ops.dropLast else none
  | _ => none

/-- one `StorageTxn` call.  `univ` lists the uuids the caller may ask about (the task set is
    a function; enumeration results are computed over it). -/
def STxn.step (univ : List Nat) (t : STxn) (c : Call) : STxn × Ret :=
  if t.readOnly && c.mutates then (t, .readOnly)
  else
    let w := t.work
    match c with
    | .getTask u => (t, .task (w.tasks u))
    | .createTask u =>
      if (w.tasks u).isSome then (t, .bool false)
      else ({ t with work := { w with tasks := setTask w.tasks u (some emptyTask) } }, .bool true)
    | .setTask u m => ({ t with work := { w with tasks := setTask w.tasks u (some (TaskMap.ofList m)) } }, .unit)
    | .deleteTask u =>
      if (w.tasks u).isSome then ({ t with work := { w with tasks := setTask w.tasks u none } }, .bool true)
      else (t, .bool false)
    | .allTasks => (t, .tasks (univ.filter fun u => (w.tasks u).isSome))
    | .allTaskUuids => (t, .uuids (univ.filter fun u => (w.tasks u).isSome))
    | .baseVersion => (t, .version w.base)
    | .setBaseVersion v => ({ t with work := { w with base := v } }, .unit)
    | .getTaskOperations u => (t, .ops ((w.ops.filter fun p => p.2.uuid? == some u).map (·.2)))
    | .unsyncedOperations => (t, .ops w.unsynced)
    | .numUnsyncedOperations => (t, .num w.unsynced.length)
    | .addOperation o => ({ t with work := { w with ops := w.ops ++ [(false, o)] } }, .unit)
    | .removeOperation o =>
      match removeLast w.ops o with
      | some ops' => ({ t with work := { w with ops := ops' } }, .unit)
      | none => (t, .err)
    | .syncComplete => ({ t with work := { w with ops := syncCompleteOps w.tasks w.ops } }, .unit)
    | .getWorkingSet => (t, .ws w.ws)
    | .addToWorkingSet u => ({ t with work := { w with ws := wsAdd w.ws u } }, .num w.ws.length)
    | .setWorkingSetItem i x =>
      if i < w.ws.length then ({ t with work := { w with ws := wsSet w.ws i x } }, .unit)
      else (t, .err)     -- outside the contract (in-memory: error; SQLite: inserts)
    | .clearWorkingSet => ({ t with work := { w with ws := [none] } }, .unit)
    | .getPendingTasks =>
      (t, .tasks ((w.ws.filterMap id).filter fun u => (w.tasks u).isSome))
    | .isEmpty =>
      (t, .bool ((univ.all fun u => (w.tasks u).isNone) && w.ws == [none] && w.base == 0 && w.unsynced.isEmpty))
    | .commit => ({ t with committed := w }, .unit)

def STxn.begin (d : SData) (ro : Bool) : STxn := { committed := d, work := d, readOnly := ro }

/-! ### the SQLite working set as rows, and its refinement to the vector -/

/-- rows `(id, uuid)` of table `working_set`; `get_working_set` builds a vector of length
    `max id + 1` (`1` when there is no row) -/
abbrev WsRows := List (Nat × Nat)

def rowsMaxId (r : WsRows) : Nat := r.foldl (fun m p => max m p.1) 0

def rowsToVec (r : WsRows) : List (Option Nat) :=
  (List.range (rowsMaxId r + 1)).map fun i => (r.find? (·.1 == i)).map (·.2)

def rowsAdd (r : WsRows) (u : Nat) : WsRows × Nat := (r ++ [(rowsMaxId r + 1, u)], rowsMaxId r + 1)

def rowsSet (r : WsRows) (i : Nat) (x : Option Nat) : WsRows :=
  match x with
  | some u => (r.filter (·.1 != i)) ++ [(i, u)]      -- INSERT OR REPLACE
  | none => r.filter (·.1 != i)                      -- DELETE … WHERE id = i

end Tc
