import TcVerif.Model.Basic
/-!
# `src/server/op.rs` and the tolerant `apply_op` of `src/taskdb/apply.rs` / `sync.rs`

`transform` follows the Rust `match` arm by arm.  The update/update arm is the rule after
repair F15 (DESIGN §6): the pairs `(timestamp, value)` are compared in Rust's derived order
(`None < Some _`, strings byte-wise = code-point-wise); equal ⇒ both dropped, otherwise the
greater one survives.
-/
namespace Tc

inductive SyncOp where
  | create (u : Nat)
  | delete (u : Nat)
  | update (u : Nat) (k : String) (v : Option String) (ts : Int)
deriving DecidableEq, Repr, Inhabited

def SyncOp.uuid : SyncOp → Nat
  | .create u => u | .delete u => u | .update u _ _ _ => u

/-- Tolerant application: `apply_op` with its errors ignored, exactly what `apply_version`
    does with server operations (`warn!("Invalid operation when syncing … (ignored)")`). -/
def apply (db : DB) : SyncOp → DB
  | .create u => setTask db u (some ((db u).getD emptyTask))
  | .delete u => setTask db u none
  | .update u k v _ => setTask db u ((db u).map (fun t => setProp t k v))

def applyO (db : DB) : Option SyncOp → DB
  | none => db
  | some o => apply db o

def applyL (db : DB) (l : List SyncOp) : DB := l.foldl apply db

/-- An operation is valid in a state iff `apply_op` would not report an error. -/
def valid (db : DB) : SyncOp → Prop
  | .create u => db u = none
  | .delete u => (db u).isSome
  | .update u _ _ _ => (db u).isSome

instance (db : DB) (o : SyncOp) : Decidable (valid db o) := by
  cases o <;> simp only [valid] <;> first
    | (rename_i u; cases h : db u
       · exact isTrue rfl
       · exact isFalse (by simp))
    | exact inferInstance

def validO (db : DB) : Option SyncOp → Prop
  | none => True
  | some o => valid db o

def validL : DB → List SyncOp → Prop
  | _, [] => True
  | db, o :: os => valid db o ∧ validL (apply db o) os

instance validLDec : (db : DB) → (l : List SyncOp) → Decidable (validL db l)
  | _, [] => isTrue trivial
  | db, o :: os =>
    match (inferInstance : Decidable (valid db o)), validLDec (apply db o) os with
    | isTrue h1, isTrue h2 => isTrue ⟨h1, h2⟩
    | isFalse h1, _ => isFalse (fun h => h1 h.1)
    | _, isFalse h2 => isFalse (fun h => h2 h.2)

/-- Rust's derived `Ord` on `Option<String>`, strict part: `None < Some _`, strings by code point. -/
def vlt : Option String → Option String → Bool
  | none, none => false
  | none, some _ => true
  | some _, none => false
  | some a, some b => decide (a < b)

def transform (a b : SyncOp) : Option SyncOp × Option SyncOp :=
  match a, b with
  | .create u1, .create u2 => if u1 = u2 then (none, none) else (some a, some b)
  | .delete u1, .delete u2 => if u1 = u2 then (none, none) else (some a, some b)
  | .create u1, .delete u2 => if u1 = u2 then (some a, none) else (some a, some b)
  | .delete u1, .create u2 => if u1 = u2 then (none, some b) else (some a, some b)
  | .update u1 _ _ _, .create u2 => if u1 = u2 then (some a, none) else (some a, some b)
  | .create u1, .update u2 _ _ _ => if u1 = u2 then (none, some b) else (some a, some b)
  | .update u1 _ _ _, .delete u2 => if u1 = u2 then (none, some b) else (some a, some b)
  | .delete u1, .update u2 _ _ _ => if u1 = u2 then (some a, none) else (some a, some b)
  | .update u1 k1 v1 t1, .update u2 k2 v2 t2 =>
      if u1 = u2 ∧ k1 = k2 then
        if t1 < t2 then (none, some b)
        else if t2 < t1 then (some a, none)
        else if v1 = v2 then (none, none)
        else if vlt v1 v2 then (none, some b)
        else (some a, none)
      else (some a, some b)

/-- Rebase one server op over the local list (inner loop of `apply_version`). -/
def rebase1 : Option SyncOp → List SyncOp → Option SyncOp × List SyncOp
  | s, [] => (s, [])
  | none, l :: ls => (none, l :: ls)
  | some s, l :: ls =>
      let (s', l') := transform s l
      let (s'', ls') := rebase1 s' ls
      (s'', match l' with | some x => x :: ls' | none => ls')

/-- Rebase a whole server version over the local list (outer loop of `apply_version`):
    returns the transformed server ops (to apply locally) and the new local list. -/
def rebase : List SyncOp → List SyncOp → List SyncOp × List SyncOp
  | [], ls => ([], ls)
  | s :: ss, ls =>
      let (s', ls') := rebase1 (some s) ls
      let (ss', ls'') := rebase ss ls'
      (match s' with | some x => x :: ss' | none => ss', ls'')

end Tc
