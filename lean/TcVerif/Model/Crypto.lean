import TcVerif.Generated.Facts
/-!
# The documented sealing scheme (`docs/src/encryption.md`, `server/encryption.rs`)

An independent implementation from the RFCs — SHA-256, HMAC, PBKDF2 (RFC 6234/2104/8018);
ChaCha20, Poly1305 and the AEAD construction (RFC 8439) — plus the TaskChampion envelope, AAD and
key derivation.  Executable, core Lean only.  The iteration count, envelope version and
application id come from `Generated/Facts` (extracted from the source on every run).
-/
namespace Tc.Crypto

abbrev Bytes := List UInt8

/-! ### SHA-256 -/
def K : Array UInt32 := #[
0x428a2f98,0x71374491,0xb5c0fbcf,0xe9b5dba5,0x3956c25b,0x59f111f1,0x923f82a4,0xab1c5ed5,
0xd807aa98,0x12835b01,0x243185be,0x550c7dc3,0x72be5d74,0x80deb1fe,0x9bdc06a7,0xc19bf174,
0xe49b69c1,0xefbe4786,0x0fc19dc6,0x240ca1cc,0x2de92c6f,0x4a7484aa,0x5cb0a9dc,0x76f988da,
0x983e5152,0xa831c66d,0xb00327c8,0xbf597fc7,0xc6e00bf3,0xd5a79147,0x06ca6351,0x14292967,
0x27b70a85,0x2e1b2138,0x4d2c6dfc,0x53380d13,0x650a7354,0x766a0abb,0x81c2c92e,0x92722c85,
0xa2bfe8a1,0xa81a664b,0xc24b8b70,0xc76c51a3,0xd192e819,0xd6990624,0xf40e3585,0x106aa070,
0x19a4c116,0x1e376c08,0x2748774c,0x34b0bcb5,0x391c0cb3,0x4ed8aa4a,0x5b9cca4f,0x682e6ff3,
0x748f82ee,0x78a5636f,0x84c87814,0x8cc70208,0x90befffa,0xa4506ceb,0xbef9a3f7,0xc67178f2]

@[inline] def rotr (x : UInt32) (n : UInt32) : UInt32 := (x >>> n) ||| (x <<< (32 - n))
@[inline] def rotl (x : UInt32) (n : UInt32) : UInt32 := (x <<< n) ||| (x >>> (32 - n))

def iv : Array UInt32 := #[0x6a09e667,0xbb67ae85,0x3c6ef372,0xa54ff53a,0x510e527f,0x9b05688c,0x1f83d9ab,0x5be0cd19]

def compress (h : Array UInt32) (blk : Array UInt32) : Array UInt32 := Id.run do
  let mut w := blk
  for i in [16:64] do
    let w15 := w[i-15]!
    let w2 := w[i-2]!
    let s0 := rotr w15 7 ^^^ rotr w15 18 ^^^ (w15 >>> 3)
    let s1 := rotr w2 17 ^^^ rotr w2 19 ^^^ (w2 >>> 10)
    w := w.push (w[i-16]! + s0 + w[i-7]! + s1)
  let mut a := h[0]!; let mut b := h[1]!; let mut c := h[2]!; let mut d := h[3]!
  let mut e := h[4]!; let mut f := h[5]!; let mut g := h[6]!; let mut hh := h[7]!
  for i in [0:64] do
    let s1 := rotr e 6 ^^^ rotr e 11 ^^^ rotr e 25
    let ch := (e &&& f) ^^^ ((~~~ e) &&& g)
    let t1 := hh + s1 + ch + K[i]! + w[i]!
    let s0 := rotr a 2 ^^^ rotr a 13 ^^^ rotr a 22
    let mj := (a &&& b) ^^^ (a &&& c) ^^^ (b &&& c)
    let t2 := s0 + mj
    hh := g; g := f; f := e; e := d + t1; d := c; c := b; b := a; a := t1 + t2
  return #[h[0]!+a, h[1]!+b, h[2]!+c, h[3]!+d, h[4]!+e, h[5]!+f, h[6]!+g, h[7]!+hh]

def be32 (b0 b1 b2 b3 : UInt8) : UInt32 :=
  (b0.toUInt32 <<< 24) ||| (b1.toUInt32 <<< 16) ||| (b2.toUInt32 <<< 8) ||| b3.toUInt32

def wordsBE (bs : Array UInt8) : Array UInt32 := Id.run do
  let mut out := #[]
  for i in [0:bs.size / 4] do
    out := out.push (be32 bs[4*i]! bs[4*i+1]! bs[4*i+2]! bs[4*i+3]!)
  return out

def bytesBE32 (w : UInt32) : List UInt8 :=
  [(w >>> 24).toUInt8, (w >>> 16).toUInt8, (w >>> 8).toUInt8, w.toUInt8]

def u64BE (n : Nat) : List UInt8 := (List.range 8).reverse.map (fun i => UInt8.ofNat ((n >>> (8*i)) % 256))

/-- pad a message whose total length (including `prefixLen` bytes already hashed) is known -/
def pad (msg : Bytes) (prefixLen : Nat) : Bytes :=
  let total := prefixLen + msg.length
  let zeros := (64 - (msg.length + 9) % 64) % 64
  msg ++ [0x80] ++ List.replicate zeros 0 ++ u64BE (total * 8)

def absorb (h : Array UInt32) (data : Bytes) : Array UInt32 := Id.run do
  let arr := data.toArray
  let mut st := h
  for i in [0:arr.size / 64] do
    st := compress st (wordsBE (arr.extract (64*i) (64*i+64)))
  return st

def digest (h : Array UInt32) : Bytes := h.toList.flatMap bytesBE32

def sha256 (msg : Bytes) : Bytes := digest (absorb iv (pad msg 0))

/-! ### HMAC-SHA256 and PBKDF2 -/
def hmacKeyBlock (key : Bytes) : Bytes :=
  let k := if key.length > 64 then sha256 key else key
  k ++ List.replicate (64 - k.length) 0

def hmac (key msg : Bytes) : Bytes :=
  let kb := hmacKeyBlock key
  let inner := sha256 (kb.map (· ^^^ 0x36) ++ msg)
  sha256 (kb.map (· ^^^ 0x5c) ++ inner)

def xorBytes (a b : Bytes) : Bytes := List.zipWith (· ^^^ ·) a b

/-- PBKDF2-HMAC-SHA256, one 32-byte block (dkLen = 32), with the two pad states precomputed -/
def pbkdf2Block (pw salt : Bytes) (iters : Nat) (blockIdx : Nat) : Bytes := Id.run do
  let kb := hmacKeyBlock pw
  let ist := absorb iv (kb.map (· ^^^ 0x36))
  let ost := absorb iv (kb.map (· ^^^ 0x5c))
  let prf := fun (m : Bytes) =>
    let inner := digest (absorb ist (pad m 64))
    digest (absorb ost (pad inner 64))
  let mut u := prf (salt ++ bytesBE32 (UInt32.ofNat blockIdx))
  let mut t := u
  for _ in [1:iters] do
    u := prf u
    t := xorBytes t u
  return t

def pbkdf2 (pw salt : Bytes) (iters : Nat) (dkLen : Nat) : Bytes :=
  let blocks := (dkLen + 31) / 32
  ((List.range blocks).flatMap (fun i => pbkdf2Block pw salt iters (i+1))).take dkLen

/-! ### ChaCha20 -/
def le32 (b0 b1 b2 b3 : UInt8) : UInt32 :=
  b0.toUInt32 ||| (b1.toUInt32 <<< 8) ||| (b2.toUInt32 <<< 16) ||| (b3.toUInt32 <<< 24)

def wordsLE (bs : Bytes) : Array UInt32 := Id.run do
  let a := bs.toArray
  let mut out := #[]
  for i in [0:a.size / 4] do
    out := out.push (le32 a[4*i]! a[4*i+1]! a[4*i+2]! a[4*i+3]!)
  return out

def bytesLE32 (w : UInt32) : List UInt8 :=
  [w.toUInt8, (w >>> 8).toUInt8, (w >>> 16).toUInt8, (w >>> 24).toUInt8]

def qr (s : Array UInt32) (a b c d : Nat) : Array UInt32 := Id.run do
  let mut s := s
  s := s.set! a (s[a]! + s[b]!); s := s.set! d (rotl (s[d]! ^^^ s[a]!) 16)
  s := s.set! c (s[c]! + s[d]!); s := s.set! b (rotl (s[b]! ^^^ s[c]!) 12)
  s := s.set! a (s[a]! + s[b]!); s := s.set! d (rotl (s[d]! ^^^ s[a]!) 8)
  s := s.set! c (s[c]! + s[d]!); s := s.set! b (rotl (s[b]! ^^^ s[c]!) 7)
  return s

def chachaBlock (key nonce : Bytes) (counter : UInt32) : Bytes := Id.run do
  let init : Array UInt32 := #[0x61707865, 0x3320646e, 0x79622d32, 0x6b206574] ++ wordsLE key ++ #[counter] ++ wordsLE nonce
  let mut s := init
  for _ in [0:10] do
    s := qr s 0 4 8 12; s := qr s 1 5 9 13; s := qr s 2 6 10 14; s := qr s 3 7 11 15
    s := qr s 0 5 10 15; s := qr s 1 6 11 12; s := qr s 2 7 8 13; s := qr s 3 4 9 14
  let out := (List.range 16).map (fun i => s[i]! + init[i]!)
  return out.flatMap bytesLE32

def keystream (key nonce : Bytes) (counter : Nat) (len : Nat) : Bytes :=
  ((List.range ((len + 63) / 64)).flatMap (fun i => chachaBlock key nonce (UInt32.ofNat (counter + i)))).take len

/-- xor `data` with a key stream, byte `i` with `ks[i]` (0 if the stream were too short — it
    never is: `keystream` yields exactly `len` bytes; that fact is validated by the RFC vectors
    and the correspondence check, it is not needed for the round-trip theorem) -/
def xorWith (ks : Bytes) : Nat → Bytes → Bytes
  | _, [] => []
  | i, b :: bs => (b ^^^ ks.getD i 0) :: xorWith ks (i + 1) bs

def chachaXor (key nonce : Bytes) (counter : Nat) (data : Bytes) : Bytes :=
  xorWith (keystream key nonce counter data.length) 0 data

/-! ### Poly1305 and the AEAD construction -/
def leNat (bs : Bytes) : Nat := bs.foldr (fun b acc => b.toNat + 256 * acc) 0
def natLE (n : Nat) (len : Nat) : Bytes := (List.range len).map (fun i => UInt8.ofNat ((n >>> (8*i)) % 256))

def chunks16 : Bytes → List Bytes
  | [] => []
  | bs => if h : bs.length ≤ 16 then [bs] else bs.take 16 :: chunks16 (bs.drop 16)
termination_by bs => bs.length
decreasing_by simp_all; omega

def poly1305 (otk msg : Bytes) : Bytes :=
  let r := leNat (otk.take 16) &&& 0x0ffffffc0ffffffc0ffffffc0fffffff
  let s := leNat (otk.drop 16)
  let p := 2^130 - 5
  let acc := (chunks16 msg).foldl (fun acc blk => ((acc + leNat (blk ++ [1])) * r) % p) 0
  natLE ((acc + s) % 2^128) 16

def pad16 (n : Nat) : Bytes := List.replicate ((16 - n % 16) % 16) 0

def aeadTag (key nonce aad ct : Bytes) : Bytes :=
  let otk := (chachaBlock key nonce 0).take 32
  poly1305 otk (aad ++ pad16 aad.length ++ ct ++ pad16 ct.length ++ natLE aad.length 8 ++ natLE ct.length 8)

def aeadSeal (key nonce aad pt : Bytes) : Bytes :=
  let ct := chachaXor key nonce 1 pt
  ct ++ aeadTag key nonce aad ct

def aeadOpen (key nonce aad sealed : Bytes) : Option Bytes :=
  if sealed.length < 16 then none else
  let ct := sealed.take (sealed.length - 16)
  let tag := sealed.drop (sealed.length - 16)
  if aeadTag key nonce aad ct = tag then some (chachaXor key nonce 1 ct) else none

/-! ### The TaskChampion envelope -/
def uuidBytes (u : Nat) : Bytes := (List.range 16).reverse.map (fun i => UInt8.ofNat ((u >>> (8*i)) % 256))
def aadOf (vid : Nat) : Bytes := UInt8.ofNat Facts.taskAppId :: uuidBytes vid

def deriveKey (secret salt : Bytes) : Bytes := pbkdf2 secret salt Facts.pbkdf2Iterations 32

def sealEnv (key nonce : Bytes) (vid : Nat) (pt : Bytes) : Bytes :=
  UInt8.ofNat Facts.envelopeVersion :: (nonce ++ aeadSeal key nonce (aadOf vid) pt)

inductive UnsealError | tooSmall | badVersion (v : UInt8) | openFailed
deriving Repr

def unsealEnv (key : Bytes) (vid : Nat) (env : Bytes) : Except UnsealError Bytes :=
  if env.length ≤ 13 then .error .tooSmall else
  match env with
  | v :: rest =>
    if v ≠ UInt8.ofNat Facts.envelopeVersion then .error (.badVersion v) else
    match aeadOpen key (rest.take 12) (aadOf vid) (rest.drop 12) with
    | some pt => .ok pt
    | none => .error .openFailed
  | [] => .error .tooSmall

/-! ### hex helpers and tests (tests, not proofs) -/
def hexDigit (c : Char) : Nat :=
  if c.isDigit then c.toNat - 48 else if 'a' ≤ c ∧ c ≤ 'f' then c.toNat - 87 else c.toNat - 55
partial def unhexAux : List Char → Bytes
  | a :: b :: rest => UInt8.ofNat (16 * hexDigit a + hexDigit b) :: unhexAux rest
  | _ => []
def unhex (s : String) : Bytes := unhexAux (s.toList.filter (fun c => c ≠ ' ' ∧ c ≠ ':'))
def hex (bs : Bytes) : String :=
  String.ofList (bs.flatMap (fun b => let d := "0123456789abcdef".toList; [d[b.toNat / 16]!, d[b.toNat % 16]!]))

end Tc.Crypto
