import TcVerif.Model.SyncOp
import TcVerif.Generated.Facts
/-!
# One replica: `taskdb/{apply,mod,undo,working_set}.rs`, `replica.rs` (commit, undo, rebuild, expire)

State = what `StorageTxn` exposes (`StoreSpec`, DESIGN Appendix E): tasks, the operation log with
synced flags, the working set vector (slot 0 empty, no trailing `none`), the base version.
Every replica action is one storage transaction, modelled as a pure function of the state.
-/
namespace Tc

/-- `Operation` (src/operation.rs) — with the information kept for undo.  `old` of `delete` is the
    task map as a key-sorted association list. -/
inductive Op where
  | create (u : Nat)
  | delete (u : Nat) (old : List (String × String))
  | update (u : Nat) (k : String) (old v : Option String) (ts : Int)
  | undoPoint
deriving DecidableEq, Repr, Inhabited

/-- `SyncOp::from_op` -/
def Op.toSync : Op → Option SyncOp
  | .create u => some (.create u)
  | .delete u _ => some (.delete u)
  | .update u k _ v ts => some (.update u k v ts)
  | .undoPoint => none

def Op.uuid? : Op → Option Nat
  | .create u => some u | .delete u _ => some u | .update u _ _ _ _ => some u | .undoPoint => none

def Op.isUndoPoint : Op → Bool
  | .undoPoint => true | _ => false

/-- the documented effect of one local operation (storage.md): invalid operations change nothing -/
def applyLocal (db : DB) (o : Op) : DB := applyO db o.toSync

structure RState where
  tasks : DB
  ops : List (Bool × Op)
  ws : List (Option Nat)
  base : Nat

def RState.empty : RState := { tasks := emptyDB, ops := [], ws := [none], base := 0 }

def RState.unsynced (st : RState) : List Op := (st.ops.filter (fun p => !p.1)).map (·.2)

/-! ### `apply_operations` with its write cache -/

/-- cache entry: `none` = vacant, `some none` = known absent, `some (some t)` = pending write -/
abbrev Cache := Nat → Option (Option TaskMap)

def setCache (c : Cache) (u : Nat) (x : Option (Option TaskMap)) : Cache :=
  fun u' => if u' = u then x else c u'

/-- `flush_cache(uuid)`: write a pending map, drop the entry -/
def flush (db : DB) (c : Cache) (u : Nat) : DB × Cache :=
  match c u with
  | some (some t) => (setTask db u (some t), setCache c u none)
  | _ => (db, setCache c u none)

/-- one iteration of the loop in `apply_operations`, over the storage calls
    `get_task / set_task / create_task / delete_task` -/
def cstep (s : DB × Cache) : Op → DB × Cache
  | .create u =>
      let (db, c) := flush s.1 s.2 u
      (match db u with | some _ => db | none => setTask db u (some emptyTask), c)
  | .delete u _ => (setTask s.1 u none, setCache s.2 u (some none))
  | .update u k _ v _ =>
      let c := match s.2 u with | none => setCache s.2 u (some (s.1 u)) | some _ => s.2
      match c u with
      | some (some t) => (s.1, setCache c u (some (some (setProp t k v))))
      | _ => (s.1, c)
  | .undoPoint => s

/-- final "flush any remaining tasks" -/
def flushAll (s : DB × Cache) : DB :=
  fun u => match s.2 u with | some (some t) => some t | _ => s.1 u

def applyCached (db : DB) (ops : List Op) : DB :=
  flushAll (ops.foldl cstep (db, fun _ => none))

/-! ### working set storage calls (StoreSpec) -/

def stripTrailing : List (Option Nat) → List (Option Nat)
  | [] => []
  | e :: es => match stripTrailing es, e with
      | [], none => []
      | r, e => e :: r

/-- normalize: slot 0 stays, trailing `none`s after it go -/
def wsNormalize : List (Option Nat) → List (Option Nat)
  | [] => [none]
  | e :: es => e :: stripTrailing es

/-- `set_working_set_item` (in range) -/
def wsSet (ws : List (Option Nat)) (i : Nat) (x : Option Nat) : List (Option Nat) :=
  wsNormalize (ws.set i x)

/-- `add_to_working_set` -/
def wsAdd (ws : List (Option Nat)) (u : Nat) : List (Option Nat) := ws ++ [some u]

/-! ### `Replica::commit_operations` / `TaskDb::commit_operations` -/

def isPendingOrRecurring (v : Option String) : Bool :=
  v == some "pending" || v == some "recurring"

/-- the `add_to_working_set` closure of `Replica::commit_operations` -/
def addsToWs : Op → Option Nat
  | .update u k old v _ => if k = "status" ∧ !isPendingOrRecurring old ∧ isPendingOrRecurring v then some u else none
  | _ => none

def wsAddMissing (ws : List (Option Nat)) : List Nat → List (Option Nat)
  | [] => ws
  | u :: us => if ws.contains (some u) then wsAddMissing ws us else wsAddMissing (wsAdd ws u) us

def commitOps (st : RState) (ops : List Op) : RState :=
  if ops = [] then st
  else
    { st with tasks := applyCached st.tasks ops,
              ws := wsAddMissing st.ws (ops.filterMap addsToWs),
              ops := st.ops ++ ops.map (fun o => (false, o)) }

/-! ### undo -/

/-- `get_undo_operations`: from the last undo point (inclusive) to the end, or everything unsynced -/
def lastUndoSuffix (l : List Op) : List Op :=
  match l.reverse.findIdx? Op.isUndoPoint with
  | some i => l.drop (l.length - 1 - i)
  | none => l

def getUndoOps (st : RState) : List Op := lastUndoSuffix st.unsynced

/-- `apply_op`: strict application, an invalid operation is an error -/
def applyStrict (db : DB) : SyncOp → Option DB
  | .create u => if (db u).isNone then some (setTask db u (some emptyTask)) else none
  | .delete u => if (db u).isSome then some (setTask db u none) else none
  | .update u k v _ => match db u with
      | some t => some (setTask db u (some (setProp t k v)))
      | none => none

def applyStrictL (db : DB) : List SyncOp → Option DB
  | [] => some db
  | o :: os => (applyStrict db o).bind (fun db' => applyStrictL db' os)

/-- `reverse_ops` -/
def reverseOp : Op → List SyncOp
  | .create u => [.delete u]
  | .delete u old => .create u :: old.map (fun kv => .update u kv.1 (some kv.2) 0)
  | .update u k old _ ts => [.update u k old ts]
  | .undoPoint => []

inductive UndoResult where
  | done (st : RState) (applied : Bool)   -- Ok(applied); state committed iff the tail matched
  | error                                  -- Err(_): transaction dropped, state unchanged

/-- `commit_reversed_operations` at the TaskDb level (no working-set rebuild) -/
def commitReversed (st : RState) (undo : List Op) : UndoResult :=
  if undo = [] then .done st false
  else
    let loc := st.unsynced
    if undo.length ≤ loc.length ∧ loc.drop (loc.length - undo.length) = undo then
      match applyStrictL st.tasks (undo.reverse.flatMap reverseOp) with
      | none => .error
      | some db =>
        .done { st with tasks := db, ops := st.ops.take (st.ops.length - undo.length) }
              (decide ((undo.flatMap reverseOp) ≠ []))
    else .done st false

/-! ### working-set rebuild (`taskdb/working_set.rs`, after repairs F7/F8) -/

def inWorkingSet (t : TaskMap) : Bool := isPendingOrRecurring (t "status")

def memWs (db : DB) (u : Nat) : Bool :=
  match db u with | some t => inWorkingSet t | none => false

def keepWs (db : DB) (e : Option Nat) : Option Nat :=
  match e with
  | some u => if memWs db u then some u else none
  | none => none

/-- the working set as stored after `rebuild` (slot 0 prepended).  `old` is the stored vector
    (slot 0 included), `all` the storage's enumeration of all task uuids.  Not renumbering: every
    entry is kept in place or blanked, the trailing blanks are trimmed by the storage, newcomers are
    appended.  Renumbering: the surviving entries are compacted, newcomers appended. -/
def rebuildSpec (db : DB) (renumber : Bool) (old : List (Option Nat)) (all : List Nat) : List (Option Nat) :=
  let survivors := old.tail.filterMap (keepWs db)
  let scanned := if renumber then survivors.map some else stripTrailing (old.tail.map (keepWs db))
  none :: (scanned ++ (all.filter (fun u => memWs db u && !old.tail.contains (some u))).map some)

def rebuildWs (st : RState) (renumber : Bool) (all : List Nat) : RState :=
  { st with ws := rebuildSpec st.tasks renumber st.ws all }

/-! ### `Replica::expire_tasks` -/

def parseI64 (s : String) : Option Int :=
  let cs := s.toList
  let (neg, ds) := match cs with
    | '-' :: r => (true, r)
    | '+' :: r => (false, r)
    | r => (false, r)
  if ds = [] ∨ ¬ ds.all Char.isDigit then none
  else
    let n : Nat := ds.foldl (fun a c => a * 10 + (c.toNat - 48)) 0
    let v : Int := if neg then -(n : Int) else n
    if -9223372036854775808 ≤ v ∧ v ≤ 9223372036854775807 then some v else none

/-- chrono's representable seconds (`DateTime::from_timestamp(s, 0).is_some()`) -/
def chronoRange (s : Int) : Bool := decide (-8334601228800 ≤ s ∧ s ≤ 8210266876799)

/-- the expiry predicate; `now` in nanoseconds since the epoch -/
def expired (now : Int) (t : TaskMap) : Bool :=
  t "status" == some "deleted" &&
  match t "modified" with
  | none => false
  | some m => match parseI64 m with
    | none => false
    | some s => chronoRange s && decide (s * 1000000000 < now - (Facts.expiryDays : Int) * 86400 * 1000000000)

end Tc
