import TcVerif.Model.Replica
/-!
# Prelude of the source translation (`tools/translate_src.py` → `Generated/Src.lean`)

What the translated Rust refers to and is not itself translated — the trusted part of the translator
next to its parser:

* `ROrd` — Rust's derived `Ord` as far as the translated functions use it: integers (timestamps are
  `DateTime<Utc>`, compared as instants), `String` (byte-wise = code-point-wise for UTF-8),
  `Option<T>` (`None < Some _`), pairs (lexicographic);
* `Status` — `src/task/status.rs`'s enum (the model proper keeps statuses as strings).
-/
namespace Tc.Src

class ROrd (α : Type) where
  rcmp : α → α → Ordering

instance : ROrd Int := ⟨fun a b => if a < b then .lt else if b < a then .gt else .eq⟩
instance : ROrd String := ⟨fun a b => if a < b then .lt else if b < a then .gt else .eq⟩
instance {α : Type} [ROrd α] : ROrd (Option α) := ⟨fun a b =>
  match a, b with
  | none, none => .eq
  | none, some _ => .lt
  | some _, none => .gt
  | some x, some y => ROrd.rcmp x y⟩
instance {α β : Type} [ROrd α] [ROrd β] : ROrd (α × β) := ⟨fun a b =>
  match ROrd.rcmp a.1 b.1 with
  | .eq => ROrd.rcmp a.2 b.2
  | o => o⟩

inductive Status where
  | pending | completed | deleted | recurring
  | unknown (s : String)
deriving DecidableEq, Repr

end Tc.Src
