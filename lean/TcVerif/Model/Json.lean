import TcVerif.Model.SyncOp
/-!
# Wire format (`serde_json` output of `Version { operations }`, `SyncOp`, snapshot map)

Printer: the exact bytes the implementation emits (DESIGN Appendix D, measured on the pinned
dependencies): compact, struct fields in declaration order, enum as `{"Variant":{…}}`,
`None` as `null`, strings with serde_json's escaping, timestamps as chrono's RFC 3339 `Z`
rendering with 0/3/6/9 fraction digits, uuids hyphenated lower-case.
-/
namespace Tc.Json

def hexDigitChar (n : Nat) : Char :=
  if n < 10 then Char.ofNat (48 + n) else Char.ofNat (87 + n)

def hexVal (c : Char) : Option Nat :=
  if '0' ≤ c ∧ c ≤ '9' then some (c.toNat - 48)
  else if 'a' ≤ c ∧ c ≤ 'f' then some (c.toNat - 87)
  else if 'A' ≤ c ∧ c ≤ 'F' then some (c.toNat - 55)
  else none

/-- serde_json's escaping of one character -/
def escChar (c : Char) : List Char :=
  if c = '"' then ['\\', '"']
  else if c = '\\' then ['\\', '\\']
  else if c = '\x08' then ['\\', 'b']
  else if c = '\t' then ['\\', 't']
  else if c = '\n' then ['\\', 'n']
  else if c = '\x0c' then ['\\', 'f']
  else if c = '\r' then ['\\', 'r']
  else if c.toNat < 0x20 then ['\\', 'u', '0', '0', hexDigitChar (c.toNat / 16), hexDigitChar (c.toNat % 16)]
  else [c]

def printBody (s : List Char) : List Char := s.flatMap escChar

def printString (s : String) : List Char := '"' :: (printBody s.toList ++ ['"'])

/-- `n` as exactly `w` hex digits (most significant first) -/
def hexFixed : Nat → Nat → List Char
  | 0, _ => []
  | w + 1, n => hexFixed w (n / 16) ++ [hexDigitChar (n % 16)]

/-- `n` as exactly `w` decimal digits -/
def decFixed : Nat → Nat → List Char
  | 0, _ => []
  | w + 1, n => decFixed w (n / 10) ++ [Char.ofNat (48 + n % 10)]

/-- hyphenated lower-case uuid of a 128-bit value -/
def printUuid (u : Nat) : List Char :=
  let h := hexFixed 32 u
  h.take 8 ++ ['-'] ++ (h.drop 8).take 4 ++ ['-'] ++ (h.drop 12).take 4 ++ ['-'] ++
    (h.drop 16).take 4 ++ ['-'] ++ h.drop 20

/-- civil date from days since 1970-01-01 (proleptic Gregorian) -/
def civilFromDays (days : Int) : Int × Nat × Nat :=
  let z := days + 719468
  let era := z / 146097
  let doe := (z - era * 146097).toNat
  let yoe := (doe - doe / 1460 + doe / 36524 - doe / 146096) / 365
  let y : Int := (yoe : Int) + era * 400
  let doy := doe - (365 * yoe + yoe / 4 - yoe / 100)
  let mp := (5 * doy + 2) / 153
  let d := doy - (153 * mp + 2) / 5 + 1
  let m := if mp < 10 then mp + 3 else mp - 9
  (if m ≤ 2 then y + 1 else y, m, d)

/-- chrono's serde rendering of a `DateTime<Utc>` (nanoseconds since the epoch); years
    0000–9999 only (the generators stay inside, see DESIGN Appendix D) -/
def printTimestamp (ns : Int) : List Char :=
  let secs := ns / 1000000000
  let nanos := (ns % 1000000000).toNat
  let days := secs / 86400
  let sod := (secs % 86400).toNat
  let (y, m, d) := civilFromDays days
  let frac : List Char :=
    if nanos = 0 then []
    else if nanos % 1000000 = 0 then '.' :: decFixed 3 (nanos / 1000000)
    else if nanos % 1000 = 0 then '.' :: decFixed 6 (nanos / 1000)
    else '.' :: decFixed 9 nanos
  decFixed 4 y.toNat ++ ['-'] ++ decFixed 2 m ++ ['-'] ++ decFixed 2 d ++ ['T'] ++
    decFixed 2 (sod / 3600) ++ [':'] ++ decFixed 2 (sod / 60 % 60) ++ [':'] ++ decFixed 2 (sod % 60) ++
    frac ++ ['Z']

def lit (s : String) : List Char := s.toList

def printOp : SyncOp → List Char
  | .create u => lit "{\"Create\":{\"uuid\":\"" ++ printUuid u ++ lit "\"}}"
  | .delete u => lit "{\"Delete\":{\"uuid\":\"" ++ printUuid u ++ lit "\"}}"
  | .update u k v ts =>
      lit "{\"Update\":{\"uuid\":\"" ++ printUuid u ++ lit "\",\"property\":" ++ printString k ++
      lit ",\"value\":" ++ (match v with | none => lit "null" | some s => printString s) ++
      lit ",\"timestamp\":\"" ++ printTimestamp ts ++ lit "\"}}"

def intercalate (sep : List Char) : List (List Char) → List Char
  | [] => []
  | [x] => x
  | x :: xs => x ++ sep ++ intercalate sep xs

def printVersion (ops : List SyncOp) : List Char :=
  lit "{\"operations\":[" ++ intercalate [','] (ops.map printOp) ++ lit "]}"

def utf8Len (cs : List Char) : Nat := cs.foldl (fun n c => n + c.utf8Size) 0

/-- the number `sync` adds up per operation: `serde_json::to_string(&op).len()` -/
def opSize (o : SyncOp) : Nat := utf8Len (printOp o)

end Tc.Json
