import TcVerif.Model.Replica
/-!
# The task model: `task/task.rs`, `task/data.rs`, `task/tag.rs`, `task/status.rs`, `depmap.rs`

Task maps are finite maps here (`TMap`, association lists with unique keys) because accessors
enumerate keys (tags, annotations, dependencies, UDAs).  Enumeration order (hash-map order) is not
modelled: every enumerated result is a list the driver prints sorted.

`now` (seconds) is a parameter of every mutator that reads the clock.
-/
namespace Tc

abbrev TMap := List (String × String)

def TMap.get (m : TMap) (k : String) : Option String := (m.find? (·.1 == k)).map (·.2)

def TMap.set (m : TMap) (k : String) (v : Option String) : TMap :=
  let rest := m.filter (·.1 != k)
  match v with
  | some v => rest ++ [(k, v)]
  | none => rest

def TMap.has (m : TMap) (k : String) : Bool := (m.get k).isSome

/-! ### reading -/

/-- Rust `char::is_whitespace` (Unicode White_Space) -/
def isRustWhitespace (c : Char) : Bool :=
  let n := c.toNat
  (0x9 ≤ n && n ≤ 0xD) || n == 0x20 || n == 0x85 || n == 0xA0 || n == 0x1680 ||
  (0x2000 ≤ n && n ≤ 0x200A) || n == 0x2028 || n == 0x2029 || n == 0x202F || n == 0x205F || n == 0x3000

def syntheticTags : List String :=
  ["WAITING", "ACTIVE", "PENDING", "COMPLETED", "DELETED", "BLOCKED", "UNBLOCKED", "BLOCKING"]

inductive TagKind where
  | user (s : String)
  | synthetic (s : String)
deriving DecidableEq, Repr

/-- `Tag::from_str` -/
def parseTag (s : String) : Option TagKind :=
  let cs := s.toList
  if cs.all (fun c => 'A' ≤ c ∧ c ≤ 'Z') then
    if syntheticTags.contains s then some (.synthetic s) else none
  else
    match cs with
    | [] => none
    | c :: rest =>
      if isRustWhitespace c || c.isDigit || "+-*/()<>^!%=~".toList.contains c then none
      else if rest.all (fun c => !(isRustWhitespace c || c == ':')) then some (.user s)
      else none

def hexNat? (cs : List Char) : Option Nat :=
  cs.foldl (fun acc c => match acc with
    | none => none
    | some n =>
      if '0' ≤ c ∧ c ≤ '9' then some (n * 16 + (c.toNat - 48))
      else if 'a' ≤ c ∧ c ≤ 'f' then some (n * 16 + (c.toNat - 87))
      else if 'A' ≤ c ∧ c ≤ 'F' then some (n * 16 + (c.toNat - 55))
      else none) (some 0)

/-- `Uuid::parse_str`: 32 hex digits; 8-4-4-4-12 hyphenated; hyphenated in braces; hyphenated with
    `urn:uuid:` prefix (DESIGN Appendix D) -/
def parseUuidStr (s : String) : Option Nat :=
  let cs := s.toList
  let hyph (cs : List Char) : Option Nat :=
    if cs.length = 36 ∧ cs.getD 8 ' ' = '-' ∧ cs.getD 13 ' ' = '-' ∧ cs.getD 18 ' ' = '-' ∧ cs.getD 23 ' ' = '-' then
      let h := (cs.take 8) ++ ((cs.drop 9).take 4) ++ ((cs.drop 14).take 4) ++ ((cs.drop 19).take 4) ++ (cs.drop 24)
      if h.length = 32 then hexNat? h else none
    else none
  if cs.length = 32 then hexNat? cs
  else if cs.length = 36 then hyph cs
  else if cs.length = 38 ∧ cs.head? = some '{' ∧ cs.getLast? = some '}' then hyph ((cs.drop 1).take 36)
  else if cs.length = 45 ∧ "urn:uuid:".toList.isPrefixOf cs then hyph (cs.drop 9)
  else none

/-- a stored integer that is a representable time (`get_timestamp` after repair F10) -/
def parseTimestampProp (v : String) : Option Int :=
  match parseI64 v with
  | some s => if chronoRange s then some s else none
  | none => none

def propNames : List String :=
  ["description", "due", "modified", "start", "status", "priority", "wait", "end", "entry"]

/-- `Task::is_known_key` -/
def isKnownKey (k : String) : Bool :=
  propNames.contains k || k.startsWith "tag_" || k.startsWith "annotation_" || k.startsWith "dep_"

def stripPrefix? (p : String) (s : String) : Option String :=
  if s.startsWith p then some (s.drop p.length).toString else none

structure TaskObj where
  uuid : Nat
  map : TMap
  updatedModified : Bool := false

def TaskObj.status (t : TaskObj) : String :=
  match t.map.get "status" with
  | none => "pending"
  | some s => if ["pending", "completed", "deleted", "recurring"].contains s then s else "unknown:" ++ s

def TaskObj.timestamp (t : TaskObj) (k : String) : Option Int := (t.map.get k).bind parseTimestampProp

def TaskObj.isWaiting (t : TaskObj) (now : Int) : Bool :=
  match t.timestamp "wait" with
  | some w => decide (w > now)
  | none => false

def TaskObj.isActive (t : TaskObj) : Bool := t.map.has "start"

/-- user tags: every `tag_<t>` key whose `<t>` is a valid tag (kept even when `<t>` names a
    synthetic tag, as `Tag::from_str` accepts those) -/
def TaskObj.keyTags (t : TaskObj) : List TagKind :=
  t.map.filterMap fun kv => (stripPrefix? "tag_" kv.1).bind parseTag

/-- synthetic tags that do not need the dependency map -/
def TaskObj.syntheticNoDeps (t : TaskObj) (now : Int) : List String :=
  (if t.isWaiting now then ["WAITING"] else []) ++ (if t.isActive then ["ACTIVE"] else []) ++
  (if t.status == "pending" then ["PENDING"] else []) ++ (if t.status == "completed" then ["COMPLETED"] else []) ++
  (if t.status == "deleted" then ["DELETED"] else [])

def TaskObj.annotations (t : TaskObj) : List (Int × String) :=
  t.map.filterMap fun kv => ((stripPrefix? "annotation_" kv.1).bind parseTimestampProp).map fun s => (s, kv.2)

def TaskObj.udas (t : TaskObj) : List (String × String) := t.map.filter fun kv => !isKnownKey kv.1

def TaskObj.uda (t : TaskObj) (k : String) : Option String := if isKnownKey k then none else t.map.get k

def TaskObj.dependencies (t : TaskObj) : List Nat :=
  t.map.filterMap fun kv => (stripPrefix? "dep_" kv.1).bind parseUuidStr

/-! ### writing (each returns the new object and the operations appended to `ops`) -/

def natStr (i : Int) : String := toString i

/-- `TaskData::update` -/
def TaskObj.dataUpdate (t : TaskObj) (k : String) (v : Option String) (ts : Int) : TaskObj × List Op :=
  ({ t with map := t.map.set k v }, [.update t.uuid k (t.map.get k) v ts])

/-- `Task::set_value`: refresh `modified` once per object unless it is the property being set -/
def TaskObj.stamp (t : TaskObj) (now : Int) (k : String) : TaskObj × List Op :=
  if k ≠ "modified" ∧ !t.updatedModified then t.dataUpdate "modified" (some (natStr now)) now else (t, [])

def TaskObj.touched (t : TaskObj) : TaskObj := { t with updatedModified := true }

def TaskObj.setValue (t : TaskObj) (now : Int) (k : String) (v : Option String) : TaskObj × List Op :=
  (((t.stamp now k).1.touched.dataUpdate k v now).1,
   (t.stamp now k).2 ++ ((t.stamp now k).1.touched.dataUpdate k v now).2)

def TaskObj.setTimestamp (t : TaskObj) (now : Int) (k : String) (v : Option Int) : TaskObj × List Op :=
  t.setValue now k (v.map natStr)

/-- the `end` part of `Task::set_status` -/
def TaskObj.endStep (t : TaskObj) (now : Int) (status : String) : TaskObj × List Op :=
  if (status == "pending" || status == "recurring") && t.map.has "end" then t.setTimestamp now "end" none
  else if (status == "completed" || status == "deleted") && !t.map.has "end" then t.setTimestamp now "end" (some now)
  else (t, [])

/-- `Task::set_status` with the `end` rule -/
def TaskObj.setStatus (t : TaskObj) (now : Int) (status : String) : TaskObj × List Op :=
  (((t.endStep now status).1.setValue now "status" (some status)).1,
   (t.endStep now status).2 ++ ((t.endStep now status).1.setValue now "status" (some status)).2)

def TaskObj.start (t : TaskObj) (now : Int) : TaskObj × List Op :=
  if t.isActive then (t, []) else t.setTimestamp now "start" (some now)

inductive MutResult where
  | ok (t : TaskObj) (ops : List Op)
  | usage                      -- Err(Error::Usage(_)), nothing recorded

def TaskObj.addTag (t : TaskObj) (now : Int) (tag : TagKind) (add : Bool) : MutResult :=
  match tag with
  | .synthetic _ => .usage
  | .user s => let (t', ops) := t.setValue now ("tag_" ++ s) (if add then some "" else none); .ok t' ops

def TaskObj.setUda (t : TaskObj) (now : Int) (k : String) (v : Option String) : MutResult :=
  if isKnownKey k then .usage else let (t', ops) := t.setValue now k v; .ok t' ops

/-- hyphenated lower-case rendering of a uuid value (`format!("dep_{dep}")`) -/
def uuidStr (u : Nat) : String := String.ofList (Json.printUuidChars u)
where
  Json.printUuidChars (u : Nat) : List Char :=
    let hexd (n : Nat) : Char := if n < 10 then Char.ofNat (48 + n) else Char.ofNat (87 + n)
    let rec go : Nat → Nat → List Char
      | 0, _ => []
      | w + 1, n => go w (n / 16) ++ [hexd (n % 16)]
    let h := go 32 u
    h.take 8 ++ ['-'] ++ (h.drop 8).take 4 ++ ['-'] ++ (h.drop 12).take 4 ++ ['-'] ++ (h.drop 16).take 4 ++ ['-'] ++ h.drop 20

/-! ### dependency map (`Replica::dependency_map`) -/

/-- edges (a, b): a is in the working set and stored, has a key `dep_<b>` that parses, and b is
    stored with status exactly `pending` -/
def depEdges (ws : List (Option Nat)) (tasks : Nat → Option TMap) : List (Nat × Nat) :=
  (ws.drop 1).filterMap id |>.flatMap fun a =>
    match tasks a with
    | none => []
    | some m =>
      (m.filterMap fun kv => (stripPrefix? "dep_" kv.1).bind parseUuidStr).filterMap fun b =>
        match tasks b with
        | some mb => if mb.get "status" == some "pending" then some (a, b) else none
        | none => none

end Tc
