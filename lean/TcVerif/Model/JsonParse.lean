import TcVerif.Model.Json
/-!
# Reader for the documented wire format (`docs/src/sync-protocol.md`, `storage.md`)

A generic JSON reader (any field order, insignificant whitespace, all string escapes including
`\uXXXX` surrogate pairs) followed by the interpretation of the documented shapes:
`{"operations":[ {"Create":{"uuid":…}} | {"Delete":{"uuid":…}} |
{"Update":{"uuid":…,"property":…,"value":…|null,"timestamp":RFC 3339} … ]}`.
Unknown fields are ignored, duplicate or missing required fields are rejected.
Timestamps: any number of fraction digits (beyond nine dropped), `Z`/`z` or a numeric offset.
-/
namespace Tc.Json

inductive JVal where
  | null
  | bool (b : Bool)
  | num (s : List Char)
  | str (s : List Char)
  | arr (l : List JVal)
  | obj (l : List (List Char × JVal))
deriving Inhabited

def isWs (c : Char) : Bool := c = ' ' || c = '\n' || c = '\r' || c = '\t'

def skipWs : List Char → List Char
  | [] => []
  | c :: cs => if isWs c then skipWs cs else c :: cs

def hex4 (a b c d : Char) : Option Nat :=
  match hexVal a, hexVal b, hexVal c, hexVal d with
  | some a, some b, some c, some d => some (((a * 16 + b) * 16 + c) * 16 + d)
  | _, _, _, _ => none

/-- parse the inside of a string literal up to and including the closing quote -/
def parseBody : List Char → Option (List Char × List Char)
  | [] => none
  | '"' :: rest => some ([], rest)
  | '\\' :: 'u' :: a :: b :: c :: d :: rest =>
      match hex4 a b c d with
      | some n =>
          if 0xD800 ≤ n ∧ n ≤ 0xDBFF then
            -- high surrogate: a low surrogate escape must follow
            match rest with
            | '\\' :: 'u' :: a' :: b' :: c' :: d' :: rest' =>
              match hex4 a' b' c' d' with
              | some m =>
                if 0xDC00 ≤ m ∧ m ≤ 0xDFFF then
                  (parseBody rest').map (fun (s, r) => (Char.ofNat (0x10000 + (n - 0xD800) * 0x400 + (m - 0xDC00)) :: s, r))
                else none
              | none => none
            | _ => none
          else if 0xDC00 ≤ n ∧ n ≤ 0xDFFF then none
          else (parseBody rest).map (fun (s, r) => (Char.ofNat n :: s, r))
      | none => none
  | '\\' :: e :: rest =>
      let ch : Option Char :=
        if e = '"' then some '"' else if e = '\\' then some '\\' else if e = '/' then some '/'
        else if e = 'b' then some '\x08' else if e = 'f' then some '\x0c' else if e = 'n' then some '\n'
        else if e = 'r' then some '\r' else if e = 't' then some '\t' else none
      match ch with
      | some ch => (parseBody rest).map (fun (s, r) => (ch :: s, r))
      | none => none
  | c :: rest =>
      if c.toNat < 0x20 then none
      else (parseBody rest).map (fun (s, r) => (c :: s, r))

def isNumChar (c : Char) : Bool :=
  c.isDigit || c = '-' || c = '+' || c = '.' || c = 'e' || c = 'E'

def spanNum : List Char → List Char × List Char
  | [] => ([], [])
  | c :: cs => if isNumChar c then let (a, b) := spanNum cs; (c :: a, b) else ([], c :: cs)

def dropPrefix (p : List Char) (cs : List Char) : Option (List Char) :=
  if p.isPrefixOf cs then some (cs.drop p.length) else none

mutual
/-- `fuel` bounds the nesting/length; callers pass the input length + 1 -/
def parseValue : Nat → List Char → Option (JVal × List Char)
  | 0, _ => none
  | fuel + 1, cs =>
    match skipWs cs with
    | [] => none
    | '"' :: rest => (parseBody rest).map fun (s, r) => (.str s, r)
    | '[' :: rest =>
      match skipWs rest with
      | ']' :: r => some (.arr [], r)
      | rest' => (parseElems fuel rest').map fun (l, r) => (.arr l, r)
    | '{' :: rest =>
      match skipWs rest with
      | '}' :: r => some (.obj [], r)
      | rest' => (parseMembers fuel rest').map fun (l, r) => (.obj l, r)
    | c :: rest =>
      if c = 'n' then (dropPrefix ['u','l','l'] rest).map fun r => (.null, r)
      else if c = 't' then (dropPrefix ['r','u','e'] rest).map fun r => (.bool true, r)
      else if c = 'f' then (dropPrefix ['a','l','s','e'] rest).map fun r => (.bool false, r)
      else if c.isDigit || c = '-' then let (a, b) := spanNum (c :: rest); some (.num a, b)
      else none

/-- one or more elements, then `]` -/
def parseElems : Nat → List Char → Option (List JVal × List Char)
  | 0, _ => none
  | fuel + 1, cs =>
    match parseValue fuel cs with
    | none => none
    | some (v, r) =>
      match skipWs r with
      | ',' :: r' => (parseElems fuel r').map fun (l, r'') => (v :: l, r'')
      | ']' :: r' => some ([v], r')
      | _ => none

/-- one or more members, then `}` -/
def parseMembers : Nat → List Char → Option (List (List Char × JVal) × List Char)
  | 0, _ => none
  | fuel + 1, cs =>
    match skipWs cs with
    | '"' :: rest =>
      match parseBody rest with
      | none => none
      | some (k, r) =>
        match skipWs r with
        | ':' :: r' =>
          match parseValue fuel r' with
          | none => none
          | some (v, r'') =>
            match skipWs r'' with
            | ',' :: r3 => (parseMembers fuel r3).map fun (l, r4) => ((k, v) :: l, r4)
            | '}' :: r3 => some ([(k, v)], r3)
            | _ => none
        | _ => none
    | _ => none
end

/-- a whole document: one value, then only whitespace -/
def parseDoc (cs : List Char) : Option JVal :=
  match parseValue (cs.length + 1) cs with
  | some (v, r) => if skipWs r = [] then some v else none
  | none => none

/-- the value of the unique member `k` (none if absent or duplicated) -/
def field (k : String) (l : List (List Char × JVal)) : Option JVal :=
  match l.filter (fun p => p.1 = k.toList) with
  | [(_, v)] => some v
  | _ => none

def natOfDigits (cs : List Char) : Option Nat :=
  if cs = [] then none
  else cs.foldl (fun acc c => match acc with
    | some n => if c.isDigit then some (n * 10 + (c.toNat - 48)) else none
    | none => none) (some 0)

def parseHexNat (cs : List Char) : Option Nat :=
  cs.foldl (fun acc c => match acc, hexVal c with
    | some n, some d => some (n * 16 + d)
    | _, _ => none) (some 0)

/-- hyphenated or simple uuid → 128-bit value -/
def parseUuidPlain (cs : List Char) : Option Nat :=
  if cs.length = 36 then
    if cs.getD 8 ' ' = '-' ∧ cs.getD 13 ' ' = '-' ∧ cs.getD 18 ' ' = '-' ∧ cs.getD 23 ' ' = '-' then
      let h := cs.filter (· ≠ '-')
      if h.length = 32 then parseHexNat h else none
    else none
  else if cs.length = 32 then parseHexNat cs
  else none

/-- the forms the `uuid` crate reads: simple, hyphenated, `{hyphenated}`, `urn:uuid:hyphenated` -/
def parseUuid (cs : List Char) : Option Nat :=
  if cs.length = 38 ∧ cs.head? = some '{' ∧ cs.getLast? = some '}' then
    let inner := (cs.drop 1).take 36
    if inner.length = 36 ∧ inner.getD 8 ' ' = '-' then parseUuidPlain inner else none
  else if cs.length = 45 ∧ cs.take 9 = "urn:uuid:".toList then
    let inner := cs.drop 9
    if inner.getD 8 ' ' = '-' then parseUuidPlain inner else none
  else parseUuidPlain cs

def daysFromCivil (y : Int) (m d : Nat) : Int :=
  let y' : Int := if m ≤ 2 then y - 1 else y
  let era := y' / 400
  let yoe := (y' - era * 400).toNat
  let mp := if m > 2 then m - 3 else m + 9
  let doy := (153 * mp + 2) / 5 + d - 1
  let doe := yoe * 365 + yoe / 4 - yoe / 100 + doy
  era * 146097 + (doe : Int) - 719468

def isLeap (y : Nat) : Bool := (y % 4 = 0 && y % 100 ≠ 0) || y % 400 = 0

def daysIn (y m : Nat) : Nat :=
  if m = 2 then (if isLeap y then 29 else 28)
  else if m = 4 ∨ m = 6 ∨ m = 9 ∨ m = 11 then 30 else 31

def spanDigits : List Char → List Char × List Char
  | [] => ([], [])
  | c :: cs => if c.isDigit then let (a, b) := spanDigits cs; (c :: a, b) else ([], c :: cs)

/-- RFC 3339 timestamp → nanoseconds since the epoch (UTC) -/
def parseTimestamp (cs : List Char) : Option Int :=
  -- YYYY-MM-DD
  match natOfDigits (cs.take 4), natOfDigits ((cs.drop 5).take 2), natOfDigits ((cs.drop 8).take 2) with
  | some y, some m, some d =>
    if cs.getD 4 ' ' ≠ '-' ∨ cs.getD 7 ' ' ≠ '-' then none
    else if ¬ (1 ≤ m ∧ m ≤ 12 ∧ 1 ≤ d ∧ d ≤ daysIn y m) then none
    else
      let sep := cs.getD 10 ' '
      if ¬ (sep = 'T' ∨ sep = 't' ∨ sep = ' ') then none
      else
        let t := cs.drop 11
        match natOfDigits (t.take 2), natOfDigits ((t.drop 3).take 2), natOfDigits ((t.drop 6).take 2) with
        | some hh, some mm, some ss =>
          if t.getD 2 ' ' ≠ ':' ∨ t.getD 5 ' ' ≠ ':' then none
          else if ¬ (hh ≤ 23 ∧ mm ≤ 59 ∧ ss ≤ 59) then none
          else
            let rest := t.drop 8
            let (fracDigits, rest) : List Char × List Char :=
              match rest with
              | '.' :: r => spanDigits r
              | r => ([], r)
            if (t.drop 8).head? = some '.' ∧ fracDigits = [] then none
            else
              let nine := (fracDigits ++ List.replicate 9 '0').take 9
              match natOfDigits nine with
              | none => none
              | some nanos =>
                let offSecs : Option Int :=
                  match rest with
                  | ['Z'] => some 0
                  | ['z'] => some 0
                  | [sg, h1, h2, ':', m1, m2] =>
                    match natOfDigits [h1, h2], natOfDigits [m1, m2] with
                    | some oh, some om =>
                      if oh ≤ 23 ∧ om ≤ 59 then
                        if sg = '+' then some ((oh * 3600 + om * 60 : Nat) : Int)
                        else if sg = '-' then some (-((oh * 3600 + om * 60 : Nat) : Int))
                        else none
                      else none
                    | _, _ => none
                  | _ => none
                match offSecs with
                | none => none
                | some off =>
                  let secs : Int := daysFromCivil y m d * 86400 + (hh * 3600 + mm * 60 + ss : Nat) - off
                  some (secs * 1000000000 + nanos)
        | _, _, _ => none
  | _, _, _ => none

def decodeOp : JVal → Option SyncOp
  | .obj [(tag, .obj fs)] =>
    match field "uuid" fs with
    | some (.str u) =>
      match parseUuid u with
      | none => none
      | some u =>
        if tag = "Create".toList then some (.create u)
        else if tag = "Delete".toList then some (.delete u)
        else if tag = "Update".toList then
          -- serde: a missing `value` (an `Option`) reads as null; a repeated one is an error
          let value : Option JVal :=
            match fs.filter (fun p => p.1 = "value".toList) with
            | [] => some .null
            | [(_, v)] => some v
            | _ => none
          match field "property" fs, value, field "timestamp" fs with
          | some (.str p), some v, some (.str t) =>
            match parseTimestamp t with
            | none => none
            | some ts =>
              match v with
              | .null => some (.update u (String.ofList p) none ts)
              | .str s => some (.update u (String.ofList p) (some (String.ofList s)) ts)
              | _ => none
          | _, _, _ => none
        else none
    | _ => none
  | _ => none

def decodeOps : List JVal → Option (List SyncOp)
  | [] => some []
  | v :: vs =>
    match decodeOp v, decodeOps vs with
    | some o, some os => some (o :: os)
    | _, _ => none

/-- a history segment as documented → the operations it lists -/
def decodeVersion (cs : List Char) : Option (List SyncOp) :=
  match parseDoc cs with
  | some (.obj fs) =>
    match field "operations" fs with
    | some (.arr l) => decodeOps l
    | _ => none
  | _ => none

end Tc.Json
