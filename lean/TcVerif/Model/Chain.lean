/-!
# `ChainSpec` — the version-chain protocol every server backend must implement
(`src/server/types.rs`, `docs/src/sync-protocol.md`)

Versions are `(id, parent, bytes)`; ids and parents are `Nat`s (0 = the nil version); payloads are
opaque (the driver uses hex strings).
-/
namespace Tc

structure ChainSrv where
  versions : List (Nat × Nat × String) := []     -- oldest first
  snapshots : List (Nat × String) := []          -- stored snapshots, oldest first

inductive AddResult where
  | ok (id : Nat)
  | expected (latest : Nat)
deriving DecidableEq, Repr

def ChainSrv.latest (s : ChainSrv) : Nat := (s.versions.getLast?.map (·.1)).getD 0

/-- accept iff there is no version yet or the parent is the latest version; `fresh` is the id the
    server invents -/
def ChainSrv.addVersion (s : ChainSrv) (p : Nat) (b : String) (fresh : Nat) : ChainSrv × AddResult :=
  if s.versions = [] ∨ p = s.latest then ({ s with versions := s.versions ++ [(fresh, p, b)] }, .ok fresh)
  else (s, .expected s.latest)

def ChainSrv.getChild (s : ChainSrv) (p : Nat) : Option (Nat × Nat × String) :=
  s.versions.find? (fun v => v.2.1 == p)

def ChainSrv.addSnapshot (s : ChainSrv) (v : Nat) (b : String) : ChainSrv :=
  { s with snapshots := s.snapshots ++ [(v, b)] }

end Tc
