import TcVerif.Generated.SrcTransform
/-!
# Search for a concrete input when the translated `SyncOp::transform` is no longer the model's

Run by `./check` (search phase) when the equivalence theorem of `Proofs/SrcTransform.lean` does not
check although the translation itself succeeded: evaluates both functions on a small grid of operation
pairs and prints, for the first pairs on which they differ and which are valid in a common state,
`hist` cases (both sync orders, one group) that make two real replicas perform exactly those two
operations concurrently.  The harness then runs them on the implementation and the judge decides.
This is a search aid, not a proof.
-/
open Tc

def wOps : List SyncOp :=
  [.create 1, .delete 1, .create 2, .delete 2, .update 2 "p" (some "x") 1000000000] ++
  (["p", "q"].flatMap fun k => [none, some "x", some "y"].flatMap fun v =>
    [1000000000, 2000000000].map fun ts => SyncOp.update 1 k v ts)

def hexOf (s : String) : String :=
  if s.isEmpty then "." else
  String.join (s.toUTF8.toList.map fun b =>
    let d := fun (n : Nat) => Char.ofNat (if n < 10 then 48 + n else 87 + n)
    String.ofList [d (b.toNat / 16), d (b.toNat % 16)])

def opLine (r : Nat) : SyncOp → String
  | .create u => s!"C {r} create {u}"
  | .delete u => s!"C {r} delete {u}"
  | .update u k v ts => s!"C {r} update {u} {hexOf k} {match v with | none => "-" | some s => hexOf s} {ts / 1000000000} 0"

/-- must the task exist (some true), be absent (some false), or is it not mentioned -/
def needs (o : SyncOp) (u : Nat) : Option Bool :=
  if o.uuid ≠ u then none else match o with | .create _ => some false | _ => some true

def commonState (a b : SyncOp) : Option (List Nat) :=
  let us := [1, 2]
  let rec go : List Nat → List Nat → Option (List Nat)
    | [], acc => some acc
    | u :: rest, acc =>
      match needs a u, needs b u with
      | some x, some y => if x = y then go rest (if x then u :: acc else acc) else none
      | some x, none => go rest (if x then u :: acc else acc)
      | none, some y => go rest (if y then u :: acc else acc)
      | none, none => go rest acc
  go us []

def witnessCases : List String := Id.run do
  let mut out : List String := []
  let mut n := 0
  for a in wOps do
    for b in wOps do
      if n < 12 && Src.transform a b != transform a b then
        match commonState a b with
        | none => pure ()
        | some present =>
          n := n + 1
          let setup := ["R 2"] ++ present.map (fun u => s!"C 0 create {u}") ++ ["S 0 0 n", "S 1 0 n", "S 0 0 n"]
          let conc := [opLine 0 a, opLine 1 b]
          out := out ++ [s!"# case srcwitness{n}.ab translated transform differs from the model on this pair group=sw{n}"] ++ setup ++ conc ++
            ["S 0 0 n", "S 1 0 n", "S 0 0 n", "S 1 0 n"]
          out := out ++ [s!"# case srcwitness{n}.ba translated transform differs from the model on this pair group=sw{n}"] ++ setup ++ conc ++
            ["S 1 0 n", "S 0 0 n", "S 1 0 n", "S 0 0 n"]
  return out

#eval IO.println ("\n".intercalate witnessCases)
