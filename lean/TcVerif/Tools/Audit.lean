import Lean
/-!
# `#tc_audit thm₁ thm₂ …`

For each named theorem prints one JSON line: the axioms it depends on (as `#print axioms`
computes them) and the project theorems (`Tc.*`) it transitively uses.  Used by `./check` to
compare axioms with the allow-list and to count proof obligations.
-/
open Lean Elab Command

namespace Tc.Tools

partial def collectDeps (env : Environment) (root : Name) : NameSet := Id.run do
  let mut seen : NameSet := {}
  let mut todo : Array Name := #[root]
  while !todo.isEmpty do
    let n := todo.back!
    todo := todo.pop
    if seen.contains n then continue
    seen := seen.insert n
    match env.find? n with
    | some ci =>
      let consts := ci.type.getUsedConstants ++ (match ci.value? (allowOpaque := true) with
        | some v => v.getUsedConstants
        | none => #[])
      for c in consts do
        if !seen.contains c && (`Tc).isPrefixOf c then
          todo := todo.push c
    | none => pure ()
  return seen

elab "#tc_audit " ids:ident* : command => do
  let env ← getEnv
  for id in ids do
    let n := id.getId
    match env.find? n with
    | none => logInfo m!"AUDIT {n} missing"
    | some ci =>
      let isThm := match ci with | .thmInfo _ => true | _ => false
      let axioms ← Lean.collectAxioms n
      let deps := collectDeps env n
      let thms := deps.toList.filter fun d =>
        match env.find? d with | some (.thmInfo _) => true | _ => false
      let axs := ", ".intercalate (axioms.toList.map fun a => "\"" ++ toString a ++ "\"")
      let ths := ", ".intercalate (thms.map fun a => "\"" ++ toString a ++ "\"")
      logInfo m!"AUDIT \{\"name\": \"{n}\", \"is_theorem\": {isThm}, \"axioms\": [{axs}], \"lemmas\": [{ths}]}"

end Tc.Tools
