import TcVerif.Generated.SrcGetUuid
/-!
# The translated source function is the model's function (`Operation::get_uuid`)

`Generated/SrcGetUuid.lean` is written by `tools/translate_src.py` from /repo's source on every run.  The
theorems here close the gap between it and the hand-written model: whatever is proved about the
model's function is proved about the function the source defines now.
-/
namespace Tc

/-- **the source's `Operation::get_uuid` is the model's `Op.uuid?`** -/
theorem src_getUuid_eq (o : Op) : Src.getUuid o = o.uuid? := by
  cases o <;> rfl

/-- **the source's `Operation::is_undo_point` is the model's `Op.isUndoPoint`** (what decides where an
    undo stops and what is never sent) -/
theorem src_isUndoPoint_eq (o : Op) : Src.isUndoPoint o = o.isUndoPoint := by
  cases o <;> simp [Src.isUndoPoint, Op.isUndoPoint]

end Tc
