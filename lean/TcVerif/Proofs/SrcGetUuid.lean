import TcVerif.Generated.SrcGetUuid
/-!
# The translated source function is the model's function (`Operation::get_uuid`)

`Generated/SrcGetUuid.lean` is written by `tools/translate_src.py` from /repo's source on every run.  The
theorems here close the gap between it and the hand-written model: whatever is proved about the
model's function is proved about the function the source defines now.
-/
namespace Tc

/-- **the source's `Operation::get_uuid` is the model's `Op.uuid?`** -/
theorem src_getUuid_eq (o : Op) : Src.getUuid o = o.uuid? := by
  cases o <;> rfl

end Tc
