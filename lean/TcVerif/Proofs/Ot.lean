import TcVerif.Model.SyncOp
/-!
# Operational-transform lemmas (core Lean only)

`tp1` (transform completes the diamond for operations valid in a common state),
`rebase1_correct`, `rebase_correct` (the double loop of `apply_version`), `transform_symm`,
`self_cancel`.
-/
namespace Tc

/-! ### the value order is a strict total order -/

theorem vlt_asymm (a b : Option String) (h : vlt a b = true) : vlt b a = false := by
  cases a <;> cases b <;> simp_all [vlt]
  exact fun h' => String.lt_asymm h h'

theorem vlt_total (a b : Option String) (h : a ≠ b) : vlt a b = true ∨ vlt b a = true := by
  cases a <;> cases b <;> simp_all [vlt]
  rename_i x y
  rcases Std.lt_trichotomy x y with h' | h' | h'
  · exact Or.inl h'
  · exact absurd h' h
  · exact Or.inr h'

theorem vlt_irrefl (a : Option String) : vlt a a = false := by
  cases a <;> simp [vlt, String.lt_irrefl]

theorem vlt_trans (a b c : Option String) (h1 : vlt a b = true) (h2 : vlt b c = true) :
    vlt a c = true := by
  cases a <;> cases b <;> cases c <;> simp_all [vlt]
  exact String.lt_trans h1 h2

/-! ### pointwise updates -/

@[simp] theorem setProp_setProp (t : TaskMap) (k : String) (v v' : Option String) :
    setProp (setProp t k v) k v' = setProp t k v' := by
  funext x; simp only [setProp]; split <;> rfl

theorem setProp_comm (t : TaskMap) (k k' : String) (v v' : Option String) (h : k ≠ k') :
    setProp (setProp t k v) k' v' = setProp (setProp t k' v') k v := by
  funext x; simp only [setProp]; grind

@[simp] theorem setProp_get (t : TaskMap) (k : String) (v : Option String) : setProp t k v k = v := by
  simp [setProp]

theorem setProp_get_ne (t : TaskMap) (k k' : String) (v : Option String) (h : k' ≠ k) :
    setProp t k v k' = t k' := by
  simp [setProp, h]

@[simp] theorem setTask_same (db : DB) (u : Nat) (a b : Option TaskMap) :
    setTask (setTask db u a) u b = setTask db u b := by
  funext x; simp only [setTask]; split <;> rfl

theorem setTask_comm (db : DB) (u u' : Nat) (a b : Option TaskMap) (h : u ≠ u') :
    setTask (setTask db u a) u' b = setTask (setTask db u' b) u a := by
  funext x; simp only [setTask]; grind

@[simp] theorem setTask_get (db : DB) (u : Nat) (a : Option TaskMap) : setTask db u a u = a := by
  simp [setTask]

theorem setTask_get_ne (db : DB) (u u' : Nat) (a : Option TaskMap) (h : u' ≠ u) :
    setTask db u a u' = db u' := by
  simp [setTask, h]

theorem setTask_self (db : DB) (u : Nat) : setTask db u (db u) = db := by
  funext x; simp only [setTask]; split <;> simp_all

/-- the effect of an op on the one task it touches -/
def SyncOp.eff : SyncOp → Option TaskMap → Option TaskMap
  | .create _ => fun t => some (t.getD emptyTask)
  | .delete _ => fun _ => none
  | .update _ k v _ => fun t => t.map (fun t => setProp t k v)

theorem apply_eq (db : DB) (o : SyncOp) : apply db o = setTask db o.uuid (o.eff (db o.uuid)) := by
  cases o <;> rfl

theorem apply_get_ne (db : DB) (o : SyncOp) (u : Nat) (h : u ≠ o.uuid) : apply db o u = db u := by
  rw [apply_eq, setTask_get_ne _ _ _ _ h]

theorem transform_ne (a b : SyncOp) (h : a.uuid ≠ b.uuid) : transform a b = (some a, some b) := by
  cases a <;> cases b <;> simp_all [transform, SyncOp.uuid]

theorem valid_apply_ne (db : DB) (a b : SyncOp) (h : a.uuid ≠ b.uuid) :
    valid (apply db a) b ↔ valid db b := by
  rw [apply_eq]
  cases b <;> simp only [valid, SyncOp.uuid] at * <;> rw [setTask_get_ne _ _ _ _ (Ne.symm h)]

/-- **TP1**: for two operations valid in a common state, `transform` completes the diamond, and
    the transformed operations are valid where they are applied. -/
theorem tp1 (db : DB) (a b : SyncOp) (ha : valid db a) (hb : valid db b) :
    applyO (apply db a) (transform a b).2 = applyO (apply db b) (transform a b).1
    ∧ validO (apply db a) (transform a b).2 ∧ validO (apply db b) (transform a b).1 := by
  by_cases hu : a.uuid = b.uuid
  · cases a <;> cases b <;> simp only [SyncOp.uuid] at hu <;> subst hu <;>
      simp only [transform, valid] at * <;>
      (repeat' split) <;>
      simp_all [applyO, apply, validO, valid] <;>
      (try (rcases hdb : db _ with _ | t <;> simp_all [setProp_comm]))
    all_goals (rw [setProp_comm _ _ _ _ _ (by assumption)])
  · rw [transform_ne a b hu]
    simp only [applyO, validO]
    refine ⟨?_, ?_, ?_⟩
    · simp only [apply_eq]
      rw [setTask_get_ne _ _ _ _ (Ne.symm hu), setTask_get_ne _ _ _ _ hu, setTask_comm _ _ _ _ _ hu]
    · exact (valid_apply_ne db a b hu).mpr hb
    · exact (valid_apply_ne db b a (Ne.symm hu)).mpr ha

theorem applyL_append (db : DB) (a b : List SyncOp) : applyL db (a ++ b) = applyL (applyL db a) b := by
  simp [applyL, List.foldl_append]

theorem applyL_cons (db : DB) (a : SyncOp) (b : List SyncOp) : applyL db (a :: b) = applyL (apply db a) b := rfl

@[simp] theorem applyL_nil (db : DB) : applyL db [] = db := rfl

theorem validL_append (db : DB) (a b : List SyncOp) :
    validL db (a ++ b) ↔ validL db a ∧ validL (applyL db a) b := by
  induction a generalizing db with
  | nil => simp [validL, applyL]
  | cons x xs ih =>
    simp only [List.cons_append, validL, ih, applyL, List.foldl_cons]
    exact and_assoc.symm

theorem rebase1_correct (s : Option SyncOp) (ls : List SyncOp) (db : DB)
    (hs : validO db s) (hl : validL db ls) :
    applyO (applyL db ls) (rebase1 s ls).1 = applyL (applyO db s) (rebase1 s ls).2
    ∧ validL (applyO db s) (rebase1 s ls).2 ∧ validO (applyL db ls) (rebase1 s ls).1 := by
  induction ls generalizing s db with
  | nil => cases s <;> simp [rebase1, applyL, validL, hs]
  | cons l ls ih =>
    cases s with
    | none => simp [rebase1, applyO, validO, hl]
    | some s =>
      obtain ⟨hl1, hl2⟩ := hl
      have h := tp1 db s l hs hl1
      simp only [rebase1]
      rcases htr : transform s l with ⟨s', l'⟩
      rw [htr] at h
      simp only at h
      obtain ⟨heq, hvl, hvs⟩ := h
      have ih' := ih s' (apply db l) hvs hl2
      rcases hrb : rebase1 s' ls with ⟨s'', ls'⟩
      rw [hrb] at ih'
      simp only at ih' ⊢
      obtain ⟨ih1, ih2, ih3⟩ := ih'
      have hA : applyL db (l :: ls) = applyL (apply db l) ls := rfl
      have hS : applyO db (some s) = apply db s := rfl
      rw [hA, hS]
      refine ⟨?_, ?_, ih3⟩
      · rw [ih1, ← heq]
        cases l' <;> rfl
      · rw [← heq] at ih2
        cases l' with
        | none => exact ih2
        | some x => exact ⟨hvl, ih2⟩

/-- **rebase_correct**: the double loop of `apply_version`.  For a server version `vs` and a
    pending list `ls`, both valid in the common base state `db`, applying the transformed server
    ops after the local ops equals applying the rebased local ops after the server version, and
    the rebased local ops are valid on the new base. -/
theorem rebase_correct (vs ls : List SyncOp) (db : DB) (hv : validL db vs) (hl : validL db ls) :
    applyL (applyL db ls) (rebase vs ls).1 = applyL (applyL db vs) (rebase vs ls).2
    ∧ validL (applyL db vs) (rebase vs ls).2 := by
  induction vs generalizing ls db with
  | nil => exact ⟨rfl, hl⟩
  | cons s ss ih =>
    obtain ⟨hs, hss⟩ := hv
    have h1 := rebase1_correct (some s) ls db hs hl
    simp only [rebase]
    rcases hr1 : rebase1 (some s) ls with ⟨s', ls'⟩
    rw [hr1] at h1
    obtain ⟨e1, v1, _⟩ := h1
    simp only [applyO] at e1 v1
    have h2 := ih ls' (apply db s) hss v1
    rcases hr2 : rebase ss ls' with ⟨ss', ls''⟩
    rw [hr2] at h2
    obtain ⟨e2, v2⟩ := h2
    simp only at e1 e2 v2 ⊢
    have hA : applyL db (s :: ss) = applyL (apply db s) ss := rfl
    rw [hA]
    refine ⟨?_, v2⟩
    rw [← e2, ← e1]
    cases s' <;> rfl

/-! ### symmetry of `transform` (repaired rule) -/

theorem transform_symm (a b : SyncOp) : transform b a = ((transform a b).2, (transform a b).1) := by
  cases a with
  | create u1 => cases b <;> simp only [transform] <;> (repeat' split) <;> simp_all
  | delete u1 => cases b <;> simp only [transform] <;> (repeat' split) <;> simp_all
  | update u1 k1 v1 t1 =>
    cases b with
    | create u2 => simp only [transform]; (repeat' split) <;> simp_all
    | delete u2 => simp only [transform]; (repeat' split) <;> simp_all
    | update u2 k2 v2 t2 =>
      simp only [transform]
      by_cases hu : u1 = u2 ∧ k1 = k2
      · obtain ⟨rfl, rfl⟩ := hu
        simp only [and_self, if_true]
        by_cases h12 : t1 < t2
        · have : ¬ t2 < t1 := by omega
          simp [h12, this]
        · by_cases h21 : t2 < t1
          · simp [h12, h21]
          · simp only [h12, h21, if_false]
            by_cases hv : v1 = v2
            · simp [hv]
            · have hv' : ¬ v2 = v1 := fun e => hv e.symm
              simp only [hv, hv', if_false]
              rcases vlt_total v1 v2 hv with h | h
              · simp [h, vlt_asymm _ _ h]
              · simp [h, vlt_asymm _ _ h]
      · have hu' : ¬ (u2 = u1 ∧ k2 = k1) := fun e => hu ⟨e.1.symm, e.2.symm⟩
        simp [hu, hu']

/-! ### a replica meeting its own version -/

theorem transform_self (x : SyncOp) : transform x x = (none, none) := by
  cases x <;> simp [transform]

theorem rebase1_self (x : SyncOp) (m : List SyncOp) : rebase1 (some x) (x :: m) = (none, m) := by
  simp only [rebase1, transform_self]
  cases m <;> rfl

/-- A replica that meets its own already-accepted version (reply lost, or stopped before
    committing) cancels it exactly: nothing is applied locally, nothing of it is sent again, and
    what it committed afterwards (`m`) is kept as it is. -/
theorem self_cancel (l m : List SyncOp) : rebase l (l ++ m) = ([], m) := by
  induction l with
  | nil => rfl
  | cons x xs ih =>
    simp only [rebase, List.cons_append, rebase1_self, ih]

end Tc
