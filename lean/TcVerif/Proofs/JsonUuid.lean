import TcVerif.Model.Json
import TcVerif.Model.JsonParse
/-!
# The uuid printer and reader are inverse (C14)
-/
namespace Tc.Json

theorem hexVal_hexDigitChar' : ∀ k : Fin 16, hexVal (hexDigitChar k.val) = some k.val := by decide

theorem hexDigit_ne_dash : ∀ k : Fin 16, hexDigitChar k.val ≠ '-' := by decide

theorem hexFixed_length (w n : Nat) : (hexFixed w n).length = w := by
  induction w generalizing n with
  | zero => rfl
  | succ w ih => simp [hexFixed, ih]

theorem hexFixed_no_dash (w n : Nat) : ∀ c ∈ hexFixed w n, c ≠ '-' := by
  induction w generalizing n with
  | zero => intro c hc; simp [hexFixed] at hc
  | succ w ih =>
    intro c hc
    simp only [hexFixed, List.mem_append, List.mem_singleton] at hc
    rcases hc with hc | hc
    · exact ih _ c hc
    · rw [hc]; exact hexDigit_ne_dash ⟨n % 16, Nat.mod_lt _ (by decide)⟩

def hexStep (acc : Option Nat) (c : Char) : Option Nat :=
  match acc, hexVal c with
  | some n, some d => some (n * 16 + d)
  | _, _ => none

theorem parseHexNat_eq (cs : List Char) : parseHexNat cs = cs.foldl hexStep (some 0) := rfl

theorem foldl_hexFixed (w n acc : Nat) :
    (hexFixed w n).foldl hexStep (some acc) = some (acc * 16 ^ w + n % 16 ^ w) := by
  induction w generalizing n acc with
  | zero => simp [hexFixed, Nat.mod_one]
  | succ w ih =>
    simp only [hexFixed, List.foldl_append, List.foldl_cons, List.foldl_nil, ih]
    have hd := hexVal_hexDigitChar' ⟨n % 16, Nat.mod_lt _ (by decide)⟩
    simp only at hd
    simp only [hexStep, hd]
    congr 1
    have h1 : n % 16 ^ (w + 1) = n % 16 + 16 * (n / 16 % 16 ^ w) := by
      rw [Nat.pow_succ', Nat.mod_mul]
    have h2 : (acc * 16 ^ w + n / 16 % 16 ^ w) * 16 = acc * 16 ^ (w + 1) + 16 * (n / 16 % 16 ^ w) := by
      rw [Nat.add_mul, Nat.mul_assoc, Nat.mul_comm (n / 16 % 16 ^ w) 16, Nat.pow_succ]
    rw [h1, h2]
    omega

theorem parseHexNat_hexFixed (w n : Nat) : parseHexNat (hexFixed w n) = some (n % 16 ^ w) := by
  rw [parseHexNat_eq, foldl_hexFixed]; simp

end Tc.Json

namespace Tc.Json

/-- the hyphenated form of 32 digits -/
def hyphenate (a b c d e : List Char) : List Char :=
  a ++ '-' :: (b ++ '-' :: (c ++ '-' :: (d ++ '-' :: e)))

theorem printUuid_eq (u : Nat) :
    ∃ a b c d e : List Char, hexFixed 32 u = a ++ (b ++ (c ++ (d ++ e))) ∧ a.length = 8 ∧ b.length = 4 ∧
      c.length = 4 ∧ d.length = 4 ∧ e.length = 12 ∧ printUuid u = hyphenate a b c d e := by
  have hl := hexFixed_length 32 u
  unfold printUuid
  generalize hexFixed 32 u = h at hl
  refine ⟨h.take 8, (h.drop 8).take 4, (h.drop 12).take 4, (h.drop 16).take 4, h.drop 20, ?_, ?_, ?_, ?_, ?_, ?_, ?_⟩
  · have e1 : h = h.take 8 ++ h.drop 8 := (List.take_append_drop 8 h).symm
    have e2 : h.drop 8 = (h.drop 8).take 4 ++ h.drop 12 := by
      have := (List.take_append_drop 4 (h.drop 8)).symm
      simpa [List.drop_drop] using this
    have e3 : h.drop 12 = (h.drop 12).take 4 ++ h.drop 16 := by
      have := (List.take_append_drop 4 (h.drop 12)).symm
      simpa [List.drop_drop] using this
    have e4 : h.drop 16 = (h.drop 16).take 4 ++ h.drop 20 := by
      have := (List.take_append_drop 4 (h.drop 16)).symm
      simpa [List.drop_drop] using this
    conv => lhs; rw [e1, e2, e3, e4]
  · simp [List.length_take, hl]
  · simp [List.length_take, List.length_drop, hl]
  · simp [List.length_take, List.length_drop, hl]
  · simp [List.length_take, List.length_drop, hl]
  · simp [List.length_drop, hl]
  · simp [hyphenate, List.append_assoc]

end Tc.Json

namespace Tc.Json

theorem filter_no_dash (l : List Char) (h : ∀ c ∈ l, c ≠ '-') : l.filter (· ≠ '-') = l := by
  apply List.filter_eq_self.mpr
  intro c hc
  simpa using h c hc

theorem hyphenate_filter (a b c d e : List Char)
    (ha : ∀ x ∈ a, x ≠ '-') (hb : ∀ x ∈ b, x ≠ '-') (hc : ∀ x ∈ c, x ≠ '-') (hd : ∀ x ∈ d, x ≠ '-')
    (he : ∀ x ∈ e, x ≠ '-') :
    (hyphenate a b c d e).filter (· ≠ '-') = a ++ (b ++ (c ++ (d ++ e))) := by
  simp only [hyphenate, List.filter_append, List.filter_cons, ne_eq, not_true_eq_false, decide_false,
    Bool.false_eq_true, if_false, filter_no_dash a ha, filter_no_dash b hb, filter_no_dash c hc,
    filter_no_dash d hd, filter_no_dash e he]

theorem hyphenate_shape (a b c d e : List Char) (ha : a.length = 8) (hb : b.length = 4)
    (hc : c.length = 4) (hd : d.length = 4) (he : e.length = 12) :
    (hyphenate a b c d e).length = 36 ∧ (hyphenate a b c d e).getD 8 ' ' = '-'
    ∧ (hyphenate a b c d e).getD 13 ' ' = '-' ∧ (hyphenate a b c d e).getD 18 ' ' = '-'
    ∧ (hyphenate a b c d e).getD 23 ' ' = '-' := by
  match a, ha with
  | [a0, a1, a2, a3, a4, a5, a6, a7], _ =>
    match b, hb with
    | [b0, b1, b2, b3], _ =>
      match c, hc with
      | [c0, c1, c2, c3], _ =>
        match d, hd with
        | [d0, d1, d2, d3], _ =>
          refine ⟨by simp [hyphenate, he], ?_, ?_, ?_, ?_⟩ <;> simp [hyphenate]

/-- **the uuid reader reads what the uuid printer prints**, for every 128-bit value -/
theorem parseUuid_printUuid (u : Nat) (hu : u < 2 ^ 128) : parseUuid (printUuid u) = some u := by
  obtain ⟨a, b, c, d, e, hh, ha, hb, hc, hd, he, hp⟩ := printUuid_eq u
  have hnd := hexFixed_no_dash 32 u
  rw [hh] at hnd
  have hna : ∀ x ∈ a, x ≠ '-' := fun x hx => hnd x (by simp [hx])
  have hnb : ∀ x ∈ b, x ≠ '-' := fun x hx => hnd x (by simp [hx])
  have hnc : ∀ x ∈ c, x ≠ '-' := fun x hx => hnd x (by simp [hx])
  have hndd : ∀ x ∈ d, x ≠ '-' := fun x hx => hnd x (by simp [hx])
  have hne : ∀ x ∈ e, x ≠ '-' := fun x hx => hnd x (by simp [hx])
  obtain ⟨hlen, h8, h13, h18, h23⟩ := hyphenate_shape a b c d e ha hb hc hd he
  have hfil := hyphenate_filter a b c d e hna hnb hnc hndd hne
  have hval : parseHexNat (a ++ (b ++ (c ++ (d ++ e)))) = some u := by
    rw [← hh, parseHexNat_hexFixed]
    have : (16 : Nat) ^ 32 = 2 ^ 128 := by decide
    rw [this, Nat.mod_eq_of_lt hu]
  have hlen32 : (a ++ (b ++ (c ++ (d ++ e)))).length = 32 := by simp [ha, hb, hc, hd, he]
  rw [hp]
  unfold parseUuid
  have h38 : ¬ ((hyphenate a b c d e).length = 38 ∧ (hyphenate a b c d e).head? = some '{' ∧
      (hyphenate a b c d e).getLast? = some '}') := by simp [hlen]
  have h45 : ¬ ((hyphenate a b c d e).length = 45 ∧ (hyphenate a b c d e).take 9 = "urn:uuid:".toList) := by
    simp [hlen]
  simp only [h38, h45, if_false]
  unfold parseUuidPlain
  simp only [hlen, if_true, h8, h13, h18, h23, and_self, hfil, hlen32, hval]

end Tc.Json
