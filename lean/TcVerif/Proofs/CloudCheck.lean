import TcVerif.Proofs.CloudChain
/-!
# An executable step checker for the object-store machine, sound w.r.t. `Step`

`check n S ev` decides whether the store request `ev`, as observed in the implementation's request
log, is a step the machine of `CloudChain` allows in state `S` (for clients `0 … n-1`), and if so
returns the successor state.  `check_sound`: every accepted event is a `Step` (or leaves the state
unchanged), hence `checkAll_reachable`: a whole accepted trace ends in a `Reachable` state — to
which `served_only_chain` and `acked_stays_on_chain` apply.
-/
namespace Tc.Cloud

def pcUsesB : PC → Vid → Bool
  | .idle, _ => false
  | .a1 P _ _, n => P == n
  | .a2 P _ _ N, n => P == n || N == n
  | .a4 P N, n => P == n || N == n
  | .g1 P cs, n => P == n || cs.contains n
  | .g2 P cs f, n => P == n || cs.contains n || f == some n
  | .g4 P c, n => P == n || c == n

theorem pcUsesB_iff (pc : PC) (n : Vid) : pcUsesB pc n = true ↔ pcUses pc n := by
  cases pc <;> simp [pcUsesB, pcUses, or_assoc]

def usedIdB (S : Sys) (n : Nat) (N : Vid) : Bool :=
  S.created.contains N || S.vers.any (fun o => o.parent == N) ||
    (List.range n).any (fun i => pcUsesB (S.pcs i) N)

/-- clients beyond `n` do nothing -/
def Quiet (n : Nat) (S : Sys) : Prop := ∀ i, n ≤ i → S.pcs i = .idle

theorem usedIdB_false {S : Sys} {n : Nat} {N : Vid} (hq : Quiet n S) (h : usedIdB S n N = false) :
    ¬ usedId S N := by
  simp only [usedIdB, Bool.or_eq_false_iff] at h
  obtain ⟨⟨h1, h2⟩, h3⟩ := h
  rintro (hc | ⟨o, ho, hp⟩ | ⟨i, hi⟩)
  · simp [hc] at h1
  · have : S.vers.any (fun o => o.parent == N) = true := List.any_eq_true.mpr ⟨o, ho, by simp [hp]⟩
    simp [this] at h2
  · by_cases hin : i < n
    · have : (List.range n).any (fun i => pcUsesB (S.pcs i) N) = true :=
        List.any_eq_true.mpr ⟨i, List.mem_range.mpr hin, (pcUsesB_iff _ _).mpr hi⟩
      simp [this] at h3
    · rw [hq i (by omega)] at hi
      exact hi

inductive Ev where
  | avRead (i : Nat) (P : Vid) (d : Nat)       -- `get latest` of an add_version that goes on
  | avPut (i : Nat) (N : Vid)                  -- `put v-P-N`
  | avCas (i : Nat) (ok : Bool)                -- `cas latest l => N -> ok`
  | avDel (i : Nat)                            -- `del v-P-N` after a lost race
  | gcList (i : Nat) (P : Vid) (cs : List Vid) -- `list v-P-` (the names it goes on to report)
  | gcLatest (i : Nat)                         -- `get latest` of a get_child_version
  | gcProbe (i : Nat) (c : Vid) (hit : Bool)   -- `list v-c-`: does candidate c have children
  | gcChoose (i : Nat)                         -- the probes are over, a candidate was found
  | gcGet (i : Nat) (found : Bool)             -- `get v-P-c`
  | stop (i : Nat)                             -- the call is over
deriving Repr

def Ev.client : Ev → Nat
  | .avRead i _ _ | .avPut i _ | .avCas i _ | .avDel i | .gcList i _ _ | .gcLatest i
  | .gcProbe i _ _ | .gcChoose i | .gcGet i _ | .stop i => i

def hasChildOf (S : Sys) (P c : Vid) : Bool := S.vers.any (fun o => o.parent == P && o.child == c)

def check (n : Nat) (S : Sys) (ev : Ev) : Option Sys :=
  if ev.client < n then
    match ev with
    | .avRead i P d =>
      if S.pcs i = .idle ∧ (S.latest = none ∨ S.latest = some P) ∧ (S.latest = none → P ∉ S.created)
      then some (setPc S i (.a1 P d S.latest)) else none
    | .avPut i N =>
      match S.pcs i with
      | .a1 P d l =>
        if usedIdB S n N = false then
          some (setPc { S with vers := ⟨P, N, d⟩ :: S.vers, created := N :: S.created,
                               sub := (P, N, d) :: S.sub } i (.a2 P d l N))
        else none
      | _ => none
    | .avCas i ok =>
      match S.pcs i with
      | .a2 P _ l N =>
        if S.latest = l then
          (if ok then some (setPc { S with latest := some N, chain := S.chain ++ [N], acked := N :: S.acked } i .idle)
           else none)
        else (if ok then none else some (setPc S i (.a4 P N)))
      | _ => none
    | .avDel i =>
      match S.pcs i with
      | .a4 _ N => some (setPc { S with vers := S.vers.filter (fun o => decide (o.child ≠ N)) } i .idle)
      | _ => none
    | .gcList i P cs =>
      if S.pcs i = .idle ∧ cs.all (fun c => hasChildOf S P c) = true then some (setPc S i (.g1 P cs)) else none
    | .gcLatest i =>
      match S.pcs i with
      | .g1 P cs =>
        match S.latest with
        | some c => if c ∈ cs then some (setPc S i (.g4 P c)) else some (setPc S i (.g2 P cs none))
        | none => some (setPc S i (.g2 P cs none))
      | _ => none
    | .gcProbe i c hit =>
      match S.pcs i with
      | .g2 P cs _ =>
        if hit then
          (if c ∈ cs ∧ S.vers.any (fun o => o.parent == c) = true then some (setPc S i (.g2 P cs (some c))) else none)
        else some S
      | _ => none
    | .gcChoose i =>
      match S.pcs i with
      | .g2 P _ (some c) => some (setPc S i (.g4 P c))
      | _ => none
    | .gcGet i found =>
      match S.pcs i with
      | .g4 P c =>
        match S.vers.find? (fun o => o.parent == P && o.child == c) with
        | some o => if found then some (setPc { S with served := (P, c, o.data) :: S.served } i .idle) else none
        | none => if found then none else some (setPc S i .idle)
      | _ => none
    | .stop i => some (setPc S i .idle)
  else none

theorem quiet_setPc' {n : Nat} {S T : Sys} (hq : Quiet n S) (hp : T.pcs = S.pcs) (i : Nat) (hi : i < n) (pc : PC) :
    Quiet n (setPc T i pc) := by
  intro j hj
  rw [setPc_pcs]
  have : j ≠ i := by omega
  simp [this, hp, hq j hj]

theorem quiet_setPc {n : Nat} {S : Sys} (hq : Quiet n S) (i : Nat) (hi : i < n) (pc : PC) :
    Quiet n (setPc S i pc) := quiet_setPc' hq rfl i hi pc

theorem hasChildOf_spec {S : Sys} {P c : Vid} (h : hasChildOf S P c = true) :
    ∃ o ∈ S.vers, o.parent = P ∧ o.child = c := by
  simp only [hasChildOf, List.any_eq_true, Bool.and_eq_true, beq_iff_eq] at h
  exact h

/-- **soundness**: an accepted event is a step of the machine, or changes nothing -/
theorem check_sound {n : Nat} {S S' : Sys} {ev : Ev} (hq : Quiet n S) (h : check n S ev = some S') :
    (Step S S' ∨ S' = S) ∧ Quiet n S' := by
  unfold check at h
  split at h
  · rename_i hcl
    cases ev with
    | avRead i P d =>
      simp only at h
      split at h
      · rename_i hc
        cases h
        exact ⟨Or.inl (Step.avRead S i P d hc.1 hc.2.1 hc.2.2), quiet_setPc hq i hcl _⟩
      · cases h
    | avPut i N =>
      simp only at h
      split at h
      · rename_i P d l hpc
        split at h
        · rename_i hu
          cases h
          refine ⟨Or.inl (Step.avPut S i P d l N hpc (usedIdB_false hq hu)), ?_⟩
          exact quiet_setPc' hq rfl i hcl _
        · cases h
      · cases h
    | avCas i ok =>
      simp only at h
      split at h
      · rename_i P d l N hpc
        split at h
        · rename_i heq
          split at h
          · cases h
            refine ⟨Or.inl (Step.avCasOk S i P d l N hpc heq), ?_⟩
            exact quiet_setPc' hq rfl i hcl _
          · cases h
        · rename_i hne
          split at h
          · cases h
          · cases h
            exact ⟨Or.inl (Step.avCasFail S i P d l N hpc hne), quiet_setPc hq i hcl _⟩
      · cases h
    | avDel i =>
      simp only at h
      split at h
      · rename_i P N hpc
        cases h
        refine ⟨Or.inl (Step.avDel S i P N hpc), ?_⟩
        exact quiet_setPc' hq rfl i hcl _
      · cases h
    | gcList i P cs =>
      simp only at h
      split at h
      · rename_i hc
        cases h
        refine ⟨Or.inl (Step.gcList S i P cs hc.1 ?_), quiet_setPc hq i hcl _⟩
        intro c hcin
        exact hasChildOf_spec (List.all_eq_true.mp hc.2 c hcin)
      · cases h
    | gcLatest i =>
      simp only at h
      split at h
      · rename_i P cs hpc
        split at h
        · rename_i c hl
          split at h
          · rename_i hin
            cases h
            exact ⟨Or.inl (Step.gcLatestHit S i P cs c hpc hin hl), quiet_setPc hq i hcl _⟩
          · cases h
            exact ⟨Or.inl (Step.gcLatestMiss S i P cs hpc), quiet_setPc hq i hcl _⟩
        · cases h
          exact ⟨Or.inl (Step.gcLatestMiss S i P cs hpc), quiet_setPc hq i hcl _⟩
      · cases h
    | gcProbe i c hit =>
      simp only at h
      split at h
      · rename_i P cs f hpc
        split at h
        · split at h
          · rename_i hc
            cases h
            refine ⟨Or.inl (Step.gcProbeHit S i P cs f c hpc hc.1 ?_), quiet_setPc hq i hcl _⟩
            have := hc.2
            simp only [List.any_eq_true, beq_iff_eq] at this
            exact this
          · cases h
        · cases h
          exact ⟨Or.inr rfl, hq⟩
      · cases h
    | gcChoose i =>
      simp only at h
      split at h
      · rename_i P cs c hpc
        cases h
        exact ⟨Or.inl (Step.gcChoose S i P cs c hpc), quiet_setPc hq i hcl _⟩
      · cases h
    | gcGet i found =>
      simp only at h
      split at h
      · rename_i P c hpc
        split at h
        · rename_i o ho
          split at h
          · cases h
            have hm := List.mem_of_find?_eq_some ho
            have hp := List.find?_some ho
            simp only [Bool.and_eq_true, beq_iff_eq] at hp
            refine ⟨Or.inl (Step.gcGet S i P c o hpc hm hp.1 hp.2), ?_⟩
            exact quiet_setPc' hq rfl i hcl _
          · cases h
        · split at h
          · cases h
          · cases h
            exact ⟨Or.inl (Step.gcGone S i P c hpc), quiet_setPc hq i hcl _⟩
      · cases h
    | stop i =>
      simp only at h
      cases h
      exact ⟨Or.inl (Step.abandon S i), quiet_setPc hq i hcl _⟩
  · cases h

def checkAll (n : Nat) : Sys → List Ev → Option Sys
  | S, [] => some S
  | S, ev :: evs => match check n S ev with
    | some S' => checkAll n S' evs
    | none => none

/-- **a trace the checker accepts ends in a reachable state of the proven machine** -/
theorem checkAll_reachable {n : Nat} {S S' : Sys} {evs : List Ev} (hr : Reachable S) (hq : Quiet n S)
    (h : checkAll n S evs = some S') : Reachable S' ∧ Quiet n S' := by
  induction evs generalizing S with
  | nil => simp only [checkAll] at h; cases h; exact ⟨hr, hq⟩
  | cons ev evs ih =>
    simp only [checkAll] at h
    split at h
    · rename_i S1 hc
      obtain ⟨hs, hq1⟩ := check_sound hq hc
      rcases hs with hs | hs
      · exact ih (Reachable.step hr hs) hq1 h
      · subst hs; exact ih hr hq1 h
    · cases h

theorem quiet_init (n : Nat) : Quiet n init := fun _ _ => rfl

end Tc.Cloud
