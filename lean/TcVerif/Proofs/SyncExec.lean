import TcVerif.Proofs.SyncInv
/-!
# The executable machine only takes steps of the relation

So every state the driver (and hence the correspondence run against the implementation) can
reach is `Reachable`, and the theorems about reachable states apply to it.
-/
namespace Tc

inductive Steps : Sys → Sys → Prop where
  | refl (S) : Steps S S
  | tail {S S' S''} : Steps S S' → Step S' S'' → Steps S S''

theorem Steps.one {S S'} (h : Step S S') : Steps S S' := .tail (.refl S) h

theorem Steps.reachable {S S'} (hr : Reachable S) (h : Steps S S') : Reachable S' := by
  induction h with
  | refl => exact hr
  | tail _ hs ih => exact .step ih hs

theorem batchLenAux_bounds (size : SyncOp → Nat) (limit : Nat) (l : List SyncOp) (acc len : Nat) :
    len ≤ batchLenAux size limit l acc len ∧ batchLenAux size limit l acc len ≤ len + l.length
    ∧ (l ≠ [] → 0 < batchLenAux size limit l acc len) := by
  induction l generalizing acc len with
  | nil => simp [batchLenAux]
  | cons o os ih =>
    simp only [batchLenAux]
    split
    · rename_i h; exact ⟨Nat.le_refl _, by simp, fun _ => h.1⟩
    · obtain ⟨a, b, _⟩ := ih (acc + size o) (len + 1)
      exact ⟨by omega, by simp only [List.length_cons]; omega, fun _ => by omega⟩

theorem batchLen_pos (size : SyncOp → Nat) (limit : Nat) (l : List SyncOp) (h : l ≠ []) :
    0 < batchLen size limit l := (batchLenAux_bounds size limit l 0 0).2.2 h

theorem batchLen_le (size : SyncOp → Nat) (limit : Nat) (l : List SyncOp) :
    batchLen size limit l ≤ l.length := by
  have := (batchLenAux_bounds size limit l 0 0).2.1
  simpa [batchLen] using this

theorem commit_steps (S : Sys) (r : Nat) (ops : List SyncOp) (u : Nat) : Steps S (S.commit r ops u) := by
  unfold Sys.commit
  split
  · exact .refl S
  · rename_i h
    split
    · rename_i hv; exact .one (.commit S r ops u h hv)
    · exact .refl S

theorem begin_steps (S : Sys) (r : Nat) (avoid : Bool) : Steps S (S.begin r avoid) := by
  unfold Sys.begin
  split
  · exact .refl S
  · rename_i h
    exact .one (.begin S r avoid _ h)

theorem abort_steps (S : Sys) (r : Nat) : Steps S (S.abort r) := by
  unfold Sys.abort
  split
  · exact .refl S
  · rename_i f h; exact .one (.abort S r f h)

theorem request_steps (size : SyncOp → Nat) (limit : Nat) (urg : Urgency) (S : Sys) (r : Nat) :
    Steps S (S.request size limit urg r).1 := by
  unfold Sys.request
  split
  · exact .refl S
  · rename_i f h
    split
    · rename_i ha
      split
      · rename_i v d hsn
        split
        · rename_i hkl; exact .one (.takeSnap S r f v d h ha hkl.1 hkl.2 hsn)
        · exact .refl S
      · rename_i hsn; exact .one (.noSnap S r f h ha hsn)
    · rename_i ha
      have ha' : f.askSnap = false := by simpa using ha
      split
      · rename_i hs; exact .one (.addSnap S r f h hs ha')
      rename_i hs
      have hs' : f.snapDue = false := by simpa using hs
      split
      · rename_i hp
        have hp' : f.pulled = false := by simpa using hp
        split
        · rename_i hk; exact .one (.pullHit S r f h hs' ha' hk)
        · rename_i hk; exact .one (.pullMiss S r f h hs' ha' hk)
      · rename_i hp
        have hp' : f.pulled = true := by simpa using hp
        split
        · rename_i he; exact .one (.finish S r f h hp' ha' he)
        · rename_i hne
          simp only
          split
          · rename_i hk
            refine .one (.pushOk S r f _ _ h hp' ha' (batchLen_pos size limit f.L hne)
              (batchLen_le size limit f.L) hk ?_)
            intro hsd
            simp only [Bool.and_eq_true, decide_eq_true_eq] at hsd
            exact hsd.1
          · rename_i hk
            split
            · rename_i hreq
              have h1 : Step S { S with err := true } := by
                have := Step.pushReject S r f h hp' ha' hne hk
                rwa [if_pos hreq] at this
              have hfl : ({ S with err := true } : Sys).reps r = S.reps r := rfl
              exact .tail (.one h1) (.abort _ r f (by rw [hfl]; exact h))
            · rename_i hreq
              have := Step.pushReject S r f h hp' ha' hne hk
              rw [if_neg hreq] at this
              exact .one this

end Tc
