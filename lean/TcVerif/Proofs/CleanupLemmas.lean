import TcVerif.Proofs.CleanupModel
namespace Cl

def predOrFirst (chain : List Vid) (p c : Vid) : Prop :=
  (∃ pre post, chain = pre ++ p :: c :: post) ∨ (∃ post, chain = c :: post)

theorem predOrFirst_append {chain : List Vid} {p c : Vid} (N : Vid)
    (h : predOrFirst chain p c) : predOrFirst (chain ++ [N]) p c := by
  rcases h with ⟨pre, post, rfl⟩ | ⟨post, rfl⟩
  · exact Or.inl ⟨pre, post ++ [N], by simp⟩
  · exact Or.inr ⟨post ++ [N], by simp⟩

abbrev idx (chain : List Vid) (x : Vid) : Nat := chain.idxOf x

theorem idx_append {chain : List Vid} {x : Vid} (N : Vid) (h : x ∈ chain) :
    idx (chain ++ [N]) x = idx chain x := by simp [idx, List.idxOf_append, h]

/-- in a duplicate-free list the element following `p` is unique -/
theorem succ_unique {chain : List Vid} (hn : chain.Nodup) {p a b : Vid}
    (ha : ∃ pre post, chain = pre ++ p :: a :: post) (hb : ∃ pre post, chain = pre ++ p :: b :: post) :
    a = b := by
  obtain ⟨pre1, post1, h1⟩ := ha
  obtain ⟨pre2, post2, h2⟩ := hb
  rw [h1] at h2 hn
  have hp1 : p ∉ pre1 := by
    intro hm
    have := (List.nodup_append.mp hn).2.2 p hm p (by simp)
    exact this rfl
  have hp2 : p ∉ pre2 := by
    rw [h2] at hn
    intro hm
    have := (List.nodup_append.mp hn).2.2 p hm p (by simp)
    exact this rfl
  have := List.append_eq_append_iff.mp h2
  rcases this with ⟨as, e1, e2⟩ | ⟨bs, e1, e2⟩
  · cases as with
    | nil => simp at e2; exact e2.1
    | cons x xs =>
      simp at e2
      obtain ⟨rfl, e2⟩ := e2
      rw [e1] at hp2
      exact absurd (by simp) hp2
  · cases bs with
    | nil => simp at e2; exact e2.1.symm
    | cons x xs =>
      simp at e2
      obtain ⟨rfl, e2⟩ := e2
      rw [e1] at hp1
      exact absurd (by simp) hp1

theorem pred_mem {chain : List Vid} {p c : Vid} (h : ∃ pre post, chain = pre ++ p :: c :: post) :
    p ∈ chain ∧ c ∈ chain := by
  obtain ⟨pre, post, rfl⟩ := h; simp

theorem pred_idx_lt {chain : List Vid} (hn : chain.Nodup) {p c : Vid}
    (h : ∃ pre post, chain = pre ++ p :: c :: post) : idx chain p < idx chain c := by
  obtain ⟨pre, post, rfl⟩ := h
  have hp : p ∉ pre := by
    intro hm
    have := (List.nodup_append.mp hn).2.2 p hm p (by simp)
    exact this rfl
  have hc : c ∉ pre := by
    intro hm
    have := (List.nodup_append.mp hn).2.2 c hm c (by simp)
    exact this rfl
  have hpc : p ≠ c := by
    intro e; subst e
    have := (List.nodup_append.mp hn).2.1
    simp at this
  have hb : (p == c) = false := by simpa using hpc
  simp [idx, List.idxOf_append, hp, hc, List.idxOf_cons, hb]

end Cl

namespace Cl

/-- facts about the history variables that the walk lemmas need -/
structure Hist (chain created : List Vid) (sub : List (Vid × Vid × Nat)) : Prop where
  nodup : chain.Nodup
  chain_created : ∀ c ∈ chain, c ∈ created
  sub_unique : ∀ x ∈ sub, ∀ y ∈ sub, x.2.1 = y.2.1 → x = y
  sub_created : ∀ x ∈ sub, x.2.1 ∈ created
  chain_sub : ∀ c ∈ chain, ∃ x ∈ sub, x.2.1 = c ∧ predOrFirst chain x.1 c
  first_parent : ∀ x ∈ sub, ∀ post, chain = x.2.1 :: post → x.1 ∉ created

variable {chain created : List Vid} {sub : List (Vid × Vid × Nat)}

/-- the put that created a chain element names its true predecessor -/
theorem triple_pred (H : Hist chain created sub) {p c : Vid} {d : Nat}
    (hx : (p, c, d) ∈ sub) (hc : c ∈ chain) : predOrFirst chain p c := by
  obtain ⟨x, hxs, hxc, hp⟩ := H.chain_sub c hc
  have := H.sub_unique x hxs (p, c, d) hx (by simpa using hxc)
  subst this
  exact hp

/-- either the real predecessor (a chain member) or, for the first element, an id never created -/
theorem triple_parent (H : Hist chain created sub) {p c : Vid} {d : Nat}
    (hx : (p, c, d) ∈ sub) (hc : c ∈ chain) :
    (p ∈ chain ∧ idx chain p < idx chain c) ∨ p ∉ created := by
  rcases triple_pred H hx hc with h | ⟨post, h⟩
  · exact Or.inl ⟨(pred_mem h).1, pred_idx_lt H.nodup h⟩
  · exact Or.inr (H.first_parent (p, c, d) hx post h)

theorem walk_nil_of_not_created (H : Hist chain created sub) {seen : List VObj}
    (hseen : ∀ o ∈ seen, (o.parent, o.child, o.data) ∈ sub) (f : Nat) {c : Vid} (hc : c ∉ created) :
    walk seen f c = [] := by
  cases f with
  | zero => rfl
  | succ f =>
    simp only [walk]
    cases hf : seen.find? (fun o => o.child = c) with
    | none => rfl
    | some o =>
      exfalso
      have ho := List.mem_of_find?_eq_some hf
      have hoc : o.child = c := by simpa using List.find?_some hf
      have := H.sub_created _ (hseen o ho)
      simp only at this
      rw [hoc] at this
      exact hc this

/-- everything on the walk is a chain element paired with its true predecessor, no newer than the start -/
theorem walk_ok (H : Hist chain created sub) {seen : List VObj}
    (hseen : ∀ o ∈ seen, (o.parent, o.child, o.data) ∈ sub) :
    ∀ (f : Nat) (c : Vid), c ∈ chain → ∀ q ∈ walk seen f c,
      q.1 ∈ chain ∧ predOrFirst chain q.2 q.1 ∧ idx chain q.1 ≤ idx chain c := by
  intro f
  induction f with
  | zero => intro c _ q hq; simp [walk] at hq
  | succ f ih =>
    intro c hc q hq
    simp only [walk] at hq
    cases hf : seen.find? (fun o => o.child = c) with
    | none => rw [hf] at hq; simp at hq
    | some o =>
      rw [hf] at hq
      have ho := List.mem_of_find?_eq_some hf
      have hoc : o.child = c := by simpa using List.find?_some hf
      have hsub := hseen o ho
      rw [hoc] at hsub
      rcases List.mem_cons.mp hq with rfl | hq
      · exact ⟨hc, triple_pred H hsub hc, Nat.le_refl _⟩
      · rcases triple_parent H hsub hc with ⟨hp, hlt⟩ | hp
        · obtain ⟨a, b, c'⟩ := ih o.parent hp q hq
          exact ⟨a, b, by omega⟩
        · rw [walk_nil_of_not_created H hseen f hp] at hq; simp at hq

/-- the walk lists strictly older elements after newer ones -/
theorem walk_older (H : Hist chain created sub) {seen : List VObj}
    (hseen : ∀ o ∈ seen, (o.parent, o.child, o.data) ∈ sub) :
    ∀ (f : Nat) (c : Vid), c ∈ chain → ∀ pre post y q, walk seen f c = pre ++ (y, q) :: post →
      ∀ r ∈ post, r.1 ∈ chain ∧ idx chain r.1 < idx chain y := by
  intro f
  induction f with
  | zero => intro c _ pre post y q h; simp [walk] at h
  | succ f ih =>
    intro c hc pre post y q h r hr
    simp only [walk] at h
    cases hf : seen.find? (fun o => o.child = c) with
    | none => rw [hf] at h; simp at h
    | some o =>
      rw [hf] at h
      have ho := List.mem_of_find?_eq_some hf
      have hoc : o.child = c := by simpa using List.find?_some hf
      have hsub := hseen o ho
      rw [hoc] at hsub
      cases pre with
      | nil =>
        simp only [List.nil_append, List.cons.injEq, Prod.mk.injEq] at h
        obtain ⟨⟨rfl, rfl⟩, hpost⟩ := h
        rcases triple_parent H hsub hc with ⟨hp, hlt⟩ | hp
        · rw [← hpost] at hr
          obtain ⟨a, _, c'⟩ := walk_ok H hseen f o.parent hp r hr
          exact ⟨a, by omega⟩
        · rw [walk_nil_of_not_created H hseen f hp] at hpost
          rw [← hpost] at hr; simp at hr
      | cons z pre' =>
        simp only [List.cons_append, List.cons.injEq] at h
        obtain ⟨_, htail⟩ := h
        rcases triple_parent H hsub hc with ⟨hp, _⟩ | hp
        · exact ih o.parent hp pre' post y q htail r hr
        · rw [walk_nil_of_not_created H hseen f hp] at htail
          simp at htail

end Cl

namespace Cl
variable {chain created : List Vid} {sub : List (Vid × Vid × Nat)}

/-- every pair on the walk comes from a recorded put -/
theorem walk_triple {seen : List VObj}
    (hseen : ∀ o ∈ seen, (o.parent, o.child, o.data) ∈ sub) :
    ∀ (f : Nat) (c : Vid), ∀ q ∈ walk seen f c, ∃ d, (q.2, q.1, d) ∈ sub := by
  intro f
  induction f with
  | zero => intro c q hq; simp [walk] at hq
  | succ f ih =>
    intro c q hq
    simp only [walk] at hq
    cases hf : seen.find? (fun o => o.child = c) with
    | none => rw [hf] at hq; simp at hq
    | some o =>
      rw [hf] at hq
      have ho := List.mem_of_find?_eq_some hf
      have hoc : o.child = c := by simpa using List.find?_some hf
      rcases List.mem_cons.mp hq with rfl | hq
      · exact ⟨o.data, by have := hseen o ho; rw [hoc] at this; exact this⟩
      · exact ih o.parent q hq

/-- nothing on the chain is newer than its last element -/
theorem idx_le_last (hn : chain.Nodup) {P : Vid} (hl : chain.getLast? = some P) :
    ∀ c ∈ chain, idx chain c ≤ idx chain P := by
  obtain ⟨pre, rfl⟩ := List.getLast?_eq_some_iff.mp hl
  have hP : P ∉ pre := by
    intro hm
    have := (List.nodup_append.mp hn).2.2 P hm P (by simp)
    exact this rfl
  intro c hc
  rcases List.mem_append.mp hc with hc | hc
  · have := List.idxOf_lt_length_iff.mpr hc
    simp [idx, List.idxOf_append, hc, hP]
    omega
  · simp at hc; subst hc; exact Nat.le_refl _

/-- two chain elements whose recorded puts name the same parent are the same element -/
theorem same_parent_same_child (H : Hist chain created sub) {p a b : Vid} {da db : Nat}
    (ha : (p, a, da) ∈ sub) (hb : (p, b, db) ∈ sub) (hac : a ∈ chain) (hbc : b ∈ chain) : a = b := by
  rcases triple_pred H ha hac with h1 | ⟨post1, h1⟩ <;> rcases triple_pred H hb hbc with h2 | ⟨post2, h2⟩
  · exact succ_unique H.nodup h1 h2
  · exfalso
    exact H.first_parent _ hb post2 h2 (H.chain_created p (pred_mem h1).1)
  · exfalso
    exact H.first_parent _ ha post1 h1 (H.chain_created p (pred_mem h2).1)
  · rw [h1] at h2; simp at h2; exact h2.1

end Cl
