import TcVerif.Generated.SrcStatus
/-!
# The translated source function is the model's function (`Status::from_taskmap`, `Status::to_taskmap`)

`Generated/SrcStatus.lean` is written by `tools/translate_src.py` from /repo's source on every run.  The
theorems here close the gap between it and the hand-written model: whatever is proved about the
model's function is proved about the function the source defines now.
-/
namespace Tc

/-- **a status is stored as the string it is read from**: `to_taskmap (from_taskmap s) = s` for
    every string, known status or not (forward compatibility: unknown statuses survive) -/
theorem src_status_roundtrip (s : String) : Src.statusToTaskmap (Src.statusFromTaskmap s) = s := by
  unfold Src.statusFromTaskmap
  split
  · subst_vars; rfl
  · split
    · subst_vars; rfl
    · split
      · subst_vars; rfl
      · split
        · subst_vars; rfl
        · rfl

/-- and the four known statuses are read as themselves -/
theorem src_status_known :
    Src.statusFromTaskmap "pending" = .pending ∧ Src.statusFromTaskmap "completed" = .completed
    ∧ Src.statusFromTaskmap "deleted" = .deleted ∧ Src.statusFromTaskmap "recurring" = .recurring := by
  refine ⟨?_, ?_, ?_, ?_⟩ <;> simp [Src.statusFromTaskmap]

/-- a stored status string is read as one of the four known statuses exactly when it is that status's
    name — the model keeps statuses as strings and compares with these names -/
theorem src_status_iff (s : String) :
    (Src.statusFromTaskmap s = .pending ↔ s = "pending")
    ∧ (Src.statusFromTaskmap s = .recurring ↔ s = "recurring")
    ∧ (Src.statusFromTaskmap s = .deleted ↔ s = "deleted")
    ∧ (Src.statusFromTaskmap s = .completed ↔ s = "completed") := by
  unfold Src.statusFromTaskmap
  by_cases h1 : s = "pending"
  · subst h1; simp
  · by_cases h2 : s = "completed"
    · subst h2; simp
    · by_cases h3 : s = "deleted"
      · subst h3; simp
      · by_cases h4 : s = "recurring"
        · subst h4; simp
        · simp [h1, h2, h3, h4]

end Tc
