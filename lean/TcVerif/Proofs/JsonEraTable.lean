import TcVerif.Model.JsonParse
/-!
# RFC 3339 timestamps, part 1: the year-of-era formula

`yoe = (doe - doe/1460 + doe/36524 - doe/146096) / 365` is the only non-linear step of the civil-date
algorithm.  It is settled here for all 146 097 days of a 400-year era: the numerator is monotone in
`doe` (`omega`), and a kernel-evaluated table over the 400 years of the era says that the first and
the last day of each year are mapped to that year and that the years tile the era (`era_table`,
`decide +kernel`, 400 Bool-valued rows).
-/
namespace Tc.Json

def allBelow (f : Nat → Bool) : Nat → Bool
  | 0 => true
  | k + 1 => f k && allBelow f k

theorem allBelow_spec (f : Nat → Bool) (n : Nat) (h : allBelow f n = true) : ∀ k, k < n → f k = true := by
  induction n with
  | zero => intro k hk; omega
  | succ n ih =>
    simp only [allBelow, Bool.and_eq_true] at h
    intro k hk
    by_cases hkn : k = n
    · subst hkn; exact h.1
    · exact ih h.2 k (by omega)

def yoeOf (doe : Nat) : Nat := (doe - doe / 1460 + doe / 36524 - doe / 146096) / 365
def yStart (y : Nat) : Nat := 365 * y + y / 4 - y / 100
/-- 1 iff year `y` of the era (counted from 1 March) ends with a 29 February -/
def leapFlag (y : Nat) : Nat := if (y % 4 == 3) && (!(y % 100 == 99) || y == 399) then 1 else 0
def yEnd (y : Nat) : Nat := yStart y + 364 + leapFlag y

def testYear (y : Nat) : Bool :=
  Nat.beq (yoeOf (yStart y)) y && Nat.beq (yoeOf (yEnd y)) y && Nat.beq (yStart (y + 1)) (yEnd y + 1 - (if y == 399 then 1 else 0))

theorem era_table : allBelow testYear 400 = true := by decide +kernel

theorem year_facts (y : Nat) (h : y < 400) :
    yoeOf (yStart y) = y ∧ yoeOf (yEnd y) = y ∧ (y < 399 → yStart (y + 1) = yEnd y + 1) := by
  have h1 := allBelow_spec _ _ era_table y h
  simp only [testYear, Bool.and_eq_true] at h1
  refine ⟨Nat.eq_of_beq_eq_true h1.1.1, Nat.eq_of_beq_eq_true h1.1.2, fun h399 => ?_⟩
  have hne : (y == 399) = false := by simp; omega
  have h2 := Nat.eq_of_beq_eq_true h1.2
  rw [hne] at h2
  simpa using h2

theorem yEnd_399 : yEnd 399 = 146096 := by decide
theorem yStart_0 : yStart 0 = 0 := by decide

theorem yoeOf_mono (a b : Nat) (h : a ≤ b) (hb : b < 146097) : yoeOf a ≤ yoeOf b := by
  have : a - a / 1460 + a / 36524 - a / 146096 ≤ b - b / 1460 + b / 36524 - b / 146096 := by omega
  unfold yoeOf
  exact Nat.div_le_div_right this

theorem yEnd_lt (y : Nat) (h : y < 400) : yEnd y < 146097 := by
  unfold yEnd yStart leapFlag; split <;> omega

/-- every day of the era lies in the year the formula computes for it -/
theorem yoe_facts (doe : Nat) (h : doe < 146097) :
    yoeOf doe < 400 ∧ yStart (yoeOf doe) ≤ doe ∧ doe - yStart (yoeOf doe) ≤ 364 + leapFlag (yoeOf doe) := by
  have h400 : yoeOf doe < 400 := by
    have := yoeOf_mono doe 146096 (by omega) (by omega)
    have e : yoeOf 146096 = 399 := by decide
    omega
  refine ⟨h400, ?_, ?_⟩
  · -- not before the year's first day
    apply Classical.byContradiction; intro hlt
    have hy1 : 1 ≤ yoeOf doe := by
      apply Classical.byContradiction; intro h0
      have : yoeOf doe = 0 := by omega
      rw [this, yStart_0] at hlt; omega
    obtain ⟨_, he, hs⟩ := year_facts (yoeOf doe - 1) (by omega)
    have hs' := hs (by omega)
    have e1 : yoeOf doe - 1 + 1 = yoeOf doe := by omega
    rw [e1] at hs'
    have hle : doe ≤ yEnd (yoeOf doe - 1) := by omega
    have := yoeOf_mono doe (yEnd (yoeOf doe - 1)) hle (yEnd_lt _ (by omega))
    omega
  · -- not after its last day
    apply Classical.byContradiction; intro hgt
    have hgt' : yEnd (yoeOf doe) < doe := by unfold yEnd; omega
    have h399 : yoeOf doe < 399 := by
      apply Classical.byContradiction; intro h9
      have : yoeOf doe = 399 := by omega
      rw [this, yEnd_399] at hgt'; omega
    obtain ⟨_, _, hs⟩ := year_facts (yoeOf doe) h400
    have hs' := hs h399
    obtain ⟨hs1, _, _⟩ := year_facts (yoeOf doe + 1) (by omega)
    have := yoeOf_mono (yStart (yoeOf doe + 1)) doe (by omega) h
    omega

end Tc.Json
