import TcVerif.Proofs.JsonEraTable
/-!
# RFC 3339 timestamps, part 2: the civil-date algorithms are inverse to each other (years 0000–9999)
-/
namespace Tc.Json

/-- days since the epoch of 0000-01-01 and 9999-12-31 -/
def minDay : Int := -719528
def maxDay : Int := 2932896

/-- month and day from the day of the (March-based) year, and back -/
theorem month_day (doy : Nat) (h : doy ≤ 365) :
    (5 * doy + 2) / 153 < 12
    ∧ (153 * ((5 * doy + 2) / 153) + 2) / 5 ≤ doy
    ∧ doy - (153 * ((5 * doy + 2) / 153) + 2) / 5 + 1 ≤ 31
    ∧ (((5 * doy + 2) / 153 = 1 ∨ (5 * doy + 2) / 153 = 3 ∨ (5 * doy + 2) / 153 = 6 ∨ (5 * doy + 2) / 153 = 8)
        → doy - (153 * ((5 * doy + 2) / 153) + 2) / 5 + 1 ≤ 30)
    ∧ ((5 * doy + 2) / 153 = 11 → doy - (153 * ((5 * doy + 2) / 153) + 2) / 5 + 1 + 336 = doy) := by
  omega

theorem era_of (yoe : Nat) (era : Int) (h : yoe < 400) :
    ((yoe : Int) + era * 400) / 400 = era ∧ (((yoe : Int) + era * 400) - era * 400).toNat = yoe := by
  omega

theorem leapFlag_cases (y : Nat) :
    (leapFlag y = 0) ∨ (leapFlag y = 1 ∧ y % 4 = 3 ∧ (y % 100 ≠ 99 ∨ y = 399)) := by
  unfold leapFlag
  split
  · rename_i hc
    right
    simp only [Bool.and_eq_true, Bool.or_eq_true, Bool.not_eq_true', beq_iff_eq, beq_eq_false_iff_ne] at hc
    exact ⟨rfl, hc.1, hc.2⟩
  · left; rfl

/-- `civilFromDays` with its intermediate values named -/
theorem civilFromDays_eq (days : Int) (era : Int) (doe yoe doy mp : Nat)
    (hera : (days + 719468) / 146097 = era)
    (hdoe : ((days + 719468) - era * 146097).toNat = doe)
    (hyoe : yoeOf doe = yoe)
    (hdoy : doe - yStart yoe = doy)
    (hmp : (5 * doy + 2) / 153 = mp) :
    civilFromDays days =
      (if (if mp < 10 then mp + 3 else mp - 9) ≤ 2 then (yoe : Int) + era * 400 + 1 else (yoe : Int) + era * 400,
       if mp < 10 then mp + 3 else mp - 9, doy - (153 * mp + 2) / 5 + 1) := by
  unfold yoeOf at hyoe
  unfold yStart at hdoy
  simp only [civilFromDays, hera, hdoe, hyoe, hdoy, hmp]

/-- `daysFromCivil` on a March-based year / month index / day -/
theorem daysFromCivil_eq (yoe : Nat) (era : Int) (mp d : Nat) (hy : yoe < 400) (hmp : mp < 12) :
    daysFromCivil (if (if mp < 10 then mp + 3 else mp - 9) ≤ 2 then (yoe : Int) + era * 400 + 1 else (yoe : Int) + era * 400)
      (if mp < 10 then mp + 3 else mp - 9) d
    = era * 146097 + ((yoe * 365 + yoe / 4 - yoe / 100 + ((153 * mp + 2) / 5 + d - 1) : Nat) : Int) - 719468 := by
  obtain ⟨e1, e2⟩ := era_of yoe era hy
  by_cases hm10 : mp < 10
  · have hm : ¬ (mp + 3 ≤ 2) := by omega
    have h3 : mp + 3 > 2 := by omega
    have h4 : mp + 3 - 3 = mp := by omega
    simp only [hm10, if_true, hm, if_false, daysFromCivil, h3, e1, e2, h4]
  · have hm : mp - 9 ≤ 2 := by omega
    have h3 : ¬ (mp - 9 > 2) := by omega
    have h4 : mp - 9 + 9 = mp := by omega
    have h5 : (yoe : Int) + era * 400 + 1 - 1 = (yoe : Int) + era * 400 := by omega
    simp only [hm10, if_false, hm, if_true, daysFromCivil, h3, h5, e1, e2, h4]

/-- **the civil-date algorithms are inverse to each other** on the years 0000–9999, and what
    `civilFromDays` returns is a date the reader accepts -/
theorem civil_roundtrip (days : Int) (hlo : minDay ≤ days) (hhi : days ≤ maxDay) :
    daysFromCivil (civilFromDays days).1 (civilFromDays days).2.1 (civilFromDays days).2.2 = days
    ∧ 0 ≤ (civilFromDays days).1 ∧ (civilFromDays days).1 ≤ 9999
    ∧ 1 ≤ (civilFromDays days).2.1 ∧ (civilFromDays days).2.1 ≤ 12
    ∧ 1 ≤ (civilFromDays days).2.2
    ∧ (civilFromDays days).2.2 ≤ daysIn (civilFromDays days).1.toNat (civilFromDays days).2.1 := by
  unfold minDay at hlo; unfold maxDay at hhi
  generalize hera : (days + 719468) / 146097 = era
  generalize hdoe : ((days + 719468) - era * 146097).toNat = doe
  have hdoe_lt : doe < 146097 := by omega
  have hdays : days = era * 146097 + (doe : Int) - 719468 := by omega
  have hera_lo : -1 ≤ era := by omega
  have hera_hi : era ≤ 24 := by omega
  obtain ⟨hy400, hstart, hdoyle⟩ := yoe_facts doe hdoe_lt
  generalize hyoe : yoeOf doe = yoe at hy400 hstart hdoyle
  generalize hdoy : doe - yStart yoe = doy at hdoyle
  have hdoe_eq : doe = yStart yoe + doy := by omega
  have hdoy365 : doy ≤ 365 := by rcases leapFlag_cases yoe with h | h <;> omega
  obtain ⟨hmp12, hmle, hd31, hd30, hfeb⟩ := month_day doy hdoy365
  generalize hmp : (5 * doy + 2) / 153 = mp at hmp12 hmle hd31 hd30 hfeb
  rw [civilFromDays_eq days era doe yoe doy mp hera hdoe hyoe hdoy hmp]
  dsimp only
  have hdoy_lo : mp < 10 → doy ≤ 305 := by omega
  have hdoy_hi : ¬ mp < 10 → 306 ≤ doy := by omega
  have hys : yStart yoe ≤ 145731 := by unfold yStart; omega
  refine ⟨?_, ?_⟩
  · -- the round trip
    show daysFromCivil _ _ _ = days
    rw [daysFromCivil_eq yoe era mp _ hy400 hmp12, hdays, hdoe_eq]
    unfold yStart
    omega
  · -- what was returned is a valid calendar date of the years 0000–9999
    show 0 ≤ (if (if mp < 10 then mp + 3 else mp - 9) ≤ 2 then (yoe : Int) + era * 400 + 1 else (yoe : Int) + era * 400) ∧ _
    have hyr_lo : days ≥ -719528 := hlo
    by_cases hm10 : mp < 10
    · have hm : ¬ (mp + 3 ≤ 2) := by omega
      simp only [hm10, if_true, hm, if_false]
      have h305 := hdoy_lo hm10
      have hy0 : 0 ≤ (yoe : Int) + era * 400 := by
        by_cases he : era = -1
        · subst he; omega
        · omega
      have hy9 : (yoe : Int) + era * 400 ≤ 9999 := by omega
      refine ⟨hy0, hy9, by omega, by omega, by omega, ?_⟩
      unfold daysIn
      have hne2 : mp + 3 ≠ 2 := by omega
      simp only [hne2, if_false]
      split <;> omega
    · have hm : mp - 9 ≤ 2 := by omega
      simp only [hm10, if_false, hm, if_true]
      have h306 := hdoy_hi hm10
      have hy0 : 0 ≤ (yoe : Int) + era * 400 + 1 := by
        by_cases he : era = -1
        · subst he
          have : 145672 ≤ yStart yoe := by omega
          unfold yStart at this
          omega
        · omega
      have hy9 : (yoe : Int) + era * 400 + 1 ≤ 9999 := by
        by_cases he : era = 24
        · subst he
          have : yStart yoe ≤ 145730 := by omega
          unfold yStart at this
          omega
        · omega
      refine ⟨hy0, hy9, by omega, by omega, by omega, ?_⟩
      unfold daysIn isLeap
      by_cases hfe : mp - 9 = 2
      · have hmp11 : mp = 11 := by omega
        have hd := hfeb hmp11
        simp only [hfe, if_true]
        rcases leapFlag_cases yoe with h0 | ⟨h1, h4, h100⟩
        · split <;> omega
        · have hl : (decide (((yoe : Int) + era * 400 + 1).toNat % 4 = 0) && decide (((yoe : Int) + era * 400 + 1).toNat % 100 ≠ 0)
              || decide (((yoe : Int) + era * 400 + 1).toNat % 400 = 0)) = true := by
            simp only [Bool.or_eq_true, Bool.and_eq_true, decide_eq_true_eq]
            omega
          simp only [hl, if_true]
          omega
      · simp only [hfe, if_false]
        split <;> omega

end Tc.Json
