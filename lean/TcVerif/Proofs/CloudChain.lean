/-! # Object-store version chain under interleaving (add_version + get_child_version) — C09
    (`src/server/cloud/server.rs`).
    Store requests are the atomic steps.  Listing is weak: a list step may report any set of
    children that are present at that instant (sub-listing across pages only weakens this
    further and is covered because every reported child was *created*). -/
namespace Tc.Cloud

abbrev Vid := Nat

structure VObj where
  parent : Vid
  child : Vid
  data : Nat
deriving DecidableEq, Repr

inductive PC where
  | idle
  | a1 (P : Vid) (d : Nat) (l : Option Vid)
  | a2 (P : Vid) (d : Nat) (l : Option Vid) (N : Vid)
  | a4 (P : Vid) (N : Vid)
  | g1 (P : Vid) (cs : List Vid)
  | g2 (P : Vid) (cs : List Vid) (found : Option Vid)
  | g4 (P : Vid) (c : Vid)
deriving DecidableEq, Repr

structure Sys where
  latest : Option Vid
  vers : List VObj
  chain : List Vid                   -- ghost: ids whose cas succeeded, in order
  created : List Vid                 -- ghost: every child id ever put
  sub : List (Vid × Vid × Nat)       -- ghost: (parent, child, data) of every put
  pcs : Nat → PC
  served : List (Vid × Vid × Nat)    -- ghost: answers of get_child_version
  acked : List Vid                   -- ghost: ids answered Ok

def setPc (S : Sys) (i : Nat) (pc : PC) : Sys :=
  { S with pcs := fun j => if j = i then pc else S.pcs j }

def pcUses : PC → Vid → Prop
  | .idle, _ => False
  | .a1 P _ _, n => P = n
  | .a2 P _ _ N, n => P = n ∨ N = n
  | .a4 P N, n => P = n ∨ N = n
  | .g1 P cs, n => P = n ∨ n ∈ cs
  | .g2 P cs f, n => P = n ∨ n ∈ cs ∨ f = some n
  | .g4 P c, n => P = n ∨ c = n

def usedId (S : Sys) (n : Vid) : Prop :=
  n ∈ S.created ∨ (∃ o ∈ S.vers, o.parent = n) ∨ (∃ i, pcUses (S.pcs i) n)

inductive Step : Sys → Sys → Prop where
  | avRead (S : Sys) (i : Nat) (P : Vid) (d : Nat) (h : S.pcs i = .idle)
      (hok : S.latest = none ∨ S.latest = some P)
      (hside : S.latest = none → P ∉ S.created) :
      Step S (setPc S i (.a1 P d S.latest))
  | avPut (S : Sys) (i : Nat) (P : Vid) (d : Nat) (l : Option Vid) (N : Vid)
      (h : S.pcs i = .a1 P d l) (hfresh : ¬ usedId S N) :
      Step S (setPc { S with vers := ⟨P, N, d⟩ :: S.vers, created := N :: S.created,
                             sub := (P, N, d) :: S.sub } i (.a2 P d l N))
  | avCasOk (S : Sys) (i : Nat) (P : Vid) (d : Nat) (l : Option Vid) (N : Vid)
      (h : S.pcs i = .a2 P d l N) (heq : S.latest = l) :
      Step S (setPc { S with latest := some N, chain := S.chain ++ [N], acked := N :: S.acked } i .idle)
  | avCasFail (S : Sys) (i : Nat) (P : Vid) (d : Nat) (l : Option Vid) (N : Vid)
      (h : S.pcs i = .a2 P d l N) (hne : S.latest ≠ l) :
      Step S (setPc S i (.a4 P N))
  | avDel (S : Sys) (i : Nat) (P N : Vid) (h : S.pcs i = .a4 P N) :
      Step S (setPc { S with vers := S.vers.filter (fun o => decide (o.child ≠ N)) } i .idle)
  | gcList (S : Sys) (i : Nat) (P : Vid) (cs : List Vid) (h : S.pcs i = .idle)
      (hcs : ∀ c ∈ cs, ∃ o ∈ S.vers, o.parent = P ∧ o.child = c) :
      Step S (setPc S i (.g1 P cs))
  | gcLatestHit (S : Sys) (i : Nat) (P : Vid) (cs : List Vid) (c : Vid)
      (h : S.pcs i = .g1 P cs) (hc : c ∈ cs) (hl : S.latest = some c) :
      Step S (setPc S i (.g4 P c))
  | gcLatestMiss (S : Sys) (i : Nat) (P : Vid) (cs : List Vid) (h : S.pcs i = .g1 P cs) :
      Step S (setPc S i (.g2 P cs none))
  | gcProbeHit (S : Sys) (i : Nat) (P : Vid) (cs : List Vid) (f : Option Vid) (c : Vid)
      (h : S.pcs i = .g2 P cs f) (hc : c ∈ cs) (hch : ∃ o ∈ S.vers, o.parent = c) :
      Step S (setPc S i (.g2 P cs (some c)))
  | gcChoose (S : Sys) (i : Nat) (P : Vid) (cs : List Vid) (c : Vid)
      (h : S.pcs i = .g2 P cs (some c)) :
      Step S (setPc S i (.g4 P c))
  | gcGet (S : Sys) (i : Nat) (P c : Vid) (o : VObj) (h : S.pcs i = .g4 P c)
      (ho : o ∈ S.vers) (hp : o.parent = P) (hcc : o.child = c) :
      Step S (setPc { S with served := (P, c, o.data) :: S.served } i .idle)
  | gcGone (S : Sys) (i : Nat) (P c : Vid) (h : S.pcs i = .g4 P c) :
      Step S (setPc S i .idle)
  /-- a call ends without a further effect on the store: no candidate child turned out to be on the
      chain, or the client gave up / failed / stopped at this point (whatever it has put stays) -/
  | abandon (S : Sys) (i : Nat) :
      Step S (setPc S i .idle)

/-- `p` is the immediate predecessor of `c` in the chain, or `c` is its first element. -/
def predOrFirst (chain : List Vid) (p c : Vid) : Prop :=
  (∃ pre post, chain = pre ++ p :: c :: post) ∨ (∃ post, chain = c :: post)

def PcOk (S : Sys) : PC → Prop
  | .idle => True
  | .a1 P _ l => (l = some P ∧ P ∈ S.chain) ∨ (l = none ∧ (P ∉ S.created ∨ P ∈ S.chain))
  | .a2 P d l N => ((l = some P ∧ P ∈ S.chain) ∨ (l = none ∧ (P ∉ S.created ∨ P ∈ S.chain))) ∧
      N ∉ S.chain ∧ N ∈ S.created ∧ (P, N, d) ∈ S.sub ∧ (⟨P, N, d⟩ ∈ S.vers) ∧
      (∀ o ∈ S.vers, o.parent ≠ N)
  | .a4 _ N => N ∉ S.chain
  | .g1 _ cs => ∀ c ∈ cs, c ∈ S.created
  | .g2 _ cs f => (∀ c ∈ cs, c ∈ S.created) ∧ (∀ c, f = some c → c ∈ S.chain)
  | .g4 _ c => c ∈ S.chain

def inflight : PC → Option Vid
  | .a2 _ _ _ N => some N
  | .a4 _ N => some N
  | _ => none

structure Inv (S : Sys) : Prop where
  latest_last : S.latest = S.chain.getLast?
  nodup : S.chain.Nodup
  chain_created : ∀ c ∈ S.chain, c ∈ S.created
  vers_created : ∀ o ∈ S.vers, o.child ∈ S.created
  vers_sub : ∀ o ∈ S.vers, (o.parent, o.child, o.data) ∈ S.sub
  sub_unique : ∀ x ∈ S.sub, ∀ y ∈ S.sub, x.2.1 = y.2.1 → x = y
  sub_created : ∀ x ∈ S.sub, x.2.1 ∈ S.created
  inflight_distinct : ∀ i j n, i ≠ j → inflight (S.pcs i) = some n → inflight (S.pcs j) ≠ some n
  parent_ok : ∀ o ∈ S.vers, o.parent ∈ S.chain ∨ o.parent ∉ S.created
  chain_obj : ∀ c ∈ S.chain, ∃ o ∈ S.vers, o.child = c ∧ predOrFirst S.chain o.parent c
  pcs_ok : ∀ i, PcOk S (S.pcs i)
  acked_chain : ∀ n ∈ S.acked, n ∈ S.chain
  served_ok : ∀ x ∈ S.served, x ∈ S.sub ∧ x.2.1 ∈ S.chain ∧ predOrFirst S.chain x.1 x.2.1


/-! ### helper lemmas -/

@[simp] theorem setPc_latest (S : Sys) (i pc) : (setPc S i pc).latest = S.latest := rfl
@[simp] theorem setPc_vers (S : Sys) (i pc) : (setPc S i pc).vers = S.vers := rfl
@[simp] theorem setPc_chain (S : Sys) (i pc) : (setPc S i pc).chain = S.chain := rfl
@[simp] theorem setPc_created (S : Sys) (i pc) : (setPc S i pc).created = S.created := rfl
@[simp] theorem setPc_sub (S : Sys) (i pc) : (setPc S i pc).sub = S.sub := rfl
@[simp] theorem setPc_served (S : Sys) (i pc) : (setPc S i pc).served = S.served := rfl
@[simp] theorem setPc_acked (S : Sys) (i pc) : (setPc S i pc).acked = S.acked := rfl
theorem setPc_pcs (S : Sys) (i pc j) : (setPc S i pc).pcs j = if j = i then pc else S.pcs j := rfl

/-- `PcOk` only looks at chain, created, sub, vers. -/
theorem PcOk_congr {S T : Sys} (h1 : S.chain = T.chain) (h2 : S.created = T.created)
    (h3 : S.sub = T.sub) (h4 : S.vers = T.vers) (pc : PC) : PcOk S pc ↔ PcOk T pc := by
  cases pc <;> simp [PcOk, h1, h2, h3, h4]

theorem predOrFirst_append {chain : List Vid} {p c : Vid} (N : Vid)
    (h : predOrFirst chain p c) : predOrFirst (chain ++ [N]) p c := by
  rcases h with ⟨pre, post, rfl⟩ | ⟨post, rfl⟩
  · exact Or.inl ⟨pre, post ++ [N], by simp⟩
  · exact Or.inr ⟨post ++ [N], by simp⟩

/-- only the pc of client `i` changes, and it does not acquire a new in-flight id -/
theorem inv_setPc {S : Sys} (hI : Inv S) (i : Nat) (pc : PC) (hpc : PcOk S pc)
    (hfl : inflight pc = none ∨ inflight pc = inflight (S.pcs i)) :
    Inv (setPc S i pc) := by
  refine { hI with pcs_ok := ?_, inflight_distinct := ?_ }
  · intro a b n hab ha hb
    rw [setPc_pcs] at ha hb
    by_cases hai : a = i <;> by_cases hbi : b = i <;> simp only [hai, hbi, if_true, if_false] at ha hb
    · exact hab (hai.trans hbi.symm)
    · rcases hfl with h | h
      · rw [h] at ha; cases ha
      · rw [h] at ha; exact hI.inflight_distinct i b n (fun e => hbi e.symm) ha hb
    · rcases hfl with h | h
      · rw [h] at hb; cases hb
      · rw [h] at hb; exact hI.inflight_distinct a i n hai ha hb
    · exact hI.inflight_distinct a b n hab ha hb
  · intro j
    rw [setPc_pcs]
    split
    · exact (PcOk_congr rfl rfl rfl rfl pc).mp hpc
    · exact (PcOk_congr rfl rfl rfl rfl _).mp (hI.pcs_ok j)

theorem getLast?_mem {l : List Vid} {x : Vid} (h : l.getLast? = some x) : x ∈ l :=
  List.mem_of_getLast? h

theorem inflight_uses {pc : PC} {n : Vid} (h : inflight pc = some n) : pcUses pc n := by
  cases pc <;> simp [inflight] at h <;> simp [pcUses, h]

theorem inv_step {S S' : Sys} (hI : Inv S) (hs : Step S S') : Inv S' := by
  cases hs with
  | avRead i P d h hok hside =>
    apply inv_setPc hI _ _ _ (Or.inl rfl)
    simp only [PcOk]
    rcases hok with hn | hsome
    · exact Or.inr ⟨hn, Or.inl (hside hn)⟩
    · refine Or.inl ⟨hsome, ?_⟩
      have := hI.latest_last; rw [hsome] at this
      exact getLast?_mem this.symm
  | avPut i P d l N h hfresh =>
    have hpcI := hI.pcs_ok i; rw [h] at hpcI
    have hNcr : N ∉ S.created := fun hh => hfresh (Or.inl hh)
    have hNpar : ∀ o ∈ S.vers, o.parent ≠ N := fun o ho e => hfresh (Or.inr (Or.inl ⟨o, ho, e⟩))
    have hNpc : ∀ j, ¬ pcUses (S.pcs j) N := fun j hh => hfresh (Or.inr (Or.inr ⟨j, hh⟩))
    have hPN : P ≠ N := by have := hNpc i; rw [h] at this; exact this
    have hNch : N ∉ S.chain := fun hh => hNcr (hI.chain_created N hh)
    have hcr : ∀ x, x ≠ N → x ∉ S.created → x ∉ N :: S.created := by
      intro x hx hx' hm
      rcases List.mem_cons.mp hm with e | hm
      · exact hx e
      · exact hx' hm
    have hlc : (l = some P ∧ P ∈ S.chain) ∨ (l = none ∧ (P ∉ N :: S.created ∨ P ∈ S.chain)) :=
      hpcI.imp id (fun ⟨a, b⟩ => ⟨a, b.imp (hcr P hPN) id⟩)
    exact
      { latest_last := hI.latest_last
        nodup := hI.nodup
        chain_created := fun c hc => List.mem_cons_of_mem _ (hI.chain_created c hc)
        vers_created := by
          intro o ho
          rcases List.mem_cons.mp ho with rfl | ho
          · exact List.mem_cons_self
          · exact List.mem_cons_of_mem _ (hI.vers_created o ho)
        vers_sub := by
          intro o ho
          rcases List.mem_cons.mp ho with rfl | ho
          · exact List.mem_cons_self
          · exact List.mem_cons_of_mem _ (hI.vers_sub o ho)
        sub_unique := by
          intro x hx y hy hxy
          rcases List.mem_cons.mp hx with rfl | hx <;> rcases List.mem_cons.mp hy with rfl | hy
          · rfl
          · exact absurd (hI.sub_created y hy) (by rw [← hxy]; exact hNcr)
          · exact absurd (hI.sub_created x hx) (by rw [hxy]; exact hNcr)
          · exact hI.sub_unique x hx y hy hxy
        sub_created := by
          intro x hx
          rcases List.mem_cons.mp hx with rfl | hx
          · exact List.mem_cons_self
          · exact List.mem_cons_of_mem _ (hI.sub_created x hx)
        inflight_distinct := by
          intro a b n hab ha hb
          simp only [setPc_pcs] at ha hb
          by_cases hai : a = i <;> by_cases hbi : b = i <;> simp only [hai, hbi, if_true, if_false] at ha hb
          · exact hab (hai.trans hbi.symm)
          · simp [inflight] at ha; subst ha
            exact hNpc b (inflight_uses hb)
          · simp [inflight] at hb; subst hb
            exact hNpc a (inflight_uses ha)
          · exact hI.inflight_distinct a b n hab ha hb
        parent_ok := by
          intro o ho
          rcases List.mem_cons.mp ho with rfl | ho
          · rcases hlc with ⟨_, hc⟩ | ⟨_, hc | hc⟩
            · exact Or.inl hc
            · exact Or.inr hc
            · exact Or.inl hc
          · exact (hI.parent_ok o ho).imp id (hcr _ (hNpar o ho))
        chain_obj := by
          intro c hc
          obtain ⟨o, ho, hoc, hp⟩ := hI.chain_obj c hc
          exact ⟨o, List.mem_cons_of_mem _ ho, hoc, hp⟩
        pcs_ok := by
          intro j
          simp only [setPc_pcs]
          by_cases hji : j = i
          · simp only [hji, if_true]
            refine ⟨hlc, hNch, List.mem_cons_self, List.mem_cons_self, List.mem_cons_self, ?_⟩
            intro o ho
            rcases List.mem_cons.mp ho with rfl | ho
            · exact hPN
            · exact hNpar o ho
          · simp only [hji, if_false]
            have hj := hI.pcs_ok j
            have huse := hNpc j
            cases hpc : S.pcs j with
            | idle => trivial
            | a1 P' d' l' =>
              rw [hpc] at hj huse
              have : P' ≠ N := huse
              exact hj.imp id (fun ⟨a, b⟩ => ⟨a, b.imp (hcr P' this) id⟩)
            | a2 P' d' l' N' =>
              rw [hpc] at hj huse
              obtain ⟨h1, h2, h3, h4, h5, h6⟩ := hj
              have hP'N : P' ≠ N := fun e => huse (Or.inl e)
              refine ⟨h1.imp id (fun ⟨a, b⟩ => ⟨a, b.imp (hcr P' hP'N) id⟩), h2,
                List.mem_cons_of_mem _ h3, List.mem_cons_of_mem _ h4, List.mem_cons_of_mem _ h5, ?_⟩
              intro o ho
              rcases List.mem_cons.mp ho with rfl | ho
              · -- the new object's parent P is not the in-flight id N' of client j
                show P ≠ N'
                rcases hpcI with ⟨_, hc⟩ | ⟨_, hc | hc⟩
                · intro e; exact h2 (e ▸ hc)
                · intro e; exact hc (e ▸ h3)
                · intro e; exact h2 (e ▸ hc)
              · exact h6 o ho
            | a4 P' N' => rw [hpc] at hj; exact hj
            | g1 P' cs => rw [hpc] at hj; exact fun c hc => List.mem_cons_of_mem _ (hj c hc)
            | g2 P' cs f => rw [hpc] at hj; exact ⟨fun c hc => List.mem_cons_of_mem _ (hj.1 c hc), hj.2⟩
            | g4 P' c => rw [hpc] at hj; exact hj
        acked_chain := hI.acked_chain
        served_ok := fun x hx =>
          let ⟨a, b, c⟩ := hI.served_ok x hx
          ⟨List.mem_cons_of_mem _ a, b, c⟩ }
  | avCasOk i P d l N h heq =>
    have hpcI := hI.pcs_ok i; rw [h] at hpcI
    obtain ⟨hl, hNc, hNcr, hNsub, hNobj, _⟩ := hpcI
    have hmem : ∀ x, x ∈ S.chain → x ∈ S.chain ++ [N] := fun x hx => List.mem_append.mpr (Or.inl hx)
    have hpredN : predOrFirst (S.chain ++ [N]) P N := by
      rcases hl with ⟨rfl, _⟩ | ⟨rfl, _⟩
      · have hlast : S.chain.getLast? = some P := by rw [← hI.latest_last, heq]
        obtain ⟨pre, hpre⟩ := List.getLast?_eq_some_iff.mp hlast
        exact Or.inl ⟨pre, [], by rw [hpre]; simp⟩
      · have hlast : S.chain.getLast? = none := by rw [← hI.latest_last, heq]
        have : S.chain = [] := List.getLast?_eq_none_iff.mp hlast
        exact Or.inr ⟨[], by rw [this]; rfl⟩
    have hI0 : Inv (setPc S i .idle) := inv_setPc hI i .idle trivial (Or.inl rfl)
    have hnoN : ∀ j, inflight ((setPc S i .idle).pcs j) ≠ some N := by
      intro j
      rw [setPc_pcs]
      split
      · simp [inflight]
      · rename_i hji
        exact hI.inflight_distinct i j N (fun e => hji e.symm) (by rw [h]; rfl)
    generalize hS0 : setPc S i .idle = S0 at hI0 hnoN
    have e1 : S0.chain = S.chain := by rw [← hS0]; rfl
    have e2 : S0.vers = S.vers := by rw [← hS0]; rfl
    have e3 : S0.created = S.created := by rw [← hS0]; rfl
    have e4 : S0.sub = S.sub := by rw [← hS0]; rfl
    have e5 : S0.acked = S.acked := by rw [← hS0]; rfl
    have e6 : S0.served = S.served := by rw [← hS0]; rfl
    have hgoal : setPc { S with latest := some N, chain := S.chain ++ [N], acked := N :: S.acked } i .idle
        = { S0 with latest := some N, chain := S0.chain ++ [N], acked := N :: S0.acked } := by
      rw [← hS0]; rfl
    rw [hgoal]
    rw [← e1] at hNc hmem hpredN
    rw [← e2] at hNobj
    rw [← e3] at hNcr
    exact
      { latest_last := by simp
        nodup := by
          rw [List.nodup_append]
          refine ⟨hI0.nodup, by simp, ?_⟩
          intro a ha b hb
          simp at hb; subst hb
          intro e; exact hNc (e ▸ ha)
        chain_created := by
          intro c hc
          rcases List.mem_append.mp hc with hc | hc
          · exact hI0.chain_created c hc
          · simp at hc; subst hc; exact hNcr
        vers_created := hI0.vers_created
        vers_sub := hI0.vers_sub
        sub_unique := hI0.sub_unique
        sub_created := hI0.sub_created
        inflight_distinct := hI0.inflight_distinct
        parent_ok := fun o ho => (hI0.parent_ok o ho).imp (hmem _) id
        chain_obj := by
          intro c hc
          rcases List.mem_append.mp hc with hc | hc
          · obtain ⟨o, ho, hoc, hp⟩ := hI0.chain_obj c hc
            exact ⟨o, ho, hoc, predOrFirst_append N hp⟩
          · simp at hc; subst hc
            exact ⟨⟨P, c, d⟩, hNobj, rfl, hpredN⟩
        pcs_ok := by
          intro j
          have hj := hI0.pcs_ok j
          have hdist := hnoN j
          show PcOk _ (S0.pcs j)
          cases hpc : S0.pcs j with
          | idle => trivial
          | a1 P' d' l' =>
            rw [hpc] at hj
            exact hj.imp (fun ⟨a, b⟩ => ⟨a, hmem _ b⟩) (fun ⟨a, b⟩ => ⟨a, b.imp id (hmem _)⟩)
          | a2 P' d' l' N' =>
            rw [hpc] at hj hdist
            obtain ⟨h1, h2, h3, h4, h5, h6⟩ := hj
            have hne : N' ≠ N := fun e => hdist (by rw [e]; rfl)
            refine ⟨h1.imp (fun ⟨a, b⟩ => ⟨a, hmem _ b⟩) (fun ⟨a, b⟩ => ⟨a, b.imp id (hmem _)⟩), ?_, h3, h4, h5, h6⟩
            intro hin
            rcases List.mem_append.mp hin with hin | hin
            · exact h2 hin
            · simp at hin; exact hne hin
          | a4 P' N' =>
            rw [hpc] at hj hdist
            have hne : N' ≠ N := fun e => hdist (by rw [e]; rfl)
            intro hin
            rcases List.mem_append.mp hin with hin | hin
            · exact hj hin
            · simp at hin; exact hne hin
          | g1 P' cs => rw [hpc] at hj; exact hj
          | g2 P' cs f => rw [hpc] at hj; exact ⟨hj.1, fun c hc => hmem _ (hj.2 c hc)⟩
          | g4 P' c => rw [hpc] at hj; exact hmem _ hj
        acked_chain := by
          intro n hn
          rcases List.mem_cons.mp hn with rfl | hn
          · simp
          · exact hmem _ (hI0.acked_chain n hn)
        served_ok := fun x hx =>
          let ⟨a, b, c⟩ := hI0.served_ok x hx
          ⟨a, hmem _ b, predOrFirst_append N c⟩ }
  | avCasFail i P d l N h hne =>
    apply inv_setPc hI _ _ _ (Or.inr (by rw [h]; rfl))
    have := hI.pcs_ok i; rw [h] at this
    exact this.2.1
  | avDel i P N h =>
    have hpcI := hI.pcs_ok i; rw [h] at hpcI
    have hN : N ∉ S.chain := hpcI
    have hsubset : ∀ o, o ∈ S.vers.filter (fun o => decide (o.child ≠ N)) → o ∈ S.vers :=
      fun o ho => (List.mem_filter.mp ho).1
    have hI' : Inv { S with vers := S.vers.filter (fun o => decide (o.child ≠ N)) } :=
      { hI with
        vers_created := fun o ho => hI.vers_created o (hsubset o ho)
        vers_sub := fun o ho => hI.vers_sub o (hsubset o ho)
        parent_ok := fun o ho => hI.parent_ok o (hsubset o ho)
        chain_obj := by
          intro c hc
          obtain ⟨o, ho, hoc, hp⟩ := hI.chain_obj c hc
          refine ⟨o, List.mem_filter.mpr ⟨ho, ?_⟩, hoc, hp⟩
          have : o.child ≠ N := by rw [hoc]; intro e; exact hN (e ▸ hc)
          simpa using this
        pcs_ok := by
          intro j
          have hj := hI.pcs_ok j
          cases hpc : S.pcs j with
          | idle => trivial
          | a1 P' d' l' => rw [hpc] at hj; exact hj
          | a2 P' d' l' N' =>
            rw [hpc] at hj
            obtain ⟨h1, h2, h3, h4, h5, h6⟩ := hj
            have hne : N' ≠ N := by
              intro e
              by_cases hji : j = i
              · rw [hji, h] at hpc; cases hpc
              · have := hI.inflight_distinct i j N (fun e => hji e.symm) (by rw [h]; rfl)
                rw [hpc] at this; exact this (by rw [e]; rfl)
            refine ⟨h1, h2, h3, h4, List.mem_filter.mpr ⟨h5, by simpa using hne⟩, fun o ho => h6 o (hsubset o ho)⟩
          | a4 P' N' => rw [hpc] at hj; exact hj
          | g1 P' cs => rw [hpc] at hj; exact hj
          | g2 P' cs f => rw [hpc] at hj; exact hj
          | g4 P' c => rw [hpc] at hj; exact hj }
    exact inv_setPc hI' i .idle trivial (Or.inl rfl)
  | gcList i P cs h hcs =>
    apply inv_setPc hI _ _ _ (Or.inl rfl)
    intro c hc
    obtain ⟨o, ho, _, rfl⟩ := hcs c hc
    exact hI.vers_created o ho
  | gcLatestHit i P cs c h hc hl =>
    apply inv_setPc hI _ _ _ (Or.inl rfl)
    have := hI.latest_last; rw [hl] at this
    exact getLast?_mem this.symm
  | gcLatestMiss i P cs h =>
    apply inv_setPc hI _ _ _ (Or.inl rfl)
    have := hI.pcs_ok i; rw [h] at this
    exact ⟨this, by simp⟩
  | gcProbeHit i P cs f c h hc hch =>
    apply inv_setPc hI _ _ _ (Or.inl rfl)
    have hpc := hI.pcs_ok i; rw [h] at hpc
    refine ⟨hpc.1, ?_⟩
    intro c' hc'
    cases hc'
    obtain ⟨o, ho, hop⟩ := hch
    rcases hI.parent_ok o ho with hin | hnot
    · rw [hop] at hin; exact hin
    · rw [hop] at hnot; exact absurd (hpc.1 c hc) hnot
  | gcChoose i P cs c h =>
    apply inv_setPc hI _ _ _ (Or.inl rfl)
    have hpc := hI.pcs_ok i; rw [h] at hpc
    exact hpc.2 c rfl
  | gcGet i P c o h ho hp hcc =>
    have hpc := hI.pcs_ok i; rw [h] at hpc
    have hc : c ∈ S.chain := hpc
    have hsub : (P, c, o.data) ∈ S.sub := by
      have := hI.vers_sub o ho; rw [hp, hcc] at this; exact this
    have hpred : predOrFirst S.chain P c := by
      obtain ⟨o', ho', hc', hp'⟩ := hI.chain_obj c hc
      have e := hI.sub_unique _ (hI.vers_sub o' ho') _ hsub (by simpa using hc')
      have : o'.parent = P := by simpa using congrArg (·.1) e
      rw [this] at hp'; exact hp'
    have hI' : Inv { S with served := (P, c, o.data) :: S.served } :=
      { hI with
        served_ok := by
          intro x hx
          rcases List.mem_cons.mp hx with rfl | hx
          · exact ⟨hsub, hc, hpred⟩
          · exact hI.served_ok x hx }
    exact inv_setPc hI' i .idle trivial (Or.inl rfl)
  | gcGone i P c h => exact inv_setPc hI i .idle trivial (Or.inl rfl)
  | abandon i => exact inv_setPc hI i .idle trivial (Or.inl rfl)

/-! ### reachable states -/

def init : Sys :=
  { latest := none, vers := [], chain := [], created := [], sub := [],
    pcs := fun _ => .idle, served := [], acked := [] }

theorem inv_init : Inv init := by
  refine { latest_last := rfl, nodup := List.nodup_nil, chain_created := ?_, vers_created := ?_,
           vers_sub := ?_, sub_unique := ?_, sub_created := ?_, inflight_distinct := ?_,
           parent_ok := ?_, chain_obj := ?_, pcs_ok := ?_, acked_chain := ?_, served_ok := ?_ } <;>
    simp [init, PcOk, inflight]

inductive Reachable : Sys → Prop where
  | init : Reachable init
  | step {S S'} : Reachable S → Step S S' → Reachable S'

theorem reachable_inv {S : Sys} (h : Reachable S) : Inv S := by
  induction h with
  | init => exact inv_init
  | step _ hs ih => exact inv_step ih hs

/-- every id a client was told was accepted is on the chain, in every reachable state -/
theorem acked_stays_on_chain {S : Sys} (h : Reachable S) : ∀ n ∈ S.acked, n ∈ S.chain :=
  (reachable_inv h).acked_chain

/-- every version ever served is a consecutive pair of the chain (or its first element)
    together with exactly the bytes that were submitted for it -/
theorem served_only_chain {S : Sys} (h : Reachable S) :
    ∀ x ∈ S.served, x ∈ S.sub ∧ x.2.1 ∈ S.chain ∧ predOrFirst S.chain x.1 x.2.1 :=
  (reachable_inv h).served_ok

end Tc.Cloud

