import TcVerif.Generated.SrcTransform
/-!
# The translated source function is the model's function (`SyncOp::transform`)

`Generated/SrcTransform.lean` is written by `tools/translate_src.py` from /repo's source on every run.  The
theorems here close the gap between it and the hand-written model: whatever is proved about the
model's function is proved about the function the source defines now.
-/
namespace Tc

/-! Rust's derived order, as far as `transform` uses it, in the model's vocabulary -/

theorem rcmp_int (a b : Int) : Src.ROrd.rcmp a b = if a < b then .lt else if b < a then .gt else .eq := rfl
theorem rcmp_pair' (t1 t2 : Int) (v1 v2 : Option String) :
    Src.ROrd.rcmp (t1, v1) (t2, v2) = if t1 < t2 then .lt else if t2 < t1 then .gt else Src.ROrd.rcmp v1 v2 := by
  by_cases h12 : t1 < t2
  · simp [Src.ROrd.rcmp, h12]
  · by_cases h21 : t2 < t1
    · simp [Src.ROrd.rcmp, h12, h21]
    · simp [Src.ROrd.rcmp, h12, h21]
theorem rcmp_opt' (v1 v2 : Option String) :
    Src.ROrd.rcmp v1 v2 = if v1 = v2 then .eq else if vlt v1 v2 then .lt else .gt := by
  by_cases h : v1 = v2
  · subst h; cases v1 <;> simp [Src.ROrd.rcmp, String.lt_irrefl]
  · by_cases hl : vlt v1 v2 = true
    · cases v1 <;> cases v2 <;> simp_all [Src.ROrd.rcmp, vlt]
    · cases v1 <;> cases v2 <;> simp_all [Src.ROrd.rcmp, vlt]
      rename_i a b
      rcases Std.lt_trichotomy a b with h1 | h1 | h1
      · exact absurd h1 hl
      · exact absurd h1 h
      · have : ¬ a < b := hl
        simp [this, h1]

/-- **the source's `SyncOp::transform` is the model's `transform`**, for every pair of operations.
    The proof is deliberately generic (case split on the two operations, unfold both functions, rewrite
    Rust's order into the model's vocabulary, `grind`): harmless rewrites of the Rust function — arms in
    another order where they do not overlap, `cmp` replaced by comparisons or by an if-chain on the
    timestamps and values — translate to a different `Src.transform` and are proved equal by the same
    script (tried on such rewrites, DESIGN B.8); rewrites that change the function make it fail. -/
theorem src_transform_eq (a b : SyncOp) : Src.transform a b = transform a b := by
  cases a <;> cases b <;> simp only [Src.transform, transform, rcmp_pair', rcmp_opt', rcmp_int, Prod.mk.injEq] <;> grind

end Tc
