import TcVerif.Generated.SrcTransform
/-!
# The translated source function is the model's function (`SyncOp::transform`)

`Generated/SrcTransform.lean` is written by `tools/translate_src.py` from /repo's source on every run.  The
theorems here close the gap between it and the hand-written model: whatever is proved about the
model's function is proved about the function the source defines now.
-/
namespace Tc

theorem rcmp_pair_lt (t1 t2 : Int) (v1 v2 : Option String) (h : t1 < t2) :
    Src.ROrd.rcmp (t1, v1) (t2, v2) = .lt := by
  simp [Src.ROrd.rcmp, h]

theorem rcmp_pair_gt (t1 t2 : Int) (v1 v2 : Option String) (h : t2 < t1) :
    Src.ROrd.rcmp (t1, v1) (t2, v2) = .gt := by
  have : ¬ t1 < t2 := by omega
  simp [Src.ROrd.rcmp, h, this]

theorem rcmp_pair_eq (t : Int) (v1 v2 : Option String) :
    Src.ROrd.rcmp (t, v1) (t, v2) = Src.ROrd.rcmp v1 v2 := by
  simp [Src.ROrd.rcmp]

theorem rcmp_opt_self (v : Option String) : Src.ROrd.rcmp v v = .eq := by
  cases v <;> simp [Src.ROrd.rcmp, String.lt_irrefl]

theorem rcmp_opt_lt (v1 v2 : Option String) (h : vlt v1 v2 = true) : Src.ROrd.rcmp v1 v2 = .lt := by
  cases v1 <;> cases v2 <;> simp_all [Src.ROrd.rcmp, vlt]

theorem rcmp_opt_gt (v1 v2 : Option String) (hne : v1 ≠ v2) (h : ¬ vlt v1 v2 = true) :
    Src.ROrd.rcmp v1 v2 = .gt := by
  cases v1 <;> cases v2 <;> simp_all [Src.ROrd.rcmp, vlt]
  rename_i a b
  rcases Std.lt_trichotomy a b with h1 | h1 | h1
  · exact absurd h1 h
  · exact absurd h1 hne
  · have : ¬ a < b := h
    simp [this, h1]

theorem src_transform_upd (u1 : Nat) (k1 : String) (v1 : Option String) (t1 : Int)
    (u2 : Nat) (k2 : String) (v2 : Option String) (t2 : Int) :
    Src.transform (.update u1 k1 v1 t1) (.update u2 k2 v2 t2)
      = transform (.update u1 k1 v1 t1) (.update u2 k2 v2 t2) := by
  simp only [Src.transform, transform]
  by_cases h : u1 = u2 ∧ k1 = k2
  · simp only [h, and_self, if_true]
    by_cases h12 : t1 < t2
    · simp [h12, rcmp_pair_lt t1 t2 v1 v2 h12]
    · by_cases h21 : t2 < t1
      · simp [h12, h21, rcmp_pair_gt t1 t2 v1 v2 h21]
      · have heq : t1 = t2 := by omega
        subst heq
        simp only [h12, if_false, rcmp_pair_eq]
        by_cases hv : v1 = v2
        · subst hv; simp [rcmp_opt_self]
        · by_cases hl : vlt v1 v2 = true
          · simp [hv, hl, rcmp_opt_lt v1 v2 hl]
          · simp [hv, hl, rcmp_opt_gt v1 v2 hv hl]
  · simp [h]

/-- **the source's `SyncOp::transform` is the model's `transform`**, for every pair of operations -/
theorem src_transform_eq (a b : SyncOp) : Src.transform a b = transform a b := by
  cases a with
  | create u1 => cases b <;> simp only [Src.transform, transform] <;> split <;> simp_all
  | delete u1 => cases b <;> simp only [Src.transform, transform] <;> split <;> simp_all
  | update u1 k1 v1 t1 =>
    cases b with
    | create u2 => simp only [Src.transform, transform]
    | delete u2 => simp only [Src.transform, transform]
    | update u2 k2 v2 t2 => exact src_transform_upd u1 k1 v1 t1 u2 k2 v2 t2

end Tc
