import TcVerif.Proofs.Ot
/-!
# Rebasing is symmetric

`rebase b a = swap (rebase a b)`: rebasing a version `a` over a pending list `b` and rebasing `b`
over `a` produce the same two lists.  With `rebase_correct` this makes the outcome of a
two-replica conflict independent of who synchronizes first.

Proved on option-valued operations (`none` = consumed by a transform), where the grid of
diamonds is regular, then transported to `rebase` by dropping the `none`s.
-/
namespace Tc

def transformO : Option SyncOp → Option SyncOp → Option SyncOp × Option SyncOp
  | none, b => (none, b)
  | a, none => (a, none)
  | some a, some b => transform a b

theorem transformO_symm (a b : Option SyncOp) :
    transformO b a = ((transformO a b).2, (transformO a b).1) := by
  cases a <;> cases b <;> simp only [transformO]
  exact transform_symm _ _

/-- one operation through a list: (the operation afterwards, the list afterwards) -/
def row (s : Option SyncOp) : List (Option SyncOp) → Option SyncOp × List (Option SyncOp)
  | [] => (s, [])
  | l :: ls =>
      let t := transformO s l
      let r := row t.1 ls
      (r.1, t.2 :: r.2)

/-- a list through a list, row by row: (first list afterwards, second list afterwards) -/
def grid : List (Option SyncOp) → List (Option SyncOp) → List (Option SyncOp) × List (Option SyncOp)
  | [], ls => ([], ls)
  | s :: ss, ls =>
      let r := row s ls
      let g := grid ss r.2
      (r.1 :: g.1, g.2)

/-- a list through one operation, column-wise: (the list afterwards, the operation afterwards) -/
def col : List (Option SyncOp) → Option SyncOp → List (Option SyncOp) × Option SyncOp
  | [], l => ([], l)
  | s :: ss, l =>
      let t := transformO s l
      let c := col ss t.2
      (t.1 :: c.1, c.2)

theorem col_row (v : List (Option SyncOp)) (l : Option SyncOp) :
    col v l = ((row l v).2, (row l v).1) := by
  induction v generalizing l with
  | nil => rfl
  | cons s ss ih =>
    simp only [col, row, ih, transformO_symm s l]

theorem grid_nil_right (v : List (Option SyncOp)) : grid v [] = (v, []) := by
  induction v with
  | nil => rfl
  | cons s ss ih => simp [grid, row, ih]

theorem grid_cons_right (v : List (Option SyncOp)) (l : Option SyncOp) (ls : List (Option SyncOp)) :
    grid v (l :: ls) = ((grid (col v l).1 ls).1, (col v l).2 :: (grid (col v l).1 ls).2) := by
  induction v generalizing l ls with
  | nil => simp [grid, col]
  | cons s ss ih =>
    simp only [grid, row, col]
    rw [ih]

/-- the grid computed row by row from either side is the same -/
theorem grid_symm (v l : List (Option SyncOp)) : grid l v = ((grid v l).2, (grid v l).1) := by
  induction l generalizing v with
  | nil => simp [grid, grid_nil_right]
  | cons x xs ih =>
    rw [grid_cons_right v x xs]
    simp only [grid]
    rw [col_row v x]
    simp only []
    rw [ih]

/-! ### dropping the `none`s: the grid is `rebase` -/

def somes (l : List (Option SyncOp)) : List SyncOp := l.filterMap id

@[simp] theorem somes_nil : somes [] = [] := rfl
@[simp] theorem somes_none (l : List (Option SyncOp)) : somes (none :: l) = somes l := rfl
@[simp] theorem somes_some (x : SyncOp) (l : List (Option SyncOp)) : somes (some x :: l) = x :: somes l := rfl

theorem somes_map_some (l : List SyncOp) : somes (l.map some) = l := by
  induction l with
  | nil => rfl
  | cons x xs ih => simp [ih]

theorem row_none (lo : List (Option SyncOp)) : row none lo = (none, lo) := by
  induction lo with
  | nil => rfl
  | cons l ls ih => simp [row, transformO, ih]

theorem rebase1_none (ls : List SyncOp) : rebase1 none ls = (none, ls) := by
  cases ls <;> rfl

/-- `rebase1` is `row` with the consumed operations dropped -/
theorem rebase1_row (s : Option SyncOp) (lo : List (Option SyncOp)) :
    rebase1 s (somes lo) = ((row s lo).1, somes (row s lo).2) := by
  induction lo generalizing s with
  | nil => cases s <;> rfl
  | cons l ls ih =>
    cases l with
    | none =>
      cases s with
      | none => simp [row, transformO, row_none, rebase1_none]
      | some s => simp only [somes_none, row, transformO, ih]
    | some l =>
      cases s with
      | none => simp [row, transformO, row_none, rebase1]
      | some s =>
        simp only [somes_some, rebase1, row, transformO]
        rcases htr : transform s l with ⟨s', l'⟩
        simp only [ih]
        cases l' <;> rfl

/-- `rebase` is `grid` with the consumed operations dropped -/
theorem rebase_grid (vs : List SyncOp) (lo : List (Option SyncOp)) :
    rebase vs (somes lo) = (somes (grid (vs.map some) lo).1, somes (grid (vs.map some) lo).2) := by
  induction vs generalizing lo with
  | nil => rfl
  | cons s ss ih =>
    simp only [rebase, List.map_cons, grid, rebase1_row, ih]
    cases (row (some s) lo).1 <;> rfl

/-- **rebase_symm**: rebasing is symmetric -/
theorem rebase_symm (a b : List SyncOp) : rebase b a = ((rebase a b).2, (rebase a b).1) := by
  have h1 := rebase_grid a (b.map some)
  have h2 := rebase_grid b (a.map some)
  rw [somes_map_some] at h1 h2
  rw [h1, h2, grid_symm (a.map some) (b.map some)]

end Tc
