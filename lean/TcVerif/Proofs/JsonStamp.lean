import TcVerif.Proofs.JsonTime
/-!
# RFC 3339 timestamps, part 3: `parseTimestamp (printTimestamp ns) = some ns`

for every instant of the years 0000–9999, with any sub-second part (chrono prints 0, 3, 6 or 9
fraction digits).
-/
namespace Tc.Json

/-! ## digits -/

theorem digit_facts : ∀ k : Fin 10, (Char.ofNat (48 + k.val)).isDigit = true ∧ (Char.ofNat (48 + k.val)).toNat - 48 = k.val := by
  decide

theorem digit_isDigit (k : Nat) (h : k < 10) : (Char.ofNat (48 + k)).isDigit = true := (digit_facts ⟨k, h⟩).1
theorem digit_val (k : Nat) (h : k < 10) : (Char.ofNat (48 + k)).toNat - 48 = k := (digit_facts ⟨k, h⟩).2

theorem length_decFixed (w n : Nat) : (decFixed w n).length = w := by
  induction w generalizing n with
  | zero => rfl
  | succ w ih => simp [decFixed, ih]

/-- the accumulator of `natOfDigits` -/
def digStep (acc : Option Nat) (c : Char) : Option Nat :=
  match acc with
  | some n => if c.isDigit then some (n * 10 + (c.toNat - 48)) else none
  | none => none

theorem natOfDigits_eq (cs : List Char) (h : cs ≠ []) : natOfDigits cs = cs.foldl digStep (some 0) := by
  unfold natOfDigits
  simp only [h, if_false]
  rfl

theorem fold_decFixed (w n acc : Nat) :
    (decFixed w n).foldl digStep (some acc) = some (acc * 10 ^ w + n % 10 ^ w) := by
  induction w generalizing n acc with
  | zero => simp [decFixed, Nat.mod_one]
  | succ w ih =>
    simp only [decFixed, List.foldl_append, ih, List.foldl_cons, List.foldl_nil, digStep]
    have hd : n % 10 < 10 := Nat.mod_lt _ (by omega)
    simp only [digit_isDigit _ hd, digit_val _ hd, if_true]
    congr 1
    have e1 : 10 ^ (w + 1) = 10 * 10 ^ w := by rw [Nat.pow_succ]; omega
    have e2 : n % (10 * 10 ^ w) = n % 10 + 10 * (n / 10 % 10 ^ w) := Nat.mod_mul
    rw [e1, e2]
    generalize 10 ^ w = p
    generalize n / 10 % p = q
    rw [Nat.add_mul, Nat.mul_assoc, Nat.mul_comm p 10]
    omega

theorem fold_zeros (j acc : Nat) :
    (List.replicate j '0').foldl digStep (some acc) = some (acc * 10 ^ j) := by
  induction j generalizing acc with
  | zero => simp
  | succ j ih =>
    simp only [List.replicate_succ, List.foldl_cons, digStep]
    have : ('0' : Char).isDigit = true := by decide
    have hv : ('0' : Char).toNat - 48 = 0 := by decide
    simp only [this, hv, if_true, Nat.add_zero, ih]
    congr 1
    rw [Nat.pow_succ, Nat.mul_assoc, Nat.mul_comm 10]

theorem decFixed_ne_nil (w n : Nat) (h : 0 < w) : decFixed w n ≠ [] := by
  intro e
  have := length_decFixed w n
  rw [e] at this
  simp at this
  omega

/-- reading what `decFixed` printed -/
theorem natOfDigits_decFixed (w n : Nat) (hw : 0 < w) (hn : n < 10 ^ w) :
    natOfDigits (decFixed w n) = some n := by
  rw [natOfDigits_eq _ (decFixed_ne_nil w n hw), fold_decFixed]
  simp [Nat.mod_eq_of_lt hn]

/-- … padded with zeros on the right -/
theorem natOfDigits_padded (w j n : Nat) (hw : 0 < w) (hn : n < 10 ^ w) :
    natOfDigits (decFixed w n ++ List.replicate j '0') = some (n * 10 ^ j) := by
  have hne : decFixed w n ++ List.replicate j '0' ≠ [] := by
    intro e
    have := List.append_eq_nil_iff.mp e
    exact decFixed_ne_nil w n hw this.1
  rw [natOfDigits_eq _ hne, List.foldl_append, fold_decFixed, fold_zeros]
  simp [Nat.mod_eq_of_lt hn]

theorem spanDigits_decFixed (w n : Nat) (c : Char) (tl : List Char) (hc : c.isDigit = false) :
    spanDigits (decFixed w n ++ c :: tl) = (decFixed w n, c :: tl) := by
  have key : ∀ (l : List Char), (∀ x ∈ l, x.isDigit = true) → spanDigits (l ++ c :: tl) = (l, c :: tl) := by
    intro l
    induction l with
    | nil => intro _; simp [spanDigits, hc]
    | cons x xs ih =>
      intro h
      have hx := h x (by simp)
      simp only [List.cons_append, spanDigits, hx, if_true]
      rw [ih (fun y hy => h y (by simp [hy]))]
  apply key
  induction w generalizing n with
  | zero => intro x hx; simp [decFixed] at hx
  | succ w ih =>
    intro x hx
    simp only [decFixed, List.mem_append, List.mem_singleton] at hx
    rcases hx with hx | hx
    · exact ih _ x hx
    · rw [hx]; exact digit_isDigit _ (Nat.mod_lt _ (by omega))

/-! ## slicing a list at known lengths -/

theorem take_app {A R : List Char} {n : Nat} (h : A.length = n) : (A ++ R).take n = A := by
  subst h; simp

theorem drop_app_succ {A R : List Char} {c : Char} {n k : Nat} (h : A.length = n) (hk : k = n + 1) :
    (A ++ c :: R).drop k = R := by
  subst h; subst hk
  rw [List.drop_length_add_append]; rfl

theorem getD_app {A R : List Char} {c x : Char} {n : Nat} (h : A.length = n) : (A ++ c :: R).getD n x = c := by
  subst h; simp [List.getD]

end Tc.Json

namespace Tc.Json

/-! ## the reader on a string of the printed shape -/

/-- the part of `parseTimestamp` after the seconds field (`rest0 = t.drop 8`) -/
def parseTail (y m d hh mm ss : Nat) (rest0 : List Char) : Option Int :=
  let (fracDigits, rest) : List Char × List Char :=
    match rest0 with
    | '.' :: r => spanDigits r
    | r => ([], r)
  if rest0.head? = some '.' ∧ fracDigits = [] then none
  else
    let nine := (fracDigits ++ List.replicate 9 '0').take 9
    match natOfDigits nine with
    | none => none
    | some nanos =>
      let offSecs : Option Int :=
        match rest with
        | ['Z'] => some 0
        | ['z'] => some 0
        | [sg, h1, h2, ':', m1, m2] =>
          match natOfDigits [h1, h2], natOfDigits [m1, m2] with
          | some oh, some om =>
            if oh ≤ 23 ∧ om ≤ 59 then
              if sg = '+' then some ((oh * 3600 + om * 60 : Nat) : Int)
              else if sg = '-' then some (-((oh * 3600 + om * 60 : Nat) : Int))
              else none
            else none
          | _, _ => none
        | _ => none
      match offSecs with
      | none => none
      | some off =>
        let secs : Int := daysFromCivil y m d * 86400 + (hh * 3600 + mm * 60 + ss : Nat) - off
        some (secs * 1000000000 + nanos)

theorem parse_core (Y Mo D H Mi S R : List Char) (y m d hh mm ss : Nat)
    (lY : Y.length = 4) (lMo : Mo.length = 2) (lD : D.length = 2)
    (lH : H.length = 2) (lMi : Mi.length = 2) (lS : S.length = 2)
    (hY : natOfDigits Y = some y) (hMo : natOfDigits Mo = some m) (hD : natOfDigits D = some d)
    (hH : natOfDigits H = some hh) (hMi : natOfDigits Mi = some mm) (hS : natOfDigits S = some ss)
    (hdate : 1 ≤ m ∧ m ≤ 12 ∧ 1 ≤ d ∧ d ≤ daysIn y m) (htime : hh ≤ 23 ∧ mm ≤ 59 ∧ ss ≤ 59) :
    parseTimestamp (Y ++ '-' :: (Mo ++ '-' :: (D ++ 'T' :: (H ++ ':' :: (Mi ++ ':' :: (S ++ R))))))
      = parseTail y m d hh mm ss R := by
  generalize hcs : Y ++ '-' :: (Mo ++ '-' :: (D ++ 'T' :: (H ++ ':' :: (Mi ++ ':' :: (S ++ R))))) = cs
  have e1 : cs.take 4 = Y := by rw [← hcs]; exact take_app lY
  have d5 : cs.drop 5 = Mo ++ '-' :: (D ++ 'T' :: (H ++ ':' :: (Mi ++ ':' :: (S ++ R)))) := by
    rw [← hcs]; exact drop_app_succ lY rfl
  have d8 : cs.drop 8 = D ++ 'T' :: (H ++ ':' :: (Mi ++ ':' :: (S ++ R))) := by
    have : cs.drop 8 = (cs.drop 5).drop 3 := by rw [List.drop_drop]
    rw [this, d5]; exact drop_app_succ lMo rfl
  have d11 : cs.drop 11 = H ++ ':' :: (Mi ++ ':' :: (S ++ R)) := by
    have : cs.drop 11 = (cs.drop 8).drop 3 := by rw [List.drop_drop]
    rw [this, d8]; exact drop_app_succ lD rfl
  have e2 : (cs.drop 5).take 2 = Mo := by rw [d5]; exact take_app lMo
  have e3 : (cs.drop 8).take 2 = D := by rw [d8]; exact take_app lD
  have g4 : cs.getD 4 ' ' = '-' := by rw [← hcs]; exact getD_app lY
  have g7 : cs.getD 7 ' ' = '-' := by
    have : cs.getD 7 ' ' = (cs.drop 5).getD 2 ' ' := by simp [List.getD, List.getElem?_drop]
    rw [this, d5]; exact getD_app lMo
  have g10 : cs.getD 10 ' ' = 'T' := by
    have : cs.getD 10 ' ' = (cs.drop 8).getD 2 ' ' := by simp [List.getD, List.getElem?_drop]
    rw [this, d8]; exact getD_app lD
  generalize ht : H ++ ':' :: (Mi ++ ':' :: (S ++ R)) = t at d11
  have t1 : t.take 2 = H := by rw [← ht]; exact take_app lH
  have t3 : t.drop 3 = Mi ++ ':' :: (S ++ R) := by rw [← ht]; exact drop_app_succ lH rfl
  have t6 : t.drop 6 = S ++ R := by
    have : t.drop 6 = (t.drop 3).drop 3 := by rw [List.drop_drop]
    rw [this, t3]; exact drop_app_succ lMi rfl
  have t8 : t.drop 8 = R := by
    have : t.drop 8 = (t.drop 6).drop 2 := by rw [List.drop_drop]
    rw [this, t6]; exact List.drop_left' lS
  have t2 : (t.drop 3).take 2 = Mi := by rw [t3]; exact take_app lMi
  have t4 : (t.drop 6).take 2 = S := by rw [t6]; exact take_app lS
  have h2 : t.getD 2 ' ' = ':' := by rw [← ht]; exact getD_app lH
  have h5 : t.getD 5 ' ' = ':' := by
    have : t.getD 5 ' ' = (t.drop 3).getD 2 ' ' := by simp [List.getD, List.getElem?_drop]
    rw [this, t3]; exact getD_app lMi
  have hdate' : ¬ ¬ (1 ≤ m ∧ m ≤ 12 ∧ 1 ≤ d ∧ d ≤ daysIn y m) := fun h => h hdate
  have htime' : ¬ ¬ (hh ≤ 23 ∧ mm ≤ 59 ∧ ss ≤ 59) := fun h => h htime
  unfold parseTimestamp
  simp only [e1, e2, e3, hY, hMo, hD, g4, g7, g10, d11, t1, t2, t4, hH, hMi, hS, h2, h5, t8]
  simp only [ne_eq, not_true_eq_false, or_self, if_false, hdate, htime, and_self, not_true_eq_false,
    true_or]
  rfl

end Tc.Json

namespace Tc.Json

theorem nine_of (w k : Nat) (hw : w ≤ 9) :
    (decFixed w k ++ List.replicate 9 '0').take 9 = decFixed w k ++ List.replicate (9 - w) '0' := by
  rw [List.take_append, length_decFixed, List.take_of_length_le (by rw [length_decFixed]; exact hw),
    List.take_replicate]
  congr 2
  omega

theorem parseTail_Z (y m d hh mm ss : Nat) :
    parseTail y m d hh mm ss ['Z']
      = some ((daysFromCivil y m d * 86400 + ((hh * 3600 + mm * 60 + ss : Nat) : Int)) * 1000000000 + ((0 : Nat) : Int)) := by
  have h9 : natOfDigits ['0', '0', '0', '0', '0', '0', '0', '0', '0'] = some 0 := by decide
  simp only [parseTail, List.head?_cons]
  simp [h9]

theorem parseTail_frac (y m d hh mm ss w k : Nat) (hw : 0 < w) (hw9 : w ≤ 9) (hk : k < 10 ^ w) :
    parseTail y m d hh mm ss ('.' :: (decFixed w k ++ ['Z']))
      = some ((daysFromCivil y m d * 86400 + ((hh * 3600 + mm * 60 + ss : Nat) : Int)) * 1000000000
              + ((k * 10 ^ (9 - w) : Nat) : Int)) := by
  have hZ : ('Z' : Char).isDigit = false := by decide
  have hsp := spanDigits_decFixed w k 'Z' [] hZ
  have hne := decFixed_ne_nil w k hw
  have h9 := natOfDigits_padded w (9 - w) k hw hk
  simp only [parseTail, hsp, List.head?_cons, hne, and_false, if_false, nine_of w k hw9, h9]
  simp

/-- chrono's fraction: nothing, or 3, 6 or 9 digits -/
def fracOf (nanos : Nat) : List Char :=
  if nanos = 0 then []
  else if nanos % 1000000 = 0 then '.' :: decFixed 3 (nanos / 1000000)
  else if nanos % 1000 = 0 then '.' :: decFixed 6 (nanos / 1000)
  else '.' :: decFixed 9 nanos

theorem parseTail_fracOf (y m d hh mm ss nanos : Nat) (hn : nanos < 1000000000) :
    parseTail y m d hh mm ss (fracOf nanos ++ ['Z'])
      = some ((daysFromCivil y m d * 86400 + ((hh * 3600 + mm * 60 + ss : Nat) : Int)) * 1000000000 + (nanos : Int)) := by
  unfold fracOf
  split
  · rename_i h0; subst h0; exact parseTail_Z y m d hh mm ss
  · split
    · rename_i h6
      have := parseTail_frac y m d hh mm ss 3 (nanos / 1000000) (by omega) (by omega) (by omega)
      simp only [List.cons_append]
      rw [this]
      congr 2
      have : nanos / 1000000 * 10 ^ (9 - 3) = nanos := by
        have : (10 : Nat) ^ (9 - 3) = 1000000 := by decide
        rw [this]; omega
      rw [this]
    · split
      · rename_i h3
        have := parseTail_frac y m d hh mm ss 6 (nanos / 1000) (by omega) (by omega) (by omega)
        simp only [List.cons_append]
        rw [this]
        congr 2
        have : nanos / 1000 * 10 ^ (9 - 6) = nanos := by
          have : (10 : Nat) ^ (9 - 6) = 1000 := by decide
          rw [this]; omega
        rw [this]
      · have := parseTail_frac y m d hh mm ss 9 nanos (by omega) (by omega) (by omega)
        simp only [List.cons_append]
        rw [this]
        congr 2
        simp

/-- the printer's output, right-nested, with the date already computed -/
theorem printTimestamp_eq (ns : Int) (y : Int) (m d : Nat)
    (h : civilFromDays (ns / 1000000000 / 86400) = (y, m, d)) :
    printTimestamp ns =
      decFixed 4 y.toNat ++ '-' :: (decFixed 2 m ++ '-' :: (decFixed 2 d ++ 'T' ::
        (decFixed 2 ((ns / 1000000000 % 86400).toNat / 3600) ++ ':' ::
          (decFixed 2 ((ns / 1000000000 % 86400).toNat / 60 % 60) ++ ':' ::
            (decFixed 2 ((ns / 1000000000 % 86400).toNat % 60) ++ (fracOf (ns % 1000000000).toNat ++ ['Z'])))))) := by
  simp only [printTimestamp, h, fracOf, List.append_assoc, List.cons_append, List.nil_append]

/-- nanoseconds since the epoch of 0000-01-01T00:00:00Z and of 10000-01-01T00:00:00Z -/
def minNs : Int := -719528 * 86400 * 1000000000
def maxNs : Int := 2932897 * 86400 * 1000000000

/-- **the RFC 3339 reader reads back what the printer printed**, for every instant of the years
    0000–9999 and any sub-second part -/
theorem parseTimestamp_printTimestamp (ns : Int) (hlo : minNs ≤ ns) (hhi : ns < maxNs) :
    parseTimestamp (printTimestamp ns) = some ns := by
  unfold minNs at hlo; unfold maxNs at hhi
  have hdlo : minDay ≤ ns / 1000000000 / 86400 := by unfold minDay; omega
  have hdhi : ns / 1000000000 / 86400 ≤ maxDay := by unfold maxDay; omega
  obtain ⟨hrt, hy0, hy9, hm1, hm12, hd1, hdin⟩ := civil_roundtrip _ hdlo hdhi
  rcases hc : civilFromDays (ns / 1000000000 / 86400) with ⟨y, m, d⟩
  rw [hc] at hrt hy0 hy9 hm1 hm12 hd1 hdin
  simp only at hrt hy0 hy9 hm1 hm12 hd1 hdin
  rw [printTimestamp_eq ns y m d hc]
  have hd31 : d ≤ 31 := by
    have : daysIn y.toNat m ≤ 31 := by unfold daysIn; split <;> (try split) <;> omega
    omega
  generalize hsod : (ns / 1000000000 % 86400).toNat = sod
  have hsod_lt : sod < 86400 := by omega
  rw [parse_core _ _ _ _ _ _ _ y.toNat m d (sod / 3600) (sod / 60 % 60) (sod % 60)
      (length_decFixed _ _) (length_decFixed _ _) (length_decFixed _ _)
      (length_decFixed _ _) (length_decFixed _ _) (length_decFixed _ _)
      (natOfDigits_decFixed 4 _ (by omega) (by omega)) (natOfDigits_decFixed 2 _ (by omega) (by omega))
      (natOfDigits_decFixed 2 _ (by omega) (by omega)) (natOfDigits_decFixed 2 _ (by omega) (by omega))
      (natOfDigits_decFixed 2 _ (by omega) (by omega)) (natOfDigits_decFixed 2 _ (by omega) (by omega))
      ⟨hm1, hm12, hd1, hdin⟩ ⟨by omega, by omega, by omega⟩]
  rw [parseTail_fracOf _ _ _ _ _ _ _ (by omega)]
  have hyy : ((y.toNat : Nat) : Int) = y := by omega
  rw [hyy, hrt]
  congr 1
  omega

end Tc.Json
