import TcVerif.Proofs.CleanupInv
namespace Cl

theorem inflight_uses {pc : PC} {n : Vid} (h : inflight pc = some n) : pcUses pc n := by
  cases pc <;> simp [inflight] at h <;> simp [pcUses, h]

/-- deleting the object of a child id that is not on the chain keeps the invariant,
    provided every client that is about to compare-and-swap that id can no longer win -/
theorem inv_delOff {S : Sys} (hI : Inv S) (c : Vid) (hc : c ∉ S.chain)
    (ha2 : ∀ i P d l, S.pcs i = .a2 P d l c → ∃ c' d', (P, c', d') ∈ S.sub ∧ c' ∈ S.chain) :
    Inv { S with vers := delChild S.vers c } := by
  have hsubset : ∀ o, o ∈ delChild S.vers c → o ∈ S.vers := fun o ho => (List.mem_filter.mp ho).1
  exact
    { hI with
      vers_sub := fun o ho => hI.vers_sub o (hsubset o ho)
      chain_obj := by
        intro x hx hxr
        obtain ⟨o, ho, hoc⟩ := hI.chain_obj x hx hxr
        refine ⟨o, List.mem_filter.mpr ⟨ho, ?_⟩, hoc⟩
        have : o.child ≠ c := by rw [hoc]; intro e; exact hc (e ▸ hx)
        simpa using this
      pcs_ok := by
        intro j
        have hj := hI.pcs_ok j
        cases hpc : S.pcs j with
        | a2 P' d' l' N' =>
          rw [hpc] at hj
          obtain ⟨h1, h2, h3, h4, h5⟩ := hj
          refine ⟨h1, h2, h3, h4, ?_⟩
          by_cases hN : N' = c
          · subst hN; exact Or.inr (ha2 j P' d' l' hpc)
          · rcases h5 with h5 | h5
            · exact Or.inl (List.mem_filter.mpr ⟨h5, by simpa using hN⟩)
            · exact Or.inr h5
        | idle => trivial
        | a1 P' d' l' => rw [hpc] at hj; exact hj
        | a4 P' N' => rw [hpc] at hj; exact hj
        | g1 P' cs => rw [hpc] at hj; exact hj
        | g2 P' cs f => rw [hpc] at hj; exact hj
        | g4 P' c => rw [hpc] at hj; exact hj
        | c1 l0 => rw [hpc] at hj; exact hj
        | c2 l0 seen => rw [hpc] at hj; exact hj
        | c4 l0 seen y => rw [hpc] at hj; exact hj
        | c5 l0 seen y => rw [hpc] at hj; exact hj }

theorem inv_step_easy {S S' : Sys} (hI : Inv S) (hs : Step S S') : Inv S' := by
  cases hs with
  | avRead i P d h hok hside =>
    apply inv_setPc hI _ _ _ (Or.inl rfl)
    simp only [PcOk]
    rcases hok with hn | hsome
    · exact Or.inr ⟨hn, Or.inl (hside hn)⟩
    · exact Or.inl ⟨hsome, latest_mem hI hsome⟩
  | avCasFail i P d l N h hne =>
    apply inv_setPc hI _ _ _ (Or.inr (by rw [h]; rfl))
    have := hI.pcs_ok i; rw [h] at this
    exact this.2.1
  | gcList i P cs h hcs =>
    apply inv_setPc hI _ _ _ (Or.inl rfl)
    intro c hc
    obtain ⟨o, ho, _, rfl⟩ := hcs c hc
    exact hI.hist.sub_created _ (hI.vers_sub o ho)
  | gcLatestHit i P cs c h hc hl =>
    exact inv_setPc hI _ _ (latest_mem hI hl) (Or.inl rfl)
  | gcLatestMiss i P cs h =>
    apply inv_setPc hI _ _ _ (Or.inl rfl)
    have := hI.pcs_ok i; rw [h] at this
    exact ⟨this, by simp⟩
  | gcProbeHit i P cs f c h hc hch =>
    apply inv_setPc hI _ _ _ (Or.inl rfl)
    have hpc := hI.pcs_ok i; rw [h] at hpc
    refine ⟨hpc.1, ?_⟩
    intro c' hc'
    cases hc'
    obtain ⟨o, ho, hop⟩ := hch
    rcases hI.sub_parent_ok _ (hI.vers_sub o ho) with hin | hnot
    · simp only at hin; rw [hop] at hin; exact hin
    · simp only at hnot; rw [hop] at hnot; exact absurd (hpc.1 c hc) hnot
  | gcChoose i P cs c h =>
    apply inv_setPc hI _ _ _ (Or.inl rfl)
    have hpc := hI.pcs_ok i; rw [h] at hpc
    exact hpc.2 c rfl
  | gcGone i P c h => exact inv_setPc hI i .idle trivial (Or.inl rfl)
  | abandon i => exact inv_setPc hI i .idle trivial (Or.inl rfl)
  | gcGet i P c o h ho hp hcc =>
    have hpc := hI.pcs_ok i; rw [h] at hpc
    have hsub : (P, c, o.data) ∈ S.sub := by
      have := hI.vers_sub o ho; rw [hp, hcc] at this; exact this
    have hI' : Inv { S with served := (P, c, o.data) :: S.served } :=
      { hI with
        served_ok := by
          intro x hx
          rcases List.mem_cons.mp hx with rfl | hx
          · exact ⟨hsub, hpc⟩
          · exact hI.served_ok x hx }
    exact inv_setPc hI' i .idle trivial (Or.inl rfl)
  | clRead i h =>
    apply inv_setPc hI _ _ _ (Or.inl rfl)
    intro c hc; exact latest_mem hI hc
  | clList i l0 seen h hseen =>
    apply inv_setPc hI _ _ _ (Or.inl rfl)
    have := hI.pcs_ok i; rw [h] at this
    exact ⟨this, hseen⟩
  | clPickSnap i l0 seen y h hy hyrev =>
    apply inv_setPc hI _ _ _ (Or.inl rfl)
    have := hI.pcs_ok i; rw [h] at this
    exact ⟨this.1, this.2, hI.snaps_ever y hy⟩
  | clNoSnap i l0 seen h => exact inv_setPc hI i .idle trivial (Or.inl rfl)
  | clSnapsDone i l0 seen y h =>
    apply inv_setPc hI _ _ _ (Or.inl rfl)
    have := hI.pcs_ok i; rw [h] at this
    exact this
  | clDone i l0 seen y h => exact inv_setPc hI i .idle trivial (Or.inl rfl)
  | avDel i P N h =>
    have hpcI := hI.pcs_ok i; rw [h] at hpcI
    have hN : N ∉ S.chain := hpcI
    have hI' := inv_delOff hI N hN (by
      intro j P' d' l' hj
      exfalso
      by_cases hji : j = i
      · rw [hji, h] at hj; cases hj
      · exact hI.inflight_distinct i j N (fun e => hji e.symm) (by rw [h]; rfl) (by rw [hj]; rfl))
    exact inv_setPc hI' i .idle trivial (Or.inl rfl)
  | addSnap i v h hv =>
    have hvc : v ∈ S.chain := hI.acked_chain v hv
    exact
      { hI with
        pcs_ok := by
          intro j
          have hj := hI.pcs_ok j
          cases hpc : S.pcs j with
          | c4 l0 seen y => rw [hpc] at hj; exact ⟨hj.1, hj.2.1, List.mem_cons_of_mem _ hj.2.2⟩
          | c5 l0 seen y => rw [hpc] at hj; exact ⟨hj.1, hj.2.1, List.mem_cons_of_mem _ hj.2.2⟩
          | idle => trivial
          | a1 P' d' l' => rw [hpc] at hj; exact hj
          | a2 P' d' l' N' => rw [hpc] at hj; exact hj
          | a4 P' N' => rw [hpc] at hj; exact hj
          | g1 P' cs => rw [hpc] at hj; exact hj
          | g2 P' cs f => rw [hpc] at hj; exact hj
          | g4 P' c => rw [hpc] at hj; exact hj
          | c1 l0 => rw [hpc] at hj; exact hj
          | c2 l0 seen => rw [hpc] at hj; exact hj
        snaps_ever := by
          intro s hs
          rcases List.mem_cons.mp hs with rfl | hs
          · exact List.mem_cons_self
          · exact List.mem_cons_of_mem _ (hI.snaps_ever s hs)
        ever_chain := by
          intro s hs
          rcases List.mem_cons.mp hs with rfl | hs
          · exact hvc
          · exact hI.ever_chain s hs
        maxsnap := by
          intro _
          by_cases he : S.snapsEver = []
          · refine ⟨v, List.mem_cons_self, ?_⟩
            intro s hs; rw [he] at hs; simp at hs; subst hs; exact Nat.le_refl _
          · obtain ⟨m, hm, hmax⟩ := hI.maxsnap he
            by_cases hle : idx S.chain v ≤ idx S.chain m
            · refine ⟨m, List.mem_cons_of_mem _ hm, ?_⟩
              intro s hs
              rcases List.mem_cons.mp hs with rfl | hs
              · exact hle
              · exact hmax s hs
            · refine ⟨v, List.mem_cons_self, ?_⟩
              intro s hs
              rcases List.mem_cons.mp hs with rfl | hs
              · exact Nat.le_refl _
              · have := hmax s hs
                show idx S.chain s ≤ idx S.chain v
                omega
        retired_ok := by
          intro c hc
          obtain ⟨h1, s, hs, hle⟩ := hI.retired_ok c hc
          exact ⟨h1, s, List.mem_cons_of_mem _ hs, hle⟩ }
  | clDelSnap i l0 seen y x h hx =>
    have hpc := hI.pcs_ok i; rw [h] at hpc
    obtain ⟨hl0, hseen, hy⟩ := hpc
    -- x is strictly older than y
    have hlt : idx S.chain x < idx S.chain y := by
      obtain ⟨pre, post, q, hrev, p, hp⟩ := hx
      cases l0 with
      | none => simp [revOf] at hrev
      | some c0 =>
        simp only [revOf] at hrev
        exact (walk_older hI.hist hseen _ c0 (hl0 c0 rfl) pre post y q hrev (x, p) hp).2
    exact
      { hI with
        snaps_ever := fun s hs => hI.snaps_ever s (List.mem_filter.mp hs).1
        maxsnap := by
          intro he
          obtain ⟨m, hm, hmax⟩ := hI.maxsnap he
          refine ⟨m, List.mem_filter.mpr ⟨hm, ?_⟩, hmax⟩
          have := hmax y hy
          have : m ≠ x := by intro e; subst e; omega
          simpa using this }
  | clDelSnapParent i l0 seen y c x h hc hcx =>
    have hpc := hI.pcs_ok i; rw [h] at hpc
    obtain ⟨hl0, hseen, hy⟩ := hpc
    -- c is on the chain, at or before y; x is its recorded parent
    have hcc : c ∈ S.chain ∧ idx S.chain c ≤ idx S.chain y ∧ ∃ d, (x, c, d) ∈ S.sub := by
      cases l0 with
      | none => simp [revOf] at hcx
      | some c0 =>
        simp only [revOf] at hcx
        have ht := walk_triple hseen _ c0 (c, x) hcx
        rcases hc with ⟨rfl, q, hq⟩ | ⟨pre, post, q, hrev, p, hp⟩
        · simp only [revOf] at hq
          exact ⟨(walk_ok hI.hist hseen _ c0 (hl0 c0 rfl) _ hq).1, Nat.le_refl _, ht⟩
        · simp only [revOf] at hrev
          have := walk_older hI.hist hseen _ c0 (hl0 c0 rfl) pre post y q hrev (c, p) hp
          exact ⟨this.1, Nat.le_of_lt this.2, ht⟩
    obtain ⟨hcch, hle, d, hsub⟩ := hcc
    exact
      { hI with
        snaps_ever := fun s hs => hI.snaps_ever s (List.mem_filter.mp hs).1
        maxsnap := by
          intro he
          obtain ⟨m, hm, hmax⟩ := hI.maxsnap he
          refine ⟨m, List.mem_filter.mpr ⟨hm, ?_⟩, hmax⟩
          have hmy := hmax y hy
          have hmc : m ∈ S.chain := hI.ever_chain m (hI.snaps_ever m hm)
          have : m ≠ x := by
            intro e; subst e
            rcases triple_parent hI.hist hsub hcch with ⟨_, hlt⟩ | hnc
            · omega
            · exact hnc (hI.hist.chain_created m hmc)
          simpa using this }
  | clRetire i l0 seen y c h hc =>
    have hpc := hI.pcs_ok i; rw [h] at hpc
    obtain ⟨hl0, hseen, hy⟩ := hpc
    have hcc : c ∈ S.chain ∧ idx S.chain c ≤ idx S.chain y := by
      cases l0 with
      | none =>
        rcases hc with ⟨_, q, hq⟩ | ⟨pre, post, q, hrev, _⟩
        · simp [revOf] at hq
        · simp [revOf] at hrev
      | some c0 =>
        rcases hc with ⟨rfl, q, hq⟩ | ⟨pre, post, q, hrev, p, hp⟩
        · simp only [revOf] at hq
          exact ⟨(walk_ok hI.hist hseen _ c0 (hl0 c0 rfl) _ hq).1, Nat.le_refl _⟩
        · simp only [revOf] at hrev
          have := walk_older hI.hist hseen _ c0 (hl0 c0 rfl) pre post y q hrev (c, p) hp
          exact ⟨this.1, Nat.le_of_lt this.2⟩
    have hsubset : ∀ o, o ∈ delChild S.vers c → o ∈ S.vers := fun o ho => (List.mem_filter.mp ho).1
    exact
      { hI with
        vers_sub := fun o ho => hI.vers_sub o (hsubset o ho)
        chain_obj := by
          intro x hx hxr
          have hxne : x ≠ c := fun e => hxr (e ▸ List.mem_cons_self)
          have hxr' : x ∉ S.retired := fun hh => hxr (List.mem_cons_of_mem _ hh)
          obtain ⟨o, ho, hoc⟩ := hI.chain_obj x hx hxr'
          exact ⟨o, List.mem_filter.mpr ⟨ho, by simpa [hoc] using hxne⟩, hoc⟩
        pcs_ok := by
          intro j
          have hj := hI.pcs_ok j
          cases hpc : S.pcs j with
          | a2 P' d' l' N' =>
            rw [hpc] at hj
            obtain ⟨h1, h2, h3, h4, h5⟩ := hj
            refine ⟨h1, h2, h3, h4, h5.imp (fun hm => List.mem_filter.mpr ⟨hm, ?_⟩) id⟩
            have : N' ≠ c := fun e => h2 (e ▸ hcc.1)
            simpa using this
          | idle => trivial
          | a1 P' d' l' => rw [hpc] at hj; exact hj
          | a4 P' N' => rw [hpc] at hj; exact hj
          | g1 P' cs => rw [hpc] at hj; exact hj
          | g2 P' cs f => rw [hpc] at hj; exact hj
          | g4 P' c => rw [hpc] at hj; exact hj
          | c1 l0 => rw [hpc] at hj; exact hj
          | c2 l0 seen => rw [hpc] at hj; exact hj
          | c4 l0 seen y => rw [hpc] at hj; exact hj
          | c5 l0 seen y => rw [hpc] at hj; exact hj
        retired_ok := by
          intro x hx
          rcases List.mem_cons.mp hx with rfl | hx
          · exact ⟨hcc.1, y, hy, hcc.2⟩
          · exact hI.retired_ok x hx }
  | clDelLoser i l0 seen o h ho hoff hsib =>
    have hpc := hI.pcs_ok i; rw [h] at hpc
    obtain ⟨hl0, hseen⟩ := hpc
    obtain ⟨c', hc'⟩ := hsib
    cases l0 with
    | none => simp [revOf] at hc'
    | some c0 =>
      simp only [revOf] at hc' hoff
      have hw := walk_ok hI.hist hseen _ c0 (hl0 c0 rfl) _ hc'
      obtain ⟨d', hd'⟩ := walk_triple hseen _ c0 _ hc'
      simp only at hw hd'
      have hoSub := hseen o ho
      -- the doomed object's child id is not on the chain
      have hoff' : o.child ∉ S.chain := by
        intro hin
        have := same_parent_same_child hI.hist hoSub hd' hin hw.1
        rw [this] at hoff
        exact hoff hc'
      apply inv_delOff hI o.child hoff'
      intro j P d l hj
      have hjok := hI.pcs_ok j; rw [hj] at hjok
      have e := hI.hist.sub_unique _ hjok.2.2.2.1 _ hoSub rfl
      have hP : P = o.parent := by simpa using congrArg (·.1) e
      exact ⟨c', d', by rw [hP]; exact hd', hw.1⟩
  | avPut i P d l N h hfresh =>
    have hpcI := hI.pcs_ok i; rw [h] at hpcI
    have hNcr : N ∉ S.created := fun hh => hfresh (Or.inl hh)
    have hNpar : ∀ x ∈ S.sub, x.1 ≠ N := fun x hx e => hfresh (Or.inr (Or.inl ⟨x, hx, e⟩))
    have hNpc : ∀ j, ¬ pcUses (S.pcs j) N := fun j hh => hfresh (Or.inr (Or.inr ⟨j, hh⟩))
    have hPN : P ≠ N := by have := hNpc i; rw [h] at this; exact this
    have hNch : N ∉ S.chain := fun hh => hNcr (hI.hist.chain_created N hh)
    have hcr : ∀ x, x ≠ N → x ∉ S.created → x ∉ N :: S.created := by
      intro x hx hx' hm
      rcases List.mem_cons.mp hm with e | hm
      · exact hx e
      · exact hx' hm
    have hlc : (l = some P ∧ P ∈ S.chain) ∨ (l = none ∧ (P ∉ N :: S.created ∨ P ∈ S.chain)) :=
      hpcI.imp id (fun ⟨a, b⟩ => ⟨a, b.imp (hcr P hPN) id⟩)
    exact
      { latest_last := hI.latest_last
        hist :=
          { nodup := hI.hist.nodup
            chain_created := fun c hc => List.mem_cons_of_mem _ (hI.hist.chain_created c hc)
            sub_unique := by
              intro x hx y hy hxy
              rcases List.mem_cons.mp hx with rfl | hx <;> rcases List.mem_cons.mp hy with rfl | hy
              · rfl
              · exact absurd (hI.hist.sub_created y hy) (by rw [← hxy]; exact hNcr)
              · exact absurd (hI.hist.sub_created x hx) (by rw [hxy]; exact hNcr)
              · exact hI.hist.sub_unique x hx y hy hxy
            sub_created := by
              intro x hx
              rcases List.mem_cons.mp hx with rfl | hx
              · exact List.mem_cons_self
              · exact List.mem_cons_of_mem _ (hI.hist.sub_created x hx)
            chain_sub := by
              intro c hc
              obtain ⟨x, hx, h1, h2⟩ := hI.hist.chain_sub c hc
              exact ⟨x, List.mem_cons_of_mem _ hx, h1, h2⟩
            first_parent := by
              intro x hx post hpost
              rcases List.mem_cons.mp hx with rfl | hx
              · exfalso; apply hNch
                have hpost' : S.chain = N :: post := hpost
                rw [hpost']; exact List.mem_cons_self
              · exact hcr _ (hNpar x hx) (hI.hist.first_parent x hx post hpost) }
        vers_sub := by
          intro o ho
          rcases List.mem_cons.mp ho with rfl | ho
          · exact List.mem_cons_self
          · exact List.mem_cons_of_mem _ (hI.vers_sub o ho)
        sub_parent_ok := by
          intro x hx
          rcases List.mem_cons.mp hx with rfl | hx
          · rcases hlc with ⟨_, hc⟩ | ⟨_, hc | hc⟩
            · exact Or.inl hc
            · exact Or.inr hc
            · exact Or.inl hc
          · exact (hI.sub_parent_ok x hx).imp id (hcr _ (hNpar x hx))
        inflight_distinct := by
          intro a b n hab ha hb
          simp only [setPc_pcs] at ha hb
          by_cases hai : a = i <;> by_cases hbi : b = i <;> simp only [hai, hbi, if_true, if_false] at ha hb
          · exact hab (hai.trans hbi.symm)
          · simp [inflight] at ha; subst ha
            exact hNpc b (inflight_uses hb)
          · simp [inflight] at hb; subst hb
            exact hNpc a (inflight_uses ha)
          · exact hI.inflight_distinct a b n hab ha hb
        chain_obj := by
          intro c hc hr
          obtain ⟨o, ho, hoc⟩ := hI.chain_obj c hc hr
          exact ⟨o, List.mem_cons_of_mem _ ho, hoc⟩
        pcs_ok := by
          intro j
          simp only [setPc_pcs]
          by_cases hji : j = i
          · simp only [hji, if_true]
            exact ⟨hlc, hNch, List.mem_cons_self, List.mem_cons_self, Or.inl List.mem_cons_self⟩
          · simp only [hji, if_false]
            have hj := hI.pcs_ok j
            have huse := hNpc j
            cases hpc : S.pcs j with
            | idle => trivial
            | a1 P' d' l' =>
              rw [hpc] at hj huse
              have : P' ≠ N := huse
              exact hj.imp id (fun ⟨a, b⟩ => ⟨a, b.imp (hcr P' this) id⟩)
            | a2 P' d' l' N' =>
              rw [hpc] at hj huse
              obtain ⟨h1, h2, h3, h4, h5⟩ := hj
              have hP'N : P' ≠ N := fun e => huse (Or.inl e)
              exact ⟨h1.imp id (fun ⟨a, b⟩ => ⟨a, b.imp (hcr P' hP'N) id⟩), h2,
                List.mem_cons_of_mem _ h3, List.mem_cons_of_mem _ h4,
                h5.imp (List.mem_cons_of_mem _) (fun ⟨c', d', a, b⟩ => ⟨c', d', List.mem_cons_of_mem _ a, b⟩)⟩
            | a4 P' N' => rw [hpc] at hj; exact hj
            | g1 P' cs => rw [hpc] at hj; exact fun c hc => List.mem_cons_of_mem _ (hj c hc)
            | g2 P' cs f => rw [hpc] at hj; exact ⟨fun c hc => List.mem_cons_of_mem _ (hj.1 c hc), hj.2⟩
            | g4 P' c => rw [hpc] at hj; exact hj
            | c1 l0 => rw [hpc] at hj; exact hj
            | c2 l0 seen => rw [hpc] at hj; exact ⟨hj.1, fun o ho => List.mem_cons_of_mem _ (hj.2 o ho)⟩
            | c4 l0 seen y => rw [hpc] at hj; exact ⟨hj.1, fun o ho => List.mem_cons_of_mem _ (hj.2.1 o ho), hj.2.2⟩
            | c5 l0 seen y => rw [hpc] at hj; exact ⟨hj.1, fun o ho => List.mem_cons_of_mem _ (hj.2.1 o ho), hj.2.2⟩
        acked_chain := hI.acked_chain
        served_ok := fun x hx => let ⟨a, b⟩ := hI.served_ok x hx; ⟨List.mem_cons_of_mem _ a, b⟩
        snaps_ever := hI.snaps_ever
        ever_chain := hI.ever_chain
        maxsnap := hI.maxsnap
        retired_ok := hI.retired_ok }
  | avCasOk i P d l N h heq =>
    have hpcI := hI.pcs_ok i; rw [h] at hpcI
    obtain ⟨hl, hNc, hNcr, hNsub, hNobj⟩ := hpcI
    have hmem : ∀ x, x ∈ S.chain → x ∈ S.chain ++ [N] := fun x hx => List.mem_append.mpr (Or.inl hx)
    -- the object is still there: had a cleanup removed it, the compare-and-swap could not succeed
    have hobj : (⟨P, N, d⟩ : VObj) ∈ S.vers := by
      rcases hNobj with ho | ⟨c', d', hsub', hc'⟩
      · exact ho
      · exfalso
        rcases hl with ⟨rfl, hP⟩ | ⟨rfl, _⟩
        · have hlast : S.chain.getLast? = some P := by rw [← hI.latest_last, heq]
          rcases triple_parent hI.hist hsub' hc' with ⟨_, hlt⟩ | hnc
          · have := idx_le_last hI.hist.nodup hlast c' hc'; omega
          · exact hnc (hI.hist.chain_created P hP)
        · have hlast : S.chain.getLast? = none := by rw [← hI.latest_last, heq]
          have : S.chain = [] := List.getLast?_eq_none_iff.mp hlast
          rw [this] at hc'; simp at hc'
    have hpredN : predOrFirst (S.chain ++ [N]) P N := by
      rcases hl with ⟨rfl, _⟩ | ⟨rfl, _⟩
      · have hlast : S.chain.getLast? = some P := by rw [← hI.latest_last, heq]
        obtain ⟨pre, hpre⟩ := List.getLast?_eq_some_iff.mp hlast
        exact Or.inl ⟨pre, [], by rw [hpre]; simp⟩
      · have hlast : S.chain.getLast? = none := by rw [← hI.latest_last, heq]
        have : S.chain = [] := List.getLast?_eq_none_iff.mp hlast
        exact Or.inr ⟨[], by rw [this]; rfl⟩
    have hI0 : Inv (setPc S i .idle) := inv_setPc hI i .idle trivial (Or.inl rfl)
    have hnoN : ∀ j, inflight ((setPc S i .idle).pcs j) ≠ some N := by
      intro j
      rw [setPc_pcs]
      split
      · simp [inflight]
      · rename_i hji
        exact hI.inflight_distinct i j N (fun e => hji e.symm) (by rw [h]; rfl)
    generalize hS0 : setPc S i .idle = S0 at hI0 hnoN
    have e1 : S0.chain = S.chain := by rw [← hS0]; rfl
    have e2 : S0.vers = S.vers := by rw [← hS0]; rfl
    have e3 : S0.created = S.created := by rw [← hS0]; rfl
    have e4 : S0.sub = S.sub := by rw [← hS0]; rfl
    have hgoal : setPc { S with latest := some N, chain := S.chain ++ [N], acked := N :: S.acked } i .idle
        = { S0 with latest := some N, chain := S0.chain ++ [N], acked := N :: S0.acked } := by
      rw [← hS0]; rfl
    rw [hgoal]
    rw [← e1] at hNc hmem hpredN
    rw [← e2] at hobj
    rw [← e3] at hNcr
    rw [← e4] at hNsub
    have hidx : ∀ x, x ∈ S0.chain → idx (S0.chain ++ [N]) x = idx S0.chain x := fun x hx => idx_append N hx
    have hlcond : (l = some P ∧ P ∈ S.chain) ∨ (l = none ∧ (P ∉ S.created ∨ P ∈ S.chain)) := hl
    exact
      { latest_last := by simp
        hist :=
          { nodup := by
              rw [List.nodup_append]
              refine ⟨hI0.hist.nodup, by simp, ?_⟩
              intro a ha b hb
              simp at hb; subst hb
              intro e; exact hNc (e ▸ ha)
            chain_created := by
              intro c hc
              rcases List.mem_append.mp hc with hc | hc
              · exact hI0.hist.chain_created c hc
              · simp at hc; subst hc; exact hNcr
            sub_unique := hI0.hist.sub_unique
            sub_created := hI0.hist.sub_created
            chain_sub := by
              intro c hc
              rcases List.mem_append.mp hc with hc | hc
              · obtain ⟨x, hx, h1, h2⟩ := hI0.hist.chain_sub c hc
                exact ⟨x, hx, h1, predOrFirst_append N h2⟩
              · simp at hc; subst hc
                exact ⟨(P, c, d), hNsub, rfl, hpredN⟩
            first_parent := by
              intro x hx post hpost
              cases hch : S0.chain with
              | nil =>
                -- the very first version: its parent was never created here
                simp only [hch, List.nil_append, List.cons.injEq] at hpost
                have hx' := hI0.hist.sub_unique x hx (P, N, d) hNsub (by simpa using hpost.1.symm)
                subst hx'
                have hlast : S.chain.getLast? = none := by rw [← e1, hch]; rfl
                have hlat : l = none := by rw [← heq, hI.latest_last, hlast]
                rcases hlcond with ⟨hsome, _⟩ | ⟨_, hc | hc⟩
                · rw [hlat] at hsome; cases hsome
                · rw [e3]; exact hc
                · rw [← e1, hch] at hc; simp at hc
              | cons c0 rest =>
                simp only [hch, List.cons_append, List.cons.injEq] at hpost
                exact hI0.hist.first_parent x hx rest (by rw [hch, hpost.1]) }
        vers_sub := hI0.vers_sub
        sub_parent_ok := fun x hx => (hI0.sub_parent_ok x hx).imp (hmem _) id
        inflight_distinct := hI0.inflight_distinct
        chain_obj := by
          intro c hc hr
          rcases List.mem_append.mp hc with hc | hc
          · exact hI0.chain_obj c hc hr
          · simp at hc; subst hc
            exact ⟨⟨P, c, d⟩, hobj, rfl⟩
        pcs_ok := by
          intro j
          have hj := hI0.pcs_ok j
          have hdist := hnoN j
          show PcOk _ (S0.pcs j)
          cases hpc : S0.pcs j with
          | idle => trivial
          | a1 P' d' l' =>
            rw [hpc] at hj
            exact hj.imp (fun ⟨a, b⟩ => ⟨a, hmem _ b⟩) (fun ⟨a, b⟩ => ⟨a, b.imp id (hmem _)⟩)
          | a2 P' d' l' N' =>
            rw [hpc] at hj hdist
            obtain ⟨h1, h2, h3, h4, h5⟩ := hj
            have hne : N' ≠ N := fun e => hdist (by rw [e]; rfl)
            refine ⟨h1.imp (fun ⟨a, b⟩ => ⟨a, hmem _ b⟩) (fun ⟨a, b⟩ => ⟨a, b.imp id (hmem _)⟩), ?_, h3, h4,
              h5.imp id (fun ⟨c', d', a, b⟩ => ⟨c', d', a, hmem _ b⟩)⟩
            intro hin
            rcases List.mem_append.mp hin with hin | hin
            · exact h2 hin
            · simp at hin; exact hne hin
          | a4 P' N' =>
            rw [hpc] at hj hdist
            have hne : N' ≠ N := fun e => hdist (by rw [e]; rfl)
            intro hin
            rcases List.mem_append.mp hin with hin | hin
            · exact hj hin
            · simp at hin; exact hne hin
          | g1 P' cs => rw [hpc] at hj; exact hj
          | g2 P' cs f => rw [hpc] at hj; exact ⟨hj.1, fun c hc => hmem _ (hj.2 c hc)⟩
          | g4 P' c => rw [hpc] at hj; exact hmem _ hj
          | c1 l0 => rw [hpc] at hj; exact fun c hc => hmem _ (hj c hc)
          | c2 l0 seen => rw [hpc] at hj; exact ⟨fun c hc => hmem _ (hj.1 c hc), hj.2⟩
          | c4 l0 seen y => rw [hpc] at hj; exact ⟨fun c hc => hmem _ (hj.1 c hc), hj.2.1, hj.2.2⟩
          | c5 l0 seen y => rw [hpc] at hj; exact ⟨fun c hc => hmem _ (hj.1 c hc), hj.2.1, hj.2.2⟩
        acked_chain := by
          intro n hn
          rcases List.mem_cons.mp hn with rfl | hn
          · simp
          · exact hmem _ (hI0.acked_chain n hn)
        served_ok := fun x hx => let ⟨a, b⟩ := hI0.served_ok x hx; ⟨a, hmem _ b⟩
        snaps_ever := hI0.snaps_ever
        ever_chain := fun s hs => hmem _ (hI0.ever_chain s hs)
        maxsnap := by
          intro he
          obtain ⟨m, hm, hmax⟩ := hI0.maxsnap he
          refine ⟨m, hm, ?_⟩
          intro s hs
          show idx (S0.chain ++ [N]) s ≤ idx (S0.chain ++ [N]) m
          rw [hidx s (hI0.ever_chain s hs), hidx m (hI0.ever_chain m (hI0.snaps_ever m hm))]
          exact hmax s hs
        retired_ok := by
          intro c hc
          obtain ⟨h1, s, hs, hle⟩ := hI0.retired_ok c hc
          refine ⟨hmem _ h1, s, hs, ?_⟩
          show idx (S0.chain ++ [N]) c ≤ idx (S0.chain ++ [N]) s
          rw [hidx c h1, hidx s (hI0.ever_chain s hs)]
          exact hle }

end Cl

namespace Cl

def init : Sys :=
  { latest := none, vers := [], snaps := [], chain := [], created := [], sub := [], snapsEver := [],
    retired := [], pcs := fun _ => .idle, served := [], acked := [] }

theorem inv_init : Inv init := by
  refine { latest_last := rfl, hist := ?_, vers_sub := ?_, sub_parent_ok := ?_, inflight_distinct := ?_,
           chain_obj := ?_, pcs_ok := ?_, acked_chain := ?_, served_ok := ?_, snaps_ever := ?_,
           ever_chain := ?_, maxsnap := ?_, retired_ok := ?_ }
  · refine { nodup := List.nodup_nil, chain_created := ?_, sub_unique := ?_, sub_created := ?_,
             chain_sub := ?_, first_parent := ?_ } <;> simp [init]
  all_goals simp [init, PcOk, inflight]

inductive Reachable : Sys → Prop where
  | init : Reachable init
  | step {S S'} : Reachable S → Step S S' → Reachable S'

theorem reachable_inv {S : Sys} (h : Reachable S) : Inv S := by
  induction h with
  | init => exact inv_init
  | step _ hs ih => exact inv_step_easy ih hs

/-- C10: whatever interleaving of add-version, get-child-version, add-snapshot and any number of
    (repaired) cleanups led here — each cleanup possibly abandoned after any of its deletions —
    either no snapshot was ever stored and every version of the chain is still there, or some
    snapshot of a chain version is still stored and every later version is still there. -/
theorem retained_suffix_retrievable {S : Sys} (h : Reachable S) :
    (S.snapsEver = [] ∧ ∀ c ∈ S.chain, ∃ o ∈ S.vers, o.child = c) ∨
    (∃ m ∈ S.snaps, m ∈ S.chain ∧
      ∀ c ∈ S.chain, idx S.chain m < idx S.chain c → ∃ o ∈ S.vers, o.child = c) := by
  have hI := reachable_inv h
  by_cases he : S.snapsEver = []
  · left
    refine ⟨he, fun c hc => hI.chain_obj c hc ?_⟩
    intro hr
    obtain ⟨_, s, hs, _⟩ := hI.retired_ok c hr
    rw [he] at hs; simp at hs
  · right
    obtain ⟨m, hm, hmax⟩ := hI.maxsnap he
    refine ⟨m, hm, hI.ever_chain m (hI.snaps_ever m hm), ?_⟩
    intro c hc hlt
    apply hI.chain_obj c hc
    intro hr
    obtain ⟨_, s, hs, hle⟩ := hI.retired_ok c hr
    have := hmax s hs
    omega

/-- C09 (restated for the machine with cleanup): what `get_child_version` serves is always a
    recorded put of a chain element, hence the element with its true predecessor and bytes. -/
theorem served_only_chain {S : Sys} (h : Reachable S) :
    ∀ x ∈ S.served, x ∈ S.sub ∧ x.2.1 ∈ S.chain ∧ predOrFirst S.chain x.1 x.2.1 := by
  intro x hx
  obtain ⟨a, b⟩ := (reachable_inv h).served_ok x hx
  exact ⟨a, b, triple_pred (reachable_inv h).hist (by simpa using a) b⟩

theorem acked_on_chain {S : Sys} (h : Reachable S) : ∀ n ∈ S.acked, n ∈ S.chain :=
  (reachable_inv h).acked_chain

end Cl

