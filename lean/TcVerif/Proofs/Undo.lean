import TcVerif.Model.Replica
import TcVerif.Proofs.Ot
/-!
# Undo restores the exact prior state (C07)
-/
namespace Tc

/-- the task map an `old_task` association list denotes -/
def ofAssoc (l : List (String × String)) : TaskMap :=
  l.foldl (fun t kv => setProp t kv.1 (some kv.2)) emptyTask

/-- the operation is valid in `db` and what it recorded about the past is true -/
def accurate (db : DB) : Op → Prop
  | .create u => db u = none
  | .delete u old => db u = some (ofAssoc old)
  | .update u k old _ _ => ∃ t, db u = some t ∧ t k = old
  | .undoPoint => True

def accurateL : DB → List Op → Prop
  | _, [] => True
  | db, o :: os => accurate db o ∧ accurateL (applyLocal db o) os

theorem applyStrictL_append (db : DB) (a b : List SyncOp) :
    applyStrictL db (a ++ b) = (applyStrictL db a).bind (fun d => applyStrictL d b) := by
  induction a generalizing db with
  | nil => rfl
  | cons x xs ih =>
    simp only [List.cons_append, applyStrictL]
    cases applyStrict db x <;> simp [ih]

theorem setTask_setProp_restore (db : DB) (u : Nat) (t : TaskMap) (k : String) (v : Option String)
    (h : db u = some t) :
    setTask (setTask db u (some (setProp t k v))) u (some (setProp (setProp t k v) k (t k))) = db := by
  rw [setTask_same]
  funext x
  by_cases hx : x = u
  · subst hx
    simp only [setTask_get, h]
    congr 1
    funext y
    simp only [setProp]
    split <;> simp_all
  · simp [setTask_get_ne _ _ _ _ hx]

/-- re-creating a deleted task property by property gives back exactly the old task -/
theorem restore_props (db : DB) (u : Nat) (l : List (String × String)) (t : TaskMap)
    (h : db u = some t) :
    applyStrictL db (l.map (fun kv => SyncOp.update u kv.1 (some kv.2) 0)) =
      some (setTask db u (some (l.foldl (fun t kv => setProp t kv.1 (some kv.2)) t))) := by
  induction l generalizing db t with
  | nil =>
    simp only [List.map_nil, applyStrictL, List.foldl_nil]
    congr 1; rw [← h, setTask_self]
  | cons kv l ih =>
    simp only [List.map_cons, applyStrictL, applyStrict, h, Option.bind, List.foldl_cons]
    rw [ih (setTask db u (some (setProp t kv.1 (some kv.2)))) (setProp t kv.1 (some kv.2)) (by simp)]
    simp

theorem undo_one (db : DB) (o : Op) (h : accurate db o) :
    applyStrictL (applyLocal db o) (reverseOp o) = some db := by
  cases o with
  | undoPoint => rfl
  | create u =>
    simp only [accurate] at h
    simp only [applyLocal, Op.toSync, applyO, apply, reverseOp, applyStrictL, applyStrict, h,
      setTask_get, Option.getD, Option.isSome, if_true, Option.bind, setTask_same]
    congr 1; rw [← h, setTask_self]
  | delete u old =>
    simp only [accurate] at h
    simp only [applyLocal, Op.toSync, applyO, apply, reverseOp, applyStrictL, applyStrict,
      setTask_get, Option.isNone, if_true, Option.bind, setTask_same]
    rw [restore_props _ _ _ emptyTask (by simp)]
    simp only [setTask_same]
    congr 1
    show setTask db u (some (ofAssoc old)) = db
    rw [← h, setTask_self]
  | update u k old v ts =>
    obtain ⟨t, ht, hk⟩ := h
    simp only [applyLocal, Op.toSync, applyO, apply, reverseOp, applyStrictL, applyStrict, ht,
      Option.map, setTask_get, Option.bind]
    rw [← hk, setTask_setProp_restore db u t k v ht]

/-- undoing an accurate sequence of operations, last first, restores exactly the prior task set —
    for every sequence (creates, property sets and removals, deletes of populated tasks, undo
    points) and every prior state. -/
theorem undo_restores (db : DB) (ops : List Op) (h : accurateL db ops) :
    applyStrictL (ops.foldl applyLocal db) (ops.reverse.flatMap reverseOp) = some db := by
  induction ops generalizing db with
  | nil => rfl
  | cons o os ih =>
    obtain ⟨h1, h2⟩ := h
    have := ih (applyLocal db o) h2
    simp only [List.reverse_cons, List.flatMap_append, List.flatMap_cons, List.flatMap_nil,
      List.append_nil, List.foldl_cons, applyStrictL_append] at this ⊢
    rw [this]
    exact undo_one db o h1

end Tc
