import TcVerif.Model.Replica
import TcVerif.Proofs.Ot
/-!
# `apply_operations` with its write cache equals the one-at-a-time fold (C05)
-/
namespace Tc

/-- what a reader going through the cache would see -/
def view (s : DB × Cache) : DB :=
  fun u => match s.2 u with | none => s.1 u | some x => x

def CacheOk (s : DB × Cache) : Prop := ∀ u, s.2 u = some none → s.1 u = none

@[simp] theorem setCache_same (c : Cache) (u : Nat) (x) : setCache c u x u = x := by simp [setCache]
theorem setCache_ne (c : Cache) (u u' : Nat) (x) (h : u' ≠ u) : setCache c u x u' = c u' := by
  simp [setCache, h]

theorem applyLocal_create (db : DB) (u : Nat) :
    applyLocal db (.create u) = setTask db u (some ((db u).getD emptyTask)) := rfl
theorem applyLocal_delete (db : DB) (u : Nat) (o) : applyLocal db (.delete u o) = setTask db u none := rfl
theorem applyLocal_update (db : DB) (u : Nat) (k o v ts) :
    applyLocal db (.update u k o v ts) = setTask db u ((db u).map (fun t => setProp t k v)) := rfl
theorem applyLocal_undo (db : DB) : applyLocal db .undoPoint = db := rfl

theorem cstep_view (s : DB × Cache) (op : Op) (h : CacheOk s) :
    view (cstep s op) = applyLocal (view s) op ∧ CacheOk (cstep s op) := by
  obtain ⟨db, c⟩ := s
  cases op with
  | undoPoint => exact ⟨rfl, h⟩
  | delete u old =>
    constructor
    · funext x
      by_cases hx : x = u
      · subst hx; simp [cstep, view, applyLocal_delete]
      · simp [cstep, view, applyLocal_delete, setCache_ne _ _ _ _ hx, setTask_get_ne _ _ _ _ hx]
    · intro x
      by_cases hx : x = u
      · subst hx; simp [cstep]
      · simp only [cstep, setCache_ne _ _ _ _ hx, setTask_get_ne _ _ _ _ hx]; exact h x
  | create u =>
    have hu := h u
    constructor
    · funext x
      by_cases hx : x = u
      · subst hx
        rcases hc : c x with _ | _ | t <;> rcases hd : db x with _ | t' <;>
          simp_all [cstep, flush, view, applyLocal_create]
      · rcases hc : c u with _ | _ | t <;> rcases hd : db u with _ | t' <;>
          simp_all [cstep, flush, view, applyLocal_create, setCache_ne _ _ _ _ hx, setTask_get_ne _ _ _ _ hx]
    · intro x
      have hxx := h x
      by_cases hx : x = u
      · subst hx
        rcases hc : c x with _ | _ | t <;> rcases hd : db x with _ | t' <;>
          simp_all [cstep, flush, CacheOk]
      · rcases hc : c u with _ | _ | t <;> rcases hd : db u with _ | t' <;>
          simp_all [cstep, flush, CacheOk, setCache_ne _ _ _ _ hx, setTask_get_ne _ _ _ _ hx]
  | update u k old v ts =>
    have hu := h u
    constructor
    · funext x
      by_cases hx : x = u
      · subst hx
        rcases hc : c x with _ | _ | t <;> rcases hd : db x with _ | t' <;>
          simp_all [cstep, view, applyLocal_update]
      · rcases hc : c u with _ | _ | t <;> rcases hd : db u with _ | t' <;>
          simp_all [cstep, view, applyLocal_update, setCache_ne _ _ _ _ hx, setTask_get_ne _ _ _ _ hx]
    · intro x
      have hxx := h x
      by_cases hx : x = u
      · subst hx
        rcases hc : c x with _ | _ | t <;> rcases hd : db x with _ | t' <;>
          simp_all [cstep, CacheOk]
      · rcases hc : c u with _ | _ | t <;> rcases hd : db u with _ | t' <;>
          simp_all [cstep, CacheOk, setCache_ne _ _ _ _ hx, setTask_get_ne _ _ _ _ hx]

theorem foldl_view (ops : List Op) (s : DB × Cache) (h : CacheOk s) :
    view (ops.foldl cstep s) = ops.foldl applyLocal (view s) ∧ CacheOk (ops.foldl cstep s) := by
  induction ops generalizing s with
  | nil => exact ⟨rfl, h⟩
  | cons op ops ih =>
    obtain ⟨e, h'⟩ := cstep_view s op h
    simp only [List.foldl_cons]
    rw [← e]
    exact ih _ h'

theorem flushAll_eq_view (s : DB × Cache) (h : CacheOk s) : flushAll s = view s := by
  funext u
  simp only [flushAll, view]
  rcases hc : s.2 u with _ | _ | t
  · rfl
  · exact h u hc
  · rfl

/-- batch application through the write cache = applying the operations one at a time,
    for every batch (valid or not) and every prior task set. -/
theorem cached_eq_fold (db : DB) (ops : List Op) :
    applyCached db ops = ops.foldl applyLocal db := by
  have h0 : CacheOk (db, fun _ => none) := by intro u hu; cases hu
  obtain ⟨e, h⟩ := foldl_view ops (db, fun _ => none) h0
  unfold applyCached
  rw [flushAll_eq_view _ h, e]
  rfl

end Tc
