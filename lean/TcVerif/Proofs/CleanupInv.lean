import TcVerif.Proofs.CleanupLemmas
namespace Cl

def inflight : PC → Option Vid
  | .a2 _ _ _ N => some N
  | .a4 _ N => some N
  | _ => none

def LOk (S : Sys) (l0 : Option Vid) : Prop := ∀ c, l0 = some c → c ∈ S.chain
def SeenOk (S : Sys) (seen : List VObj) : Prop := ∀ o ∈ seen, (o.parent, o.child, o.data) ∈ S.sub

def PcOk (S : Sys) : PC → Prop
  | .idle => True
  | .a1 P _ l => (l = some P ∧ P ∈ S.chain) ∨ (l = none ∧ (P ∉ S.created ∨ P ∈ S.chain))
  | .a2 P d l N => ((l = some P ∧ P ∈ S.chain) ∨ (l = none ∧ (P ∉ S.created ∨ P ∈ S.chain))) ∧
      N ∉ S.chain ∧ N ∈ S.created ∧ (P, N, d) ∈ S.sub ∧
      (⟨P, N, d⟩ ∈ S.vers ∨ ∃ c' d', (P, c', d') ∈ S.sub ∧ c' ∈ S.chain)
  | .a4 _ N => N ∉ S.chain
  | .g1 _ cs => ∀ c ∈ cs, c ∈ S.created
  | .g2 _ cs f => (∀ c ∈ cs, c ∈ S.created) ∧ (∀ c, f = some c → c ∈ S.chain)
  | .g4 _ c => c ∈ S.chain
  | .c1 l0 => LOk S l0
  | .c2 l0 seen => LOk S l0 ∧ SeenOk S seen
  | .c4 l0 seen y => LOk S l0 ∧ SeenOk S seen ∧ y ∈ S.snapsEver
  | .c5 l0 seen y => LOk S l0 ∧ SeenOk S seen ∧ y ∈ S.snapsEver

structure Inv (S : Sys) : Prop where
  latest_last : S.latest = S.chain.getLast?
  hist : Hist S.chain S.created S.sub
  vers_sub : ∀ o ∈ S.vers, (o.parent, o.child, o.data) ∈ S.sub
  sub_parent_ok : ∀ x ∈ S.sub, x.1 ∈ S.chain ∨ x.1 ∉ S.created
  inflight_distinct : ∀ i j n, i ≠ j → inflight (S.pcs i) = some n → inflight (S.pcs j) ≠ some n
  chain_obj : ∀ c ∈ S.chain, c ∉ S.retired → ∃ o ∈ S.vers, o.child = c
  pcs_ok : ∀ i, PcOk S (S.pcs i)
  acked_chain : ∀ n ∈ S.acked, n ∈ S.chain
  served_ok : ∀ x ∈ S.served, x ∈ S.sub ∧ x.2.1 ∈ S.chain
  snaps_ever : ∀ s ∈ S.snaps, s ∈ S.snapsEver
  ever_chain : ∀ s ∈ S.snapsEver, s ∈ S.chain
  maxsnap : S.snapsEver ≠ [] → ∃ m ∈ S.snaps, ∀ s ∈ S.snapsEver, idx S.chain s ≤ idx S.chain m
  retired_ok : ∀ c ∈ S.retired, c ∈ S.chain ∧ ∃ s ∈ S.snapsEver, idx S.chain c ≤ idx S.chain s

@[simp] theorem setPc_latest (S : Sys) (i pc) : (setPc S i pc).latest = S.latest := rfl
@[simp] theorem setPc_vers (S : Sys) (i pc) : (setPc S i pc).vers = S.vers := rfl
@[simp] theorem setPc_snaps (S : Sys) (i pc) : (setPc S i pc).snaps = S.snaps := rfl
@[simp] theorem setPc_chain (S : Sys) (i pc) : (setPc S i pc).chain = S.chain := rfl
@[simp] theorem setPc_created (S : Sys) (i pc) : (setPc S i pc).created = S.created := rfl
@[simp] theorem setPc_sub (S : Sys) (i pc) : (setPc S i pc).sub = S.sub := rfl
@[simp] theorem setPc_snapsEver (S : Sys) (i pc) : (setPc S i pc).snapsEver = S.snapsEver := rfl
@[simp] theorem setPc_retired (S : Sys) (i pc) : (setPc S i pc).retired = S.retired := rfl
@[simp] theorem setPc_served (S : Sys) (i pc) : (setPc S i pc).served = S.served := rfl
@[simp] theorem setPc_acked (S : Sys) (i pc) : (setPc S i pc).acked = S.acked := rfl
theorem setPc_pcs (S : Sys) (i pc j) : (setPc S i pc).pcs j = if j = i then pc else S.pcs j := rfl

/-- `PcOk` only looks at chain, created, sub, vers, snapsEver -/
theorem PcOk_congr {S T : Sys} (h1 : S.chain = T.chain) (h2 : S.created = T.created)
    (h3 : S.sub = T.sub) (h4 : S.vers = T.vers) (h5 : S.snapsEver = T.snapsEver) (pc : PC) :
    PcOk S pc ↔ PcOk T pc := by
  cases pc <;> simp [PcOk, LOk, SeenOk, h1, h2, h3, h4, h5]

theorem inv_setPc {S : Sys} (hI : Inv S) (i : Nat) (pc : PC) (hpc : PcOk S pc)
    (hfl : inflight pc = none ∨ inflight pc = inflight (S.pcs i)) :
    Inv (setPc S i pc) := by
  refine { hI with pcs_ok := ?_, inflight_distinct := ?_ }
  · intro a b n hab ha hb
    rw [setPc_pcs] at ha hb
    by_cases hai : a = i <;> by_cases hbi : b = i <;> simp only [hai, hbi, if_true, if_false] at ha hb
    · exact hab (hai.trans hbi.symm)
    · rcases hfl with h | h
      · rw [h] at ha; cases ha
      · rw [h] at ha; exact hI.inflight_distinct i b n (fun e => hbi e.symm) ha hb
    · rcases hfl with h | h
      · rw [h] at hb; cases hb
      · rw [h] at hb; exact hI.inflight_distinct a i n hai ha hb
    · exact hI.inflight_distinct a b n hab ha hb
  · intro j
    rw [setPc_pcs]
    split
    · exact (PcOk_congr rfl rfl rfl rfl rfl pc).mp hpc
    · exact (PcOk_congr rfl rfl rfl rfl rfl _).mp (hI.pcs_ok j)

theorem getLast?_mem {l : List Vid} {x : Vid} (h : l.getLast? = some x) : x ∈ l :=
  List.mem_of_getLast? h

theorem latest_mem {S : Sys} (hI : Inv S) {c : Vid} (h : S.latest = some c) : c ∈ S.chain := by
  have := hI.latest_last; rw [h] at this; exact getLast?_mem this.symm

end Cl
