/-! Spike: the object-store machine of CloudChain.lean extended with snapshots and the
    *repaired* cleanup (Appendix B of DESIGN.md): `latest` is read before the listing, a version
    object off the walked chain is deleted only if its parent has another child on it, only
    snapshots strictly older than the retained one are deleted, and only versions at or before
    the retained snapshot are retired.  "Old enough" is left nondeterministic (any version at or
    before the retained snapshot may be retired), which over-approximates every clock. -/
namespace Cl

abbrev Vid := Nat

structure VObj where
  parent : Vid
  child : Vid
  data : Nat
deriving DecidableEq, Repr

/-- the walk from `latest` back through a listing: pairs (child, parent) -/
def walk (seen : List VObj) : Nat → Vid → List (Vid × Vid)
  | 0, _ => []
  | f + 1, c => match seen.find? (fun o => o.child = c) with
      | some o => (c, o.parent) :: walk seen f o.parent
      | none => []

def revOf (seen : List VObj) (l0 : Option Vid) : List (Vid × Vid) :=
  match l0 with
  | some c => walk seen (seen.length + 1) c
  | none => []

/-- `x` is strictly older than `y` according to the walk (which lists newest first) -/
def older (rev : List (Vid × Vid)) (y x : Vid) : Prop :=
  ∃ pre post q, rev = pre ++ (y, q) :: post ∧ ∃ p, (x, p) ∈ post

def olderEq (rev : List (Vid × Vid)) (y x : Vid) : Prop := (x = y ∧ ∃ q, (y, q) ∈ rev) ∨ older rev y x

inductive PC where
  | idle
  | a1 (P : Vid) (d : Nat) (l : Option Vid)
  | a2 (P : Vid) (d : Nat) (l : Option Vid) (N : Vid)
  | a4 (P : Vid) (N : Vid)
  | g1 (P : Vid) (cs : List Vid)
  | g2 (P : Vid) (cs : List Vid) (found : Option Vid)
  | g4 (P : Vid) (c : Vid)
  -- cleanup
  | c1 (l0 : Option Vid)                                    -- read latest, about to list v-
  | c2 (l0 : Option Vid) (seen : List VObj)                  -- deleting losers
  | c4 (l0 : Option Vid) (seen : List VObj) (y : Vid)        -- retained snapshot y: deleting older snapshots
  | c5 (l0 : Option Vid) (seen : List VObj) (y : Vid)        -- retiring versions at or before y
deriving Repr

structure Sys where
  latest : Option Vid
  vers : List VObj
  snaps : List Vid
  chain : List Vid                   -- ghost
  created : List Vid                 -- ghost: every child id ever put
  sub : List (Vid × Vid × Nat)       -- ghost: every put (parent, child, data)
  snapsEver : List Vid               -- ghost: every snapshot version ever put
  retired : List Vid                 -- ghost: chain versions removed by retention
  pcs : Nat → PC
  served : List (Vid × Vid × Nat)
  acked : List Vid

def setPc (S : Sys) (i : Nat) (pc : PC) : Sys :=
  { S with pcs := fun j => if j = i then pc else S.pcs j }

def pcUses : PC → Vid → Prop
  | .idle, _ => False
  | .a1 P _ _, n => P = n
  | .a2 P _ _ N, n => P = n ∨ N = n
  | .a4 P N, n => P = n ∨ N = n
  | .g1 P cs, n => P = n ∨ n ∈ cs
  | .g2 P cs f, n => P = n ∨ n ∈ cs ∨ f = some n
  | .g4 P c, n => P = n ∨ c = n
  | .c1 _, _ => False
  | .c2 _ _, _ => False
  | .c4 _ _ _, _ => False
  | .c5 _ _ _, _ => False

/-- ids that a fresh id must differ from: everything ever seen -/
def usedId (S : Sys) (n : Vid) : Prop :=
  n ∈ S.created ∨ (∃ x ∈ S.sub, x.1 = n) ∨ (∃ i, pcUses (S.pcs i) n)

def delChild (vers : List VObj) (c : Vid) : List VObj := vers.filter (fun o => decide (o.child ≠ c))

inductive Step : Sys → Sys → Prop where
  | avRead (S : Sys) (i : Nat) (P : Vid) (d : Nat) (h : S.pcs i = .idle)
      (hok : S.latest = none ∨ S.latest = some P)
      (hside : S.latest = none → P ∉ S.created) :
      Step S (setPc S i (.a1 P d S.latest))
  | avPut (S : Sys) (i : Nat) (P : Vid) (d : Nat) (l : Option Vid) (N : Vid)
      (h : S.pcs i = .a1 P d l) (hfresh : ¬ usedId S N) :
      Step S (setPc { S with vers := ⟨P, N, d⟩ :: S.vers, created := N :: S.created,
                             sub := (P, N, d) :: S.sub } i (.a2 P d l N))
  | avCasOk (S : Sys) (i : Nat) (P : Vid) (d : Nat) (l : Option Vid) (N : Vid)
      (h : S.pcs i = .a2 P d l N) (heq : S.latest = l) :
      Step S (setPc { S with latest := some N, chain := S.chain ++ [N], acked := N :: S.acked } i .idle)
  | avCasFail (S : Sys) (i : Nat) (P : Vid) (d : Nat) (l : Option Vid) (N : Vid)
      (h : S.pcs i = .a2 P d l N) (hne : S.latest ≠ l) :
      Step S (setPc S i (.a4 P N))
  | avDel (S : Sys) (i : Nat) (P N : Vid) (h : S.pcs i = .a4 P N) :
      Step S (setPc { S with vers := delChild S.vers N } i .idle)
  | gcList (S : Sys) (i : Nat) (P : Vid) (cs : List Vid) (h : S.pcs i = .idle)
      (hcs : ∀ c ∈ cs, ∃ o ∈ S.vers, o.parent = P ∧ o.child = c) :
      Step S (setPc S i (.g1 P cs))
  | gcLatestHit (S : Sys) (i : Nat) (P : Vid) (cs : List Vid) (c : Vid)
      (h : S.pcs i = .g1 P cs) (hc : c ∈ cs) (hl : S.latest = some c) :
      Step S (setPc S i (.g4 P c))
  | gcLatestMiss (S : Sys) (i : Nat) (P : Vid) (cs : List Vid) (h : S.pcs i = .g1 P cs) :
      Step S (setPc S i (.g2 P cs none))
  | gcProbeHit (S : Sys) (i : Nat) (P : Vid) (cs : List Vid) (f : Option Vid) (c : Vid)
      (h : S.pcs i = .g2 P cs f) (hc : c ∈ cs) (hch : ∃ o ∈ S.vers, o.parent = c) :
      Step S (setPc S i (.g2 P cs (some c)))
  | gcChoose (S : Sys) (i : Nat) (P : Vid) (cs : List Vid) (c : Vid)
      (h : S.pcs i = .g2 P cs (some c)) :
      Step S (setPc S i (.g4 P c))
  | gcGet (S : Sys) (i : Nat) (P c : Vid) (o : VObj) (h : S.pcs i = .g4 P c)
      (ho : o ∈ S.vers) (hp : o.parent = P) (hcc : o.child = c) :
      Step S (setPc { S with served := (P, c, o.data) :: S.served } i .idle)
  | gcGone (S : Sys) (i : Nat) (P c : Vid) (h : S.pcs i = .g4 P c) :
      Step S (setPc S i .idle)
  /-- a call ends without a further effect on the store: no candidate child turned out to be on the
      chain, or the client gave up / failed / stopped at this point (whatever it has put or deleted
      stays) -/
  | abandon (S : Sys) (i : Nat) :
      Step S (setPc S i .idle)
  /-- add_snapshot for a version this client was told was accepted -/
  | addSnap (S : Sys) (i : Nat) (v : Vid) (h : S.pcs i = .idle) (hv : v ∈ S.acked) :
      Step S { S with snaps := v :: S.snaps, snapsEver := v :: S.snapsEver }
  /-- cleanup: read latest first -/
  | clRead (S : Sys) (i : Nat) (h : S.pcs i = .idle) : Step S (setPc S i (.c1 S.latest))
  /-- list v- (weak: any objects that have existed) -/
  | clList (S : Sys) (i : Nat) (l0 : Option Vid) (seen : List VObj) (h : S.pcs i = .c1 l0)
      (hseen : ∀ o ∈ seen, (o.parent, o.child, o.data) ∈ S.sub) :
      Step S (setPc S i (.c2 l0 seen))
  /-- delete one loser: off the walked chain, and its parent has another child on it -/
  | clDelLoser (S : Sys) (i : Nat) (l0 : Option Vid) (seen : List VObj) (o : VObj)
      (h : S.pcs i = .c2 l0 seen) (ho : o ∈ seen)
      (hoff : (o.child, o.parent) ∉ revOf seen l0)
      (hsib : ∃ c', (c', o.parent) ∈ revOf seen l0) :
      Step S { S with vers := delChild S.vers o.child }
  /-- list s-, pick the retained snapshot: a snapshot seen in the listing whose version is on the walk -/
  | clPickSnap (S : Sys) (i : Nat) (l0 : Option Vid) (seen : List VObj) (y : Vid)
      (h : S.pcs i = .c2 l0 seen) (hy : y ∈ S.snaps)
      (hyrev : (∃ p, (y, p) ∈ revOf seen l0)) :
      Step S (setPc S i (.c4 l0 seen y))
  | clNoSnap (S : Sys) (i : Nat) (l0 : Option Vid) (seen : List VObj) (h : S.pcs i = .c2 l0 seen) :
      Step S (setPc S i .idle)
  /-- delete a snapshot that the walk places strictly before the retained one -/
  | clDelSnap (S : Sys) (i : Nat) (l0 : Option Vid) (seen : List VObj) (y x : Vid)
      (h : S.pcs i = .c4 l0 seen y)
      (hx : older (revOf seen l0) y x) :
      Step S { S with snaps := S.snaps.filter (fun s => decide (s ≠ x)) }
  /-- delete the snapshot of the parent of a walked version at or before the retained one (the
      parent of the oldest walked version has no entry of its own on the walk) -/
  | clDelSnapParent (S : Sys) (i : Nat) (l0 : Option Vid) (seen : List VObj) (y c x : Vid)
      (h : S.pcs i = .c4 l0 seen y)
      (hc : olderEq (revOf seen l0) y c) (hcx : (c, x) ∈ revOf seen l0) :
      Step S { S with snaps := S.snaps.filter (fun s => decide (s ≠ x)) }
  | clSnapsDone (S : Sys) (i : Nat) (l0 : Option Vid) (seen : List VObj) (y : Vid)
      (h : S.pcs i = .c4 l0 seen y) : Step S (setPc S i (.c5 l0 seen y))
  /-- retire a version at or before the retained snapshot (any; age is abstracted away) -/
  | clRetire (S : Sys) (i : Nat) (l0 : Option Vid) (seen : List VObj) (y c : Vid)
      (h : S.pcs i = .c5 l0 seen y)
      (hc : olderEq (revOf seen l0) y c) :
      Step S { S with vers := delChild S.vers c, retired := c :: S.retired }
  | clDone (S : Sys) (i : Nat) (l0 : Option Vid) (seen : List VObj) (y : Vid)
      (h : S.pcs i = .c5 l0 seen y) : Step S (setPc S i .idle)

end Cl
