import TcVerif.Proofs.JsonStamp
import TcVerif.Proofs.JsonUuid
import TcVerif.Proofs.JsonString
/-!
# The whole document: `decodeVersion (printVersion ops) = some ops`

Building blocks: strings without characters that need escaping print as themselves; one object
member; objects; the three operation shapes; the list of operations; the document.
-/
namespace Tc.Json

/-- a character that `escChar` leaves alone -/
def plain (c : Char) : Prop := c ≠ '"' ∧ c ≠ '\\' ∧ ¬ c.toNat < 0x20

theorem escChar_plain (c : Char) (h : plain c) : escChar c = [c] := by
  obtain ⟨h1, h2, h3⟩ := h
  unfold escChar
  have hb : c ≠ '\x08' := by intro e; subst e; exact h3 (by decide)
  have ht : c ≠ '\t' := by intro e; subst e; exact h3 (by decide)
  have hn : c ≠ '\n' := by intro e; subst e; exact h3 (by decide)
  have hf : c ≠ '\x0c' := by intro e; subst e; exact h3 (by decide)
  have hr : c ≠ '\r' := by intro e; subst e; exact h3 (by decide)
  simp only [h1, h2, hb, ht, hn, hf, hr, h3, if_false]

theorem printBody_plain (l : List Char) (h : ∀ c ∈ l, plain c) : printBody l = l := by
  induction l with
  | nil => rfl
  | cons c cs ih =>
    have hc := h c (by simp)
    have := ih (fun x hx => h x (by simp [hx]))
    simp only [printBody, List.flatMap_cons] at this ⊢
    rw [escChar_plain c hc, this]; rfl

/-! ### parsing steps -/

theorem skipWs_nonws (c : Char) (r : List Char) (h : isWs c = false) : skipWs (c :: r) = c :: r := by
  simp [skipWs, h]

/-- a string value -/
theorem pv_str (fuel : Nat) (s rest : List Char) :
    parseValue (fuel + 1) ('"' :: (printBody s ++ '"' :: rest)) = some (.str s, rest) := by
  have hq : isWs '"' = false := by decide
  have hb := Tc.parseBody_printBody s rest
  unfold parseValue
  simp only [skipWs_nonws _ _ hq, hb, Option.map_some]

theorem pv_null (fuel : Nat) (rest : List Char) :
    parseValue (fuel + 1) ('n' :: 'u' :: 'l' :: 'l' :: rest) = some (.null, rest) := by
  have hq : isWs 'n' = false := by decide
  unfold parseValue
  simp [skipWs_nonws _ _ hq, dropPrefix, List.isPrefixOf]

/-- an object whose first member follows immediately -/
theorem pv_obj (fuel : Nat) (R : List Char) :
    parseValue (fuel + 1) ('{' :: '"' :: R)
      = (parseMembers fuel ('"' :: R)).map fun (l, r) => (.obj l, r) := by
  have h1 : isWs '{' = false := by decide
  have h2 : isWs '"' = false := by decide
  conv => lhs; unfold parseValue
  simp only [skipWs_nonws _ _ h1, skipWs_nonws _ _ h2]
  split
  · rename_i h; exact absurd (List.cons.inj h).1 (by decide)
  · rfl

theorem pv_arr_empty (fuel : Nat) (r : List Char) :
    parseValue (fuel + 1) ('[' :: ']' :: r) = some (.arr [], r) := by
  have h1 : isWs '[' = false := by decide
  have h2 : isWs ']' = false := by decide
  conv => lhs; unfold parseValue
  simp only [skipWs_nonws _ _ h1, skipWs_nonws _ _ h2]

/-- an array whose first element (an object) follows immediately -/
theorem pv_arr (fuel : Nat) (R : List Char) :
    parseValue (fuel + 1) ('[' :: '{' :: R)
      = (parseElems fuel ('{' :: R)).map fun (l, r) => (.arr l, r) := by
  have h1 : isWs '[' = false := by decide
  have h2 : isWs '{' = false := by decide
  conv => lhs; unfold parseValue
  simp only [skipWs_nonws _ _ h1, skipWs_nonws _ _ h2]
  split
  · rename_i h; exact absurd (List.cons.inj h).1 (by decide)
  · rfl

/-- the last member of an object -/
theorem pm_last (fuel : Nat) (k X : List Char) (v : JVal) (r3 : List Char)
    (hv : parseValue fuel X = some (v, '}' :: r3)) :
    parseMembers (fuel + 1) ('"' :: (printBody k ++ '"' :: ':' :: X)) = some ([(k, v)], r3) := by
  have h1 : isWs '"' = false := by decide
  have h2 : isWs ':' = false := by decide
  have h3 : isWs '}' = false := by decide
  conv => lhs; unfold parseMembers
  simp only [skipWs_nonws _ _ h1, Tc.parseBody_printBody, skipWs_nonws _ _ h2, hv, skipWs_nonws _ _ h3]

/-- a member followed by more members -/
theorem pm_more (fuel : Nat) (k X : List Char) (v : JVal) (r3 r4 : List Char) (l : List (List Char × JVal))
    (hv : parseValue fuel X = some (v, ',' :: r3)) (hl : parseMembers fuel r3 = some (l, r4)) :
    parseMembers (fuel + 1) ('"' :: (printBody k ++ '"' :: ':' :: X)) = some ((k, v) :: l, r4) := by
  have h1 : isWs '"' = false := by decide
  have h2 : isWs ':' = false := by decide
  have h3 : isWs ',' = false := by decide
  conv => lhs; unfold parseMembers
  simp only [skipWs_nonws _ _ h1, Tc.parseBody_printBody, skipWs_nonws _ _ h2, hv, skipWs_nonws _ _ h3, hl,
    Option.map_some]

theorem pe_last (fuel : Nat) (X : List Char) (v : JVal) (r : List Char)
    (hv : parseValue fuel X = some (v, ']' :: r)) :
    parseElems (fuel + 1) X = some ([v], r) := by
  have h3 : isWs ']' = false := by decide
  conv => lhs; unfold parseElems
  simp only [hv, skipWs_nonws _ _ h3]

theorem pe_more (fuel : Nat) (X : List Char) (v : JVal) (r r' : List Char) (l : List JVal)
    (hv : parseValue fuel X = some (v, ',' :: r)) (hl : parseElems fuel r = some (l, r')) :
    parseElems (fuel + 1) X = some (v :: l, r') := by
  have h3 : isWs ',' = false := by decide
  conv => lhs; unfold parseElems
  simp only [hv, skipWs_nonws _ _ h3, hl, Option.map_some]


/-! ### what uuids and timestamps are made of needs no escaping -/

instance (c : Char) : Decidable (plain c) := by unfold plain; exact inferInstance

theorem hexDigit_plain : ∀ k : Fin 16, plain (hexDigitChar k.val) := by decide
theorem decDigit_plain : ∀ k : Fin 10, plain (Char.ofNat (48 + k.val)) := by decide

theorem hexFixed_plain (w n : Nat) : ∀ c ∈ hexFixed w n, plain c := by
  induction w generalizing n with
  | zero => intro c hc; simp [hexFixed] at hc
  | succ w ih =>
    intro c hc
    simp only [hexFixed, List.mem_append, List.mem_singleton] at hc
    rcases hc with hc | hc
    · exact ih _ c hc
    · rw [hc]; exact hexDigit_plain ⟨n % 16, Nat.mod_lt _ (by omega)⟩

theorem decFixed_plain (w n : Nat) : ∀ c ∈ decFixed w n, plain c := by
  induction w generalizing n with
  | zero => intro c hc; simp [decFixed] at hc
  | succ w ih =>
    intro c hc
    simp only [decFixed, List.mem_append, List.mem_singleton] at hc
    rcases hc with hc | hc
    · exact ih _ c hc
    · rw [hc]; exact decDigit_plain ⟨n % 10, Nat.mod_lt _ (by omega)⟩

theorem plain_nil : ∀ c ∈ ([] : List Char), plain c := by intro c hc; simp at hc

theorem plain_cons {x : Char} {B : List Char} (hx : plain x) (hB : ∀ c ∈ B, plain c) : ∀ c ∈ x :: B, plain c := by
  intro c hc
  rcases List.mem_cons.mp hc with h | h
  · rw [h]; exact hx
  · exact hB c h

theorem plain_app {A B : List Char} (hA : ∀ c ∈ A, plain c) (hB : ∀ c ∈ B, plain c) : ∀ c ∈ A ++ B, plain c := by
  intro c hc
  rcases List.mem_append.mp hc with h | h
  · exact hA c h
  · exact hB c h

theorem printUuid_plain (u : Nat) : ∀ c ∈ printUuid u, plain c := by
  obtain ⟨a, b, c, d, e, hh, _, _, _, _, _, hp⟩ := printUuid_eq u
  have hd : plain '-' := by decide
  have hx := hexFixed_plain 32 u
  rw [hh] at hx
  have ha : ∀ x ∈ a, plain x := fun x h => hx x (by simp [h])
  have hb : ∀ x ∈ b, plain x := fun x h => hx x (by simp [h])
  have hc : ∀ x ∈ c, plain x := fun x h => hx x (by simp [h])
  have hd' : ∀ x ∈ d, plain x := fun x h => hx x (by simp [h])
  have he : ∀ x ∈ e, plain x := fun x h => hx x (by simp [h])
  rw [hp]
  unfold hyphenate
  exact plain_app ha (plain_cons hd (plain_app hb (plain_cons hd (plain_app hc (plain_cons hd (plain_app hd' (plain_cons hd he)))))))

theorem fracOf_plain (n : Nat) : ∀ c ∈ fracOf n, plain c := by
  intro c hc
  have hd : plain '.' := by decide
  unfold fracOf at hc
  split at hc
  · simp at hc
  · split at hc
    · simp only [List.mem_cons] at hc
      rcases hc with hc | hc
      · rw [hc]; exact hd
      · exact decFixed_plain _ _ c hc
    · split at hc <;>
      · simp only [List.mem_cons] at hc
        rcases hc with hc | hc
        · rw [hc]; exact hd
        · exact decFixed_plain _ _ c hc

theorem printTimestamp_plain (ts : Int) : ∀ c ∈ printTimestamp ts, plain c := by
  rcases hc : civilFromDays (ts / 1000000000 / 86400) with ⟨y, m, d⟩
  rw [printTimestamp_eq ts y m d hc]
  have h1 : plain '-' := by decide
  have h2 : plain 'T' := by decide
  have h3 : plain ':' := by decide
  have h4 : plain 'Z' := by decide
  exact plain_app (decFixed_plain _ _) (plain_cons h1 (plain_app (decFixed_plain _ _) (plain_cons h1
    (plain_app (decFixed_plain _ _) (plain_cons h2 (plain_app (decFixed_plain _ _) (plain_cons h3
      (plain_app (decFixed_plain _ _) (plain_cons h3 (plain_app (decFixed_plain _ _)
        (plain_app (fracOf_plain _) (plain_cons h4 plain_nil))))))))))))


/-! ### the three operation shapes -/

/-- what the generic reader makes of a printed operation -/
def opJ : SyncOp → JVal
  | .create u => .obj [("Create".toList, .obj [("uuid".toList, .str (printUuid u))])]
  | .delete u => .obj [("Delete".toList, .obj [("uuid".toList, .str (printUuid u))])]
  | .update u k v ts =>
    .obj [("Update".toList, .obj [("uuid".toList, .str (printUuid u)), ("property".toList, .str k.toList),
      ("value".toList, match v with | none => .null | some s => .str s.toList),
      ("timestamp".toList, .str (printTimestamp ts))])]

theorem kCreate : printBody "Create".toList = "Create".toList := by decide
theorem kDelete : printBody "Delete".toList = "Delete".toList := by decide
theorem kUpdate : printBody "Update".toList = "Update".toList := by decide
theorem kUuid : printBody "uuid".toList = "uuid".toList := by decide
theorem kProperty : printBody "property".toList = "property".toList := by decide
theorem kValue : printBody "value".toList = "value".toList := by decide
theorem kTimestamp : printBody "timestamp".toList = "timestamp".toList := by decide
theorem kOperations : printBody "operations".toList = "operations".toList := by decide

theorem nf_create (u : Nat) (rest : List Char) :
    printOp (.create u) ++ rest =
      '{' :: '"' :: (printBody "Create".toList ++ '"' :: ':' :: '{' :: '"' :: (printBody "uuid".toList ++ '"' :: ':' ::
        '"' :: (printBody (printUuid u) ++ '"' :: '}' :: '}' :: rest))) := by
  rw [kCreate, kUuid, printBody_plain _ (printUuid_plain u)]
  simp [printOp, lit]

theorem nf_delete (u : Nat) (rest : List Char) :
    printOp (.delete u) ++ rest =
      '{' :: '"' :: (printBody "Delete".toList ++ '"' :: ':' :: '{' :: '"' :: (printBody "uuid".toList ++ '"' :: ':' ::
        '"' :: (printBody (printUuid u) ++ '"' :: '}' :: '}' :: rest))) := by
  rw [kDelete, kUuid, printBody_plain _ (printUuid_plain u)]
  simp [printOp, lit]

theorem nf_update_none (u : Nat) (k : String) (ts : Int) (rest : List Char) :
    printOp (.update u k none ts) ++ rest =
      '{' :: '"' :: (printBody "Update".toList ++ '"' :: ':' :: '{' :: '"' :: (printBody "uuid".toList ++ '"' :: ':' ::
        '"' :: (printBody (printUuid u) ++ '"' :: ',' :: '"' :: (printBody "property".toList ++ '"' :: ':' ::
        '"' :: (printBody k.toList ++ '"' :: ',' :: '"' :: (printBody "value".toList ++ '"' :: ':' ::
        'n' :: 'u' :: 'l' :: 'l' :: ',' :: '"' :: (printBody "timestamp".toList ++ '"' :: ':' ::
        '"' :: (printBody (printTimestamp ts) ++ '"' :: '}' :: '}' :: rest)))))))) := by
  rw [kUpdate, kUuid, kProperty, kValue, kTimestamp, printBody_plain _ (printUuid_plain u),
    printBody_plain _ (printTimestamp_plain ts)]
  simp [printOp, lit, printString]

theorem nf_update_some (u : Nat) (k s : String) (ts : Int) (rest : List Char) :
    printOp (.update u k (some s) ts) ++ rest =
      '{' :: '"' :: (printBody "Update".toList ++ '"' :: ':' :: '{' :: '"' :: (printBody "uuid".toList ++ '"' :: ':' ::
        '"' :: (printBody (printUuid u) ++ '"' :: ',' :: '"' :: (printBody "property".toList ++ '"' :: ':' ::
        '"' :: (printBody k.toList ++ '"' :: ',' :: '"' :: (printBody "value".toList ++ '"' :: ':' ::
        '"' :: (printBody s.toList ++ '"' :: ',' :: '"' :: (printBody "timestamp".toList ++ '"' :: ':' ::
        '"' :: (printBody (printTimestamp ts) ++ '"' :: '}' :: '}' :: rest))))))))) := by
  rw [kUpdate, kUuid, kProperty, kValue, kTimestamp, printBody_plain _ (printUuid_plain u),
    printBody_plain _ (printTimestamp_plain ts)]
  simp [printOp, lit, printString]

theorem parse_tagged_uuid (fuel : Nat) (tag : List Char) (u : Nat) (rest : List Char) :
    parseValue (fuel + 8)
      ('{' :: '"' :: (printBody tag ++ '"' :: ':' :: '{' :: '"' :: (printBody "uuid".toList ++ '"' :: ':' ::
        '"' :: (printBody (printUuid u) ++ '"' :: '}' :: '}' :: rest))))
      = some (.obj [(tag, .obj [("uuid".toList, .str (printUuid u))])], rest) := by
  have h1 : parseValue (fuel + 3 + 1) ('"' :: (printBody (printUuid u) ++ '"' :: '}' :: '}' :: rest))
      = some (.str (printUuid u), '}' :: '}' :: rest) := pv_str _ _ _
  have h2 := pm_last (fuel + 4) "uuid".toList _ _ _ h1
  have h3 : parseValue (fuel + 5 + 1) ('{' :: '"' :: (printBody "uuid".toList ++ '"' :: ':' ::
        '"' :: (printBody (printUuid u) ++ '"' :: '}' :: '}' :: rest)))
      = some (.obj [("uuid".toList, .str (printUuid u))], '}' :: rest) := by
    rw [pv_obj, h2]; rfl
  have h4 := pm_last (fuel + 6) tag _ _ _ h3
  show parseValue (fuel + 7 + 1) _ = _
  rw [pv_obj, h4]; rfl

theorem parse_update (fuel : Nat) (u : Nat) (k : List Char) (VAL : List Char) (vj : JVal) (ts : List Char) (rest : List Char)
    (hval : ∀ r, parseValue (fuel + 2) (VAL ++ r) = some (vj, r)) :
    parseValue (fuel + 8)
      ('{' :: '"' :: (printBody "Update".toList ++ '"' :: ':' :: '{' :: '"' :: (printBody "uuid".toList ++ '"' :: ':' ::
        '"' :: (printBody (printUuid u) ++ '"' :: ',' :: '"' :: (printBody "property".toList ++ '"' :: ':' ::
        '"' :: (printBody k ++ '"' :: ',' :: '"' :: (printBody "value".toList ++ '"' :: ':' ::
        (VAL ++ ',' :: '"' :: (printBody "timestamp".toList ++ '"' :: ':' ::
        '"' :: (printBody ts ++ '"' :: '}' :: '}' :: rest))))))))))
      = some (.obj [("Update".toList, .obj [("uuid".toList, .str (printUuid u)), ("property".toList, .str k),
          ("value".toList, vj), ("timestamp".toList, .str ts)])], rest) := by
  -- innermost first
  have t1 : parseValue (fuel + 0 + 1) ('"' :: (printBody ts ++ '"' :: '}' :: '}' :: rest))
      = some (.str ts, '}' :: '}' :: rest) := pv_str _ _ _
  have m4 := pm_last (fuel + 1) "timestamp".toList _ _ _ t1
  have v3 := hval (',' :: '"' :: (printBody "timestamp".toList ++ '"' :: ':' :: '"' :: (printBody ts ++ '"' :: '}' :: '}' :: rest)))
  have m3 := pm_more (fuel + 2) "value".toList _ _ _ _ _ v3 m4
  have v2 : parseValue (fuel + 2 + 1) ('"' :: (printBody k ++ '"' :: ',' :: '"' :: (printBody "value".toList ++ '"' :: ':' ::
        (VAL ++ ',' :: '"' :: (printBody "timestamp".toList ++ '"' :: ':' :: '"' :: (printBody ts ++ '"' :: '}' :: '}' :: rest))))))
      = some (.str k, _) := pv_str _ _ _
  have m2 := pm_more (fuel + 3) "property".toList _ _ _ _ _ v2 m3
  have v1 : parseValue (fuel + 3 + 1) ('"' :: (printBody (printUuid u) ++ '"' :: ',' :: '"' :: (printBody "property".toList ++ '"' :: ':' ::
        '"' :: (printBody k ++ '"' :: ',' :: '"' :: (printBody "value".toList ++ '"' :: ':' ::
        (VAL ++ ',' :: '"' :: (printBody "timestamp".toList ++ '"' :: ':' :: '"' :: (printBody ts ++ '"' :: '}' :: '}' :: rest))))))))
      = some (.str (printUuid u), _) := pv_str _ _ _
  have m1 := pm_more (fuel + 4) "uuid".toList _ _ _ _ _ v1 m2
  have o1 : parseValue (fuel + 5 + 1) ('{' :: '"' :: (printBody "uuid".toList ++ '"' :: ':' ::
        '"' :: (printBody (printUuid u) ++ '"' :: ',' :: '"' :: (printBody "property".toList ++ '"' :: ':' ::
        '"' :: (printBody k ++ '"' :: ',' :: '"' :: (printBody "value".toList ++ '"' :: ':' ::
        (VAL ++ ',' :: '"' :: (printBody "timestamp".toList ++ '"' :: ':' :: '"' :: (printBody ts ++ '"' :: '}' :: '}' :: rest)))))))))
      = some (.obj [("uuid".toList, .str (printUuid u)), ("property".toList, .str k),
          ("value".toList, vj), ("timestamp".toList, .str ts)], '}' :: rest) := by
    rw [pv_obj, m1]; rfl
  have m0 := pm_last (fuel + 6) "Update".toList _ _ _ o1
  show parseValue (fuel + 7 + 1) _ = _
  rw [pv_obj, m0]; rfl

/-- **the generic reader on a printed operation** -/
theorem parse_printOp (fuel : Nat) (o : SyncOp) (rest : List Char) :
    parseValue (fuel + 8) (printOp o ++ rest) = some (opJ o, rest) := by
  cases o with
  | create u => rw [nf_create]; exact parse_tagged_uuid fuel _ u rest
  | delete u => rw [nf_delete]; exact parse_tagged_uuid fuel _ u rest
  | update u k v ts =>
    cases v with
    | none =>
      rw [nf_update_none]
      have := parse_update fuel u k.toList ['n', 'u', 'l', 'l'] .null (printTimestamp ts) rest
        (fun r => pv_null (fuel + 1) r)
      simpa [opJ] using this
    | some s =>
      rw [nf_update_some]
      have := parse_update fuel u k.toList ('"' :: (printBody s.toList ++ ['"'])) (.str s.toList) (printTimestamp ts) rest
        (fun r => by
          have := pv_str (fuel + 1) s.toList r
          simpa [List.append_assoc] using this)
      simpa [opJ, List.append_assoc] using this


/-! ### from the generic value back to the operation -/

/-- operations the format can carry: 128-bit task ids, instants of the years 0000–9999 -/
def wfOp : SyncOp → Prop
  | .create u => u < 2 ^ 128
  | .delete u => u < 2 ^ 128
  | .update u _ _ ts => u < 2 ^ 128 ∧ minNs ≤ ts ∧ ts < maxNs

theorem field_single (k : List Char) (ks : String) (hk : ks.toList = k) (v : JVal) : field ks [(k, v)] = some v := by
  subst hk; simp [field]

/-- the four members of an update, looked up by name (names abstract: only their distinctness matters) -/
theorem field_four (k1 k2 k3 k4 : List Char) (v1 v2 v3 v4 : JVal)
    (h12 : k1 ≠ k2) (h13 : k1 ≠ k3) (h14 : k1 ≠ k4) (h23 : k2 ≠ k3) (h24 : k2 ≠ k4) (h34 : k3 ≠ k4) :
    let fs := [(k1, v1), (k2, v2), (k3, v3), (k4, v4)]
    fs.filter (fun p => p.1 = k1) = [(k1, v1)] ∧ fs.filter (fun p => p.1 = k2) = [(k2, v2)]
    ∧ fs.filter (fun p => p.1 = k3) = [(k3, v3)] ∧ fs.filter (fun p => p.1 = k4) = [(k4, v4)] := by
  have h21 := h12.symm; have h31 := h13.symm; have h41 := h14.symm
  have h32 := h23.symm; have h42 := h24.symm; have h43 := h34.symm
  simp [List.filter, *]

/-- `decodeOp` with its literals named (so that nothing tries to evaluate them) -/
theorem decodeOp_tagged (tag : List Char) (fs : List (List Char × JVal)) (ustr : List Char) (u : Nat)
    (hf : fs.filter (fun p => p.1 = "uuid".toList) = [("uuid".toList, .str ustr)]) (hu : parseUuid ustr = some u) :
    decodeOp (.obj [(tag, .obj fs)]) =
      if tag = "Create".toList then some (.create u)
      else if tag = "Delete".toList then some (.delete u)
      else if tag = "Update".toList then
        (let value : Option JVal :=
          match fs.filter (fun p => p.1 = "value".toList) with
          | [] => some .null
          | [(_, v)] => some v
          | _ => none
        match field "property" fs, value, field "timestamp" fs with
        | some (.str p), some v, some (.str t) =>
          match parseTimestamp t with
          | none => none
          | some ts =>
            match v with
            | .null => some (.update u (String.ofList p) none ts)
            | .str s => some (.update u (String.ofList p) (some (String.ofList s)) ts)
            | _ => none
        | _, _, _ => none)
      else none := by
  conv => lhs; unfold decodeOp
  simp only [field, hf, hu]
  rfl

theorem decodeOp_opJ (o : SyncOp) (h : wfOp o) : decodeOp (opJ o) = some o := by
  have d1 : ¬ ("Delete".toList = "Create".toList) := by decide
  have d2 : ¬ ("Update".toList = "Create".toList) := by decide
  have d3 : ¬ ("Update".toList = "Delete".toList) := by decide
  cases o with
  | create u =>
    have hf : [("uuid".toList, JVal.str (printUuid u))].filter (fun p => p.1 = "uuid".toList) = [("uuid".toList, .str (printUuid u))] := by
      simp [List.filter]
    rw [opJ, decodeOp_tagged _ _ _ u hf (parseUuid_printUuid u h), if_pos rfl]
  | delete u =>
    have hf : [("uuid".toList, JVal.str (printUuid u))].filter (fun p => p.1 = "uuid".toList) = [("uuid".toList, .str (printUuid u))] := by
      simp [List.filter]
    rw [opJ, decodeOp_tagged _ _ _ u hf (parseUuid_printUuid u h), if_neg d1, if_pos rfl]
  | update u k v ts =>
    obtain ⟨hu, hlo, hhi⟩ := h
    have hts := parseTimestamp_printTimestamp ts hlo hhi
    generalize hvj : (match v with | none => JVal.null | some s => JVal.str s.toList) = vj
    obtain ⟨f1, f2, f3, f4⟩ := field_four "uuid".toList "property".toList "value".toList "timestamp".toList
      (.str (printUuid u)) (.str k.toList) vj (.str (printTimestamp ts))
      (by decide) (by decide) (by decide) (by decide) (by decide) (by decide)
    have e : opJ (.update u k v ts) = .obj [("Update".toList, .obj [("uuid".toList, .str (printUuid u)),
        ("property".toList, .str k.toList), ("value".toList, vj), ("timestamp".toList, .str (printTimestamp ts))])] := by
      rw [← hvj]; rfl
    rw [e, decodeOp_tagged _ _ _ u f1 (parseUuid_printUuid u hu), if_neg d2, if_neg d3, if_pos rfl]
    simp only [field, f2, f3, f4, hts]
    cases v with
    | none => subst hvj; simp only [String.ofList_toList]
    | some s => subst hvj; simp only [String.ofList_toList]

theorem decodeOps_opJ (ops : List SyncOp) (h : ∀ o ∈ ops, wfOp o) : decodeOps (ops.map opJ) = some ops := by
  induction ops with
  | nil => rfl
  | cons o os ih =>
    simp only [List.map_cons, decodeOps, decodeOp_opJ o (h o (by simp)), ih (fun x hx => h x (by simp [hx]))]

/-! ### the list of operations and the document -/

theorem printOp_head (o : SyncOp) : ∃ r, printOp o = '{' :: r := by
  cases o <;> simp [printOp, lit]

/-- one or more printed operations, comma-separated, then `]` -/
theorem parse_elems (fuel : Nat) (o : SyncOp) (os : List SyncOp) (rest : List Char) :
    parseElems (fuel + os.length + 9) (intercalate [','] ((o :: os).map printOp) ++ ']' :: rest)
      = some ((o :: os).map opJ, rest) := by
  induction os generalizing o fuel with
  | nil =>
    simp only [List.map_cons, List.map_nil, intercalate, List.length_nil, Nat.add_zero]
    exact pe_last (fuel + 8) _ _ _ (parse_printOp fuel o (']' :: rest))
  | cons o2 os ih =>
    have e : intercalate [','] ((o :: o2 :: os).map printOp) ++ ']' :: rest
        = printOp o ++ (',' :: (intercalate [','] ((o2 :: os).map printOp) ++ ']' :: rest)) := by
      simp [intercalate, List.append_assoc]
    rw [e]
    have hv := parse_printOp (fuel + os.length + 1) o (',' :: (intercalate [','] ((o2 :: os).map printOp) ++ ']' :: rest))
    have hl := ih (fuel := fuel) o2
    have f1 : fuel + (o2 :: os).length + 9 = (fuel + os.length + 1 + 8) + 1 := by simp [List.length_cons]; omega
    have f2 : fuel + os.length + 9 = fuel + os.length + 1 + 8 := by omega
    rw [f1]
    rw [f2] at hl
    exact pe_more _ _ _ _ _ _ hv hl


theorem intercalate_length (l : List SyncOp) : l.length ≤ (intercalate [','] (l.map printOp)).length := by
  induction l with
  | nil => simp [intercalate]
  | cons o os ih =>
    obtain ⟨r, hr⟩ := printOp_head o
    cases os with
    | nil => simp [intercalate, hr]
    | cons o2 os =>
      simp only [List.map_cons, intercalate, List.length_append, List.length_cons, hr] at ih ⊢
      omega

/-- the document with at least one operation, right-nested -/
theorem nf_version (o : SyncOp) (os : List SyncOp) :
    printVersion (o :: os) =
      '{' :: '"' :: (printBody "operations".toList ++ '"' :: ':' :: '[' ::
        (intercalate [','] ((o :: os).map printOp) ++ ']' :: '}' :: [])) := by
  rw [kOperations]
  simp [printVersion, lit]

theorem decodeVersion_nil : decodeVersion (printVersion []) = some [] := by
  have nf : printVersion [] = '{' :: '"' :: (printBody "operations".toList ++ '"' :: ':' :: '[' :: ']' :: '}' :: []) := by
    rw [kOperations]
    simp [printVersion, lit, intercalate]
  rw [nf]
  generalize hcs : ('{' :: '"' :: (printBody "operations".toList ++ '"' :: ':' :: '[' :: ']' :: '}' :: [])) = cs
  have hL : 4 ≤ cs.length := by rw [← hcs]; simp only [List.length_cons, List.length_append, List.length_nil]; omega
  obtain ⟨fuel, hf⟩ : ∃ fuel, cs.length = fuel + 1 + 1 + 1 := ⟨cs.length - 3, by omega⟩
  have pa : parseValue (fuel + 1 + 1) ('[' :: ']' :: '}' :: []) = some (.arr [], '}' :: []) := pv_arr_empty _ _
  have pm := pm_last (fuel + 1 + 1) "operations".toList _ _ _ pa
  have pv : parseValue (cs.length + 1) cs = some (.obj [("operations".toList, .arr [])], []) := by
    rw [hf, ← hcs, pv_obj, pm]; rfl
  unfold decodeVersion parseDoc
  simp only [pv, skipWs, if_true, field_single "operations".toList "operations" rfl, decodeOps]

/-- **the documented format is read back exactly**: whatever operations a replica sends — any
    128-bit task ids, any property names and values, any instants of the years 0000–9999 with any
    sub-second part — the reader of the documented format recovers precisely those operations, in
    order -/
theorem decodeVersion_printVersion (ops : List SyncOp) (h : ∀ o ∈ ops, wfOp o) :
    decodeVersion (printVersion ops) = some ops := by
  cases ops with
  | nil => exact decodeVersion_nil
  | cons o os =>
    have hlen := intercalate_length (o :: os)
    obtain ⟨r0, hr0⟩ : ∃ r0, intercalate [','] ((o :: os).map printOp) = '{' :: r0 := by
      obtain ⟨r, hr⟩ := printOp_head o
      cases os with
      | nil => exact ⟨r, by simp [intercalate, hr]⟩
      | cons o2 os => exact ⟨r ++ ([','] ++ intercalate [','] ((o2 :: os).map printOp)), by simp [intercalate, hr]⟩
    rw [nf_version]
    generalize hcs : ('{' :: '"' :: (printBody "operations".toList ++ '"' :: ':' :: '[' ::
        (intercalate [','] ((o :: os).map printOp) ++ ']' :: '}' :: []))) = cs
    simp only [List.length_cons] at hlen
    have hd : (printBody "operations".toList).length = 10 := by rw [kOperations]; decide
    have hL : os.length + 11 ≤ cs.length := by
      rw [← hcs]; simp only [List.length_cons, List.length_append, List.length_nil, hd]; omega
    -- fuel bookkeeping: cs.length + 1 = (F + 1) + 1 with F = fuel + os.length + 9 + 1
    obtain ⟨fuel, hf⟩ : ∃ fuel, cs.length = fuel + os.length + 9 + 1 + 1 := ⟨cs.length - os.length - 11, by omega⟩
    have pe := parse_elems fuel o os ('}' :: [])
    have pa : parseValue (fuel + os.length + 9 + 1) ('[' :: (intercalate [','] ((o :: os).map printOp) ++ ']' :: '}' :: []))
        = some (.arr ((o :: os).map opJ), '}' :: []) := by
      rw [hr0] at pe ⊢
      simp only [List.cons_append] at pe ⊢
      rw [pv_arr, pe]; rfl
    have pm := pm_last (fuel + os.length + 9 + 1) "operations".toList _ _ _ pa
    have pv : parseValue (cs.length + 1) cs = some (.obj [("operations".toList, .arr ((o :: os).map opJ))], []) := by
      rw [hf, ← hcs, pv_obj, pm]; rfl
    unfold decodeVersion parseDoc
    simp only [pv, skipWs, if_true, field_single "operations".toList "operations" rfl, decodeOps_opJ (o :: os) h]

end Tc.Json
