import TcVerif.Model.SyncMachine
import TcVerif.Proofs.Ot
/-!
# The invariant of the sync machine, preserved by every step of every replica under every
interleaving, batching and abort.
-/
namespace Tc

theorem cs_succ (chain : List (List SyncOp)) (k : Nat) (h : k < chain.length) :
    cs chain (k + 1) = applyL (cs chain k) chain[k] := by
  unfold cs
  rw [List.take_add_one, List.getElem?_eq_getElem h, List.foldl_append]
  rfl

theorem cs_append_le (chain : List (List SyncOp)) (v : List SyncOp) (k : Nat) (h : k ≤ chain.length) :
    cs (chain ++ [v]) k = cs chain k := by
  unfold cs
  rw [List.take_append_of_le_length h]

theorem cs_append_new (chain : List (List SyncOp)) (v : List SyncOp) :
    cs (chain ++ [v]) (chain.length + 1) = applyL (cs chain chain.length) v := by
  have h : chain.length < (chain ++ [v]).length := by simp
  rw [cs_succ _ _ h, cs_append_le _ _ _ (Nat.le_refl _)]
  congr 1
  simp

@[simp] theorem cs_zero (chain : List (List SyncOp)) : cs chain 0 = emptyDB := by
  simp [cs]

/-- `(k, L, T)` is a consistent replica state w.r.t. the chain: the replica invariant of
    sync-model.md plus validity of the pending operations. -/
def Good (chain : List (List SyncOp)) (k : Nat) (L : List SyncOp) (T : DB) : Prop :=
  k ≤ chain.length ∧ validL (cs chain k) L ∧ T = applyL (cs chain k) L

structure Inv (S : Sys) : Prop where
  chain_valid : ∀ k (h : k < S.chain.length), validL (cs S.chain k) S.chain[k]
  rep_good : ∀ r, Good S.chain (S.reps r).k (S.reps r).L (S.reps r).T
  fl_good : ∀ r f, (S.reps r).fl = some f → Good S.chain f.k f.L f.T
  fl_req : ∀ r f p, (S.reps r).fl = some f → f.requested = some p →
      p ≤ S.chain.length ∧ (f.pulled = true → p ≤ f.k)
  fl_snap : ∀ r f, (S.reps r).fl = some f → f.snapDue = true → f.L = []
  fl_ask : ∀ r f, (S.reps r).fl = some f → f.askSnap = true → f.L = (S.reps r).L
  snap_good : ∀ v d, S.snap = some (v, d) → v ≤ S.chain.length ∧ d = cs S.chain v
  no_err : S.err = false

theorem setRep_reps (S : Sys) (r : Nat) (x : Rep) (j : Nat) :
    (setRep S r x).reps j = if j = r then x else S.reps j := rfl

@[simp] theorem setRep_chain (S : Sys) (r : Nat) (x : Rep) : (setRep S r x).chain = S.chain := rfl
@[simp] theorem setRep_snap (S : Sys) (r : Nat) (x : Rep) : (setRep S r x).snap = S.snap := rfl
@[simp] theorem setRep_err (S : Sys) (r : Nat) (x : Rep) : (setRep S r x).err = S.err := rfl

/-- replacing one replica's record while chain and snapshot stay the same -/
theorem inv_setRep {S : Sys} (hI : Inv S) (r : Nat) (x : Rep)
    (hg : Good S.chain x.k x.L x.T)
    (hf : ∀ f, x.fl = some f → Good S.chain f.k f.L f.T)
    (hq : ∀ f p, x.fl = some f → f.requested = some p →
      p ≤ S.chain.length ∧ (f.pulled = true → p ≤ f.k))
    (hs : ∀ f, x.fl = some f → f.snapDue = true → f.L = [])
    (ha : ∀ f, x.fl = some f → f.askSnap = true → f.L = x.L) :
    Inv (setRep S r x) := by
  refine { chain_valid := hI.chain_valid, rep_good := ?_, fl_good := ?_, fl_req := ?_, fl_snap := ?_,
           fl_ask := ?_, snap_good := hI.snap_good, no_err := hI.no_err }
  · intro j; rw [setRep_reps]; split
    · exact hg
    · exact hI.rep_good j
  · intro j f; rw [setRep_reps]; split
    · exact hf f
    · exact hI.fl_good j f
  · intro j f p; rw [setRep_reps]; split
    · exact hq f p
    · exact hI.fl_req j f p
  · intro j f; rw [setRep_reps]; split
    · exact hs f
    · exact hI.fl_snap j f
  · intro j f; rw [setRep_reps]; split
    · exact ha f
    · exact hI.fl_ask j f

theorem Good_append {chain : List (List SyncOp)} {k : Nat} {L : List SyncOp} {T : DB}
    (v : List SyncOp) (h : Good chain k L T) : Good (chain ++ [v]) k L T := by
  obtain ⟨h1, h2, h3⟩ := h
  refine ⟨by simp; omega, ?_, ?_⟩ <;> rw [cs_append_le _ _ _ h1] <;> assumption

theorem inv_step {S S' : Sys} (hI : Inv S) (hs : Step S S') : Inv S' := by
  cases hs with
  | commit r ops u h hv =>
    obtain ⟨g1, g2, g3⟩ := hI.rep_good r
    apply inv_setRep hI
    · refine ⟨g1, ?_, ?_⟩
      · show validL (cs S.chain (S.reps r).k) ((S.reps r).L ++ ops)
        rw [validL_append]; exact ⟨g2, by rw [← g3]; exact hv⟩
      · show applyL (S.reps r).T ops = applyL (cs S.chain (S.reps r).k) ((S.reps r).L ++ ops)
        rw [applyL_append, ← g3]
    · intro f hf; simp only [Rep.committed, h] at hf; cases hf
    · intro f p hf; simp only [Rep.committed, h] at hf; cases hf
    · intro f hf; simp only [Rep.committed, h] at hf; cases hf
    · intro f hf; simp only [Rep.committed, h] at hf; cases hf
  | undo r n u h hn T' hT =>
    obtain ⟨g1, g2, g3⟩ := hI.rep_good r
    apply inv_setRep hI
    · refine ⟨g1, ?_, hT⟩
      show validL (cs S.chain (S.reps r).k) ((S.reps r).L.take ((S.reps r).L.length - n))
      have hsplit := (List.take_append_drop ((S.reps r).L.length - n) (S.reps r).L).symm
      rw [hsplit, validL_append] at g2
      exact g2.1
    · intro f hf; simp only [Rep.undone, h] at hf; cases hf
    · intro f p hf; simp only [Rep.undone, h] at hf; cases hf
    · intro f hf; simp only [Rep.undone, h] at hf; cases hf
    · intro f hf; simp only [Rep.undone, h] at hf; cases hf
  | begin r avoid ask h =>
    apply inv_setRep hI
    · exact hI.rep_good r
    · intro f hf; cases hf; exact hI.rep_good r
    · intro f p hf hp; cases hf; cases hp
    · intro f hf hs; cases hf; cases hs
    · intro f hf _; cases hf; rfl
  | takeSnap r f v d h ha hk hL hs =>
    obtain ⟨hv, hd⟩ := hI.snap_good v d hs
    apply inv_setRep hI
    · exact hI.rep_good r
    · intro f' hf; cases hf
      exact ⟨hv, trivial, hd⟩
    · intro f' p hf hp; cases hf; cases hp
    · intro f' hf hs; cases hf; cases hs
    · intro f' hf ha'; cases hf; cases ha'
  | noSnap r f h ha hs =>
    apply inv_setRep hI
    · exact hI.rep_good r
    · intro f' hf'; cases hf'; exact hI.fl_good r f h
    · intro f' p hf' hp; cases hf'; exact hI.fl_req r f p h hp
    · intro f' hf' hs'; cases hf'; exact hI.fl_snap r f h hs'
    · intro f' hf' ha'; cases hf'; cases ha'
  | pullHit r f h hsd ha hk =>
    obtain ⟨g1, g2, g3⟩ := hI.fl_good r f h
    have hv := hI.chain_valid f.k hk
    obtain ⟨e, v⟩ := rebase_correct (S.chain[f.k]) f.L (cs S.chain f.k) hv g2
    apply inv_setRep hI
    · exact hI.rep_good r
    · intro f' hf'; cases hf'
      refine ⟨hk, ?_, ?_⟩
      · show validL (cs S.chain (f.k + 1)) _
        rw [cs_succ _ _ hk]; exact v
      · show applyL f.T _ = applyL (cs S.chain (f.k + 1)) _
        rw [cs_succ _ _ hk, g3]; exact e
    · intro f' p hf' hp; cases hf'
      exact ⟨(hI.fl_req r f p h hp).1, fun hh => by cases hh⟩
    · intro f' hf' hs'; cases hf'
      simp only [Flight.pull] at hs'; rw [hsd] at hs'; cases hs'
    · intro f' hf' ha'; cases hf'
      simp only [Flight.pull] at ha'; rw [ha] at ha'; cases ha'
  | pullMiss r f h hsd ha hk =>
    apply inv_setRep hI
    · exact hI.rep_good r
    · intro f' hf'; cases hf'; exact hI.fl_good r f h
    · intro f' p hf' hp; cases hf'
      have := (hI.fl_req r f p h hp).1
      exact ⟨this, fun _ => by show p ≤ f.k; omega⟩
    · intro f' hf' hs'; cases hf'
      simp only [Flight.pulledAll] at hs'; rw [hsd] at hs'; cases hs'
    · intro f' hf' ha'; cases hf'
      simp only [Flight.pulledAll] at ha'; rw [ha] at ha'; cases ha'
  | pushOk r f n sd h hp ha hn hn' hk hsd =>
    obtain ⟨g1, g2, g3⟩ := hI.fl_good r f h
    have hsplit : f.L = f.L.take n ++ f.L.drop n := (List.take_append_drop n f.L).symm
    have g2' := g2; rw [hsplit, validL_append] at g2'
    have hI1 : Inv { S with chain := S.chain ++ [f.L.take n] } := by
      refine { chain_valid := ?_, rep_good := fun j => Good_append _ (hI.rep_good j),
               fl_good := fun j f' hf' => Good_append _ (hI.fl_good j f' hf'),
               fl_req := ?_, fl_snap := hI.fl_snap, fl_ask := hI.fl_ask, snap_good := ?_, no_err := hI.no_err }
      · intro k hk'
        simp only [List.length_append, List.length_singleton] at hk'
        by_cases hlt : k < S.chain.length
        · rw [cs_append_le _ _ _ (Nat.le_of_lt hlt)]
          simp only [List.getElem_append_left hlt]
          exact hI.chain_valid k hlt
        · have : k = S.chain.length := by omega
          subst this
          rw [cs_append_le _ _ _ (Nat.le_refl _)]
          simp only [List.getElem_concat_length]
          rw [← hk]; exact g2'.1
      · intro j f' p hf' hp'
        have := hI.fl_req j f' p hf' hp'
        exact ⟨by simp; omega, this.2⟩
      · intro v d hs
        obtain ⟨a, b⟩ := hI.snap_good v d hs
        exact ⟨by simp; omega, by rw [cs_append_le _ _ _ a]; exact b⟩
    apply inv_setRep hI1
    · exact hI1.rep_good r
    · intro f' hf'; cases hf'
      refine ⟨by simp [Flight.pushed]; omega, ?_, ?_⟩
      · show validL (cs (S.chain ++ [f.L.take n]) (f.k + 1)) (f.L.drop n)
        rw [hk, cs_append_new, ← hk]; exact g2'.2
      · show f.T = applyL (cs (S.chain ++ [f.L.take n]) (f.k + 1)) (f.L.drop n)
        rw [hk, cs_append_new, ← hk, ← applyL_append, ← hsplit]; exact g3
    · intro f' p hf' hp'; cases hf'
      have := (hI.fl_req r f p h hp').1
      exact ⟨by simp; omega, fun hh => by cases hh⟩
    · intro f' hf' hs'; cases hf'
      exact hsd hs'
    · intro f' hf' ha'; cases hf'
      simp only [Flight.pushed] at ha'; rw [ha] at ha'; cases ha'
  | pushReject r f h hp ha hne hk =>
    obtain ⟨g1, _, _⟩ := hI.fl_good r f h
    have hlt : f.k < S.chain.length := by omega
    split
    · rename_i hreq
      have := (hI.fl_req r f _ h hreq).2 hp
      omega
    · apply inv_setRep hI
      · exact hI.rep_good r
      · intro f' hf'; cases hf'; exact hI.fl_good r f h
      · intro f' p hf' hp'; cases hf'; cases hp'
        exact ⟨Nat.le_refl _, fun hh => by cases hh⟩
      · intro f' hf' hs'; cases hf'
        exact hI.fl_snap r f h hs'
      · intro f' hf' ha'; cases hf'
        simp only [Flight.rejected] at ha'; rw [ha] at ha'; cases ha'
  | addSnap r f h hs ha =>
    obtain ⟨g1, g2, g3⟩ := hI.fl_good r f h
    have hL := hI.fl_snap r f h hs
    have hI1 : Inv { S with snap := some (f.k, f.T) } := by
      refine { chain_valid := hI.chain_valid, rep_good := hI.rep_good, fl_good := hI.fl_good,
               fl_req := hI.fl_req, fl_snap := hI.fl_snap, fl_ask := hI.fl_ask, snap_good := ?_, no_err := hI.no_err }
      intro v d hs'
      cases hs'
      exact ⟨g1, by rw [g3, hL]; rfl⟩
    apply inv_setRep hI1
    · exact hI.rep_good r
    · intro f' hf'; cases hf'; exact hI.fl_good r f h
    · intro f' p hf' hp; cases hf'; exact hI.fl_req r f p h hp
    · intro f' hf' hs'; cases hf'; cases hs'
    · intro f' hf' ha'; cases hf'
      simp only [Flight.snapDone] at ha'; rw [ha] at ha'; cases ha'
  | finish r f h hp ha he =>
    obtain ⟨g1, g2, g3⟩ := hI.fl_good r f h
    apply inv_setRep hI
    · refine ⟨g1, trivial, ?_⟩
      show f.T = applyL (cs S.chain f.k) []
      rw [g3, he]
    · intro f' hf'; cases hf'
    · intro f' p hf'; cases hf'
    · intro f' hf'; cases hf'
    · intro f' hf'; cases hf'
  | abort r f h =>
    apply inv_setRep hI
    · exact hI.rep_good r
    · intro f' hf'; cases hf'
    · intro f' p hf'; cases hf'
    · intro f' hf'; cases hf'

    · intro f' hf'; cases hf'

theorem inv_init : Inv init := by
  refine { chain_valid := ?_, rep_good := ?_, fl_good := ?_, fl_req := ?_, fl_snap := ?_,
           fl_ask := ?_, snap_good := ?_, no_err := rfl }
  · intro k h; simp [init] at h
  · intro r; exact ⟨Nat.le_refl _, trivial, rfl⟩
  · intro r f h; simp [init] at h
  · intro r f p h; simp [init] at h
  · intro r f h; simp [init] at h
  · intro r f h; simp [init] at h
  · intro v d h; simp [init] at h

theorem reachable_inv {S : Sys} (h : Reachable S) : Inv S := by
  induction h with
  | init => exact inv_init
  | step _ hs ih => exact inv_step ih hs

end Tc
