import TcVerif.Proofs.CleanupStep
/-!
# An executable step checker for the object-store machine with snapshots and cleanup (`Cl`),
sound w.r.t. `Cl.Step` — the tie between the real `CloudServer`'s request log and the theorems of
`CleanupStep.lean` (C10; the same construction as `CloudCheck.lean` for C09).
-/
namespace Cl

def pcUsesB : PC → Vid → Bool
  | .a1 P _ _, n => P == n
  | .a2 P _ _ N, n => P == n || N == n
  | .a4 P N, n => P == n || N == n
  | .g1 P cs, n => P == n || cs.contains n
  | .g2 P cs f, n => P == n || cs.contains n || f == some n
  | .g4 P c, n => P == n || c == n
  | _, _ => false

theorem pcUsesB_iff (pc : PC) (n : Vid) : pcUsesB pc n = true ↔ pcUses pc n := by
  cases pc <;> simp [pcUsesB, pcUses, or_assoc]

def usedIdB (S : Sys) (n : Nat) (N : Vid) : Bool :=
  S.created.contains N || S.sub.any (fun x => x.1 == N) ||
    (List.range n).any (fun i => pcUsesB (S.pcs i) N)

def Quiet (n : Nat) (S : Sys) : Prop := ∀ i, n ≤ i → S.pcs i = .idle

theorem usedIdB_false {S : Sys} {n : Nat} {N : Vid} (hq : Quiet n S) (h : usedIdB S n N = false) :
    ¬ usedId S N := by
  simp only [usedIdB, Bool.or_eq_false_iff] at h
  obtain ⟨⟨h1, h2⟩, h3⟩ := h
  rintro (hc | ⟨x, hx, hp⟩ | ⟨i, hi⟩)
  · simp [hc] at h1
  · have : S.sub.any (fun x => x.1 == N) = true := List.any_eq_true.mpr ⟨x, hx, by simp [hp]⟩
    simp [this] at h2
  · by_cases hin : i < n
    · have : (List.range n).any (fun i => pcUsesB (S.pcs i) N) = true :=
        List.any_eq_true.mpr ⟨i, List.mem_range.mpr hin, (pcUsesB_iff _ _).mpr hi⟩
      simp [this] at h3
    · rw [hq i (by omega)] at hi
      exact hi

def olderB (rev : List (Vid × Vid)) (y x : Vid) : Bool :=
  match rev with
  | [] => false
  | a :: t => if a.1 = y then t.any (fun q => q.1 == x) else olderB t y x

theorem olderB_sound (rev : List (Vid × Vid)) (y x : Vid) (h : olderB rev y x = true) : older rev y x := by
  induction rev with
  | nil => simp [olderB] at h
  | cons a t ih =>
    unfold olderB at h
    split at h
    · rename_i hy
      obtain ⟨q, hq, hqx⟩ := List.any_eq_true.mp h
      refine ⟨[], t, a.2, ?_, q.2, ?_⟩
      · simp [← hy]
      · have : q.1 = x := by simpa using hqx
        rw [← this]; exact hq
    · obtain ⟨pre, post, q, e, p, hp⟩ := ih h
      exact ⟨a :: pre, post, q, by simp [e], p, hp⟩

def olderEqB (rev : List (Vid × Vid)) (y c : Vid) : Bool :=
  (c == y && rev.any (fun q => q.1 == y)) || olderB rev y c

theorem olderEqB_sound (rev : List (Vid × Vid)) (y c : Vid) (h : olderEqB rev y c = true) : olderEq rev y c := by
  simp only [olderEqB, Bool.or_eq_true, Bool.and_eq_true, beq_iff_eq] at h
  rcases h with ⟨hc, ha⟩ | h
  · obtain ⟨q, hq, hqy⟩ := List.any_eq_true.mp ha
    left
    refine ⟨hc, q.2, ?_⟩
    have : q.1 = y := by simpa using hqy
    rw [← this]; exact hq
  · exact Or.inr (olderB_sound rev y c h)

inductive Ev where
  | avRead (i : Nat) (P : Vid) (d : Nat)
  | avPut (i : Nat) (N : Vid)
  | avCas (i : Nat) (ok : Bool)
  | avDel (i : Nat)
  | gcList (i : Nat) (P : Vid) (cs : List Vid)
  | gcLatest (i : Nat)
  | gcProbe (i : Nat) (c : Vid) (hit : Bool)
  | gcChoose (i : Nat)
  | gcGet (i : Nat) (found : Bool)
  | stop (i : Nat)
  | addSnap (i : Nat) (v : Vid)              -- `put s-v`
  | clRead (i : Nat)                         -- cleanup: `get latest`
  | clList (i : Nat) (seen : List VObj)      -- cleanup: the version objects its listing reported
  | clDelVer (i : Nat) (p c : Vid)           -- cleanup: `del v-p-c` (a loser, or a retired version)
  | clPick (i : Nat) (y : Vid)               -- cleanup: the snapshot it retains
  | clDelSnap (i : Nat) (x : Vid)            -- cleanup: `del s-x`
  | clSnapsDone (i : Nat)                    -- cleanup: done with the snapshots, on to retention
  | clEnd (i : Nat)                          -- cleanup returns
deriving Repr

def Ev.client : Ev → Nat
  | .avRead i _ _ | .avPut i _ | .avCas i _ | .avDel i | .gcList i _ _ | .gcLatest i
  | .gcProbe i _ _ | .gcChoose i | .gcGet i _ | .stop i | .addSnap i _ | .clRead i | .clList i _
  | .clDelVer i _ _ | .clPick i _ | .clDelSnap i _ | .clSnapsDone i | .clEnd i => i

def hasChildOf (S : Sys) (P c : Vid) : Bool := S.vers.any (fun o => o.parent == P && o.child == c)

def snapsWithout (S : Sys) (x : Vid) : Sys := { S with snaps := S.snaps.filter (fun s => decide (s ≠ x)) }
def versWithout (S : Sys) (c : Vid) : Sys := { S with vers := delChild S.vers c }
def retire (S : Sys) (c : Vid) : Sys := { S with vers := delChild S.vers c, retired := c :: S.retired }

def check (n : Nat) (S : Sys) (ev : Ev) : Option Sys :=
  if ev.client < n then
    match ev with
    | .avRead i P d =>
      match S.pcs i with
      | .idle =>
        if (S.latest = none ∨ S.latest = some P) ∧ (S.latest = none → P ∉ S.created)
        then some (setPc S i (.a1 P d S.latest)) else none
      | _ => none
    | .avPut i N =>
      match S.pcs i with
      | .a1 P d l =>
        if usedIdB S n N = false then
          some (setPc { S with vers := ⟨P, N, d⟩ :: S.vers, created := N :: S.created,
                               sub := (P, N, d) :: S.sub } i (.a2 P d l N))
        else none
      | _ => none
    | .avCas i ok =>
      match S.pcs i with
      | .a2 P _ l N =>
        if S.latest = l then
          (if ok then some (setPc { S with latest := some N, chain := S.chain ++ [N], acked := N :: S.acked } i .idle)
           else none)
        else (if ok then none else some (setPc S i (.a4 P N)))
      | _ => none
    | .avDel i =>
      match S.pcs i with
      | .a4 _ N => some (setPc (versWithout S N) i .idle)
      | _ => none
    | .gcList i P cs =>
      match S.pcs i with
      | .idle => if cs.all (fun c => hasChildOf S P c) = true then some (setPc S i (.g1 P cs)) else none
      | _ => none
    | .gcLatest i =>
      match S.pcs i with
      | .g1 P cs =>
        match S.latest with
        | some c => if c ∈ cs then some (setPc S i (.g4 P c)) else some (setPc S i (.g2 P cs none))
        | none => some (setPc S i (.g2 P cs none))
      | _ => none
    | .gcProbe i c hit =>
      match S.pcs i with
      | .g2 P cs _ =>
        if hit then
          (if c ∈ cs ∧ S.vers.any (fun o => o.parent == c) = true then some (setPc S i (.g2 P cs (some c))) else none)
        else some S
      | _ => none
    | .gcChoose i =>
      match S.pcs i with
      | .g2 P _ (some c) => some (setPc S i (.g4 P c))
      | _ => none
    | .gcGet i found =>
      match S.pcs i with
      | .g4 P c =>
        match S.vers.find? (fun o => o.parent == P && o.child == c) with
        | some o => if found then some (setPc { S with served := (P, c, o.data) :: S.served } i .idle) else none
        | none => if found then none else some (setPc S i .idle)
      | _ => none
    | .stop i => some (setPc S i .idle)
    | .addSnap i v =>
      match S.pcs i with
      | .idle => if v ∈ S.acked then some { S with snaps := v :: S.snaps, snapsEver := v :: S.snapsEver } else none
      | _ => none
    | .clRead i =>
      match S.pcs i with
      | .idle => some (setPc S i (.c1 S.latest))
      | _ => none
    | .clList i seen =>
      match S.pcs i with
      | .c1 l0 => if seen.all (fun o => S.sub.contains (o.parent, o.child, o.data)) = true then some (setPc S i (.c2 l0 seen)) else none
      | _ => none
    | .clDelVer i p c =>
      match S.pcs i with
      | .c2 l0 seen =>
        -- a loser: listed, off the walked chain, its parent has another child on it
        match seen.find? (fun o => o.parent == p && o.child == c) with
        | some o =>
          if (o.child, o.parent) ∉ revOf seen l0 ∧ (revOf seen l0).any (fun q => q.2 == o.parent) = true
          then some (versWithout S o.child) else none
        | none => none
      | .c5 l0 seen y =>
        -- retention: a version at or before the retained snapshot
        if olderEqB (revOf seen l0) y c = true ∧ (c, p) ∈ revOf seen l0 then some (retire S c) else none
      | _ => none
    | .clPick i y =>
      match S.pcs i with
      | .c2 l0 seen =>
        if y ∈ S.snaps ∧ (revOf seen l0).any (fun q => q.1 == y) = true then some (setPc S i (.c4 l0 seen y)) else none
      | _ => none
    | .clDelSnap i x =>
      match S.pcs i with
      | .c4 l0 seen y =>
        if olderB (revOf seen l0) y x = true then some (snapsWithout S x)
        else
          match (revOf seen l0).find? (fun q => q.2 == x && olderEqB (revOf seen l0) y q.1) with
          | some _ => some (snapsWithout S x)
          | none => none
      | _ => none
    | .clSnapsDone i =>
      match S.pcs i with
      | .c4 l0 seen y => some (setPc S i (.c5 l0 seen y))
      | _ => none
    | .clEnd i => some (setPc S i .idle)
  else none

theorem quiet_setPc' {n : Nat} {S T : Sys} (hq : Quiet n S) (hp : T.pcs = S.pcs) (i : Nat) (hi : i < n) (pc : PC) :
    Quiet n (setPc T i pc) := by
  intro j hj
  rw [setPc_pcs]
  have : j ≠ i := by omega
  simp [this, hp, hq j hj]

theorem quiet_same {n : Nat} {S T : Sys} (hq : Quiet n S) (hp : T.pcs = S.pcs) : Quiet n T := by
  intro j hj; rw [hp]; exact hq j hj

theorem hasChildOf_spec {S : Sys} {P c : Vid} (h : hasChildOf S P c = true) :
    ∃ o ∈ S.vers, o.parent = P ∧ o.child = c := by
  simp only [hasChildOf, List.any_eq_true, Bool.and_eq_true, beq_iff_eq] at h
  exact h

/-- zero or more steps -/
inductive Steps : Sys → Sys → Prop where
  | refl (S) : Steps S S
  | one {S S'} : Step S S' → Steps S S'

theorem check_sound {n : Nat} {S S' : Sys} {ev : Ev} (hq : Quiet n S) (h : check n S ev = some S') :
    Steps S S' ∧ Quiet n S' := by
  unfold check at h
  split at h
  · rename_i hcl
    cases ev with
    | avRead i P d =>
      simp only at h
      split at h
      · rename_i hpc
        split at h
        · rename_i hc
          cases h
          exact ⟨.one (Step.avRead S i P d hpc hc.1 hc.2), quiet_setPc' hq rfl i hcl _⟩
        · cases h
      · cases h
    | avPut i N =>
      simp only at h
      split at h
      · rename_i P d l hpc
        split at h
        · rename_i hu
          cases h
          exact ⟨.one (Step.avPut S i P d l N hpc (usedIdB_false hq hu)), quiet_setPc' hq rfl i hcl _⟩
        · cases h
      · cases h
    | avCas i ok =>
      simp only at h
      split at h
      · rename_i P d l N hpc
        split at h
        · rename_i heq
          split at h
          · cases h
            exact ⟨.one (Step.avCasOk S i P d l N hpc heq), quiet_setPc' hq rfl i hcl _⟩
          · cases h
        · rename_i hne
          split at h
          · cases h
          · cases h
            exact ⟨.one (Step.avCasFail S i P d l N hpc hne), quiet_setPc' hq rfl i hcl _⟩
      · cases h
    | avDel i =>
      simp only at h
      split at h
      · rename_i P N hpc
        cases h
        exact ⟨.one (Step.avDel S i P N hpc), quiet_setPc' hq rfl i hcl _⟩
      · cases h
    | gcList i P cs =>
      simp only at h
      split at h
      · rename_i hpc
        split at h
        · rename_i hc
          cases h
          refine ⟨.one (Step.gcList S i P cs hpc ?_), quiet_setPc' hq rfl i hcl _⟩
          intro c hcin
          exact hasChildOf_spec (List.all_eq_true.mp hc c hcin)
        · cases h
      · cases h
    | gcLatest i =>
      simp only at h
      split at h
      · rename_i P cs hpc
        split at h
        · rename_i c hl
          split at h
          · rename_i hin
            cases h
            exact ⟨.one (Step.gcLatestHit S i P cs c hpc hin hl), quiet_setPc' hq rfl i hcl _⟩
          · cases h
            exact ⟨.one (Step.gcLatestMiss S i P cs hpc), quiet_setPc' hq rfl i hcl _⟩
        · cases h
          exact ⟨.one (Step.gcLatestMiss S i P cs hpc), quiet_setPc' hq rfl i hcl _⟩
      · cases h
    | gcProbe i c hit =>
      simp only at h
      split at h
      · rename_i P cs f hpc
        split at h
        · split at h
          · rename_i hc
            cases h
            refine ⟨.one (Step.gcProbeHit S i P cs f c hpc hc.1 ?_), quiet_setPc' hq rfl i hcl _⟩
            have := hc.2
            simp only [List.any_eq_true, beq_iff_eq] at this
            exact this
          · cases h
        · cases h
          exact ⟨.refl S, hq⟩
      · cases h
    | gcChoose i =>
      simp only at h
      split at h
      · rename_i P cs c hpc
        cases h
        exact ⟨.one (Step.gcChoose S i P cs c hpc), quiet_setPc' hq rfl i hcl _⟩
      · cases h
    | gcGet i found =>
      simp only at h
      split at h
      · rename_i P c hpc
        split at h
        · rename_i o ho
          split at h
          · cases h
            have hm := List.mem_of_find?_eq_some ho
            have hp := List.find?_some ho
            simp only [Bool.and_eq_true, beq_iff_eq] at hp
            exact ⟨.one (Step.gcGet S i P c o hpc hm hp.1 hp.2), quiet_setPc' hq rfl i hcl _⟩
          · cases h
        · split at h
          · cases h
          · cases h
            exact ⟨.one (Step.gcGone S i P c hpc), quiet_setPc' hq rfl i hcl _⟩
      · cases h
    | stop i =>
      simp only at h
      cases h
      exact ⟨.one (Step.abandon S i), quiet_setPc' hq rfl i hcl _⟩
    | addSnap i v =>
      simp only at h
      split at h
      · rename_i hpc
        split at h
        · rename_i hv
          cases h
          exact ⟨.one (Step.addSnap S i v hpc hv), quiet_same hq rfl⟩
        · cases h
      · cases h
    | clRead i =>
      simp only at h
      split at h
      · rename_i hpc
        cases h
        exact ⟨.one (Step.clRead S i hpc), quiet_setPc' hq rfl i hcl _⟩
      · cases h
    | clList i seen =>
      simp only at h
      split at h
      · rename_i l0 hpc
        split at h
        · rename_i hs
          cases h
          refine ⟨.one (Step.clList S i l0 seen hpc ?_), quiet_setPc' hq rfl i hcl _⟩
          intro o ho
          have := List.all_eq_true.mp hs o ho
          simpa using this
        · cases h
      · cases h
    | clDelVer i p c =>
      simp only at h
      split at h
      · rename_i l0 seen hpc
        split at h
        · rename_i o ho
          split at h
          · rename_i hc
            cases h
            have hm := List.mem_of_find?_eq_some ho
            refine ⟨.one (Step.clDelLoser S i l0 seen o hpc hm hc.1 ?_), quiet_same hq rfl⟩
            obtain ⟨q, hq', hqe⟩ := List.any_eq_true.mp hc.2
            refine ⟨q.1, ?_⟩
            have : q.2 = o.parent := by simpa using hqe
            rw [← this]; exact hq'
          · cases h
        · cases h
      · rename_i l0 seen y hpc
        split at h
        · rename_i hc
          cases h
          exact ⟨.one (Step.clRetire S i l0 seen y c hpc (olderEqB_sound _ _ _ hc.1)), quiet_same hq rfl⟩
        · cases h
      · cases h
    | clPick i y =>
      simp only at h
      split at h
      · rename_i l0 seen hpc
        split at h
        · rename_i hc
          cases h
          refine ⟨.one (Step.clPickSnap S i l0 seen y hpc hc.1 ?_), quiet_setPc' hq rfl i hcl _⟩
          obtain ⟨q, hq', hqe⟩ := List.any_eq_true.mp hc.2
          refine ⟨q.2, ?_⟩
          have : q.1 = y := by simpa using hqe
          rw [← this]; exact hq'
        · cases h
      · cases h
    | clDelSnap i x =>
      simp only at h
      split at h
      · rename_i l0 seen y hpc
        split at h
        · rename_i ho
          cases h
          exact ⟨.one (Step.clDelSnap S i l0 seen y x hpc (olderB_sound _ _ _ ho)), quiet_same hq rfl⟩
        · split at h
          · rename_i q hf
            cases h
            have hm := List.mem_of_find?_eq_some hf
            have hp := List.find?_some hf
            simp only [Bool.and_eq_true, beq_iff_eq] at hp
            refine ⟨.one (Step.clDelSnapParent S i l0 seen y q.1 x hpc (olderEqB_sound _ _ _ hp.2) ?_), quiet_same hq rfl⟩
            rw [← hp.1]; exact hm
          · cases h
      · cases h
    | clSnapsDone i =>
      simp only at h
      split at h
      · rename_i l0 seen y hpc
        cases h
        exact ⟨.one (Step.clSnapsDone S i l0 seen y hpc), quiet_setPc' hq rfl i hcl _⟩
      · cases h
    | clEnd i =>
      simp only at h
      cases h
      exact ⟨.one (Step.abandon S i), quiet_setPc' hq rfl i hcl _⟩
  · cases h

def checkAll (n : Nat) : Sys → List Ev → Option Sys
  | S, [] => some S
  | S, ev :: evs => match check n S ev with
    | some S' => checkAll n S' evs
    | none => none

theorem checkAll_reachable {n : Nat} {S S' : Sys} {evs : List Ev} (hr : Reachable S) (hq : Quiet n S)
    (h : checkAll n S evs = some S') : Reachable S' ∧ Quiet n S' := by
  induction evs generalizing S with
  | nil => simp only [checkAll] at h; cases h; exact ⟨hr, hq⟩
  | cons ev evs ih =>
    simp only [checkAll] at h
    split at h
    · rename_i S1 hc
      obtain ⟨hs, hq1⟩ := check_sound hq hc
      cases hs with
      | refl => exact ih hr hq1 h
      | one hs => exact ih (Reachable.step hr hs) hq1 h
    · cases h

theorem quiet_init (n : Nat) : Quiet n init := fun _ _ => rfl

end Cl
