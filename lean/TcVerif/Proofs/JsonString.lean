import TcVerif.Model.JsonParse
/-!
# JSON strings: the reader undoes serde_json's escaping, character by character
-/
namespace Tc
open Json

theorem parseBody_plain (c : Char) (tail : List Char) (h1 : c ≠ '"') (h2 : c ≠ '\\')
    (h3 : ¬ c.toNat < 0x20) :
    parseBody (c :: tail) = (parseBody tail).map (fun (s, r) => (c :: s, r)) := by
  conv => lhs; unfold parseBody
  split <;> simp_all
  omega

theorem hexVal_hexDigitChar : ∀ k : Fin 16, hexVal (hexDigitChar k.val) = some k.val := by decide

theorem hexVal_zero : hexVal '0' = some 0 := by decide

theorem parseBody_u00 (c : Char) (tail : List Char) (hlt : c.toNat < 0x20) :
    parseBody ('\\' :: 'u' :: '0' :: '0' :: hexDigitChar (c.toNat / 16) :: hexDigitChar (c.toNat % 16) :: tail)
      = (parseBody tail).map (fun (s, r) => (c :: s, r)) := by
  have h16 : c.toNat / 16 < 16 := by omega
  have hm : c.toNat % 16 < 16 := by omega
  have e1 := hexVal_hexDigitChar ⟨c.toNat / 16, h16⟩
  have e2 := hexVal_hexDigitChar ⟨c.toNat % 16, hm⟩
  simp only at e1 e2
  have hn : ((0 * 16 + 0) * 16 + c.toNat / 16) * 16 + c.toNat % 16 = c.toNat := by omega
  conv => lhs; unfold parseBody
  simp only [hex4, hexVal_zero, e1, e2, hn]
  have hs1 : ¬ (0xD800 ≤ c.toNat ∧ c.toNat ≤ 0xDBFF) := by omega
  have hs2 : ¬ (0xDC00 ≤ c.toNat ∧ c.toNat ≤ 0xDFFF) := by omega
  simp only [hs1, hs2, if_false, Char.ofNat_toNat]

/-- parsing what `escChar c` printed yields `c` again, whatever follows -/
theorem parseBody_esc (c : Char) (tail : List Char) :
    parseBody (escChar c ++ tail) = (parseBody tail).map (fun (s, r) => (c :: s, r)) := by
  unfold escChar
  split
  · subst_vars; conv => lhs; simp only [List.cons_append, List.nil_append]; unfold parseBody
    simp
  · split
    · subst_vars; conv => lhs; simp only [List.cons_append, List.nil_append]; unfold parseBody
      simp
    · split
      · subst_vars; conv => lhs; simp only [List.cons_append, List.nil_append]; unfold parseBody
        simp
      · split
        · subst_vars; conv => lhs; simp only [List.cons_append, List.nil_append]; unfold parseBody
          simp
        · split
          · subst_vars; conv => lhs; simp only [List.cons_append, List.nil_append]; unfold parseBody
            simp
          · split
            · subst_vars; conv => lhs; simp only [List.cons_append, List.nil_append]; unfold parseBody
              simp
            · split
              · subst_vars; conv => lhs; simp only [List.cons_append, List.nil_append]; unfold parseBody
                simp
              · split
                · rename_i hlt
                  simpa using parseBody_u00 c tail hlt
                · rename_i h1 h2 _ _ _ _ _ h3
                  simpa using parseBody_plain c tail h1 h2 h3


/-- every string survives print-then-parse, whatever follows the closing quote -/
theorem parseBody_printBody (s rest : List Char) :
    parseBody (printBody s ++ '"' :: rest) = some (s, rest) := by
  induction s with
  | nil => simp [printBody, parseBody]
  | cons c s ih =>
    have : printBody (c :: s) ++ '"' :: rest = escChar c ++ (printBody s ++ '"' :: rest) := by
      simp [printBody]
    rw [this, parseBody_esc, ih]
    rfl

end Tc
