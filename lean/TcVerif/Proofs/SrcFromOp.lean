import TcVerif.Generated.SrcFromOp
/-!
# The translated source function is the model's function (`SyncOp::from_op`)

`Generated/SrcFromOp.lean` is written by `tools/translate_src.py` from /repo's source on every run.  The
theorems here close the gap between it and the hand-written model: whatever is proved about the
model's function is proved about the function the source defines now.
-/
namespace Tc

/-- **the source's `SyncOp::from_op` is the model's `Op.toSync`** -/
theorem src_fromOp_eq (o : Op) : Src.fromOp o = o.toSync := by
  cases o <;> rfl

end Tc
