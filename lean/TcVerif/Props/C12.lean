import TcVerif.Props.C02
/-!
# C12 — Snapshots reproduce exactly the state of their version

The snapshot branches of the sync machine: `takeSnap` / `noSnap` (only an entirely empty replica
asks), `pushOk … sd` (a snapshot becomes due only when nothing is left to send and the urgency
meets the threshold), `addSnap`.  The snapshot *codec* (JSON map + zlib) is separate:
`Model/Json` for the JSON part (C14), zlib trusted.
-/
namespace Tc

/-- **snapshot = chain state**: in every reachable state the snapshot the server holds was
    uploaded for a version `v` of the chain and is exactly the replay of the chain up to `v`. -/
theorem C12_snapshot_is_chain_state {S : Sys} (h : Reachable S) (v : Nat) (d : DB)
    (hs : S.snap = some (v, d)) : v ≤ S.chain.length ∧ d = cs S.chain v :=
  (reachable_inv h).snap_good v d hs

/-- the same for the request itself: whenever a sync is about to upload a snapshot, what it
    uploads (`f.T` for version `f.k`) is the chain state of that version -/
theorem C12_uploaded_is_chain_state {S : Sys} (h : Reachable S) (r : Nat) (f : Flight)
    (hf : (S.reps r).fl = some f) (hd : f.snapDue = true) : f.T = cs S.chain f.k := by
  have hI := reachable_inv h
  obtain ⟨_, _, g3⟩ := hI.fl_good r f hf
  rw [g3, hI.fl_snap r f hf hd]; rfl

/-- **fresh from snapshot**: a replica that started from a snapshot (any replica, in fact) and is
    synchronized with nothing to send holds the replay of the *whole* chain -/
theorem C12_fresh_from_snapshot {S : Sys} (h : Reachable S) (r : Nat)
    (hL : (S.reps r).L = []) (hk : (S.reps r).k = S.chain.length) :
    (S.reps r).T = replay S := C01_convergence h r hL hk

/-- **a replica that holds data is never replaced by a snapshot**: the only step that installs a
    snapshot requires base version nil and no pending operation, and in a reachable state such a
    replica has no task at all -/
theorem C12_nonempty_never_replaced {S : Sys} (h : Reachable S) (r : Nat)
    (hk : (S.reps r).k = 0) (hL : (S.reps r).L = []) : (S.reps r).T = emptyDB := by
  obtain ⟨_, _, g3⟩ := (reachable_inv h).rep_good r
  rw [g3, hk, hL]; simp [applyL]

/-- **urgency gate** of the executable machine: after an accepted version a snapshot becomes due
    iff nothing is left to send and the server's urgency reaches the replica's threshold
    (`Low` normally, `High` with `avoid_snapshots`). -/
theorem C12_urgency_gate (size : SyncOp → Nat) (limit : Nat) (urg : Urgency) (S : Sys) (r : Nat)
    (f : Flight) (hf : (S.reps r).fl = some f) (ha : f.askSnap = false) (hs : f.snapDue = false)
    (hp : f.pulled = true) (hne : f.L ≠ []) (hk : f.k = S.chain.length) :
    ∃ f', (((S.request size limit urg r).1).reps r).fl = some f' ∧
      (f'.snapDue = true ↔
        (f.L.drop (batchLen size limit f.L) = [] ∧ urg.rank ≥ (if f.avoid then 2 else 1))) := by
  refine ⟨f.pushed (batchLen size limit f.L)
    (decide (f.L.drop (batchLen size limit f.L) = []) && decide (urg.rank ≥ (if f.avoid then 2 else 1))), ?_, ?_⟩
  · unfold Sys.request
    simp [hf, ha, hs, hp, hne, hk, setRep, Rep.withFl]
  · simp [Flight.pushed]

end Tc
