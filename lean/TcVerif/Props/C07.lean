import TcVerif.Props.C05
import TcVerif.Proofs.SrcGetUuid
/-!
# C07 — Undo restores the exact prior state and withdraws the changes from sync

Model: `getUndoOps` (`get_undo_operations`), `commitReversed` (`commit_reversed_operations`:
tail check, reversed strict application through `apply_op`, `remove_operation` per op, commit).
`accurateL` = every operation was valid where it was made and recorded the true previous value —
what the editing API guarantees (C19).
-/
namespace Tc

/-- the unsynced operations sit at the end of the log (`sync_complete` marks everything) -/
def LogOk (l : List (Bool × Op)) : Prop := ∃ a b, l = a ++ b ∧ (∀ p ∈ a, p.1 = true) ∧ (∀ p ∈ b, p.1 = false)

theorem take_append_map (l : List (Bool × Op)) (ops : List Op) :
    (l ++ ops.map (fun o => (false, o))).take ((l ++ ops.map (fun o => (false, o))).length - ops.length) = l := by
  simp

/-- **undo restores**: committing a non-empty accurate batch and then committing the reversal of
    exactly those operations restores the tasks and the operation log to what they were — every
    affected task gets back its earlier content, deleted tasks are re-created with all their
    properties — and reports success iff the batch contained a real change. -/
theorem C07_undo_restores (st : RState) (ops : List Op) (hne : ops ≠ [])
    (hacc : accurateL st.tasks ops) :
    ∃ st', commitReversed (commitOps st ops) ops = .done st' (decide (ops.flatMap reverseOp ≠ []))
      ∧ st'.tasks = st.tasks ∧ st'.ops = st.ops := by
  have hun := C05_logged_in_order st ops
  have htasks := C05_batch_equals_one_at_a_time st ops
  unfold commitReversed
  simp only [hne, if_false]
  have htail : ops.length ≤ (commitOps st ops).unsynced.length ∧
      (commitOps st ops).unsynced.drop ((commitOps st ops).unsynced.length - ops.length) = ops := by
    rw [hun]; simp
  simp only [htail, and_self, if_true]
  rw [htasks, undo_restores st.tasks ops hacc]
  refine ⟨_, rfl, rfl, ?_⟩
  show (commitOps st ops).ops.take _ = st.ops
  unfold commitOps
  simp only [hne, if_false]
  exact take_append_map st.ops ops

/-- **exactly those operations leave the unsynchronized list**, so they are never sent -/
theorem C07_undone_never_sent (st : RState) (ops : List Op) (hne : ops ≠ []) (hacc : accurateL st.tasks ops) :
    ∃ st' b, commitReversed (commitOps st ops) ops = .done st' b ∧ st'.unsynced = st.unsynced := by
  obtain ⟨st', h, _, ho⟩ := C07_undo_restores st ops hne hacc
  exact ⟨st', _, h, by simp [RState.unsynced, ho]⟩

/-- **mismatch is a no-op**: an empty list, or one that is not exactly the most recent
    unsynchronized operations, changes nothing and reports failure -/
theorem C07_mismatch_noop (st : RState) (undo : List Op)
    (h : undo = [] ∨ ¬ (undo.length ≤ st.unsynced.length ∧ st.unsynced.drop (st.unsynced.length - undo.length) = undo)) :
    commitReversed st undo = .done st false := by
  unfold commitReversed
  rcases h with h | h
  · simp [h]
  · by_cases he : undo = []
    · simp [he]
    · simp only [he, if_false, h]

/-- **no undo after sync**: once everything is synchronized there is nothing to undo, and every
    previously fetched list is refused -/
theorem C07_no_undo_after_sync (st : RState) (hs : st.unsynced = []) (undo : List Op) :
    getUndoOps st = [] ∧ commitReversed st undo = .done st false := by
  constructor
  · simp [getUndoOps, hs, lastUndoSuffix]
  · apply C07_mismatch_noop
    by_cases he : undo = []
    · exact Or.inl he
    · right
      intro h
      rw [hs] at h
      have : undo.length = 0 := by simpa using h.1
      exact he (List.eq_nil_of_length_eq_zero this)

/-- what `get_undo_operations` returns right after committing `undoPoint :: body` (no further undo
    point in `body`) is exactly that batch -/
theorem C07_get_undo_ops (U body : List Op) (hb : ∀ o ∈ body, o.isUndoPoint = false) :
    lastUndoSuffix (U ++ Op.undoPoint :: body) = Op.undoPoint :: body := by
  unfold lastUndoSuffix
  have hrev : (U ++ Op.undoPoint :: body).reverse = body.reverse ++ Op.undoPoint :: U.reverse := by simp
  rw [hrev]
  have hidx : (body.reverse ++ Op.undoPoint :: U.reverse).findIdx? Op.isUndoPoint = some body.length := by
    rw [List.findIdx?_append]
    have : body.reverse.findIdx? Op.isUndoPoint = none := by
      rw [List.findIdx?_eq_none_iff]
      intro o ho
      simpa using hb o (List.mem_reverse.mp ho)
    simp [this, List.findIdx?_cons, Op.isUndoPoint]
  rw [hidx]
  simp only [List.length_append, List.length_cons]
  have : U.length + (body.length + 1) - 1 - body.length = U.length := by omega
  rw [this]
  simp

/-! non-vacuity: create, set, remove a property, delete a populated task — all accurate -/
example : accurateL emptyDB
    [.undoPoint, .create 1, .update 1 "k" none (some "v") 1, .update 1 "k" (some "v") none 2,
     .update 1 "d" none (some "x") 3, .delete 1 [("d", "x")]] := by
  simp [accurateL, accurate, applyLocal, Op.toSync, applyO, apply, emptyDB, setTask, setProp, ofAssoc, emptyTask]
  funext k; simp only [setProp, emptyTask]; split <;> simp_all

/-- where an undo stops is decided by the source's `Operation::is_undo_point`, translated from
    `src/operation.rs` on every run -/
theorem C07_source_is_undo_point (o : Op) : Src.isUndoPoint o = o.isUndoPoint := src_isUndoPoint_eq o

end Tc
