import TcVerif.Props.C01
/-!
# C02 — Convergence survives racing syncs and rejected versions

`Step` interleaves single server requests of any number of replicas (`pullHit`, `pullMiss`,
`pushOk`, `pushReject`, `takeSnap`, `noSnap`, `addSnap`), local commits of replicas that are not
syncing, and aborts.  `Reachable` therefore quantifies over every schedule at the granularity of
individual server requests, over every prior history.
-/
namespace Tc

/-- **no OutOfSync**: in no reachable state has any sync failed with `OutOfSync` — a correct
    server never makes the "same expected parent twice" test fire, whatever the interleaving.
    (`Step.pushReject` sets `err` exactly when `sync` would return `Err(OutOfSync)`.) -/
theorem C02_no_out_of_sync {S : Sys} (h : Reachable S) : S.err = false := (reachable_inv h).no_err

/-- the rejected push that would produce `OutOfSync` cannot happen from a reachable state -/
theorem C02_reject_is_never_fatal {S : Sys} (h : Reachable S) (r : Nat) (f : Flight)
    (hf : (S.reps r).fl = some f) (hp : f.pulled = true) (hk : f.k ≠ S.chain.length) :
    f.requested ≠ some S.chain.length := by
  intro hreq
  have hI := reachable_inv h
  have h1 := (hI.fl_req r f _ hf hreq).2 hp
  have h2 := (hI.fl_good r f hf).1
  omega

/-- **convergence under any interleaving**: the statement of C01 holds for the interleaved system -/
theorem C02_convergence {S : Sys} (h : Reachable S) (r : Nat)
    (hL : (S.reps r).L = []) (hk : (S.reps r).k = S.chain.length) :
    (S.reps r).T = replay S := C01_convergence h r hL hk

/-- in-flight states satisfy the replica invariant too: what a racing sync holds in its open
    transaction is always the chain state at its base with its (rebased) pending list applied,
    and that list is valid there — so whatever it sends is valid on the version it extends -/
theorem C02_inflight_invariant {S : Sys} (h : Reachable S) (r : Nat) (f : Flight)
    (hf : (S.reps r).fl = some f) :
    f.k ≤ S.chain.length ∧ validL (cs S.chain f.k) f.L ∧ f.T = applyL (cs S.chain f.k) f.L :=
  (reachable_inv h).fl_good r f hf

/-- how the pending list of one sync call can change in one step of the system: it is only ever
    replaced by its rebase over a pulled version, shortened by the batch just accepted, or left
    alone — in particular a rejection (`pushReject`) keeps the *rebased* list, and an operation
    that `rebase` dropped (it lost a conflict) never comes back. -/
inductive PendingChange (L L' : List SyncOp) : Prop where
  | same : L' = L → PendingChange L L'
  | rebased (v : List SyncOp) : L' = (rebase v L).2 → PendingChange L L'
  | sent (n : Nat) : L' = L.drop n → PendingChange L L'
  | snapshot : L = [] → L' = [] → PendingChange L L'

theorem setRep_fl_self (S : Sys) (r : Nat) (x : Rep) : ((setRep S r x).reps r).fl = x.fl := by
  simp [setRep]

theorem setRep_fl_other (S : Sys) (r j : Nat) (x : Rep) (h : j ≠ r) : ((setRep S r x).reps j).fl = (S.reps j).fl := by
  simp [setRep, h]

/-- **rebased ops only**: across any step, the pending list of a sync that stays in flight
    changes only in the ways listed in `PendingChange`. -/
theorem C02_pending_changes {S S' : Sys} (hI : Inv S) (hs : Step S S') (j : Nat) (f f' : Flight)
    (hf : (S.reps j).fl = some f) (hf' : (S'.reps j).fl = some f') : PendingChange f.L f'.L := by
  have other : ∀ (S₀ : Sys) (r : Nat) (x : Rep), (S₀.reps j).fl = (S.reps j).fl → j ≠ r →
      ((setRep S₀ r x).reps j).fl = some f' → PendingChange f.L f'.L := by
    intro S₀ r x h0 hne h1
    rw [setRep_fl_other _ _ _ _ hne, h0, hf] at h1
    cases h1; exact .same rfl
  cases hs with
  | commit r ops u h hv =>
    by_cases hj : j = r
    · subst hj; rw [h] at hf; cases hf
    · exact other S r _ rfl hj hf'
  | undo r n u h hn T' hT =>
    by_cases hj : j = r
    · subst hj; rw [h] at hf; cases hf
    · exact other S r _ rfl hj hf'
  | «begin» r avoid ask h =>
    by_cases hj : j = r
    · subst hj; rw [h] at hf; cases hf
    · exact other S r _ rfl hj hf'
  | takeSnap r g v d h ha hk hL hsn =>
    by_cases hj : j = r
    · subst hj
      rw [setRep_fl_self] at hf'; simp only [Rep.withFl] at hf'; cases hf'
      rw [h] at hf; cases hf
      exact .snapshot (by rw [hI.fl_ask j f h ha, hL]) rfl
    · exact other S r _ rfl hj hf'
  | noSnap r g h ha hsn =>
    by_cases hj : j = r
    · subst hj
      rw [setRep_fl_self] at hf'; simp only [Rep.withFl] at hf'; cases hf'
      rw [h] at hf; cases hf; exact .same rfl
    · exact other S r _ rfl hj hf'
  | pullHit r g h hsd ha hk =>
    by_cases hj : j = r
    · subst hj
      rw [setRep_fl_self] at hf'; simp only [Rep.withFl] at hf'; cases hf'
      rw [h] at hf; cases hf; exact .rebased _ rfl
    · exact other S r _ rfl hj hf'
  | pullMiss r g h hsd ha hk =>
    by_cases hj : j = r
    · subst hj
      rw [setRep_fl_self] at hf'; simp only [Rep.withFl] at hf'; cases hf'
      rw [h] at hf; cases hf; exact .same rfl
    · exact other S r _ rfl hj hf'
  | pushOk r g n sd h hp ha hn hn' hk hsd =>
    by_cases hj : j = r
    · subst hj
      rw [setRep_fl_self] at hf'; simp only [Rep.withFl] at hf'; cases hf'
      rw [h] at hf; cases hf; exact .sent n rfl
    · exact other _ r _ rfl hj hf'
  | pushReject r g h hp ha hne hk =>
    split at hf'
    · rw [show ({ S with err := true } : Sys).reps j = S.reps j from rfl, hf] at hf'
      cases hf'; exact .same rfl
    · by_cases hj : j = r
      · subst hj
        rw [setRep_fl_self] at hf'; simp only [Rep.withFl] at hf'; cases hf'
        rw [h] at hf; cases hf; exact .same rfl
      · exact other S r _ rfl hj hf'
  | addSnap r g h hsd ha =>
    by_cases hj : j = r
    · subst hj
      rw [setRep_fl_self] at hf'; simp only [Rep.withFl] at hf'; cases hf'
      rw [h] at hf; cases hf; exact .same rfl
    · exact other _ r _ rfl hj hf'
  | finish r g h hp ha he =>
    by_cases hj : j = r
    · subst hj; rw [setRep_fl_self] at hf'; simp [Rep.synced] at hf'
    · exact other S r _ rfl hj hf'
  | abort r g h =>
    by_cases hj : j = r
    · subst hj; rw [setRep_fl_self] at hf'; simp [Rep.withFl] at hf'
    · exact other S r _ rfl hj hf'

end Tc
