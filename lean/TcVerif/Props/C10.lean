import TcVerif.Proofs.CleanupCheck
/-!
# C10 — Object-store cleanup never deletes history that is still needed

The machine `Cl` (`Proofs/CleanupModel.lean`): the object-store machine of C09 extended with
snapshots and cleanup, one store request per step, any number of clients and cleanups interleaved
arbitrarily, every call abandonable after any request (so "a cleanup that stops after any of its
deletions" is a path of the machine).  Cleanup follows the rule of the repaired code: read `latest`
first; list; walk back from `latest` inside the listing; delete a listed version off the walk only
if its parent has another child on the walk; retain the newest snapshot found on the walk and
delete only snapshots of versions before it on the walk; retire only versions at or before it.
Which versions count as old is left open (any version at or before the retained snapshot may be
retired), which over-approximates every clock.

Tied to the code as C09: `Cl.check` is sound w.r.t. `Cl.Step` (`C10_trace_reachable`); the real
`CloudServer`'s request log, cleanups included, must be accepted event by event — in particular
every single `del` a cleanup issues must be one the machine allows at that moment.
-/
namespace Tc
open Cl

/-- **what cleanup leaves behind**: in every reachable state — after any interleaving of
    add_version, get_child_version, add_snapshot and any number of cleanups, each possibly abandoned
    after any of its deletions — either no snapshot was ever stored and every version of the chain
    is still there, or a snapshot of a chain version is still stored and every later version is
    still there.  (A fresh replica starts from that snapshot, or from the first version, and walks
    to the latest; a replica based on a retained version finds its child.) -/
theorem C10_retained_suffix_retrievable {S : Sys} (h : Reachable S) :
    (S.snapsEver = [] ∧ ∀ c ∈ S.chain, ∃ o ∈ S.vers, o.child = c) ∨
    (∃ m ∈ S.snaps, m ∈ S.chain ∧
      ∀ c ∈ S.chain, idx S.chain m < idx S.chain c → ∃ o ∈ S.vers, o.child = c) :=
  retained_suffix_retrievable h

/-- with cleanups running, clients are still only served chain versions with the submitted bytes,
    and acknowledged versions stay on the chain -/
theorem C10_served_and_acked {S : Sys} (h : Reachable S) :
    (∀ x ∈ S.served, x ∈ S.sub ∧ x.2.1 ∈ S.chain ∧ predOrFirst S.chain x.1 x.2.1)
    ∧ ∀ n ∈ S.acked, n ∈ S.chain :=
  ⟨served_only_chain h, acked_on_chain h⟩

/-- only versions retired under a snapshot are ever missing from the chain's objects, and a
    retired version is at or before some snapshot that was stored -/
theorem C10_only_covered_versions_retired {S : Sys} (h : Reachable S) :
    (∀ c ∈ S.chain, c ∉ S.retired → ∃ o ∈ S.vers, o.child = c)
    ∧ ∀ c ∈ S.retired, c ∈ S.chain ∧ ∃ s ∈ S.snapsEver, idx S.chain c ≤ idx S.chain s :=
  ⟨(reachable_inv h).chain_obj, (reachable_inv h).retired_ok⟩

/-- **the tie to the code**: a request trace the executable checker accepts ends in a reachable
    state of the machine -/
theorem C10_trace_reachable {n : Nat} {evs : List Ev} {S : Sys} (h : checkAll n init evs = some S) :
    Reachable S :=
  (checkAll_reachable Reachable.init (quiet_init n) h).1

/-- non-vacuity: three versions, a snapshot of the second, a racing loser; a cleanup deletes the
    loser, retains the snapshot and retires the first two versions — accepted by the checker; the
    third version's object is still there -/
example : (checkAll 2 init [.avRead 0 0 1, .avPut 0 1, .avCas 0 true, .avRead 0 1 2, .avPut 0 2, .avCas 0 true,
    .avRead 0 2 3, .avRead 1 2 4, .avPut 1 4, .avPut 0 3, .avCas 0 true, .addSnap 0 2,
    .clRead 0, .clList 0 [⟨0, 1, 1⟩, ⟨1, 2, 2⟩, ⟨2, 3, 3⟩, ⟨2, 4, 4⟩], .clDelVer 0 2 4, .clPick 0 2,
    .clSnapsDone 0, .clDelVer 0 1 2, .clDelVer 0 0 1, .clEnd 0]).map
      (fun S => (S.chain, S.vers.map (·.child), S.snaps, S.retired))
    = some ([1, 2, 3], [3], [2], [1, 2]) := by decide

end Tc
