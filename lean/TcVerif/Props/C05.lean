import TcVerif.Proofs.Cached
import TcVerif.Proofs.Undo
/-!
# C05 — Local commits are atomic and follow the documented operation model

Model: `commitOps` (`Replica::commit_operations` → `TaskDb::commit_operations` →
`apply_operations` with its write cache, working-set additions, `add_operation` per op).
A commit is one storage transaction: its outcome is `commitOps st ops` (committed) or `st`
(dropped / failed) — that the storage really provides this is C06/C16.
-/
namespace Tc

/-- **batch = one at a time**: committing a batch changes the tasks exactly as applying its
    operations one at a time under the documented rules — for every batch, valid or not. -/
theorem C05_batch_equals_one_at_a_time (st : RState) (ops : List Op) :
    (commitOps st ops).tasks = ops.foldl applyLocal st.tasks := by
  unfold commitOps
  split
  · rename_i h; subst h; rfl
  · exact cached_eq_fold st.tasks ops

/-- the documented rules, one by one -/
theorem C05_create_rule (db : DB) (u : Nat) :
    applyLocal db (.create u) u = some ((db u).getD emptyTask)
    ∧ ∀ u', u' ≠ u → applyLocal db (.create u) u' = db u' := by
  constructor
  · simp [applyLocal_create]
  · intro u' h; simp [applyLocal_create, setTask_get_ne _ _ _ _ h]

theorem C05_update_rule (db : DB) (u : Nat) (k : String) (old v : Option String) (ts : Int) :
    applyLocal db (.update u k old v ts) u = (db u).map (fun t => setProp t k v)
    ∧ ∀ u', u' ≠ u → applyLocal db (.update u k old v ts) u' = db u' := by
  constructor
  · simp [applyLocal_update]
  · intro u' h; simp [applyLocal_update, setTask_get_ne _ _ _ _ h]

theorem C05_delete_rule (db : DB) (u : Nat) (old) :
    applyLocal db (.delete u old) u = none
    ∧ ∀ u', u' ≠ u → applyLocal db (.delete u old) u' = db u' := by
  constructor
  · simp [applyLocal_delete]
  · intro u' h; simp [applyLocal_delete, setTask_get_ne _ _ _ _ h]

/-- operations on missing tasks (and undo points) change nothing -/
theorem C05_missing_noop (db : DB) (u : Nat) (k : String) (old v : Option String) (ts : Int) (m)
    (h : db u = none) :
    applyLocal db (.update u k old v ts) = db ∧ applyLocal db (.delete u m) = db
    ∧ applyLocal db .undoPoint = db := by
  refine ⟨?_, ?_, rfl⟩
  · rw [applyLocal_update, h]; simp only [Option.map_none]; rw [← h, setTask_self]
  · rw [applyLocal_delete, ← h, setTask_self]

theorem unsynced_append (l : List (Bool × Op)) (ops : List Op) :
    ((l ++ ops.map (fun o => (false, o))).filter (fun p => !p.1)).map (·.2)
      = (l.filter (fun p => !p.1)).map (·.2) ++ ops := by
  simp only [List.filter_append, List.map_append]
  congr 1
  induction ops with
  | nil => rfl
  | cons o os ih => simp [List.filter_cons, ih]

/-- **recorded in order**: the batch is appended, in order, to the unsynchronized operations -/
theorem C05_logged_in_order (st : RState) (ops : List Op) :
    (commitOps st ops).unsynced = st.unsynced ++ ops := by
  unfold commitOps
  split
  · rename_i h; subst h; simp
  · simp only [RState.unsynced]; exact unsynced_append st.ops ops

/-- the local rules are the sync rules: applying a local operation = applying what is sent -/
theorem foldl_applyLocal_eq (db : DB) (ops : List Op) :
    ops.foldl applyLocal db = applyL db (ops.filterMap Op.toSync) := by
  induction ops generalizing db with
  | nil => rfl
  | cons o os ih =>
    simp only [List.foldl_cons, ih]
    cases h : o.toSync with
    | none => simp [List.filterMap_cons, h, applyLocal, applyO]
    | some s => simp [List.filterMap_cons, h, applyLocal, applyO, applyL]

/-- **replica invariant, preserved by every commit**: if the tasks are the base state `B` with
    the unsynchronized operations applied, they still are after committing any batch. -/
theorem C05_commit_preserves_invariant (B : DB) (st : RState) (ops : List Op)
    (h : st.tasks = applyL B (st.unsynced.filterMap Op.toSync)) :
    (commitOps st ops).tasks = applyL B ((commitOps st ops).unsynced.filterMap Op.toSync) := by
  rw [C05_batch_equals_one_at_a_time, C05_logged_in_order, foldl_applyLocal_eq, h,
      List.filterMap_append, applyL_append]

/-- **all or nothing**: the outcome of the commit transaction is the complete effect or, when the
    transaction is abandoned, exactly the prior state (nothing in between is a possible outcome
    of the model's transaction). -/
def commitOutcome (committed : Bool) (st : RState) (ops : List Op) : RState :=
  if committed then commitOps st ops else st

theorem C05_all_or_nothing (c : Bool) (st : RState) (ops : List Op) :
    (commitOutcome c st ops).tasks = ops.foldl applyLocal st.tasks ∧ (commitOutcome c st ops).unsynced = st.unsynced ++ ops
    ∨ (commitOutcome c st ops).tasks = st.tasks ∧ (commitOutcome c st ops).unsynced = st.unsynced := by
  cases c
  · right; exact ⟨rfl, rfl⟩
  · left; exact ⟨C05_batch_equals_one_at_a_time st ops, C05_logged_in_order st ops⟩

/-! non-vacuity: a batch with a repeated create/delete of one task, a property removal, an undo
    point and an operation on a missing task -/
example :
    let ops := [Op.undoPoint, .create 1, .update 1 "k" none (some "v") 5, .delete 1 [("k", "v")], .create 1,
                .update 1 "k" none none 6, .update 2 "x" none (some "y") 7]
    ((commitOps RState.empty ops).tasks 1).isSome = true ∧ ((commitOps RState.empty ops).tasks 2).isNone = true := by
  simp [C05_batch_equals_one_at_a_time, applyLocal, Op.toSync, applyO, apply, setTask, RState.empty, emptyDB]

end Tc
