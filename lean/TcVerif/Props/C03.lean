import TcVerif.Proofs.RebaseSymm
import TcVerif.Props.C01
import TcVerif.Proofs.SrcTransform
/-!
# C03 — No lost updates; documented conflict winners, independent of sync order

`transform` is the rule after repair F15 (pairs `(timestamp, value)` compared).  Everything below is
for arbitrary base states, task ids, property names, values and timestamps (earlier, later, equal).
-/
namespace Tc

/-- `transform` does not care which of the two operations is called "server" and which "local" -/
theorem C03_transform_symm (a b : SyncOp) : transform b a = ((transform a b).2, (transform a b).1) :=
  transform_symm a b

/-- **order independence, two replicas**: A and B hold valid pending lists `LA`, `LB` on a common
    base `S`.  If A synchronizes first the chain gets `LA` and then B's rebased list; if B goes
    first it gets `LB` and then A's rebased list.  Both chains replay to the same state, and that is
    also the state each replica holds after pulling the other's version. -/
theorem C03_order_independent₂ (S : DB) (LA LB : List SyncOp) (hA : validL S LA) (hB : validL S LB) :
    applyL (applyL S LA) (rebase LA LB).2 = applyL (applyL S LB) (rebase LB LA).2
    ∧ applyL (applyL S LB) (rebase LA LB).1 = applyL (applyL S LA) (rebase LA LB).2
    ∧ applyL (applyL S LA) (rebase LB LA).1 = applyL (applyL S LB) (rebase LB LA).2 := by
  have h1 := (rebase_correct LA LB S hA hB).1
  have h2 := (rebase_correct LB LA S hB hA).1
  refine ⟨?_, h1, h2⟩
  rw [← h1, rebase_symm LA LB]

/-- the merged state of two concurrent single operations valid in `S` (either sync order) -/
def merged (S : DB) (a b : SyncOp) : DB := applyO (apply S a) (transform a b).2

theorem merged_comm (S : DB) (a b : SyncOp) (ha : valid S a) (hb : valid S b) :
    merged S a b = merged S b a := by
  unfold merged
  rw [(tp1 S a b ha hb).1, transform_symm a b]

/-- the order on `(timestamp, value)` that decides a same-property conflict -/
def later (t1 : Int) (v1 : Option String) (t2 : Int) (v2 : Option String) : Bool :=
  decide (t1 < t2) || (decide (t1 = t2) && vlt v1 v2)

/-- **later timestamp wins** (ties: the greater value; identical updates merge): two concurrent
    updates of the same property of an existing task leave the value of the later one, on every
    replica and in both sync orders; every other property is untouched. -/
theorem C03_later_update_wins (S : DB) (u : Nat) (k : String) (v1 v2 : Option String) (t1 t2 : Int)
    (t : TaskMap) (hS : S u = some t) :
    merged S (.update u k v1 t1) (.update u k v2 t2) u
      = some (setProp t k (if later t1 v1 t2 v2 then v2 else v1)) := by
  unfold merged later
  simp only [transform, and_self, if_true]
  by_cases h12 : t1 < t2
  · simp [h12, applyO, apply, hS]
  · by_cases h21 : t2 < t1
    · have hne : ¬ t1 = t2 := by omega
      simp [h12, h21, hne, applyO, apply, hS]
    · have heq : t1 = t2 := by omega
      subst heq
      by_cases hv : v1 = v2
      · subst hv; simp [vlt_irrefl, applyO, apply, hS]
      · by_cases hl : vlt v1 v2 = true
        · simp [hv, hl, applyO, apply, hS]
        · simp [hv, hl, applyO, apply, hS]

/-- **a concurrent deletion wins over updates** -/
theorem C03_delete_beats_update (S : DB) (u : Nat) (k : String) (v : Option String) (ts : Int) :
    merged S (.delete u) (.update u k v ts) u = none
    ∧ merged S (.update u k v ts) (.delete u) u = none := by
  simp [merged, transform, applyO, apply]

/-- **different properties of one task are both kept** -/
theorem C03_different_props_kept (S : DB) (u : Nat) (k1 k2 : String) (v1 v2 : Option String) (t1 t2 : Int)
    (t : TaskMap) (hS : S u = some t) (hk : k1 ≠ k2) :
    merged S (.update u k1 v1 t1) (.update u k2 v2 t2) u = some (setProp (setProp t k1 v1) k2 v2) := by
  simp [merged, transform, hk, applyO, apply, hS]

/-- **different tasks are independent** -/
theorem C03_different_tasks_kept (S : DB) (a b : SyncOp) (h : a.uuid ≠ b.uuid) :
    merged S a b = apply (apply S a) b := by
  simp [merged, transform_ne a b h, applyO]

/-- **concurrent creations of the same task merge into one task carrying both sides' updates** -/
theorem C03_concurrent_creates_merge (S : DB) (u : Nat) (k1 k2 : String) (v1 v2 : Option String)
    (t1 t2 : Int) (hk : k1 ≠ k2) :
    let LA := [SyncOp.create u, .update u k1 v1 t1]
    let LB := [SyncOp.create u, .update u k2 v2 t2]
    applyL (applyL S LA) (rebase LA LB).2 u
      = some (setProp (setProp ((S u).getD emptyTask) k1 v1) k2 v2) := by
  have hk' : ¬ (k1 = k2) := hk
  simp [rebase, rebase1, transform, applyL, apply, hk']

/-- **a change made after seeing another replica's change overrides it, whatever the timestamps**:
    the later operation on the chain is simply applied last -/
theorem C03_causal_override (S : DB) (u : Nat) (k : String) (v1 v2 : Option String) (t1 t2 : Int)
    (t : TaskMap) (hS : S u = some t) :
    applyL S [.update u k v1 t1, .update u k v2 t2] u = some (setProp t k v2) := by
  simp [applyL, apply, hS]

/-- **no lost update**: when `transform` drops the local operation `b` against a server operation
    `a` (both valid in a common state), it is for one of the documented reasons — `b` is the same
    change as `a`, or `a` deletes the task `b` updates, or `a` updates the same property with a
    later-or-equal `(timestamp, value)` — and the lemma names which. -/
theorem C03_dropped_only_by_rule (S : DB) (a b : SyncOp) (ha : valid S a) (hb : valid S b)
    (hd : (transform a b).2 = none) :
    a = b
    ∨ (∃ k v ts, a = .delete b.uuid ∧ b = .update b.uuid k v ts)
    ∨ (∃ u k v1 t1 v2 t2, a = .update u k v1 t1 ∧ b = .update u k v2 t2 ∧ later t2 v2 t1 v1 = true) := by
  cases a with
  | create u1 =>
    cases b with
    | create u2 =>
      simp only [transform] at hd; split at hd
      · rename_i h; left; rw [h]
      · cases hd
    | delete u2 =>
      simp only [transform] at hd; split at hd
      · rename_i h; subst h; simp only [valid] at ha hb; rw [ha] at hb; cases hb
      · cases hd
    | update u2 k v ts =>
      simp only [transform] at hd; split at hd <;> cases hd
  | delete u1 =>
    cases b with
    | create u2 =>
      simp only [transform] at hd; split at hd <;> cases hd
    | delete u2 =>
      simp only [transform] at hd; split at hd
      · rename_i h; left; rw [h]
      · cases hd
    | update u2 k v ts =>
      simp only [transform] at hd; split at hd
      · rename_i h; right; left; exact ⟨k, v, ts, by rw [h]; rfl, rfl⟩
      · cases hd
  | update u1 k1 v1 t1 =>
    cases b with
    | create u2 =>
      simp only [transform] at hd; split at hd
      · rename_i h; subst h; simp only [valid] at ha hb; rw [hb] at ha; cases ha
      · cases hd
    | delete u2 =>
      simp only [transform] at hd; split at hd <;> cases hd
    | update u2 k2 v2 t2 =>
      simp only [transform] at hd
      split at hd
      · rename_i h
        obtain ⟨rfl, rfl⟩ := h
        by_cases h12 : t1 < t2
        · simp [h12] at hd
        · by_cases h21 : t2 < t1
          · right; right
            exact ⟨u1, k1, v1, t1, v2, t2, rfl, rfl, by simp [later, h21]⟩
          · have heq : t1 = t2 := by omega
            subst heq
            by_cases hv : v1 = v2
            · left; rw [hv]
            · simp only [h12, if_false, hv] at hd
              by_cases hl : vlt v1 v2 = true
              · simp [hl] at hd
              · right; right
                refine ⟨u1, k1, v1, t1, v2, t1, rfl, rfl, ?_⟩
                rcases vlt_total v1 v2 hv with h | h
                · exact absurd h hl
                · simp [later, h]
      · cases hd

/-- the source's `SyncOp::transform` (regenerated from `src/server/op.rs` on every run) does not care
    which operation is called "server" and which "local": the winner cannot depend on who syncs first -/
theorem C03_source_transform_symm (a b : SyncOp) :
    Src.transform b a = ((Src.transform a b).2, (Src.transform a b).1) := by
  rw [src_transform_eq, src_transform_eq]; exact transform_symm a b

/-- **the documented conflict rule, read off the source's function**: two concurrent updates of the
    same property of the same task — identical ones cancel, otherwise the one with the later
    `(timestamp, value)` survives and the other is dropped; stated for `SyncOp::transform` as
    /repo's source defines it now (translated on every run) -/
theorem C03_source_conflict_rule (u : Nat) (k : String) (v1 v2 : Option String) (t1 t2 : Int) :
    Src.transform (.update u k v1 t1) (.update u k v2 t2) =
      if t1 = t2 ∧ v1 = v2 then (none, none)
      else if later t1 v1 t2 v2 = true then (none, some (.update u k v2 t2))
      else (some (.update u k v1 t1), none) := by
  rw [src_transform_eq]
  simp only [transform, later, and_self, if_true]
  have := vlt_irrefl v1
  grind

/-- **the other documented rules, read off the source's function** -/
theorem C03_source_other_rules (u : Nat) (k k2 : String) (v v2 : Option String) (ts ts2 : Int) :
    -- a concurrent deletion wins over an update (either way round)
    Src.transform (.delete u) (.update u k v ts) = (some (.delete u), none)
    ∧ Src.transform (.update u k v ts) (.delete u) = (none, some (.delete u))
    -- different properties: both kept
    ∧ (k ≠ k2 → Src.transform (.update u k v ts) (.update u k2 v2 ts2)
        = (some (.update u k v ts), some (.update u k2 v2 ts2)))
    -- concurrent creations / deletions of the same task merge
    ∧ Src.transform (.create u) (.create u) = (none, none)
    ∧ Src.transform (.delete u) (.delete u) = (none, none) := by
  simp only [src_transform_eq]
  refine ⟨?_, ?_, ?_, ?_, ?_⟩ <;> simp [transform]
  intro h1 h2; exact absurd h2 h1

end Tc
