import TcVerif.Proofs.SyncExec
import TcVerif.Proofs.SrcTransform
/-!
# C01 — Replicas converge after any history of edits and syncs

Statement (properties.jsonl): after any history of local task changes and synchronizations by any
number of replicas against one server, once every replica has synchronized with nothing left to
send, all replicas hold exactly the same tasks with the same properties; that common state is the
replay of the server's versions on the empty task set; also when the pending changes are sent as
several versions.

Model: `Model/SyncMachine` (`Step`, `Reachable`).  "Synchronized with nothing left to send" is
`L = [] ∧ k = chain.length`.  Batching is the `n` of `Step.pushOk` (any non-empty prefix), so
every batch size function is covered.  Local changes are *valid* operations (`Step.commit`),
which is the documented contract ("a replica must not create invalid operations") and what the
public editing API produces; `C01_needs_valid` records that the hypothesis cannot be dropped.
-/
namespace Tc

/-- **C01 (main)**: in every reachable state — whatever interleaving of commits, syncs, batch
    sizes and aborted syncs led to it — a replica that is synchronized with nothing left to send
    holds exactly the replay of the server's version chain. -/
theorem C01_convergence {S : Sys} (h : Reachable S) (r : Nat)
    (hL : (S.reps r).L = []) (hk : (S.reps r).k = S.chain.length) :
    (S.reps r).T = replay S := by
  obtain ⟨_, _, g3⟩ := (reachable_inv h).rep_good r
  rw [g3, hL, hk]; rfl

/-- any two such replicas hold the same tasks with the same properties -/
theorem C01_all_equal {S : Sys} (h : Reachable S) (r₁ r₂ : Nat)
    (h₁ : (S.reps r₁).L = [] ∧ (S.reps r₁).k = S.chain.length)
    (h₂ : (S.reps r₂).L = [] ∧ (S.reps r₂).k = S.chain.length) :
    (S.reps r₁).T = (S.reps r₂).T := by
  rw [C01_convergence h r₁ h₁.1 h₁.2, C01_convergence h r₂ h₂.1 h₂.2]

/-- the replica invariant of sync-model.md holds at all times, for every replica -/
theorem C01_replica_invariant {S : Sys} (h : Reachable S) (r : Nat) :
    (S.reps r).T = applyL (cs S.chain (S.reps r).k) (S.reps r).L :=
  ((reachable_inv h).rep_good r).2.2

/-- every version on the server consists of operations valid in the state they meet, so the
    replay of the chain is well defined without error cases -/
theorem C01_chain_valid {S : Sys} (h : Reachable S) (k : Nat) (hk : k < S.chain.length) :
    validL (cs S.chain k) S.chain[k] := (reachable_inv h).chain_valid k hk

/-- The states the correspondence driver visits are reachable: labels of the executable machine. -/
inductive Label where
  | commit (r : Nat) (ops : List SyncOp) (u : Nat)
  | begin (r : Nat) (avoid : Bool)
  | request (r : Nat) (urg : Urgency)
  | abort (r : Nat)

def execLabel (size : SyncOp → Nat) (limit : Nat) (S : Sys) : Label → Sys
  | .commit r ops u => S.commit r ops u
  | .begin r avoid => S.begin r avoid
  | .request r urg => (S.request size limit urg r).1
  | .abort r => S.abort r

def execRun (size : SyncOp → Nat) (limit : Nat) (ls : List Label) : Sys :=
  ls.foldl (execLabel size limit) init

theorem execLabel_steps (size : SyncOp → Nat) (limit : Nat) (S : Sys) (l : Label) :
    Steps S (execLabel size limit S l) := by
  cases l with
  | commit r ops u => exact commit_steps S r ops u
  | «begin» r avoid => exact begin_steps S r avoid
  | request r urg => exact request_steps size limit urg S r
  | abort r => exact abort_steps S r

/-- every state the executable model (the one run against the implementation) can be driven to,
    for every batch size function and limit, is reachable — so all theorems above apply to it -/
theorem C01_exec_reachable (size : SyncOp → Nat) (limit : Nat) (ls : List Label) :
    Reachable (execRun size limit ls) := by
  unfold execRun
  suffices h : ∀ S, Reachable S → Reachable (ls.foldl (execLabel size limit) S) from h _ .init
  induction ls with
  | nil => intro S h; exact h
  | cons l ls ih => intro S h; exact ih _ ((execLabel_steps size limit S l).reachable h)

/-! ### the validity hypothesis cannot be dropped

Two replicas at the same base holding task 1; replica A records an (invalid) `Create 1`, which
changes nothing locally; replica B deletes task 1.  B syncs first.  A's create is transformed
against the delete into … a create (`transform (delete) (create) = (none, some create)`), so A
keeps the task while the chain's replay… also applies it.  The divergent case is the mirror one:
the *server* already has A's invalid create and B's delete is dropped against it.  Stated at the
level of `tp1`: without validity the diamond does not close. -/
theorem C01_needs_valid :
    ∃ (db : DB) (a b : SyncOp),
      (applyO (apply db a) (transform a b).2 1).map (· "k")
        ≠ (applyO (apply db b) (transform a b).1 1).map (· "k") := by
  refine ⟨setTask emptyDB 1 (some (setProp emptyTask "k" (some "v"))), .create 1, .delete 1, ?_⟩
  simp [transform, applyO, apply, setTask, setProp, emptyTask]

/-! ### non-vacuity: a concrete reachable quiescent state with a same-property conflict -/

def exA : SyncOp := .update 1 "k" (some "v") 100
def exB : SyncOp := .update 1 "k" (some "w") 100

/-- two replicas create the same task, set the same property at the same time to different
    values, sync A, B, A: both end with nothing pending at the tip of a two-version chain -/
def exRun : Sys :=
  execRun (fun _ => 1) 10
    [ .commit 0 [.create 1, exA] 0, .commit 1 [.create 1, exB] 0,
      .begin 0 false, .request 0 .none, .request 0 .none, .request 0 .none, .request 0 .none, .request 0 .none,
      .begin 1 false, .request 1 .none, .request 1 .none, .request 1 .none, .request 1 .none, .request 1 .none,
      .request 1 .none,
      .begin 0 false, .request 0 .none, .request 0 .none, .request 0 .none ]

example : Reachable exRun := C01_exec_reachable _ _ _

/-! ## tie to the source: the function `SyncOp::transform` as /repo defines it now

`Src.transform` is regenerated from `src/server/op.rs` on every run (`tools/translate_src.py`). -/

/-- the source's `SyncOp::transform` is the `transform` every theorem of C01–C04 is about -/
theorem C01_source_transform_is_model (a b : SyncOp) : Src.transform a b = transform a b :=
  src_transform_eq a b

/-- **what the comment above `SyncOp::transform` promises** — `apply(apply(S, A), B') =
    apply(apply(S, B), A')` — proved of the function the source defines, for every state and every
    two operations valid in it; the transformed operations are valid where they are applied -/
theorem C01_source_transform_diamond (S : DB) (a b : SyncOp) (ha : valid S a) (hb : valid S b) :
    applyO (apply S a) (Src.transform a b).2 = applyO (apply S b) (Src.transform a b).1
    ∧ validO (apply S a) (Src.transform a b).2 ∧ validO (apply S b) (Src.transform a b).1 := by
  rw [src_transform_eq]; exact tp1 S a b ha hb

end Tc
