import TcVerif.Props.C02
import TcVerif.Proofs.SrcTransform
/-!
# C04 — An interrupted sync loses nothing and can simply be repeated

Every kind of interruption is a transition of the machine: a failing request or a process stop
is `Step.abort` (the single storage transaction of `TaskDb::sync` is dropped, so the committed
replica record is untouched); "the server carried the request out, the reply was lost" is the
request's own step (`pushOk`, `addSnap`, …) followed by `abort`.  `Reachable` quantifies over
all of them, at every point, after every history.
-/
namespace Tc

/-- an abort leaves the committed replica record exactly as it was before the sync began -/
theorem C04_abort_restores {S : Sys} (r : Nat) :
    let S' := S.abort r
    (S'.reps r).k = (S.reps r).k ∧ (S'.reps r).L = (S.reps r).L ∧ (S'.reps r).T = (S.reps r).T
      ∧ (S'.reps r).fl = none ∨ (S.reps r).fl = none := by
  unfold Sys.abort
  cases h : (S.reps r).fl with
  | none => exact Or.inr rfl
  | some f => left; simp [setRep, Rep.withFl]

/-- **invariant after any interruption**: in every reachable state — including every state
    right after an abort at any point, with or without the interrupted request's effect on the
    server — each replica's stored data satisfies the replica invariant. -/
theorem C04_invariant_always {S : Sys} (h : Reachable S) (r : Nat) :
    (S.reps r).k ≤ S.chain.length
    ∧ validL (cs S.chain (S.reps r).k) (S.reps r).L
    ∧ (S.reps r).T = applyL (cs S.chain (S.reps r).k) (S.reps r).L :=
  (reachable_inv h).rep_good r

/-- **self-cancel**: a replica that meets its own already-accepted version — the reply was lost,
    or it stopped before committing — transforms it away completely: nothing of it is applied a
    second time locally, nothing of it is sent a second time, and what was committed after it
    (`m`) stays pending unchanged. -/
theorem C04_self_cancel (l m : List SyncOp) : rebase l (l ++ m) = ([], m) := self_cancel l m

/-- the step the machine takes in that situation: pulling the own version `l` with `l ++ m`
    pending leaves the task set untouched and `m` pending -/
theorem C04_pull_own_version (f : Flight) (l m : List SyncOp) (hL : f.L = l ++ m) :
    (f.pull l).L = m ∧ (f.pull l).T = f.T := by
  simp [Flight.pull, hL, self_cancel]

/-- **repeat converges**: whatever faults happened before, a replica that afterwards is
    synchronized with nothing left to send holds the replay of the chain — the same converged
    result as an uninterrupted run reaches — and the faulty syncs never cause `OutOfSync`. -/
theorem C04_repeat_converges {S : Sys} (h : Reachable S) (r : Nat)
    (hL : (S.reps r).L = []) (hk : (S.reps r).k = S.chain.length) :
    (S.reps r).T = replay S ∧ S.err = false :=
  ⟨C01_convergence h r hL hk, C02_no_out_of_sync h⟩

/-- never stuck: from any reachable state, a rejected push is never the fatal second rejection -/
theorem C04_never_stuck {S : Sys} (h : Reachable S) (r : Nat) (f : Flight)
    (hf : (S.reps r).fl = some f) (hp : f.pulled = true) (hk : f.k ≠ S.chain.length) :
    f.requested ≠ some S.chain.length := C02_reject_is_never_fatal h r f hf hp hk

/-- the source's `SyncOp::transform` (regenerated from `src/server/op.rs` on every run) cancels an
    operation against itself — what makes pulling one's own version after a lost reply harmless -/
theorem C04_source_transform_self (x : SyncOp) : Src.transform x x = (none, none) := by
  rw [src_transform_eq]; exact transform_self x

end Tc
