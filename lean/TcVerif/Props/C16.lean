import TcVerif.Model.Store
import TcVerif.Proofs.SrcGetUuid
/-!
# C16 — SQLite and in-memory storage are observationally equivalent and persistent  *(partial)*

`StoreSpec` (`Model/Store`) is the storage contract as a state machine.  The in-memory backend is
this machine by construction (vectors, copy-on-write data, `normalize_working_set`; after repair
F9 also the index returned by `add_to_working_set`).  The SQLite backend differs in representation;
the part of it where the difference is not a mere encoding — the working set as rows whose vector
has length `max id + 1` — is modelled (`rowsToVec`, `rowsAdd`, `rowsSet`) and related to the vector.
That both real backends follow the machine call by call, including after close/reopen, after
upgrading databases in the 0.8 / 0.9 / (0,1) layouts, and in read-only mode, is what the
correspondence run checks (runtime remainder: SQLite itself).
-/
namespace Tc

def runCalls (univ : List Nat) (t : STxn) (cs : List Call) : STxn := cs.foldl (fun t c => (t.step univ c).1) t

/-- no call except `commit` touches the committed data -/
theorem step_committed (univ : List Nat) (t : STxn) (c : Call) (h : c ≠ .commit) :
    (t.step univ c).1.committed = t.committed := by
  unfold STxn.step
  split
  · rfl
  · cases c <;> simp only [] <;> (try (split <;> rfl)) <;> (try rfl)
    exact absurd rfl h

/-- **abandon is invisible**: whatever a transaction did, if it never commits the storage content
    is exactly what it was when the transaction began -/
theorem C16_abandon_invisible (univ : List Nat) (d : SData) (ro : Bool) (cs : List Call)
    (h : ∀ c ∈ cs, c ≠ .commit) :
    (runCalls univ (STxn.begin d ro) cs).committed = d := by
  suffices ∀ t : STxn, (runCalls univ t cs).committed = t.committed from this _
  induction cs with
  | nil => intro t; rfl
  | cons c cs ih =>
    intro t
    simp only [runCalls, List.foldl_cons]
    have := ih (fun c' hc' => h c' (List.mem_cons_of_mem _ hc')) ((t.step univ c).1)
    simp only [runCalls] at this
    rw [this, step_committed univ t c (h c List.mem_cons_self)]

/-- **commit is visible**: in read-write mode `commit` installs exactly the transaction's view -/
theorem C16_commit_visible (univ : List Nat) (t : STxn) (h : t.readOnly = false) :
    (t.step univ .commit).1.committed = t.work ∧ (t.step univ .commit).2 = .unit := by
  simp [STxn.step, h, Call.mutates]

/-- **read-only refuses every modification**, `commit` included, and changes nothing -/
theorem C16_readonly_refuses (univ : List Nat) (t : STxn) (c : Call) (hro : t.readOnly = true)
    (hm : c.mutates = true) : t.step univ c = (t, .readOnly) := by
  simp [STxn.step, hro, hm]

/-- reads are unaffected by the access mode -/
theorem C16_readonly_reads (univ : List Nat) (t : STxn) (c : Call) (hm : c.mutates = false) :
    (t.step univ c).1 = t := by
  unfold STxn.step
  simp only [hm, Bool.and_false, Bool.false_eq_true, if_false]
  cases c <;> simp_all [Call.mutates]

/-! ### the SQLite working set (rows) against the vector -/

theorem rowsToVec_length (r : WsRows) : (rowsToVec r).length = rowsMaxId r + 1 := by
  simp [rowsToVec]

/-- `add_to_working_set` on rows returns the index one past the largest id — the length of the
    vector `get_working_set` would have built — exactly as appending to the vector does -/
theorem C16_rows_add_index (r : WsRows) (u : Nat) :
    (rowsAdd r u).2 = (rowsToVec r).length := by
  simp [rowsAdd, rowsToVec_length]

theorem foldl_max_ge (l : WsRows) (m : Nat) : m ≤ l.foldl (fun m p => max m p.1) m := by
  induction l generalizing m with
  | nil => exact Nat.le_refl _
  | cons p ps ih => exact Nat.le_trans (Nat.le_max_left m p.1) (ih (max m p.1))

theorem foldl_max_mem (l : WsRows) (m : Nat) (p : Nat × Nat) (h : p ∈ l) :
    p.1 ≤ l.foldl (fun m p => max m p.1) m := by
  induction l generalizing m with
  | nil => cases h
  | cons q qs ih =>
    rcases List.mem_cons.mp h with rfl | h
    · exact Nat.le_trans (Nat.le_max_right m p.1) (foldl_max_ge qs _)
    · exact ih _ h

theorem rowsMaxId_append (r : WsRows) (i u : Nat) : rowsMaxId (r ++ [(i, u)]) = max (rowsMaxId r) i := by
  simp [rowsMaxId, List.foldl_append]

/-- … and the vector afterwards is the old vector with the task appended -/
theorem C16_rows_add_vec (r : WsRows) (u : Nat) :
    rowsToVec (rowsAdd r u).1 = rowsToVec r ++ [some u] := by
  have hmax : rowsMaxId (r ++ [(rowsMaxId r + 1, u)]) = rowsMaxId r + 1 := by
    rw [rowsMaxId_append]; omega
  apply List.ext_getElem?
  intro i
  simp only [rowsAdd, rowsToVec, hmax]
  by_cases hi : i < rowsMaxId r + 1
  · -- an old position: the new row has a larger id, so the lookup is unchanged
    rw [List.getElem?_append_left (by simpa using hi)]
    rw [List.getElem?_map, List.getElem?_map]
    rw [List.getElem?_range (by omega), List.getElem?_range hi]
    simp only [Option.map_some]
    congr 1
    rw [List.find?_append]
    cases hf : r.find? (fun x => x.1 == i) with
    | some p => simp
    | none =>
      have : ¬ (rowsMaxId r + 1 == i) = true := by
        intro h; have := of_decide_eq_true (by simpa using h : decide (rowsMaxId r + 1 = i) = true); omega
      simp [this]
  · by_cases hi2 : i = rowsMaxId r + 1
    · subst hi2
      rw [List.getElem?_append_right (by simp)]
      rw [List.getElem?_map, List.getElem?_range (by omega)]
      simp only [List.length_map, List.length_range, Nat.sub_self, List.getElem?_cons_zero, Option.map_some]
      congr 1
      rw [List.find?_append]
      have hnone : r.find? (fun x => x.1 == rowsMaxId r + 1) = none := by
        rw [List.find?_eq_none]
        intro p hp hbeq
        have h1 := foldl_max_mem r 0 p hp
        have h2 : p.1 = rowsMaxId r + 1 := by simpa using hbeq
        simp only [rowsMaxId] at *
        omega
      simp [hnone]
    · have : rowsMaxId r + 1 + 1 ≤ i := by omega
      rw [List.getElem?_eq_none (by simp; omega), List.getElem?_eq_none (by simp; omega)]

end Tc

namespace Tc

/-- what `get_working_set` shows at index `j` (nothing beyond the end) -/
def vecAt (v : List (Option Nat)) (j : Nat) : Option Nat := (v[j]?).join

theorem rowsToVec_at (r : WsRows) (j : Nat) : vecAt (rowsToVec r) j = (r.find? (·.1 == j)).map (·.2) := by
  unfold vecAt rowsToVec
  by_cases hj : j < rowsMaxId r + 1
  · rw [List.getElem?_map, List.getElem?_range hj]; simp
  · rw [List.getElem?_eq_none (by simpa using Nat.le_of_not_lt hj)]
    -- no row can have an id beyond the largest id
    cases hf : r.find? (·.1 == j) with
    | none => simp
    | some p =>
      have hm := List.mem_of_find?_eq_some hf
      have hp : p.1 = j := by simpa using List.find?_some hf
      have := foldl_max_mem r 0 p hm
      simp only [rowsMaxId] at hj
      omega

theorem rows_find?_filter_ne (r : WsRows) (i j : Nat) (h : j ≠ i) :
    (r.filter (fun p => p.1 != i)).find? (fun p => p.1 == j) = r.find? (fun p => p.1 == j) := by
  induction r with
  | nil => rfl
  | cons p ps ih =>
    obtain ⟨a, b⟩ := p
    by_cases ha : a = i
    · -- the row is dropped, and it would not have matched j anyway
      have haj : (a == j) = false := by
        simp only [beq_eq_false_iff_ne]; intro e; exact h (e.symm.trans ha)
      have hai : (a != i) = false := by simp [ha]
      rw [List.filter_cons]
      simp only [hai, Bool.false_eq_true, if_false, List.find?_cons, haj]
      exact ih
    · have hai : (a != i) = true := by simp [ha]
      rw [List.filter_cons]
      simp only [hai, if_true, List.find?_cons]
      cases haj : (a == j)
      · exact ih
      · rfl

theorem find?_filter_eq (r : WsRows) (i : Nat) :
    (r.filter (fun p => p.1 != i)).find? (fun p => p.1 == i) = none := by
  induction r with
  | nil => rfl
  | cons p ps ih =>
    obtain ⟨a, b⟩ := p
    by_cases ha : a = i
    · have hai : (a != i) = false := by simp [ha]
      rw [List.filter_cons]
      simp only [hai, Bool.false_eq_true, if_false]
      exact ih
    · have hai : (a != i) = true := by simp [ha]
      have hae : (a == i) = false := by simp [ha]
      rw [List.filter_cons]
      simp only [hai, if_true, List.find?_cons, hae]
      exact ih

/-- **`set_working_set_item` on rows is the vector's update**: afterwards index `i` shows the new
    entry (or nothing), every other index shows what it showed before — INSERT OR REPLACE and
    DELETE on the rows refine assignment on the vector, including the trimming of trailing blanks
    (an index beyond the last row shows nothing either way) -/
theorem C16_rows_set_vec (r : WsRows) (i : Nat) (x : Option Nat) (j : Nat) :
    vecAt (rowsToVec (rowsSet r i x)) j = if j = i then x else vecAt (rowsToVec r) j := by
  rw [rowsToVec_at, rowsToVec_at]
  by_cases h : j = i
  · subst h
    cases x with
    | none => simp only [rowsSet, if_true, find?_filter_eq]; rfl
    | some u =>
      simp only [rowsSet, if_true, List.find?_append, find?_filter_eq, List.find?_cons, beq_self_eq_true,
        Option.none_or]
      rfl
  · cases x with
    | none => simp only [rowsSet, h, if_false, rows_find?_filter_ne r i j h]
    | some u =>
      have hij : (i == j) = false := by simp only [beq_eq_false_iff_ne]; exact fun e => h e.symm
      simp only [rowsSet, h, if_false, List.find?_append, rows_find?_filter_ne r i j h, List.find?_cons, hij,
        List.find?_nil, Option.or_none]

/-- the task an operation belongs to (what `get_task_operations` and the purge in `sync_complete`
    select by) is the source's `Operation::get_uuid`, regenerated from `src/operation.rs` on every run -/
theorem C16_source_get_uuid (o : Op) : Src.getUuid o = o.uuid? := src_getUuid_eq o

end Tc
