import TcVerif.Props.C07
/-!
# C17 — Concurrent handles on one SQLite replica serialise without loss  *(partial)*

What is a theorem: the *serial* semantics.  Whatever handle it came from, a successful
transaction is a step of `Tx.run` on the one stored replica record; for every sequence of such
steps — commits of arbitrary batches, undos that find their operations still at the end of the
log, undos that do not — the stored tasks are the replay of the stored operations in their stored
order, the log is the concatenation of the committed batches minus exactly the undone suffixes,
and no batch is torn apart or duplicated.  That SQLite (BEGIN IMMEDIATE, busy timeout, one actor
thread per handle) really makes concurrent handles' transactions happen one at a time — the
*serialisation* itself — cannot be proved in Lean; the run checks its consequences on the real
database after 2–8 threads with their own handles have worked on it concurrently: the audit
through a fresh handle must satisfy the replay law of these theorems, account for every
acknowledged batch and undo exactly once, and show nothing of a failed one.
-/
namespace Tc

/-- the replica invariant relative to a base state `B` (the state at the last sync) -/
def ReplayInv (B : DB) (st : RState) : Prop :=
  st.tasks = applyL B (st.unsynced.filterMap Op.toSync)

/-- one successful transaction on the stored replica record -/
inductive Tx where
  | commit (ops : List Op)
  | undo (ops : List Op)

def Tx.run (st : RState) : Tx → RState
  | .commit ops => commitOps st ops
  | .undo ops => match commitReversed st ops with
    | .done st' _ => st'
    | .error => st

/-- the operations an undo names are still the end of the log and say truthfully what they
    changed (what `get_undo_operations` returned in a transaction that saw this very log) -/
def UndoFits (B : DB) (st : RState) (ops : List Op) : Prop :=
  ∃ pre, st.unsynced = pre ++ ops ∧ accurateL (applyL B (pre.filterMap Op.toSync)) ops

theorem unsynced_take (l : List (Bool × Op)) (pre ops : List Op)
    (h : (l.filter (fun p => !p.1)).map (·.2) = pre ++ ops)
    (hs : ∀ p ∈ l.drop (l.length - ops.length), p.1 = false) :
    ((l.take (l.length - ops.length)).filter (fun p => !p.1)).map (·.2) = pre := by
  have hsplit : l = l.take (l.length - ops.length) ++ l.drop (l.length - ops.length) := (List.take_append_drop _ _).symm
  have hd : (l.drop (l.length - ops.length)).filter (fun p => !p.1) = l.drop (l.length - ops.length) := by
    apply List.filter_eq_self.mpr
    intro p hp; simp [hs p hp]
  rw [hsplit, List.filter_append, List.map_append, hd] at h
  have hlen : ((l.drop (l.length - ops.length)).map (·.2)).length = ops.length := by
    simp only [List.length_map, List.length_drop]
    have : ops.length ≤ l.length := by
      have := congrArg List.length h
      simp only [List.length_append, List.length_map, List.length_drop] at this
      have h2 := List.length_filter_le (fun p : Bool × Op => !p.1) (l.take (l.length - ops.length))
      simp only [List.length_take] at h2
      omega
    omega
  exact (List.append_inj' h hlen).1

/-- **a commit keeps the replay law and appends the batch whole** -/
theorem C17_commit_step (B : DB) (st : RState) (ops : List Op) (h : ReplayInv B st) :
    ReplayInv B (commitOps st ops) ∧ (commitOps st ops).unsynced = st.unsynced ++ ops :=
  ⟨C05_commit_preserves_invariant B st ops h, C05_logged_in_order st ops⟩

/-- an undo whose operations are no longer the end of the log (another handle committed in
    between) changes nothing -/
theorem C17_stale_undo_noop (st : RState) (ops : List Op)
    (h : ¬ (ops.length ≤ st.unsynced.length ∧ st.unsynced.drop (st.unsynced.length - ops.length) = ops)) :
    Tx.run st (.undo ops) = st := by
  simp [Tx.run, C07_mismatch_noop st ops (Or.inr h)]

/-- **any one-at-a-time order of commits**: the stored tasks are the replay of the stored
    operations, and the log is the batches in that order, each whole, none lost or duplicated -/
theorem C17_serial_commits (B : DB) (batches : List (List Op)) (st : RState) (h : ReplayInv B st) :
    ReplayInv B (batches.foldl commitOps st)
    ∧ (batches.foldl commitOps st).unsynced = st.unsynced ++ batches.flatten := by
  induction batches generalizing st with
  | nil => exact ⟨h, by simp⟩
  | cons b bs ih =>
    obtain ⟨h1, h2⟩ := C17_commit_step B st b h
    obtain ⟨h3, h4⟩ := ih (commitOps st b) h1
    exact ⟨h3, by simp only [List.foldl_cons, h4, h2, List.flatten_cons, List.append_assoc]⟩

/-- **an undo that fits restores the tasks to the replay of the remaining log** (tasks and the
    log stay in step; the undone operations leave the log as one block) — needs the stored
    operations it removes to be unsynchronized ones (`hflags`), which is what "after the last
    undo point, since the last sync" means -/
theorem C17_undo_step (B : DB) (st : RState) (ops : List Op) (h : ReplayInv B st) (hne : ops ≠ [])
    (hfit : UndoFits B st ops)
    (hflags : ∀ p ∈ st.ops.drop (st.ops.length - ops.length), p.1 = false) :
    ∃ pre, st.unsynced = pre ++ ops ∧ (Tx.run st (.undo ops)).unsynced = pre
      ∧ ReplayInv B (Tx.run st (.undo ops)) := by
  obtain ⟨pre, hpre, hacc⟩ := hfit
  refine ⟨pre, hpre, ?_⟩
  have htail : ops.length ≤ st.unsynced.length ∧ st.unsynced.drop (st.unsynced.length - ops.length) = ops := by
    rw [hpre]; simp
  have htasks : st.tasks = ops.foldl applyLocal (applyL B (pre.filterMap Op.toSync)) := by
    rw [h, hpre, List.filterMap_append, applyL_append, foldl_applyLocal_eq]
  have hrestore := undo_restores (applyL B (pre.filterMap Op.toSync)) ops hacc
  rw [← htasks] at hrestore
  have hrun : Tx.run st (.undo ops) =
      { st with tasks := applyL B (pre.filterMap Op.toSync), ops := st.ops.take (st.ops.length - ops.length) } := by
    simp only [Tx.run, commitReversed, hne, if_false, htail, and_self, if_true, hrestore]
  have hun : ({ st with tasks := applyL B (pre.filterMap Op.toSync),
                        ops := st.ops.take (st.ops.length - ops.length) } : RState).unsynced = pre := by
    simp only [RState.unsynced]
    exact unsynced_take st.ops pre ops (by simpa [RState.unsynced] using hpre) hflags
  rw [hrun]
  exact ⟨hun, by simp only [ReplayInv, hun]⟩

/-- non-vacuity: two handles' batches and an undo of the second, serially -/
example : ((([[.undoPoint, .create 1], [.undoPoint, .create 2, .update 2 "k" none (some "v") 0]] : List (List Op)).foldl
    commitOps RState.empty).unsynced.length = 5) := by decide

end Tc
