import TcVerif.Model.Replica
import TcVerif.Proofs.SrcStatus
/-!
# C15 — The working set lists exactly the pending tasks, with stable numbering

Model: `rebuildSpec` — the working set as *stored* after `working_set::rebuild` (after repairs
F7/F8; trailing blanks are trimmed by both storages before newcomers are appended), for an
arbitrary task set `db`, prior working set `old` (slot 0 included; gaps, stale entries, entries of
tasks deleted outright), and an arbitrary enumeration order `all` of the stored tasks.
`wsAddMissing` — the commit-time addition.
-/
namespace Tc

theorem stripTrailing_getElem? (l : List (Option Nat)) (i : Nat) (u : Nat)
    (h : l[i]? = some (some u)) : (stripTrailing l)[i]? = some (some u) := by
  induction l generalizing i with
  | nil => simp at h
  | cons e es ih =>
    cases i with
    | zero =>
      simp only [List.getElem?_cons_zero, Option.some.injEq] at h
      subst h
      simp only [stripTrailing]
      split <;> simp_all
    | succ i =>
      simp only [List.getElem?_cons_succ] at h
      have := ih i h
      simp only [stripTrailing]
      split
      · simp_all
      · simp [this]

theorem stripTrailing_sub (l : List (Option Nat)) (k : Nat) (x : Nat)
    (hk : (stripTrailing l)[k]? = some (some x)) : l[k]? = some (some x) := by
  induction l generalizing k with
  | nil => simp [stripTrailing] at hk
  | cons e es ih =>
    simp only [stripTrailing] at hk
    split at hk
    · simp at hk
    · cases k with
      | zero => simpa using hk
      | succ k => simp only [List.getElem?_cons_succ] at hk ⊢; exact ih k hk

theorem mem_stripTrailing_some (l : List (Option Nat)) (u : Nat) :
    some u ∈ stripTrailing l ↔ some u ∈ l := by
  constructor
  · intro h
    obtain ⟨k, hk⟩ := List.getElem?_of_mem h
    exact List.mem_of_getElem? (stripTrailing_sub l k u hk)
  · intro h
    obtain ⟨k, hk⟩ := List.getElem?_of_mem h
    exact List.mem_of_getElem? (stripTrailing_getElem? l k u hk)

/-- slot 0 is always empty -/
theorem C15_slot0 (db : DB) (r : Bool) (old : List (Option Nat)) (all : List Nat) :
    (rebuildSpec db r old all)[0]? = some none := by simp [rebuildSpec]

/-- **not renumbering: every task that remains keeps its number** -/
theorem C15_no_renumber_stable (db : DB) (old : List (Option Nat)) (all : List Nat) (i : Nat) (u : Nat)
    (h : old.tail[i]? = some (some u)) (hm : memWs db u = true) :
    (rebuildSpec db false old all)[i + 1]? = some (some u) := by
  simp only [rebuildSpec, Bool.false_eq_true, if_false, List.getElem?_cons_succ]
  have h1 : (old.tail.map (keepWs db))[i]? = some (some u) := by
    rw [List.getElem?_map, h]; simp [keepWs, hm]
  have h2 := stripTrailing_getElem? _ i u h1
  rw [List.getElem?_append_left]
  · exact h2
  · exact (List.getElem?_eq_some_iff.mp h2).1

/-- **not renumbering: newcomers are placed after every number still in use** -/
theorem C15_no_renumber_newcomers_after (db : DB) (old : List (Option Nat)) (all : List Nat)
    (i j : Nat) (u n : Nat)
    (h : old.tail[i]? = some (some u)) (hm : memWs db u = true)
    (hn : old.tail.contains (some n) = false)
    (hj : (rebuildSpec db false old all)[j + 1]? = some (some n)) : i < j := by
  simp only [rebuildSpec, Bool.false_eq_true, if_false, List.getElem?_cons_succ] at hj
  have h1 : (old.tail.map (keepWs db))[i]? = some (some u) := by
    rw [List.getElem?_map, h]; simp [keepWs, hm]
  have h2 := stripTrailing_getElem? _ i u h1
  have hi : i < (stripTrailing (old.tail.map (keepWs db))).length := (List.getElem?_eq_some_iff.mp h2).1
  by_cases hjl : j < (stripTrailing (old.tail.map (keepWs db))).length
  · exfalso
    rw [List.getElem?_append_left hjl] at hj
    have hs := stripTrailing_sub _ j n hj
    simp only [List.getElem?_map] at hs
    cases ho : old.tail[j]? with
    | none => simp [ho] at hs
    | some e =>
      simp only [ho, Option.map_some, Option.some.injEq] at hs
      cases e with
      | none => simp [keepWs] at hs
      | some w =>
        simp only [keepWs] at hs
        split at hs
        · simp only [Option.some.injEq] at hs; subst hs
          have : some w ∈ old.tail := List.mem_of_getElem? ho
          simp [List.contains_iff_mem, this] at hn
        · simp at hs
  · omega

/-- **renumbering: the tasks occupy 1..n with no gaps …** -/
theorem C15_renumber_compact (db : DB) (old : List (Option Nat)) (all : List Nat) :
    ∀ e ∈ (rebuildSpec db true old all).tail, e ≠ none := by
  intro e he
  simp only [rebuildSpec, if_true, List.tail_cons] at he
  rcases List.mem_append.mp he with h | h <;> obtain ⟨x, _, rfl⟩ := List.mem_map.mp h <;> simp

/-- **… and keep their relative order**: the renumbered list is the survivors in their old order,
    then the newcomers -/
theorem C15_renumber_order (db : DB) (old : List (Option Nat)) (all : List Nat) :
    (rebuildSpec db true old all).tail
      = (old.tail.filterMap (keepWs db)).map some
        ++ (all.filter (fun u => memWs db u && !old.tail.contains (some u))).map some := by
  simp [rebuildSpec]

theorem keepWs_some (db : DB) (e : Option Nat) (u : Nat) :
    keepWs db e = some u ↔ e = some u ∧ memWs db u = true := by
  cases e with
  | none => simp [keepWs]
  | some w =>
    simp only [keepWs]
    split
    · rename_i hm
      constructor
      · intro h; cases h; exact ⟨rfl, hm⟩
      · intro h; cases h.1; rfl
    · rename_i hm
      constructor
      · intro h; cases h
      · intro h; cases h.1; exact absurd h.2 hm

/-- **exactly the pending and recurring tasks**: after a rebuild in either mode a task is in the
    working set iff it is stored and its status is pending or recurring (`all` enumerates the
    stored tasks) -/
theorem C15_exact (db : DB) (r : Bool) (old : List (Option Nat)) (all : List Nat)
    (hall : ∀ u, u ∈ all ↔ (db u).isSome) (u : Nat) :
    some u ∈ rebuildSpec db r old all ↔ memWs db u = true := by
  have hmem : ∀ w, memWs db w = true → (db w).isSome := by
    intro w h; unfold memWs at h; cases hd : db w <;> simp_all
  unfold rebuildSpec
  simp only [List.mem_cons, reduceCtorEq, false_or, List.mem_append, List.mem_map, List.mem_filter,
    Bool.and_eq_true, Bool.not_eq_true', Option.some.injEq, exists_eq_right]
  constructor
  · rintro (h | h)
    · cases r
      · simp only [Bool.false_eq_true, if_false] at h
        rw [mem_stripTrailing_some] at h
        obtain ⟨e, _, he⟩ := List.mem_map.mp h
        exact ((keepWs_some db e u).mp he).2
      · simp only [if_true] at h
        obtain ⟨w, hw, hwu⟩ := List.mem_map.mp h
        cases hwu
        obtain ⟨e, _, he⟩ := List.mem_filterMap.mp hw
        exact ((keepWs_some db e u).mp he).2
    · exact h.2.1
  · intro hm
    by_cases hold : some u ∈ old.tail
    · left
      cases r
      · simp only [Bool.false_eq_true, if_false]
        rw [mem_stripTrailing_some]
        exact List.mem_map.mpr ⟨some u, hold, (keepWs_some db _ u).mpr ⟨rfl, hm⟩⟩
      · simp only [if_true]
        exact List.mem_map.mpr ⟨u, List.mem_filterMap.mpr ⟨some u, hold, (keepWs_some db _ u).mpr ⟨rfl, hm⟩⟩, rfl⟩
    · right
      refine ⟨(hall u).mpr (hmem u hm), hm, ?_⟩
      simpa [List.contains_iff_mem] using hold

/-! ### commit-time addition -/

theorem wsAddMissing_prefix (ws : List (Option Nat)) (us : List Nat) :
    ∃ ext : List Nat, wsAddMissing ws us = ws ++ ext.map some
      ∧ (∀ u ∈ ext, u ∈ us ∧ ¬ some u ∈ ws) := by
  induction us generalizing ws with
  | nil => exact ⟨[], by simp [wsAddMissing], by simp⟩
  | cons u us ih =>
    simp only [wsAddMissing]
    split
    · obtain ⟨ext, h1, h2⟩ := ih ws
      exact ⟨ext, h1, fun x hx => ⟨List.mem_cons_of_mem _ (h2 x hx).1, (h2 x hx).2⟩⟩
    · rename_i hc
      obtain ⟨ext, h1, h2⟩ := ih (wsAdd ws u)
      refine ⟨u :: ext, by rw [h1]; simp [wsAdd], ?_⟩
      intro x hx
      rcases List.mem_cons.mp hx with rfl | hx
      · exact ⟨List.mem_cons_self, by simpa [List.contains_iff_mem] using hc⟩
      · refine ⟨List.mem_cons_of_mem _ (h2 x hx).1, ?_⟩
        intro hmem
        exact (h2 x hx).2 (by simp [wsAdd, hmem])

/-- **a task that becomes pending in a commit is added at the end without disturbing existing
    numbers**: the commit only appends, and only tasks that were not in the working set -/
theorem C15_commit_adds_at_end (st : RState) (ops : List Op) :
    ∃ ext : List Nat, (commitOps st ops).ws = st.ws ++ ext.map some
      ∧ ∀ u ∈ ext, ¬ some u ∈ st.ws := by
  unfold commitOps
  split
  · exact ⟨[], by simp, by simp⟩
  · obtain ⟨ext, h1, h2⟩ := wsAddMissing_prefix st.ws (ops.filterMap addsToWs)
    exact ⟨ext, h1, fun u hu => (h2 u hu).2⟩

/-- which tasks a commit adds: those whose `status` is updated from something that is not
    pending/recurring to pending or recurring -/
theorem C15_commit_adds_iff (u : Nat) (k : String) (old v : Option String) (ts : Int) :
    addsToWs (.update u k old v ts) = some u ↔
      (k = "status" ∧ isPendingOrRecurring old = false ∧ isPendingOrRecurring v = true) := by
  simp only [addsToWs]
  split <;> simp_all

/-! non-vacuity: a prior working set with a gap, a completed task, a task deleted outright -/
example :
    let db : DB := fun u => if u = 1 then some (TaskMap.ofList [("status", "pending")])
                            else if u = 2 then some (TaskMap.ofList [("status", "completed")])
                            else if u = 4 then some (TaskMap.ofList [("status", "recurring")])
                            else if u = 5 then some (TaskMap.ofList [("status", "pending")]) else none
    rebuildSpec db false [none, some 2, none, some 3, some 1] [5, 4, 2, 1] = [none, none, none, none, some 1, some 5, some 4]
    ∧ rebuildSpec db true [none, some 2, none, some 3, some 1] [5, 4, 2, 1] = [none, some 1, some 5, some 4] := by
  decide

end Tc

namespace Tc

/-- the tasks listed in a working-set vector -/
def wsMembersL (l : List (Option Nat)) : List Nat := l.filterMap id

theorem mem_wsMembersL (l : List (Option Nat)) (u : Nat) : u ∈ wsMembersL l ↔ some u ∈ l := by
  simp [wsMembersL, List.mem_filterMap]

theorem wsMembersL_stripTrailing (l : List (Option Nat)) : wsMembersL (stripTrailing l) = wsMembersL l := by
  induction l with
  | nil => rfl
  | cons e es ih =>
    simp only [stripTrailing]
    split
    · rename_i h1
      -- the rest strips to nothing and this entry is empty: nothing is listed
      have : wsMembersL es = [] := by rw [← ih, h1]; rfl
      simp [wsMembersL, List.filterMap_cons] at this ⊢
      exact this
    · simp only [wsMembersL, List.filterMap_cons] at ih ⊢
      rw [ih]

theorem filterMap_keepWs (db : DB) (l : List (Option Nat)) :
    l.filterMap (keepWs db) = (wsMembersL l).filter (memWs db) := by
  induction l with
  | nil => rfl
  | cons e es ih =>
    cases e with
    | none => simp [wsMembersL, List.filterMap_cons, keepWs] at ih ⊢; exact ih
    | some u =>
      simp only [wsMembersL, List.filterMap_cons, keepWs, id] at ih ⊢
      by_cases h : memWs db u = true
      · simp [h, List.filter_cons, ih]
      · simp [h, List.filter_cons, ih]

/-- **no task is listed twice**: if the stored working set listed no task twice and the storage
    enumerates every task once, the rebuilt working set — in either mode — lists no task twice -/
theorem C15_no_duplicates (db : DB) (r : Bool) (old : List (Option Nat)) (all : List Nat)
    (hold : (wsMembersL old.tail).Nodup) (hall : all.Nodup) :
    (wsMembersL (rebuildSpec db r old all)).Nodup := by
  have hscan : wsMembersL (if r then (old.tail.filterMap (keepWs db)).map some
      else stripTrailing (old.tail.map (keepWs db))) = (wsMembersL old.tail).filter (memWs db) := by
    cases r
    · simp only [Bool.false_eq_true, if_false, wsMembersL_stripTrailing]
      simp only [wsMembersL, List.filterMap_map]
      have := filterMap_keepWs db old.tail
      simp only [wsMembersL] at this
      rw [← this]
      congr
    · simp only [if_true]
      simp only [wsMembersL, List.filterMap_map]
      have := filterMap_keepWs db old.tail
      simp only [wsMembersL] at this
      rw [← this]
      simp
  unfold rebuildSpec
  simp only [wsMembersL, List.filterMap_cons, id, List.filterMap_append]
  have h2 : List.filterMap id (List.map some (all.filter fun u => memWs db u && !old.tail.contains (some u)))
      = all.filter fun u => memWs db u && !old.tail.contains (some u) := by
    simp [List.filterMap_map]
  simp only [wsMembersL] at hscan
  rw [hscan, h2]
  refine List.nodup_append.mpr ⟨hold.filter _, hall.filter _, ?_⟩
  intro a ha b hb hab
  subst hab
  have h1 : some a ∈ old.tail := (mem_wsMembersL old.tail a).mp (List.mem_filter.mp ha).1
  have h3 := (List.mem_filter.mp hb).2
  simp only [Bool.and_eq_true, Bool.not_eq_true', List.contains_eq_mem, decide_eq_false_iff_not] at h3
  exact h3.2 h1

/-- "pending or recurring" — the membership test of the working set — in the model is a comparison of the
    stored string with `pending` / `recurring`; that is what the source's `Status::from_taskmap`
    (translated from `src/task/status.rs` on every run) makes of it -/
theorem C15_source_status (s : String) :
    (Src.statusFromTaskmap s = .pending ↔ s = "pending") ∧ (Src.statusFromTaskmap s = .recurring ↔ s = "recurring") :=
  ⟨(src_status_iff s).1, (src_status_iff s).2.1⟩

end Tc
