import TcVerif.Proofs.CloudCheck
/-!
# C09 — Object-store server keeps one version chain under concurrent clients

The machine of `Proofs/CloudChain.lean`: any number of clients, each step one object-store request
(`get latest`, `put v-P-N`, compare-and-swap of `latest`, `del`, a listing that reports any subset
of the children present, `get v-P-c`), interleaved arbitrarily; clients may stop at any point.
`chain` is the ghost sequence of ids whose compare-and-swap succeeded.

Tied to the code by `Proofs/CloudCheck.lean`: the request log of the real `CloudServer` under the
harness's schedules is accepted event by event by `check`, which is sound w.r.t. `Step`
(`C09_trace_reachable`), so the theorems below hold of the state the implementation actually
reached, and the values it returned are compared with the machine's ghost `acked` / `served`.
-/
namespace Tc
open Tc.Cloud

/-- **every version a client was told was accepted stays on the chain** -/
theorem C09_acked_stays_on_chain {S : Sys} (h : Reachable S) : ∀ n ∈ S.acked, n ∈ S.chain :=
  acked_stays_on_chain h

/-- **a client only ever receives versions that are on the chain**, as the child of their chain
    predecessor (or the first version), **with exactly the bytes that were submitted** for them;
    leftovers of attempts that lost the race are never served -/
theorem C09_served_only_chain {S : Sys} (h : Reachable S) :
    ∀ x ∈ S.served, x ∈ S.sub ∧ x.2.1 ∈ S.chain ∧ predOrFirst S.chain x.1 x.2.1 :=
  served_only_chain h

/-- the chain never contains an id twice, `latest` is its last element, and every element has its
    version object with the chain predecessor as parent -/
theorem C09_chain_wellformed {S : Sys} (h : Reachable S) :
    S.chain.Nodup ∧ S.latest = S.chain.getLast?
    ∧ ∀ c ∈ S.chain, ∃ o ∈ S.vers, o.child = c ∧ predOrFirst S.chain o.parent c :=
  ⟨(reachable_inv h).nodup, (reachable_inv h).latest_last, (reachable_inv h).chain_obj⟩

theorem succ_unique {l : List Nat} (hn : l.Nodup) {pre post pre' post' : List Nat} {p c c' : Nat}
    (h1 : l = pre ++ p :: c :: post) (h2 : l = pre' ++ p :: c' :: post') : c = c' := by
  induction pre generalizing l pre' with
  | nil =>
    cases pre' with
    | nil => simp only [List.nil_append] at h1 h2; rw [h1] at h2; injection h2 with _ h; injection h
    | cons a t =>
      simp only [List.nil_append, List.cons_append] at h1 h2
      rw [h1] at h2
      injection h2 with ha ht
      subst ha
      rw [h1] at hn
      have : p ∈ c :: post := by rw [ht]; simp
      exact absurd this (List.nodup_cons.mp hn).1
  | cons a t ih =>
    cases pre' with
    | nil =>
      simp only [List.nil_append, List.cons_append] at h1 h2
      rw [h2] at h1
      injection h1 with ha ht
      subst ha
      rw [h2] at hn
      have : p ∈ c' :: post' := by rw [ht]; simp
      exact absurd this (List.nodup_cons.mp hn).1
    | cons b t' =>
      simp only [List.cons_append] at h1 h2
      have hl : l = a :: (t ++ p :: c :: post) := h1
      rw [hl] at h2
      injection h2 with _ ht
      rw [hl] at hn
      exact ih (List.nodup_cons.mp hn).2 rfl ht

/-- **each parent gets at most one child on the chain**: two versions that both follow `p` on the
    chain are the same version -/
theorem C09_one_child {S : Sys} (h : Reachable S) {p c c' : Nat} {pre post pre' post' : List Nat}
    (h1 : S.chain = pre ++ p :: c :: post) (h2 : S.chain = pre' ++ p :: c' :: post') : c = c' :=
  succ_unique (reachable_inv h).nodup h1 h2

/-- **the tie to the code**: a request trace that the executable checker accepts, starting from
    the empty store, ends in a reachable state of the machine -/
theorem C09_trace_reachable {n : Nat} {evs : List Ev} {S : Sys} (h : checkAll n init evs = some S) :
    Reachable S :=
  (checkAll_reachable Reachable.init (quiet_init n) h).1

/-- non-vacuity: two clients race for the first version; the loser deletes its object; a reader
    is served the winner — a trace the checker accepts, with a non-empty chain, an ack and a served
    version -/
example : (checkAll 3 init [.avRead 0 0 7, .avRead 1 0 8, .avPut 0 1, .avPut 1 2, .avCas 1 true, .avCas 0 false,
    .gcList 2 0 [1, 2], .avDel 0, .gcLatest 2, .gcGet 2 true]).map (fun S => (S.chain, S.acked, S.served))
    = some ([2], [2], [(0, 2, 8)]) := by decide

end Tc
