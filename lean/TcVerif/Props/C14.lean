import TcVerif.Model.Json
import TcVerif.Model.JsonParse
import TcVerif.Model.Replica
import TcVerif.Proofs.JsonUuid
import TcVerif.Proofs.JsonString
import TcVerif.Proofs.JsonDoc
import TcVerif.Proofs.SrcFromOp
/-!
# C14 — What is sent to the server is the documented operation format only  *(partial)*

Theorems:
* what is sent is a function of the synchronized part of the operations only: undo points are
  dropped, order is kept, and previous values / deleted tasks' contents cannot influence a single
  character of the document (`C14_nothing_but_sync_ops`, `C14_old_values_never_leave`);
* the shape of the document (`C14_document_shape`);
* every string — any characters, control characters, quotes, backslashes, astral planes — survives
  print-then-parse, whatever follows it (`C14_string_roundtrip`).

* every 128-bit task id survives print-then-parse (`C14_uuid_roundtrip`).

* **the whole document is read back exactly** (`C14_document_roundtrip`): for every list of
  operations with 128-bit task ids and instants of the years 0000–9999 (any sub-second part), any
  property names and values, `decodeVersion (printVersion ops) = some ops` — the reader of the
  documented format (generic JSON reader, uuid reader, RFC 3339 reader) recovers precisely the
  operations that were printed, in order.  Ingredients: `C14_timestamp_roundtrip`
  (`parseTimestamp (printTimestamp ns) = some ns`; the civil-date inverse rests on the monotonicity of
  the year-of-era formula and a 400-row kernel-evaluated table), `C14_string_roundtrip`,
  `C14_uuid_roundtrip`, and the fuel of the generic reader (document length + 1 always suffices).

What stays *partial*: that serde_json/chrono/uuid print exactly `printVersion` is not a theorem about
those crates; it is checked byte for byte on every document the real code sends (judge), and the
real reader is compared with the model's reader on documents of a foreign writer (`wire` family).
-/
namespace Tc
open Json

/-- the document a replica sends for a batch of local operations -/
def sentDocument (ops : List Op) : List Char := printVersion (ops.filterMap Op.toSync)

/-- forget what must not leave the replica: previous values and deleted tasks' contents -/
def Op.scrub : Op → Op
  | .create u => .create u
  | .delete u _ => .delete u []
  | .update u k _ v ts => .update u k none v ts
  | .undoPoint => .undoPoint

theorem toSync_scrub (o : Op) : o.scrub.toSync = o.toSync := by cases o <;> rfl

/-- **previous values and deleted tasks' old contents never leave the replica**: two batches that
    differ only in those send the same document, character for character -/
theorem C14_old_values_never_leave (ops ops' : List Op) (h : ops.map Op.scrub = ops'.map Op.scrub) :
    sentDocument ops = sentDocument ops' := by
  have key : ∀ l : List Op, l.filterMap Op.toSync = (l.map Op.scrub).filterMap Op.toSync := by
    intro l
    induction l with
    | nil => rfl
    | cons o l ih => simp only [List.filterMap_cons, List.map_cons, toSync_scrub, ih]
  unfold sentDocument
  rw [key ops, key ops', h]

/-- **undo points never leave the replica, the order is the order made** -/
theorem C14_nothing_but_sync_ops (a b : List Op) :
    sentDocument (a ++ [.undoPoint] ++ b) = sentDocument (a ++ b)
    ∧ (a ++ b).filterMap Op.toSync = a.filterMap Op.toSync ++ b.filterMap Op.toSync := by
  constructor
  · have h : List.filterMap Op.toSync (Op.undoPoint :: b) = List.filterMap Op.toSync b := by
      simp [List.filterMap_cons, Op.toSync]
    simp [sentDocument, List.filterMap_append, h]
  · simp [List.filterMap_append]

/-- every operation that is not an undo point is sent -/
theorem C14_every_change_sent (o : Op) (h : o.isUndoPoint = false) : ∃ s, o.toSync = some s := by
  cases o <;> simp [Op.toSync, Op.isUndoPoint] at h ⊢

/-- **shape**: the document is `{"operations":[ … ]}` with one element per operation, each one
    of the three documented forms with exactly the documented fields -/
theorem C14_document_shape (ops : List SyncOp) :
    printVersion ops = lit "{\"operations\":[" ++ intercalate [','] (ops.map printOp) ++ lit "]}"
    ∧ (∀ u, printOp (.create u) = lit "{\"Create\":{\"uuid\":\"" ++ printUuid u ++ lit "\"}}")
    ∧ (∀ u, printOp (.delete u) = lit "{\"Delete\":{\"uuid\":\"" ++ printUuid u ++ lit "\"}}")
    ∧ (∀ u k v ts, printOp (.update u k v ts) =
        lit "{\"Update\":{\"uuid\":\"" ++ printUuid u ++ lit "\",\"property\":" ++ printString k ++
        lit ",\"value\":" ++ (match v with | none => lit "null" | some s => printString s) ++
        lit ",\"timestamp\":\"" ++ printTimestamp ts ++ lit "\"}}") :=
  ⟨rfl, fun _ => rfl, fun _ => rfl, fun _ _ _ _ => rfl⟩

/-! ## strings -/

/-- **every string survives print-then-parse**, whatever characters it contains and whatever
    follows the closing quote -/
theorem C14_string_roundtrip (s rest : List Char) :
    parseBody (printBody s ++ '"' :: rest) = some (s, rest) := by
  induction s with
  | nil => simp [printBody, parseBody]
  | cons c s ih =>
    have : printBody (c :: s) ++ '"' :: rest = escChar c ++ (printBody s ++ '"' :: rest) := by
      simp [printBody]
    rw [this, parseBody_esc, ih]
    rfl

/-- and so does a printed string literal as a JSON value -/
theorem C14_string_value_roundtrip (s : String) (rest : List Char) (fuel : Nat) :
    parseValue (fuel + 1) (printString s ++ rest) = some (.str s.toList, rest) := by
  unfold printString parseValue
  simp only [List.cons_append, skipWs]
  have : isWs '"' = false := by decide
  simp only [this]
  have h := C14_string_roundtrip s.toList rest
  simp only [List.append_assoc, List.cons_append, List.nil_append] at h ⊢
  simp [h]

/-- **every task id survives print-then-parse**: the uuid reader reads back what the uuid printer
    printed, for every 128-bit value -/
theorem C14_uuid_roundtrip (u : Nat) (hu : u < 2 ^ 128) : parseUuid (printUuid u) = some u :=
  parseUuid_printUuid u hu

/-- non-vacuity / sanity: a concrete document with awkward characters round-trips (a test, not the
    theorem that is missing) -/
example : decodeVersion (printVersion [.create 5, .update 5 "a\"b\\\n\x01" (some "😀") 1700000000123456789, .delete 5,
    .update 7 "" none (-1)]) =
    some [.create 5, .update 5 "a\"b\\\n\x01" (some "😀") 1700000000123456789, .delete 5, .update 7 "" none (-1)] := by
  decide +kernel

/-- the conversion that decides what leaves the replica is the source's `SyncOp::from_op`
    (regenerated from `src/server/op.rs` on every run): previous values and old task contents are not
    among its outputs -/
theorem C14_source_from_op (ops : List Op) : sentDocument ops = printVersion (ops.filterMap Src.fromOp) := by
  have : Src.fromOp = Op.toSync := funext src_fromOp_eq
  rw [this]; rfl

/-- **RFC 3339 timestamps survive print-then-parse**: every instant from 0000-01-01T00:00:00Z up to
    (not including) 10000-01-01T00:00:00Z, with nanosecond resolution -/
theorem C14_timestamp_roundtrip (ns : Int) (hlo : minNs ≤ ns) (hhi : ns < maxNs) :
    parseTimestamp (printTimestamp ns) = some ns :=
  parseTimestamp_printTimestamp ns hlo hhi

/-- **the documented format is read back exactly**: the reader of the documented format applied to
    the document a replica sends recovers precisely the operations sent, in order (`wfOp`: task ids
    are 128-bit values, timestamps lie in the years 0000–9999) -/
theorem C14_document_roundtrip (ops : List SyncOp) (h : ∀ o ∈ ops, wfOp o) :
    decodeVersion (printVersion ops) = some ops :=
  decodeVersion_printVersion ops h

/-- … and therefore for what a replica sends for any batch of local operations -/
theorem C14_sent_document_decodes (ops : List Op) (h : ∀ o ∈ ops.filterMap Op.toSync, wfOp o) :
    decodeVersion (sentDocument ops) = some (ops.filterMap Op.toSync) :=
  decodeVersion_printVersion _ h

/-- non-vacuity: the hypotheses are met by ordinary operations (an update at 2023-11-14T22:13:20.5Z) -/
example : wfOp (.update 5 "k" (some "v") 1700000000500000000) ∧ wfOp (.create (2 ^ 128 - 1)) := by
  unfold wfOp minNs maxNs; omega

end Tc
