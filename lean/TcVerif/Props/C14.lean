import TcVerif.Model.Json
import TcVerif.Model.JsonParse
import TcVerif.Model.Replica
import TcVerif.Proofs.JsonUuid
import TcVerif.Proofs.SrcFromOp
/-!
# C14 — What is sent to the server is the documented operation format only  *(partial)*

Theorems:
* what is sent is a function of the synchronized part of the operations only: undo points are
  dropped, order is kept, and previous values / deleted tasks' contents cannot influence a single
  character of the document (`C14_nothing_but_sync_ops`, `C14_old_values_never_leave`);
* the shape of the document (`C14_document_shape`);
* every string — any characters, control characters, quotes, backslashes, astral planes — survives
  print-then-parse, whatever follows it (`C14_string_roundtrip`).

* every 128-bit task id survives print-then-parse (`C14_uuid_roundtrip`).

NOT a theorem (hence *partial*): the whole-document round trip `decodeVersion (printVersion ops) =
some ops` — the RFC 3339 timestamp printer against its parser (the civil-date inverse; `omega` did
not finish on it within 30 minutes) and the fuel of the generic JSON parser.  It is checked on every run instead: the Lean judge requires of every document the real
code sends that the model's reader decodes it to exactly the operations made and that re-printing
reproduces it character for character, and the `wire` family makes the real reader and the model's
reader agree on documents a foreign writer produces (other field orders, white space, escapes,
timestamp precisions and offsets) and on malformed ones.
-/
namespace Tc
open Json

/-- the document a replica sends for a batch of local operations -/
def sentDocument (ops : List Op) : List Char := printVersion (ops.filterMap Op.toSync)

/-- forget what must not leave the replica: previous values and deleted tasks' contents -/
def Op.scrub : Op → Op
  | .create u => .create u
  | .delete u _ => .delete u []
  | .update u k _ v ts => .update u k none v ts
  | .undoPoint => .undoPoint

theorem toSync_scrub (o : Op) : o.scrub.toSync = o.toSync := by cases o <;> rfl

/-- **previous values and deleted tasks' old contents never leave the replica**: two batches that
    differ only in those send the same document, character for character -/
theorem C14_old_values_never_leave (ops ops' : List Op) (h : ops.map Op.scrub = ops'.map Op.scrub) :
    sentDocument ops = sentDocument ops' := by
  have key : ∀ l : List Op, l.filterMap Op.toSync = (l.map Op.scrub).filterMap Op.toSync := by
    intro l
    induction l with
    | nil => rfl
    | cons o l ih => simp only [List.filterMap_cons, List.map_cons, toSync_scrub, ih]
  unfold sentDocument
  rw [key ops, key ops', h]

/-- **undo points never leave the replica, the order is the order made** -/
theorem C14_nothing_but_sync_ops (a b : List Op) :
    sentDocument (a ++ [.undoPoint] ++ b) = sentDocument (a ++ b)
    ∧ (a ++ b).filterMap Op.toSync = a.filterMap Op.toSync ++ b.filterMap Op.toSync := by
  constructor
  · have h : List.filterMap Op.toSync (Op.undoPoint :: b) = List.filterMap Op.toSync b := by
      simp [List.filterMap_cons, Op.toSync]
    simp [sentDocument, List.filterMap_append, h]
  · simp [List.filterMap_append]

/-- every operation that is not an undo point is sent -/
theorem C14_every_change_sent (o : Op) (h : o.isUndoPoint = false) : ∃ s, o.toSync = some s := by
  cases o <;> simp [Op.toSync, Op.isUndoPoint] at h ⊢

/-- **shape**: the document is `{"operations":[ … ]}` with one element per operation, each one
    of the three documented forms with exactly the documented fields -/
theorem C14_document_shape (ops : List SyncOp) :
    printVersion ops = lit "{\"operations\":[" ++ intercalate [','] (ops.map printOp) ++ lit "]}"
    ∧ (∀ u, printOp (.create u) = lit "{\"Create\":{\"uuid\":\"" ++ printUuid u ++ lit "\"}}")
    ∧ (∀ u, printOp (.delete u) = lit "{\"Delete\":{\"uuid\":\"" ++ printUuid u ++ lit "\"}}")
    ∧ (∀ u k v ts, printOp (.update u k v ts) =
        lit "{\"Update\":{\"uuid\":\"" ++ printUuid u ++ lit "\",\"property\":" ++ printString k ++
        lit ",\"value\":" ++ (match v with | none => lit "null" | some s => printString s) ++
        lit ",\"timestamp\":\"" ++ printTimestamp ts ++ lit "\"}}") :=
  ⟨rfl, fun _ => rfl, fun _ => rfl, fun _ _ _ _ => rfl⟩

/-! ## strings -/

theorem parseBody_plain (c : Char) (tail : List Char) (h1 : c ≠ '"') (h2 : c ≠ '\\')
    (h3 : ¬ c.toNat < 0x20) :
    parseBody (c :: tail) = (parseBody tail).map (fun (s, r) => (c :: s, r)) := by
  conv => lhs; unfold parseBody
  split <;> simp_all
  omega

theorem hexVal_hexDigitChar : ∀ k : Fin 16, hexVal (hexDigitChar k.val) = some k.val := by decide

theorem hexVal_zero : hexVal '0' = some 0 := by decide

theorem parseBody_u00 (c : Char) (tail : List Char) (hlt : c.toNat < 0x20) :
    parseBody ('\\' :: 'u' :: '0' :: '0' :: hexDigitChar (c.toNat / 16) :: hexDigitChar (c.toNat % 16) :: tail)
      = (parseBody tail).map (fun (s, r) => (c :: s, r)) := by
  have h16 : c.toNat / 16 < 16 := by omega
  have hm : c.toNat % 16 < 16 := by omega
  have e1 := hexVal_hexDigitChar ⟨c.toNat / 16, h16⟩
  have e2 := hexVal_hexDigitChar ⟨c.toNat % 16, hm⟩
  simp only at e1 e2
  have hn : ((0 * 16 + 0) * 16 + c.toNat / 16) * 16 + c.toNat % 16 = c.toNat := by omega
  conv => lhs; unfold parseBody
  simp only [hex4, hexVal_zero, e1, e2, hn]
  have hs1 : ¬ (0xD800 ≤ c.toNat ∧ c.toNat ≤ 0xDBFF) := by omega
  have hs2 : ¬ (0xDC00 ≤ c.toNat ∧ c.toNat ≤ 0xDFFF) := by omega
  simp only [hs1, hs2, if_false, Char.ofNat_toNat]

/-- parsing what `escChar c` printed yields `c` again, whatever follows -/
theorem parseBody_esc (c : Char) (tail : List Char) :
    parseBody (escChar c ++ tail) = (parseBody tail).map (fun (s, r) => (c :: s, r)) := by
  unfold escChar
  split
  · subst_vars; conv => lhs; simp only [List.cons_append, List.nil_append]; unfold parseBody
    simp
  · split
    · subst_vars; conv => lhs; simp only [List.cons_append, List.nil_append]; unfold parseBody
      simp
    · split
      · subst_vars; conv => lhs; simp only [List.cons_append, List.nil_append]; unfold parseBody
        simp
      · split
        · subst_vars; conv => lhs; simp only [List.cons_append, List.nil_append]; unfold parseBody
          simp
        · split
          · subst_vars; conv => lhs; simp only [List.cons_append, List.nil_append]; unfold parseBody
            simp
          · split
            · subst_vars; conv => lhs; simp only [List.cons_append, List.nil_append]; unfold parseBody
              simp
            · split
              · subst_vars; conv => lhs; simp only [List.cons_append, List.nil_append]; unfold parseBody
                simp
              · split
                · rename_i hlt
                  simpa using parseBody_u00 c tail hlt
                · rename_i h1 h2 _ _ _ _ _ h3
                  simpa using parseBody_plain c tail h1 h2 h3

/-- **every string survives print-then-parse**, whatever characters it contains and whatever
    follows the closing quote -/
theorem C14_string_roundtrip (s rest : List Char) :
    parseBody (printBody s ++ '"' :: rest) = some (s, rest) := by
  induction s with
  | nil => simp [printBody, parseBody]
  | cons c s ih =>
    have : printBody (c :: s) ++ '"' :: rest = escChar c ++ (printBody s ++ '"' :: rest) := by
      simp [printBody]
    rw [this, parseBody_esc, ih]
    rfl

/-- and so does a printed string literal as a JSON value -/
theorem C14_string_value_roundtrip (s : String) (rest : List Char) (fuel : Nat) :
    parseValue (fuel + 1) (printString s ++ rest) = some (.str s.toList, rest) := by
  unfold printString parseValue
  simp only [List.cons_append, skipWs]
  have : isWs '"' = false := by decide
  simp only [this]
  have h := C14_string_roundtrip s.toList rest
  simp only [List.append_assoc, List.cons_append, List.nil_append] at h ⊢
  simp [h]

/-- **every task id survives print-then-parse**: the uuid reader reads back what the uuid printer
    printed, for every 128-bit value -/
theorem C14_uuid_roundtrip (u : Nat) (hu : u < 2 ^ 128) : parseUuid (printUuid u) = some u :=
  parseUuid_printUuid u hu

/-- non-vacuity / sanity: a concrete document with awkward characters round-trips (a test, not the
    theorem that is missing) -/
example : decodeVersion (printVersion [.create 5, .update 5 "a\"b\\\n\x01" (some "😀") 1700000000123456789, .delete 5,
    .update 7 "" none (-1)]) =
    some [.create 5, .update 5 "a\"b\\\n\x01" (some "😀") 1700000000123456789, .delete 5, .update 7 "" none (-1)] := by
  decide +kernel

/-- the conversion that decides what leaves the replica is the source's `SyncOp::from_op`
    (regenerated from `src/server/op.rs` on every run): previous values and old task contents are not
    among its outputs -/
theorem C14_source_from_op (ops : List Op) : sentDocument ops = printVersion (ops.filterMap Src.fromOp) := by
  have : Src.fromOp = Op.toSync := funext src_fromOp_eq
  rw [this]; rfl

end Tc
