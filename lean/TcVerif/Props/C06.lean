import TcVerif.Model.Replica
/-!
# C06 — The SQLite replica store is crash-atomic and durable  *(partial, with a known finding)*

What can be a theorem here is the structure: a storage transaction either commits everything it
did or nothing (`Txn`), and a replica action is a fixed sequence of such transactions, so the
states a crash can leave are exactly the states between its transactions
(`C06_interrupted_action_states`).  Actions that are ONE transaction — `commit_operations`,
`rebuild_working_set`, the operation half of undo and sync — are therefore atomic
(`C06_single_transaction_atomic`).  Undo and sync are TWO transactions (the operations, then the
working-set rebuild), and the state in between is neither the before- nor the after-state
(`C06_undo_is_two_transactions`, a concrete witness) — that is finding F22, reproduced on the real
code by the run, recorded in known_findings.json.

That SQLite really behaves like `Txn` — a dropped, failed or killed transaction leaves no trace, a
committed one survives a reopen and a SIGKILL — is not provable in Lean; it is what the run checks:
every replica action is interrupted at every storage call index (error injected, transaction
abandoned, database reopened through a fresh handle) and by SIGKILL of a child process at random
instants, and the reopened contents must be the model's before-, after- or (for the two
two-transaction actions) in-between state, all acknowledged actions present.
-/
namespace Tc

/-- a storage transaction over a state of type `α`: work is done on a private copy, and only
    `commit` publishes it -/
structure Txn (α : Type) where
  committed : α
  working : α

def Txn.begin {α} (db : α) : Txn α := { committed := db, working := db }
def Txn.call {α} (t : Txn α) (f : α → α) : Txn α := { t with working := f t.working }
/-- how a transaction can end -/
inductive TxnEnd where | commit | dropped | error | killed
def Txn.finish {α} (t : Txn α) : TxnEnd → α
  | .commit => t.working
  | _ => t.committed

/-- **work that is not committed is never visible**, whatever was done and however the
    transaction ended -/
theorem C06_uncommitted_invisible {α} (db : α) (calls : List (α → α)) (e : TxnEnd) (he : e ≠ .commit) :
    ((calls.foldl Txn.call (Txn.begin db)).finish e) = db := by
  have : ∀ (t : Txn α), (calls.foldl Txn.call t).committed = t.committed := by
    induction calls with
    | nil => intro t; rfl
    | cons f fs ih => intro t; simp only [List.foldl_cons]; rw [ih]; rfl
  cases e <;> simp_all [Txn.finish, Txn.begin]

/-- **committed work is entirely visible** -/
theorem C06_committed_visible {α} (db : α) (calls : List (α → α)) :
    ((calls.foldl Txn.call (Txn.begin db)).finish .commit) = calls.foldl (fun s f => f s) db := by
  have : ∀ (t : Txn α), (calls.foldl Txn.call t).working = calls.foldl (fun s f => f s) t.working := by
    induction calls with
    | nil => intro t; rfl
    | cons f fs ih => intro t; simp only [List.foldl_cons]; rw [ih]; rfl
  simp [Txn.finish, Txn.begin, this]

/-- a replica action: transactions run one after the other, each given as its net effect -/
def runAction {α} (db : α) (txns : List (α → α)) : α := txns.foldl (fun s t => t s) db

/-- an action interrupted inside its `i`-th transaction (0-based): the first `i` committed -/
def interruptedAt {α} (db : α) (txns : List (α → α)) (i : Nat) : α := runAction db (txns.take i)

/-- the states an interruption can leave are exactly the states between the transactions -/
theorem C06_interrupted_action_states {α} (db : α) (txns : List (α → α)) (i : Nat) :
    ∃ k, k ≤ txns.length ∧ interruptedAt db txns i = runAction db (txns.take k) :=
  ⟨min i txns.length, Nat.min_le_right _ _, by simp [interruptedAt, List.take_eq_take_min]⟩

/-- **an action that is one transaction is atomic**: interrupted anywhere, the database holds
    the complete before-state; completed, the complete after-state -/
theorem C06_single_transaction_atomic {α} (db : α) (t : α → α) (i : Nat) :
    interruptedAt db [t] i = db ∨ interruptedAt db [t] i = runAction db [t] := by
  cases i with
  | zero => left; rfl
  | succ n => right; simp [interruptedAt]

/-- the replica's actions as transactions of the model -/
def commitAction (ops : List Op) : List (RState → RState) := [fun st => commitOps st ops]
def rebuildAction (renumber : Bool) (all : List Nat) : List (RState → RState) := [fun st => rebuildWs st renumber all]
def undoAction (undo : List Op) (all : List Nat) : List (RState → RState) :=
  [fun st => match commitReversed st undo with | .done st' _ => st' | .error => st,
   fun st => rebuildWs st false all]

theorem C06_commit_atomic (st : RState) (ops : List Op) (i : Nat) :
    interruptedAt st (commitAction ops) i = st ∨ interruptedAt st (commitAction ops) i = commitOps st ops :=
  C06_single_transaction_atomic st _ i

theorem C06_rebuild_atomic (st : RState) (r : Bool) (all : List Nat) (i : Nat) :
    interruptedAt st (rebuildAction r all) i = st ∨ interruptedAt st (rebuildAction r all) i = rebuildWs st r all :=
  C06_single_transaction_atomic st _ i

/-- **finding F22 as a theorem about the model the run agrees with**: undo is two transactions;
    there is a state (a pending task, created and set pending after an undo point) in which an
    interruption between them leaves the tasks of the after-state with the working set of the
    before-state — neither the complete before- nor the complete after-state.  (Compared on the
    working set and the number of stored operations, which are data.) -/
theorem C06_undo_is_two_transactions :
    let st0 := commitOps RState.empty [.undoPoint, .create 1, .update 1 "status" none (some "pending") 0]
    let undo := getUndoOps st0
    let mid := interruptedAt st0 (undoAction undo []) 1
    let after := runAction st0 (undoAction undo [])
    (mid.ws ≠ after.ws) ∧ (mid.ops.length ≠ st0.ops.length) := by
  decide

end Tc
