import TcVerif.Model.Chain
/-!
# C08 — Every server backend implements the version-chain protocol exactly  *(partial)*

`ChainSpec` and its laws are theorems.  That each real backend (local SQLite, git, object store,
HTTP client + conformant server) *is* a `ChainSpec` — for one and several handles, all byte
strings, across reopen — is what the correspondence run checks call by call; the object store's
concurrent behaviour is C09's machine.  The git and HTTP legs rest on git's and the transport's
behaviour (trusted).
-/
namespace Tc

/-- ids are unique, never 0, and never used as a parent before they exist; every version after the
    first has its predecessor as parent — "one chain" -/
def ChainOk : List (Nat × Nat × String) → Prop
  | [] => True
  | [_] => True
  | a :: b :: rest => b.2.1 = a.1 ∧ ChainOk (b :: rest)

def idsOf (l : List (Nat × Nat × String)) : List Nat := l.map (·.1)
def parentsOf (l : List (Nat × Nat × String)) : List Nat := l.map (·.2.1)

/-- what "the server invents a new id" means: not an existing id, not an existing parent, not nil -/
def Fresh (s : ChainSrv) (p id : Nat) : Prop :=
  id ≠ 0 ∧ id ≠ p ∧ id ∉ idsOf s.versions ∧ id ∉ parentsOf s.versions

theorem chainOk_append (l : List (Nat × Nat × String)) (v : Nat × Nat × String)
    (h : ChainOk l) (hp : ∀ a, l.getLast? = some a → v.2.1 = a.1) : ChainOk (l ++ [v]) := by
  induction l with
  | nil => trivial
  | cons a rest ih =>
    cases rest with
    | nil => exact ⟨hp a rfl, trivial⟩
    | cons b rest' =>
      obtain ⟨h1, h2⟩ := h
      refine ⟨h1, ?_⟩
      apply ih h2
      intro x hx
      apply hp x
      simpa using hx

/-- **the chain invariant is preserved by every add_version** -/
theorem C08_chain_invariant (s : ChainSrv) (p : Nat) (b : String) (id : Nat) (h : ChainOk s.versions) :
    ChainOk (s.addVersion p b id).1.versions := by
  unfold ChainSrv.addVersion
  split
  · rename_i hc
    apply chainOk_append _ _ h
    intro a ha
    rcases hc with hc | hc
    · rw [hc] at ha; cases ha
    · simp only [ChainSrv.latest, ha, Option.map_some, Option.getD_some] at hc
      exact hc
  · exact h

/-- **a rejected version changes nothing and names the current latest** -/
theorem C08_rejected_unchanged (s : ChainSrv) (p : Nat) (b : String) (id : Nat)
    (hne : s.versions ≠ []) (hp : p ≠ s.latest) :
    s.addVersion p b id = (s, .expected s.latest) := by
  unfold ChainSrv.addVersion
  simp [hne, hp]

/-- **accepted iff parent is the latest (any parent when there is no version)** -/
theorem C08_accept_iff (s : ChainSrv) (p : Nat) (b : String) (id : Nat) :
    (s.addVersion p b id).2 = .ok id ↔ (s.versions = [] ∨ p = s.latest) := by
  unfold ChainSrv.addVersion
  split <;> simp_all

/-- parents are pairwise distinct in a well-formed chain built with fresh ids: at most one child
    per parent.  Stated as: the accepted version is what `get_child_version` of its parent returns,
    byte for byte, now and after any later accepted version. -/
theorem find_append_left (l : List (Nat × Nat × String)) (v x : Nat × Nat × String) (p : Nat)
    (h : l.find? (fun w => w.2.1 == p) = some x) : (l ++ [v]).find? (fun w => w.2.1 == p) = some x := by
  rw [List.find?_append, h]; rfl

theorem C08_child_bytes_exact (s : ChainSrv) (p : Nat) (b : String) (id : Nat)
    (hacc : s.versions = [] ∨ p = s.latest) (hnew : p ∉ parentsOf s.versions) :
    (s.addVersion p b id).1.getChild p = some (id, p, b) := by
  unfold ChainSrv.addVersion ChainSrv.getChild
  simp only [hacc, if_true]
  rw [List.find?_append]
  have : s.versions.find? (fun v => v.2.1 == p) = none := by
    rw [List.find?_eq_none]
    intro x hx hb
    apply hnew
    simp only [parentsOf, List.mem_map]
    exact ⟨x, hx, by simpa using hb⟩
  simp [this]

/-- later versions do not disturb what an earlier parent's child is -/
theorem C08_child_stable (s : ChainSrv) (q p : Nat) (b : String) (id : Nat) (x : Nat × Nat × String)
    (h : s.getChild q = some x) : (s.addVersion p b id).1.getChild q = some x := by
  unfold ChainSrv.addVersion
  split
  · exact find_append_left _ _ _ _ h
  · exact h

/-- **an unknown parent yields "no such version"** -/
theorem C08_unknown_parent_none (s : ChainSrv) (q : Nat) (h : q ∉ parentsOf s.versions) :
    s.getChild q = none := by
  unfold ChainSrv.getChild
  rw [List.find?_eq_none]
  intro x hx hb
  apply h
  simp only [parentsOf, List.mem_map]
  exact ⟨x, hx, by simpa using hb⟩

/-- the latest version has no child yet (so a replica at the tip is told "no such version") -/
theorem C08_latest_has_no_child (s : ChainSrv) (p : Nat) (b : String) (id : Nat)
    (hf : Fresh s p id) (hacc : s.versions = [] ∨ p = s.latest) :
    (s.addVersion p b id).1.getChild id = none := by
  apply C08_unknown_parent_none
  unfold ChainSrv.addVersion
  simp only [hacc, if_true, parentsOf, List.map_append, List.map_cons, List.map_nil, List.mem_append,
    List.mem_singleton, not_or]
  exact ⟨hf.2.2.2, hf.2.1⟩

/-- a stored snapshot is returned intact with the version it was stored for -/
theorem C08_snapshot_intact (s : ChainSrv) (v : Nat) (b : String) :
    (v, b) ∈ (s.addSnapshot v b).snapshots ∧ (s.addSnapshot v b).versions = s.versions := by
  simp [ChainSrv.addSnapshot]

end Tc
