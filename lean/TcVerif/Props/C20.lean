import TcVerif.Props.C05
import TcVerif.Props.C03
import TcVerif.Proofs.SrcStatus
/-!
# C20 — Expiration purges exactly the long-deleted tasks, everywhere

Model: `expired now t` (the filter of `Replica::expire_tasks`, with `now` a parameter — the wall
clock cannot be injected), the purge = one commit of `Delete` operations for the expired tasks.
`Facts.expiryDays` is extracted from the source on every run.
-/
namespace Tc

/-- the constant in the source is the documented 180 days -/
theorem C20_expiry_days : Facts.expiryDays = 180 := by decide

/-- **the predicate, spelled out**: a task is expired iff its status is `deleted`, its `modified`
    property reads as an integer (Rust `i64::from_str`) in chrono's range, and that time is more
    than `expiryDays` days before `now` -/
theorem C20_predicate (now : Int) (t : TaskMap) :
    expired now t = true ↔
      t "status" = some "deleted" ∧
      ∃ m s, t "modified" = some m ∧ parseI64 m = some s ∧ chronoRange s = true ∧
        s * 1000000000 < now - (Facts.expiryDays : Int) * 86400 * 1000000000 := by
  unfold expired
  constructor
  · intro h
    simp only [Bool.and_eq_true, beq_iff_eq] at h
    obtain ⟨hs, hm⟩ := h
    refine ⟨hs, ?_⟩
    cases hmod : t "modified" with
    | none => simp [hmod] at hm
    | some m =>
      simp only [hmod] at hm
      cases hp : parseI64 m with
      | none => simp [hp] at hm
      | some s =>
        simp only [hp, Bool.and_eq_true, decide_eq_true_eq] at hm
        exact ⟨m, s, rfl, hp, hm.1, hm.2⟩
  · rintro ⟨hs, m, s, hm, hp, hr, hlt⟩
    simp [hs, hm, hp, hr, hlt]

/-- pending, completed, recurring … tasks are never expired, whatever their modification time -/
theorem C20_other_status_kept (now : Int) (t : TaskMap) (h : t "status" ≠ some "deleted") :
    expired now t = false := by
  cases he : expired now t with
  | false => rfl
  | true => exact absurd ((C20_predicate now t).mp he).1 h

/-- a missing or unreadable modification time keeps the task -/
theorem C20_unreadable_kept (now : Int) (t : TaskMap)
    (h : t "modified" = none ∨ ∃ m, t "modified" = some m ∧ parseI64 m = none) :
    expired now t = false := by
  cases he : expired now t with
  | false => rfl
  | true =>
    obtain ⟨_, m, s, hm, hp, _, _⟩ := (C20_predicate now t).mp he
    rcases h with h | ⟨m', hm', hp'⟩
    · rw [h] at hm; cases hm
    · rw [hm'] at hm; cases hm; rw [hp'] at hp; cases hp

/-- a recently modified (or future) deleted task is kept -/
theorem C20_recent_kept (now : Int) (t : TaskMap) (m : String) (s : Int)
    (hm : t "modified" = some m) (hp : parseI64 m = some s)
    (h : now - (Facts.expiryDays : Int) * 86400 * 1000000000 ≤ s * 1000000000) :
    expired now t = false := by
  cases he : expired now t with
  | false => rfl
  | true =>
    obtain ⟨_, m', s', hm', hp', _, hlt⟩ := (C20_predicate now t).mp he
    rw [hm] at hm'; cases hm'; rw [hp] at hp'; cases hp'; omega

/-- the purge: one `Delete` per expired task, committed like any other batch -/
def expireOps (db : DB) (order : List Nat) (olds : Nat → List (String × String)) : List Op :=
  order.map fun u => Op.delete u (olds u)

theorem foldl_delete (db : DB) (order : List Nat) (olds : Nat → List (String × String)) (u : Nat) :
    (order.map fun w => Op.delete w (olds w)).foldl applyLocal db u
      = if u ∈ order then none else db u := by
  induction order generalizing db with
  | nil => simp
  | cons w ws ih =>
    simp only [List.map_cons, List.foldl_cons, ih, applyLocal_delete, List.mem_cons]
    by_cases hw : u ∈ ws
    · simp [hw]
    · by_cases huw : u = w
      · subst huw; simp [hw]
      · simp [hw, huw, setTask_get_ne _ _ _ _ huw]

/-- **expire removes precisely the expired tasks and nothing else**: if `order` enumerates the
    tasks satisfying the predicate, the commit of the purge deletes exactly those and leaves every
    other task exactly as it was; the deletions are recorded as ordinary unsynchronized operations -/
theorem C20_expire_exact (now : Int) (st : RState) (order : List Nat) (olds : Nat → List (String × String))
    (hord : ∀ u, u ∈ order ↔ ∃ t, st.tasks u = some t ∧ expired now t = true) :
    let st' := commitOps st (expireOps st.tasks order olds)
    (∀ u, st'.tasks u = (match st.tasks u with
                          | some t => if expired now t then none else some t
                          | none => none))
    ∧ st'.unsynced = st.unsynced ++ expireOps st.tasks order olds := by
  refine ⟨?_, C05_logged_in_order st _⟩
  intro u
  rw [C05_batch_equals_one_at_a_time]
  unfold expireOps
  rw [foldl_delete]
  cases hd : st.tasks u with
  | none =>
    have : ¬ u ∈ order := by
      intro h; obtain ⟨t, ht, _⟩ := (hord u).mp h; rw [hd] at ht; cases ht
    simp [this]
  | some t =>
    by_cases he : expired now t = true
    · have : u ∈ order := (hord u).mpr ⟨t, hd, he⟩
      simp [this, he]
    · have : ¬ u ∈ order := by
        intro h; obtain ⟨t', ht', he'⟩ := (hord u).mp h; rw [hd] at ht'; cases ht'; exact he he'
      simp [this, he]

/-- **the purge synchronizes and a concurrent edit elsewhere does not bring the task back**: the
    deletion meets a concurrent update of the same task; in both sync orders the task is gone -/
theorem C20_expiry_propagates (S : DB) (u : Nat) (k : String) (v : Option String) (ts : Int) :
    merged S (.delete u) (.update u k v ts) u = none ∧ merged S (.update u k v ts) (.delete u) u = none :=
  C03_delete_beats_update S u k v ts

/-- "status is deleted" in the model is a comparison of the stored string with `deleted`; that is what
    the source's `Status::from_taskmap` (translated on every run) makes of it -/
theorem C20_source_status (s : String) : Src.statusFromTaskmap s = .deleted ↔ s = "deleted" :=
  (src_status_iff s).2.2.1

end Tc
