import TcVerif.Model.Task
import TcVerif.Props.C15
/-!
# C18 — Reading tasks never panics, whatever the stored data

The read accessors of the model (`Model/Task`) are total functions of an arbitrary finite map of
strings; what the Rust code does that *could* panic is modelled explicitly here as `Outcome`:
`utc_timestamp` (chrono's `timestamp_opt(..)` not `Single` ⇒ `unreachable!`) and the
`assert!` of `WorkingSet::new`.  After repair F10 the accessors check the range first.
-/
namespace Tc

inductive Outcome (α : Type) where
  | ok (a : α)
  | panic (site : String)

/-- `task::time::utc_timestamp` -/
def utcTimestamp (s : Int) : Outcome Int :=
  if chronoRange s then .ok s else .panic "task/time.rs: unreachable!()"

/-- `Task::get_timestamp` as pinned (before repair F10): parse, then `utc_timestamp` -/
def getTimestampPinned (v : Option String) : Outcome (Option Int) :=
  match v with
  | none => .ok none
  | some v =>
    match parseI64 v with
    | none => .ok none
    | some s => match utcTimestamp s with
      | .ok t => .ok (some t)
      | .panic site => .panic site

/-- `Task::get_timestamp` after repair F10: `Utc.timestamp_opt(ts, 0).single()` -/
def getTimestamp (v : Option String) : Outcome (Option Int) := .ok (v.bind parseTimestampProp)

/-- **reads are total**: for every stored value the timestamp accessors return normally -/
theorem C18_timestamp_total (v : Option String) : ∃ r, getTimestamp v = .ok r := ⟨_, rfl⟩

/-- the model's `TaskObj.timestamp` is that accessor -/
theorem C18_timestamp_is_accessor (t : TaskObj) (k : String) :
    getTimestamp (t.map.get k) = .ok (t.timestamp k) := rfl

/-- for the record: the pinned code panicked on an astronomically large integer -/
theorem C18_pinned_counterexample :
    ∃ site, getTimestampPinned (some "99999999999999999") = .panic site := by
  refine ⟨"task/time.rs: unreachable!()", ?_⟩
  have hp : parseI64 "99999999999999999" = some 99999999999999999 := by decide
  simp [getTimestampPinned, hp, utcTimestamp, chronoRange]

/-- where the value is representable the two agree, so the repair changes nothing else -/
theorem C18_repair_conservative (v : Option String) (r : Option Int)
    (h : getTimestampPinned v = .ok r) : getTimestamp v = .ok r := by
  unfold getTimestampPinned at h
  unfold getTimestamp parseTimestampProp
  cases v with
  | none => simpa using h
  | some s =>
    simp only [Option.bind_some] at *
    cases hp : parseI64 s with
    | none => simp [hp] at h ⊢; exact h
    | some n =>
      simp only [hp, utcTimestamp] at h ⊢
      by_cases hr : chronoRange n = true
      · simp [hr] at h ⊢; exact h
      · simp [hr] at h

/-- **what cannot be interpreted is ignored**: an unparsable value reads as "not set" -/
theorem C18_uninterpretable_timestamp (t : TaskObj) (k v : String) (h : t.map.get k = some v)
    (hp : parseTimestampProp v = none) : t.timestamp k = none := by
  simp [TaskObj.timestamp, h, hp]

/-- a key that is not a well-formed tag / annotation / dependency key contributes nothing -/
theorem C18_malformed_tag_ignored (u : Nat) (m : TMap) (k v : String) (f : Bool)
    (h : (stripPrefix? "tag_" k).bind parseTag = none) :
    (TaskObj.mk u ((k, v) :: m) f).keyTags = (TaskObj.mk u m f).keyTags := by
  simp [TaskObj.keyTags, List.filterMap_cons, h]

theorem C18_malformed_annotation_ignored (u : Nat) (m : TMap) (k v : String) (f : Bool)
    (h : (stripPrefix? "annotation_" k).bind parseTimestampProp = none) :
    (TaskObj.mk u ((k, v) :: m) f).annotations = (TaskObj.mk u m f).annotations := by
  have h' : ((stripPrefix? "annotation_" k).bind parseTimestampProp).map (fun s => (s, v)) = none := by simp [h]
  simp only [TaskObj.annotations, List.filterMap_cons, h']

theorem C18_malformed_dependency_ignored (u : Nat) (m : TMap) (k v : String) (f : Bool)
    (h : (stripPrefix? "dep_" k).bind parseUuidStr = none) :
    (TaskObj.mk u ((k, v) :: m) f).dependencies = (TaskObj.mk u m f).dependencies := by
  simp [TaskObj.dependencies, List.filterMap_cons, h]

/-- unknown statuses are reported as such (never an error), a missing status reads as pending -/
theorem C18_status_total (t : TaskObj) :
    t.status = "pending" ∨ t.status = "completed" ∨ t.status = "deleted" ∨ t.status = "recurring"
    ∨ ∃ s, t.status = "unknown:" ++ s := by
  unfold TaskObj.status
  cases h : t.map.get "status" with
  | none => left; rfl
  | some s =>
    simp only
    split
    · rename_i hm
      simp only [List.contains_cons, List.contains_nil, Bool.or_false, Bool.or_eq_true, beq_iff_eq] at hm
      rcases hm with rfl | rfl | rfl | rfl <;> simp
    · right; right; right; right; exact ⟨s, rfl⟩

/-! ### `WorkingSet::new`'s `assert!(by_index.is_empty() || by_index[0].is_none())` -/

def workingSetNew (ws : List (Option Nat)) : Outcome Unit :=
  if ws.isEmpty || (ws.head? == some none) then .ok () else .panic "workingset.rs: assert!"

theorem wsNormalize_head (l : List (Option Nat)) : (wsNormalize l).head? = some (l.head?.getD none) := by
  cases l <;> simp [wsNormalize]

/-- every working-set operation of the storage contract keeps slot 0 empty, so the assertion
    cannot fire on what a storage returns -/
theorem C18_ws_slot0_invariant (ws : List (Option Nat)) (h : ws.head? = some none) :
    (wsAdd ws 7).head? = some none
    ∧ (∀ i x, 1 ≤ i → (wsSet ws i x).head? = some none)
    ∧ ([none] : List (Option Nat)).head? = some none
    ∧ ∀ db r all, (rebuildSpec db r ws all).head? = some none := by
  cases ws with
  | nil => simp at h
  | cons a rest =>
    simp only [List.head?_cons, Option.some.injEq] at h
    subst h
    refine ⟨by simp [wsAdd], ?_, rfl, by intro db r all; simp [rebuildSpec]⟩
    intro i x hi
    cases i with
    | zero => omega
    | succ i => simp [wsSet, wsNormalize]

theorem C18_ws_assert_unreachable (ws : List (Option Nat)) (h : ws.head? = some none) :
    workingSetNew ws = .ok () := by
  simp [workingSetNew, h]

end Tc
