import TcVerif.Props.C08
import TcVerif.Props.C04
import TcVerif.Proofs.CleanupStep
/-!
# C11 — A failure inside a server's add-version leaves the backend usable

Two layers.

* **Server level.**  A backend's history is a sequence of `SrvEvent`s: completed requests and
  *interrupted* ones.  An interrupted `add_version` is allowed exactly two outcomes — the version is
  on the chain as if the request had completed, or nothing changed — and likewise for
  `add_snapshot`.  Theorems: after every event sequence the chain is still one linear chain and all
  C08 laws keep holding (they are stated for every `ChainOk` state); an interrupted request never
  produces anything a completed or refused request could not have produced.  That every real
  backend (local SQLite, git local / with remote, object store), stopped at each internal step and
  re-opened, shows one of these two outcomes — the same to every handle — is what the `--crash`
  correspondence run checks: the harness records which outcome the backend shows and the model
  follows it, so any third outcome (half a version, a version visible to one clone only, a
  corrupted chain head) is a disagreement or a judge failure.

* **Replica level.**  For a replica, an interrupted `add_version` is the sync machine's `abort`
  (outcome "absent") or `pushOk` followed by `abort` (outcome "accepted").  Both are `Step`s, so
  every C01 / C02 / C04 theorem — invariant, no OutOfSync, convergence at quiescence — quantifies
  over them already; restated here for the interrupted push.
-/
namespace Tc

/-- what can happen at a server backend; `done = false` on an interrupted request means "no trace" -/
inductive SrvEvent where
  | add (p : Nat) (b : String) (id : Nat)
  | interruptedAdd (p : Nat) (b : String) (id : Nat) (done : Bool)
  | snap (v : Nat) (b : String)
  | interruptedSnap (v : Nat) (b : String) (done : Bool)

def ChainSrv.event (s : ChainSrv) : SrvEvent → ChainSrv
  | .add p b id => (s.addVersion p b id).1
  | .interruptedAdd p b id done => if done then (s.addVersion p b id).1 else s
  | .snap v b => s.addSnapshot v b
  | .interruptedSnap v b done => if done then s.addSnapshot v b else s

def ChainSrv.events (s : ChainSrv) (es : List SrvEvent) : ChainSrv := es.foldl ChainSrv.event s

/-- **all or nothing**: an interrupted add_version leaves either the state a completed call would
    have left, or the state before the call -/
theorem C11_interrupted_add_all_or_nothing (s : ChainSrv) (p : Nat) (b : String) (id : Nat) (done : Bool) :
    s.event (.interruptedAdd p b id done) = (s.addVersion p b id).1
      ∨ s.event (.interruptedAdd p b id done) = s := by
  cases done <;> simp [ChainSrv.event]

/-- an interrupted add_version never puts a version on the chain that a completed call would have
    refused: if the parent is not the latest version, nothing changes whatever the outcome -/
theorem C11_interrupted_add_respects_parent (s : ChainSrv) (p : Nat) (b : String) (id : Nat) (done : Bool)
    (hne : s.versions ≠ []) (hp : p ≠ s.latest) :
    s.event (.interruptedAdd p b id done) = s := by
  cases done
  · simp [ChainSrv.event]
  · simp [ChainSrv.event, C08_rejected_unchanged s p b id hne hp]

theorem C11_event_chainOk (s : ChainSrv) (e : SrvEvent) (h : ChainOk s.versions) :
    ChainOk (s.event e).versions := by
  cases e with
  | add p b id => exact C08_chain_invariant s p b id h
  | interruptedAdd p b id done =>
    cases done
    · simpa [ChainSrv.event] using h
    · simpa [ChainSrv.event] using C08_chain_invariant s p b id h
  | snap v b => simpa [ChainSrv.event, ChainSrv.addSnapshot] using h
  | interruptedSnap v b done =>
    cases done <;> simpa [ChainSrv.event, ChainSrv.addSnapshot] using h

/-- **the backend still satisfies the chain protocol**: after any history of completed and
    interrupted requests the versions form one linear chain — the hypothesis of every C08 law -/
theorem C11_chain_protocol_survives (es : List SrvEvent) (s : ChainSrv) (h : ChainOk s.versions) :
    ChainOk (s.events es).versions := by
  induction es generalizing s with
  | nil => exact h
  | cons e es ih => exact ih (s.event e) (C11_event_chainOk s e h)

/-- versions are only ever appended: whatever was on the chain before any history of completed
    and interrupted requests is still its prefix afterwards (an accepted version is never lost or
    altered by a later failure) -/
theorem C11_accepted_stays (es : List SrvEvent) (s : ChainSrv) :
    ∃ more, (s.events es).versions = s.versions ++ more := by
  induction es generalizing s with
  | nil => exact ⟨[], by simp [ChainSrv.events]⟩
  | cons e es ih =>
    obtain ⟨m, hm⟩ := ih (s.event e)
    have h1 : ∃ m1, (s.event e).versions = s.versions ++ m1 := by
      cases e with
      | add p b id =>
        simp only [ChainSrv.event, ChainSrv.addVersion]
        split
        · exact ⟨[(id, p, b)], rfl⟩
        · exact ⟨[], by simp⟩
      | interruptedAdd p b id done =>
        cases done
        · exact ⟨[], by simp [ChainSrv.event]⟩
        · simp only [ChainSrv.event, ChainSrv.addVersion, if_true]
          split
          · exact ⟨[(id, p, b)], rfl⟩
          · exact ⟨[], by simp⟩
      | snap v b => exact ⟨[], by simp [ChainSrv.event, ChainSrv.addSnapshot]⟩
      | interruptedSnap v b done => cases done <;> exact ⟨[], by simp [ChainSrv.event, ChainSrv.addSnapshot]⟩
    obtain ⟨m1, hm1⟩ := h1
    refine ⟨m1 ++ m, ?_⟩
    simp only [ChainSrv.events, List.foldl_cons] at hm ⊢
    rw [hm, hm1, List.append_assoc]

/-- the C08 acceptance rule right after any such history -/
theorem C11_accept_iff_after (es : List SrvEvent) (s : ChainSrv) (p : Nat) (b : String) (id : Nat) :
    (((s.events es).addVersion p b id).2 = .ok id)
      ↔ ((s.events es).versions = [] ∨ p = (s.events es).latest) :=
  C08_accept_iff (s.events es) p b id

/-! ## Replica level -/

/-- outcome "absent": the interrupted sync is an abort — a step of the machine -/
theorem C11_replica_interrupted_absent {S : Sys} (h : Reachable S) (r : Nat) (f : Flight)
    (hf : (S.reps r).fl = some f) : Reachable (S.abort r) := by
  have := Step.abort S r f hf
  exact Reachable.step h (by simpa [Sys.abort, hf] using this)

/-- after any interruption the replica's stored data satisfies the replica invariant, whatever
    the backend did with the interrupted request, and no sync is ever OutOfSync; once it has
    synchronized again with nothing left to send it holds the replay of the chain -/
theorem C11_replica_recovers {S : Sys} (h : Reachable S) (r : Nat) :
    ((S.reps r).k ≤ S.chain.length
      ∧ validL (cs S.chain (S.reps r).k) (S.reps r).L
      ∧ (S.reps r).T = applyL (cs S.chain (S.reps r).k) (S.reps r).L)
    ∧ S.err = false
    ∧ ((S.reps r).L = [] → (S.reps r).k = S.chain.length → (S.reps r).T = replay S) :=
  ⟨C04_invariant_always h r, C02_no_out_of_sync h, fun hL hk => C01_convergence h r hL hk⟩

/-! ## Object-store level

In the request-level machine of the object store (C09/C10, `Proofs/CleanupModel.lean`) a client
may stop after ANY of its requests: that is the `abandon` step.  A stopped `add_version` has
either performed its compare-and-swap (the version is on the chain) or not (at most an orphan
object is left, which `get_child_version` never serves and cleanup removes).  Every theorem about
reachable states therefore already covers every stopping point of every client. -/

theorem C11_object_store_stop_anywhere {S : Cl.Sys} (h : Cl.Reachable S) (i : Nat) :
    Cl.Reachable (Cl.setPc S i .idle)
    ∧ (∀ x ∈ (Cl.setPc S i .idle).served, x ∈ (Cl.setPc S i .idle).sub ∧ x.2.1 ∈ (Cl.setPc S i .idle).chain)
    ∧ (∀ n ∈ (Cl.setPc S i .idle).acked, n ∈ (Cl.setPc S i .idle).chain) := by
  have hr : Cl.Reachable (Cl.setPc S i .idle) := Cl.Reachable.step h (Cl.Step.abandon S i)
  exact ⟨hr, fun x hx => ⟨(Cl.served_only_chain hr x hx).1, (Cl.served_only_chain hr x hx).2.1⟩, Cl.acked_on_chain hr⟩

/-- non-vacuity: a history with an interrupted-and-accepted and an interrupted-and-absent request -/
example : (({} : ChainSrv).events [.add 0 "a" 1, .interruptedAdd 1 "b" 2 true, .interruptedAdd 2 "c" 3 false,
    .add 2 "d" 4]).versions = [(1, 0, "a"), (2, 1, "b"), (4, 2, "d")] := by decide

end Tc
