import TcVerif.Model.Crypto
/-!
# C13 — Data leaving the host is sealed, version-bound and tamper-evident  *(partial)*

Theorems about the RFC-level model of the documented scheme, for all keys, nonces, version ids and
payloads: layout, round trip, accept-only-if-the-tag-matches, rejection of short / wrong-version
input, and the documented constants (tied to the source by `Generated/Facts`).
Not provable here (trusted): that ChaCha20-Poly1305 is unforgeable / confidential, that nonces
are fresh.  That the *implementation* produces exactly this format is the correspondence check:
Lean derives the key itself and opens what Rust sealed (and vice versa), and both reject the same
tampered inputs.
-/
namespace Tc.Crypto

/-- the format byte and the application id, as extracted from the source, are 1 -/
theorem envVersion_one : UInt8.ofNat Facts.envelopeVersion = 1 := by decide
theorem appId_one : UInt8.ofNat Facts.taskAppId = 1 := by decide

theorem xorWith_length (ks : Bytes) (i : Nat) (d : Bytes) : (xorWith ks i d).length = d.length := by
  induction d generalizing i with
  | nil => rfl
  | cons b bs ih => simp [xorWith, ih]

theorem xorWith_invol (ks : Bytes) (i : Nat) (d : Bytes) : xorWith ks i (xorWith ks i d) = d := by
  induction d generalizing i with
  | nil => rfl
  | cons b bs ih =>
    simp only [xorWith, ih]
    congr 1
    rw [UInt8.xor_assoc, UInt8.xor_self, UInt8.xor_zero]

theorem chachaXor_length (key nonce : Bytes) (c : Nat) (d : Bytes) :
    (chachaXor key nonce c d).length = d.length := xorWith_length _ _ _

theorem chachaXor_invol (key nonce : Bytes) (c : Nat) (d : Bytes) :
    chachaXor key nonce c (chachaXor key nonce c d) = d := by
  unfold chachaXor
  rw [xorWith_length]
  exact xorWith_invol _ _ _

theorem natLE_length (n len : Nat) : (natLE n len).length = len := by simp [natLE]

theorem aeadTag_length (key nonce aad ct : Bytes) : (aeadTag key nonce aad ct).length = 16 := by
  simp [aeadTag, poly1305, natLE_length]

/-- RFC 8439 AEAD: opening what was sealed with the same key, nonce and AAD returns the plaintext. -/
theorem aeadOpen_seal (key nonce aad pt : Bytes) :
    aeadOpen key nonce aad (aeadSeal key nonce aad pt) = some pt := by
  unfold aeadOpen aeadSeal
  have hl : (chachaXor key nonce 1 pt ++ aeadTag key nonce aad (chachaXor key nonce 1 pt)).length
      = (chachaXor key nonce 1 pt).length + 16 := by simp [aeadTag_length]
  simp only [hl]
  have h1 : ¬ ((chachaXor key nonce 1 pt).length + 16 < 16) := by omega
  simp only [h1, if_false, Nat.add_sub_cancel]
  rw [List.take_left' rfl, List.drop_left' rfl]
  simp only [if_true, chachaXor_invol]

/-- C13: unsealing a sealed value with the same key and version id yields the original bytes,
    for every key, 12-byte nonce, version id and payload. -/
theorem unseal_seal (key nonce : Bytes) (vid : Nat) (pt : Bytes) (hn : nonce.length = 12) :
    unsealEnv key vid (sealEnv key nonce vid pt) = .ok pt := by
  unfold unsealEnv sealEnv
  simp only [envVersion_one]
  have hlen : ¬ ((1 :: (nonce ++ aeadSeal key nonce (aadOf vid) pt)).length ≤ 13) := by
    simp [aeadSeal, aeadTag_length, hn]
  simp only [hlen, if_false]
  simp only [ne_eq, not_true_eq_false, if_false]
  rw [List.take_left' hn, List.drop_left' hn, aeadOpen_seal]

/-- C13: the envelope layout — format byte 1, then the nonce, total length payload + 29. -/
theorem seal_layout (key nonce : Bytes) (vid : Nat) (pt : Bytes) (hn : nonce.length = 12) :
    (sealEnv key nonce vid pt).head? = some 1 ∧
    ((sealEnv key nonce vid pt).drop 1).take 12 = nonce ∧
    (sealEnv key nonce vid pt).length = pt.length + 29 := by
  refine ⟨by simp [sealEnv, envVersion_one], ?_, ?_⟩
  · simp [sealEnv, List.take_left' hn]
  · simp [sealEnv, aeadSeal, aeadTag_length, chachaXor_length, hn]; omega

/-- C13: the associated data is 17 bytes: the application id 1, then the 16 bytes of the version id. -/
theorem aad_layout (vid : Nat) : (aadOf vid).length = 17 ∧ (aadOf vid).head? = some 1 := by
  simp [aadOf, uuidBytes, appId_one]

/-- C13: too-short input and a wrong format byte are rejected before any decryption. -/
theorem unseal_rejects_short (key : Bytes) (vid : Nat) (env : Bytes) (h : env.length ≤ 13) :
    unsealEnv key vid env = .error .tooSmall := by simp [unsealEnv, h]

theorem unseal_rejects_version (key : Bytes) (vid : Nat) (v : UInt8) (rest : Bytes)
    (h : ¬ (v :: rest).length ≤ 13) (hv : v ≠ 1) :
    unsealEnv key vid (v :: rest) = .error (.badVersion v) := by
  unfold unsealEnv
  simp only [envVersion_one, h, if_false, ne_eq, hv, not_false_eq_true, if_true]

/-- C13: acceptance implies the tag matches the one recomputed for this key, nonce and AAD. -/
theorem unseal_accepts_only_matching_tag (key : Bytes) (vid : Nat) (v : UInt8) (rest pt : Bytes)
    (h : unsealEnv key vid (v :: rest) = .ok pt) :
    let nonce := rest.take 12
    let body := rest.drop 12
    aeadTag key nonce (aadOf vid) (body.take (body.length - 16)) = body.drop (body.length - 16) := by
  unfold unsealEnv at h
  split at h
  · cases h
  · simp only at h
    split at h
    · cases h
    · split at h
      · rename_i x heq
        unfold aeadOpen at heq
        split at heq
        · cases heq
        · simp only at heq
          split at heq
          · rename_i htag; exact htag
          · cases heq
      · cases h


/-- the documented constants are the ones in the source: PBKDF2-HMAC-SHA256 with 600000
    iterations, envelope format byte 1, application id 1, 17 bytes of associated data -/
theorem C13_facts_match_docs :
    Facts.pbkdf2Iterations = 600000 ∧ Facts.envelopeVersion = 1 ∧ Facts.taskAppId = 1 ∧ Facts.aadLen = 17 := by
  decide

end Tc.Crypto
