import TcVerif.Model.Task
import TcVerif.Proofs.SrcStatus
/-!
# C19 — Task mutators, their recorded operations and the task model agree

Model: `Model/Task` (`TaskData::update`, `Task::set_value` with the `modified` stamp,
`set_status` with the `end` rule, `start`, tags, UDAs, the dependency map).  `now` is a parameter.
-/
namespace Tc

/-! ### finite-map facts -/

theorem TMap.get_set_same (m : TMap) (k : String) (v : Option String) : (m.set k v).get k = v := by
  unfold TMap.set TMap.get
  cases v with
  | none =>
    have : (m.filter (fun x => x.1 != k)).find? (fun x => x.1 == k) = none := by
      rw [List.find?_eq_none]; intro x hx; simp at hx; simp [hx.2]
    simp [this]
  | some v =>
    have : (m.filter (fun x => x.1 != k)).find? (fun x => x.1 == k) = none := by
      rw [List.find?_eq_none]; intro x hx; simp at hx; simp [hx.2]
    simp [List.find?_append, this]

theorem find?_filter_ne (m : TMap) (k k' : String) (h : k' ≠ k) :
    (m.filter (fun x => x.1 != k)).find? (fun x => x.1 == k') = m.find? (fun x => x.1 == k') := by
  induction m with
  | nil => rfl
  | cons x xs ih =>
    by_cases hx : x.1 = k
    · have hne : ¬ x.1 = k' := fun e => h (e.symm.trans hx)
      have h1 : (x.1 != k) = false := by simp [hx]
      have h2 : (x.1 == k') = false := by simp [hne]
      rw [List.filter_cons, h1]
      simp only [Bool.false_eq_true, if_false, List.find?_cons, h2, ih]
    · have h1 : (x.1 != k) = true := by simp [hx]
      rw [List.filter_cons, h1]
      simp only [if_true, List.find?_cons]
      cases hb : (x.1 == k') <;> simp [ih]

theorem TMap.get_set_ne (m : TMap) (k k' : String) (v : Option String) (h : k' ≠ k) :
    (m.set k v).get k' = m.get k' := by
  unfold TMap.set TMap.get
  cases v with
  | none => simp [find?_filter_ne m k k' h]
  | some v =>
    rw [List.find?_append, find?_filter_ne m k k' h]
    cases hf : m.find? (fun x => x.1 == k') with
    | some p => simp
    | none =>
      have : ¬ (k == k') = true := by simpa using (Ne.symm h)
      simp [this]

/-! ### recorded operations replay to the object, with true old values -/

/-- what committing one recorded operation does to the stored map of this task -/
def applyOpT (u : Nat) (m : TMap) : Op → TMap
  | .update u' k _ v _ => if u' = u then m.set k v else m
  | _ => m

/-- every update in the list carries the value the property had just before it -/
def oldsTrue (u : Nat) : TMap → List Op → Prop
  | _, [] => True
  | m, o :: os =>
    (match o with | .update u' k old _ _ => u' = u → m.get k = old | _ => True) ∧ oldsTrue u (applyOpT u m o) os

theorem oldsTrue_append (u : Nat) (m : TMap) (a b : List Op) :
    oldsTrue u m (a ++ b) ↔ oldsTrue u m a ∧ oldsTrue u (a.foldl (applyOpT u) m) b := by
  induction a generalizing m with
  | nil => simp [oldsTrue]
  | cons x xs ih => simp only [List.cons_append, oldsTrue, List.foldl_cons, ih, and_assoc]

/-- a mutator result is *faithful*: replaying its operations on the object's previous map gives
    the object's new map, each operation carries the true old value, and all concern this task -/
def Faithful (t : TaskObj) (r : TaskObj × List Op) : Prop :=
  r.1.uuid = t.uuid ∧ r.2.foldl (applyOpT t.uuid) t.map = r.1.map ∧ oldsTrue t.uuid t.map r.2

theorem dataUpdate_faithful (t : TaskObj) (k : String) (v : Option String) (ts : Int) :
    Faithful t (t.dataUpdate k v ts) := by
  simp [Faithful, TaskObj.dataUpdate, applyOpT, oldsTrue]

theorem Faithful.trans {t : TaskObj} {r1 : TaskObj × List Op} (h1 : Faithful t r1)
    {r2 : TaskObj × List Op} (h2 : Faithful r1.1 r2) : Faithful t (r2.1, r1.2 ++ r2.2) := by
  obtain ⟨u1, m1, o1⟩ := h1
  obtain ⟨u2, m2, o2⟩ := h2
  refine ⟨u2.trans u1, ?_, ?_⟩
  · simp only [List.foldl_append, m1]; rw [← u1]; exact m2
  · rw [oldsTrue_append]; refine ⟨o1, ?_⟩; rw [m1, ← u1]; exact o2

theorem Faithful.refl (t : TaskObj) : Faithful t (t, []) := ⟨rfl, rfl, trivial⟩

theorem faithful_flag (t : TaskObj) (b : Bool) (r : TaskObj × List Op)
    (h : Faithful { t with updatedModified := b } r) : Faithful t r := h

theorem stamp_faithful (t : TaskObj) (now : Int) (k : String) : Faithful t (t.stamp now k) := by
  unfold TaskObj.stamp
  split
  · exact dataUpdate_faithful t _ _ _
  · exact Faithful.refl t

/-- **`set_value` is faithful** (with its automatic `modified` stamp) -/
theorem setValue_faithful (t : TaskObj) (now : Int) (k : String) (v : Option String) :
    Faithful t (t.setValue now k v) := by
  have h1 := stamp_faithful t now k
  have h2 : Faithful (t.stamp now k).1 ((t.stamp now k).1.touched.dataUpdate k v now) :=
    dataUpdate_faithful (t.stamp now k).1.touched k v now
  exact Faithful.trans h1 h2

theorem endStep_faithful (t : TaskObj) (now : Int) (st : String) : Faithful t (t.endStep now st) := by
  unfold TaskObj.endStep TaskObj.setTimestamp
  split
  · exact setValue_faithful t now _ _
  · split
    · exact setValue_faithful t now _ _
    · exact Faithful.refl t

theorem setStatus_faithful (t : TaskObj) (now : Int) (st : String) : Faithful t (t.setStatus now st) :=
  Faithful.trans (endStep_faithful t now st) (setValue_faithful _ now "status" (some st))

theorem start_faithful (t : TaskObj) (now : Int) : Faithful t (t.start now) := by
  unfold TaskObj.start TaskObj.setTimestamp
  split
  · exact Faithful.refl t
  · exact setValue_faithful t now "start" _

/-- **commit matches the object, for any sequence of mutator calls**: a chain of faithful steps is
    faithful — so committing everything recorded since the object was loaded turns the stored map
    into exactly the map the caller holds, and every recorded update has the true previous value. -/
inductive Mut where
  | setValue (k : String) (v : Option String)
  | setStatus (st : String)
  | start
  | dataUpdate (k : String) (v : Option String)

def Mut.run (now : Int) (t : TaskObj) : Mut → TaskObj × List Op
  | .setValue k v => t.setValue now k v
  | .setStatus st => t.setStatus now st
  | .start => t.start now
  | .dataUpdate k v => t.dataUpdate k v now

def runMuts (now : Int) (t : TaskObj) : List Mut → TaskObj × List Op
  | [] => (t, [])
  | m :: ms => let r := m.run now t; let r' := runMuts now r.1 ms; (r'.1, r.2 ++ r'.2)

theorem Mut.run_faithful (now : Int) (t : TaskObj) (m : Mut) : Faithful t (m.run now t) := by
  cases m
  · exact setValue_faithful t now _ _
  · exact setStatus_faithful t now _
  · exact start_faithful t now
  · exact dataUpdate_faithful t _ _ now

theorem C19_commit_matches_object (now : Int) (t : TaskObj) (ms : List Mut) :
    Faithful t (runMuts now t ms) := by
  induction ms generalizing t with
  | nil => exact Faithful.refl t
  | cons m ms ih => exact Faithful.trans (Mut.run_faithful now t m) (ih _)

/-! ### the model rules -/

theorem stamp_get (t : TaskObj) (now : Int) (k k' : String) (h : k' ≠ "modified") :
    (t.stamp now k).1.map.get k' = t.map.get k' := by
  unfold TaskObj.stamp
  split
  · simp [TaskObj.dataUpdate, TMap.get_set_ne _ _ _ _ h]
  · rfl

theorem setValue_get_same (t : TaskObj) (now : Int) (k : String) (v : Option String) :
    (t.setValue now k v).1.map.get k = v := by
  simp [TaskObj.setValue, TaskObj.dataUpdate, TaskObj.touched, TMap.get_set_same]

theorem setValue_get_ne (t : TaskObj) (now : Int) (k k' : String) (v : Option String)
    (h1 : k' ≠ k) (h2 : k' ≠ "modified") : (t.setValue now k v).1.map.get k' = t.map.get k' := by
  simp [TaskObj.setValue, TaskObj.dataUpdate, TaskObj.touched, TMap.get_set_ne _ _ _ _ h1, stamp_get t now k k' h2]

/-- **end rule**: completing or deleting sets `end` (to now) iff it was absent; a present `end`
    is kept; re-opening clears it -/
theorem C19_end_rule_close (t : TaskObj) (now : Int) (st : String) (h : st = "completed" ∨ st = "deleted") :
    ((t.setStatus now st).1.map.get "end") = (if t.map.has "end" then t.map.get "end" else some (natStr now)) := by
  have hne : (st == "pending" || st == "recurring") = false := by rcases h with rfl | rfl <;> decide
  have hcl : (st == "completed" || st == "deleted") = true := by rcases h with rfl | rfl <;> decide
  unfold TaskObj.setStatus
  simp only []
  rw [setValue_get_ne _ now "status" "end" _ (by decide) (by decide)]
  unfold TaskObj.endStep TaskObj.setTimestamp
  by_cases he : t.map.has "end" = true
  · simp [hne, hcl, he]
  · simp only [hne, hcl, he, Bool.false_and, Bool.false_eq_true, if_false, Bool.not_false, Bool.and_self, if_true]
    simp [setValue_get_same]

theorem C19_end_rule_reopen (t : TaskObj) (now : Int) (st : String) (h : st = "pending" ∨ st = "recurring") :
    ((t.setStatus now st).1.map.get "end") = none := by
  have hop : (st == "pending" || st == "recurring") = true := by rcases h with rfl | rfl <;> decide
  have hcl : (st == "completed" || st == "deleted") = false := by rcases h with rfl | rfl <;> decide
  unfold TaskObj.setStatus
  simp only []
  rw [setValue_get_ne _ now "status" "end" _ (by decide) (by decide)]
  unfold TaskObj.endStep TaskObj.setTimestamp
  by_cases he : t.map.has "end" = true
  · simp only [hop, he, Bool.and_self, if_true]
    simp [setValue_get_same]
  · have hnone : t.map.get "end" = none := by
      cases hg : t.map.get "end" with
      | none => rfl
      | some x => simp [TMap.has, hg] at he
    simp [hop, hcl, he, hnone]

/-- **modified is refreshed once per editing session and never when set explicitly** -/
theorem C19_modified_once (t : TaskObj) (now : Int) (k : String) (v : Option String) :
    (t.setValue now k v).1.updatedModified = true
    ∧ (t.updatedModified = true → (t.setValue now k v).2 = [.update t.uuid k (t.map.get k) v now])
    ∧ (k = "modified" → (t.setValue now k v).2 = [.update t.uuid k (t.map.get k) v now]) := by
  refine ⟨?_, ?_, ?_⟩
  · simp [TaskObj.setValue, TaskObj.dataUpdate, TaskObj.touched]
  · intro h; simp [TaskObj.setValue, TaskObj.stamp, h, TaskObj.dataUpdate, TaskObj.touched]
  · intro h; simp [TaskObj.setValue, TaskObj.stamp, h, TaskObj.dataUpdate, TaskObj.touched]

/-- **reserved names are refused, and nothing is recorded** -/
theorem C19_reserved_rejected (t : TaskObj) (now : Int) :
    (∀ s add, (match t.addTag now (.synthetic s) add with | .usage => True | .ok _ _ => False))
    ∧ (∀ k v, isKnownKey k = true → (match t.setUda now k v with | .usage => True | .ok _ _ => False)) := by
  constructor
  · intro s add; simp [TaskObj.addTag]
  · intro k v h; simp [TaskObj.setUda, h]

/-- **tags, annotations, dependencies and UDAs read back as written** (at the level of the key
    they are stored under) -/
theorem C19_read_back (t : TaskObj) (now : Int) (k : String) (v : Option String) :
    (t.setValue now k v).1.map.get k = v := setValue_get_same t now k v

theorem C19_other_keys_kept (t : TaskObj) (now : Int) (k k' : String) (v : Option String)
    (h1 : k' ≠ k) (h2 : k' ≠ "modified") : (t.setValue now k v).1.map.get k' = t.map.get k' :=
  setValue_get_ne t now k k' v h1 h2

/-- **the dependency map is exact**: (a, b) is an edge iff a is in the working set and stored,
    one of its keys is `dep_<b>` in a syntax `Uuid::parse_str` accepts, and b is stored with status
    `pending` -/
theorem C19_depmap_exact (ws : List (Option Nat)) (tasks : Nat → Option TMap) (a b : Nat) :
    (a, b) ∈ depEdges ws tasks ↔
      some a ∈ ws.drop 1 ∧ ∃ m, tasks a = some m ∧
        (∃ kv ∈ m, (stripPrefix? "dep_" kv.1).bind parseUuidStr = some b) ∧
        ∃ mb, tasks b = some mb ∧ mb.get "status" = some "pending" := by
  unfold depEdges
  simp only [List.mem_flatMap, List.mem_filterMap, id_eq, exists_eq_right]
  constructor
  · rintro ⟨a', ha', h⟩
    cases hta : tasks a' with
    | none => simp [hta] at h
    | some m =>
      simp only [hta, List.mem_filterMap] at h
      obtain ⟨b', ⟨kv, hkv, hb'⟩, h2⟩ := h
      cases htb : tasks b' with
      | none => simp [htb] at h2
      | some mb =>
        simp only [htb] at h2
        split at h2
        · rename_i hst
          simp only [Option.some.injEq, Prod.mk.injEq] at h2
          obtain ⟨rfl, rfl⟩ := h2
          exact ⟨ha', m, hta, ⟨kv, hkv, hb'⟩, mb, htb, by simpa using hst⟩
        · cases h2
  · rintro ⟨ha, m, hta, ⟨kv, hkv, hb⟩, mb, htb, hst⟩
    refine ⟨a, ha, ?_⟩
    simp only [hta, List.mem_filterMap]
    exact ⟨b, ⟨kv, hkv, hb⟩, by simp [htb, hst]⟩

/-- statuses read back as written, known or not: the source's `Status::to_taskmap ∘ from_taskmap`
    (regenerated from `src/task/status.rs` on every run) is the identity on every string -/
theorem C19_source_status_roundtrip (s : String) : Src.statusToTaskmap (Src.statusFromTaskmap s) = s :=
  src_status_roundtrip s

theorem C19_source_status_known :
    Src.statusFromTaskmap "pending" = .pending ∧ Src.statusFromTaskmap "completed" = .completed
    ∧ Src.statusFromTaskmap "deleted" = .deleted ∧ Src.statusFromTaskmap "recurring" = .recurring :=
  src_status_known

end Tc
