#!/bin/sh
# Build the framework from files on disk only (offline).
set -e
cd "$(dirname "$0")"
export CARGO_NET_OFFLINE=true
mkdir -p .work/tmp evidence replays
python3 tools/extract_facts.py
python3 tools/translate_src.py
(cd lean && lake build TcVerif tcmodel TcVerif.Tools.Audit)
(cd harness && cargo build --offline)
echo setup-ok
