import Lsp3.Sync
namespace Tc

theorem transform_self (x : SyncOp) : transform x x = (none, none) := by
  cases x <;> simp [transform]

theorem rebase1_self (x : SyncOp) (m : List SyncOp) : rebase1 (some x) (x :: m) = (none, m) := by
  simp only [rebase1, transform_self]
  cases m <;> rfl

/-- C04: a replica that meets its own already-accepted version (reply lost, or stopped before
    committing) cancels it exactly: nothing is applied locally, nothing of it is sent again, and
    what it committed afterwards (`m`) is kept as it is. -/
theorem self_cancel (l m : List SyncOp) : rebase l (l ++ m) = ([], m) := by
  induction l with
  | nil => rfl
  | cons x xs ih =>
    simp only [rebase, List.cons_append, rebase1_self, ih]

end Tc
#print axioms Tc.self_cancel
