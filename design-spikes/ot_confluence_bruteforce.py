import itertools, sys, copy
FIXED = (sys.argv[1] == 'fixed') if len(sys.argv) > 1 else True

def apply(S, o):
    S = {u: dict(t) for u, t in S.items()}
    k = o[0]
    if k == 'C':
        if o[1] not in S: S[o[1]] = {}
    elif k == 'D':
        S.pop(o[1], None)
    else:
        _, u, p, v, ts = o
        if u in S:
            if v is None: S[u].pop(p, None)
            else: S[u][p] = v
    return S
def applys(S, L):
    for o in L: S = apply(S, o)
    return S
def valid(S, o):
    if o[0] == 'C': return o[1] not in S
    return o[1] in S
def valids(S, L):
    for o in L:
        if not valid(S, o): return False
        S = apply(S, o)
    return True
def key(v): return (0, '') if v is None else (1, v)
def transform(a, b):
    ka, kb = a[0], b[0]
    if a[1] != b[1]: return (a, b)
    if ka == 'C' and kb == 'C': return (None, None)
    if ka == 'D' and kb == 'D': return (None, None)
    if ka == 'C' and kb == 'D': return (a, None)
    if ka == 'D' and kb == 'C': return (None, b)
    if ka == 'U' and kb == 'C': return (a, None)
    if ka == 'C' and kb == 'U': return (None, b)
    if ka == 'U' and kb == 'D': return (None, b)
    if ka == 'D' and kb == 'U': return (a, None)
    # U/U
    if a[2] != b[2]: return (a, b)
    if FIXED:
        xa, xb = (a[4], key(a[3])), (b[4], key(b[3]))
        if xa == xb: return (None, None)
        if xa < xb: return (None, b)
        return (a, None)
    else:
        if a[3] == b[3]: return (None, None)
        if a[4] < b[4]: return (None, b)
        return (a, None)
def rebase(V, L):
    """returns (V' to apply locally, L' new local)"""
    Vp = []
    L = list(L)
    for s in V:
        newL = []
        cur = s
        for l in L:
            if cur is not None:
                cur, l2 = transform(cur, l)
                if l2 is not None: newL.append(l2)
            else:
                newL.append(l)
        if cur is not None: Vp.append(cur)
        L = newL
    return Vp, L
def run(S, pend, order):
    n = len(pend)
    chain = []          # list of versions (op lists)
    reps = [dict(k=0, L=list(pend[i]), T=applys(S, pend[i])) for i in range(n)]
    def sync(r):
        while r['k'] < len(chain):
            V = chain[r['k']]
            Vp, r['L'] = rebase(V, r['L'])
            r['T'] = applys(r['T'], Vp)
            r['k'] += 1
        if r['L']:
            chain.append(r['L']); r['L'] = []; r['k'] += 1
    for i in order: sync(reps[i])
    for r in reps: sync(r)
    server = S
    for V in chain: server = applys(server, V)
    for r in reps:
        assert r['T'] == server, ('DIVERGED', S, pend, order, r['T'], server)
    return server

u = 't'
def oplists(S, maxlen):
    alphabet = [('C', u), ('D', u)] + [('U', u, p, v, ts) for p in ('p','q')[:NP] for v in VALS for ts in TSS]
    out = [[]]
    frontier = [[]]
    for _ in range(maxlen):
        nf = []
        for L in frontier:
            St = applys(S, L)
            for o in alphabet:
                if valid(St, o):
                    nf.append(L + [o])
        out += nf; frontier = nf
    return out

import random
NP = 1; VALS = ('a','b', None); TSS = (1,2,3)
bad = 0; tot = 0
for S in ({}, {u:{}}, {u:{'p':'a'}}):
    for maxlen, nrep in ((1,3),(2,2)):
        lists = oplists(S, maxlen)
        lists = [L for L in lists if L]
        combos = itertools.product(lists, repeat=nrep)
        for pend in combos:
            tot += 1
            results = {}
            for order in itertools.permutations(range(nrep)):
                res = run(S, pend, order)
                results[order] = repr(sorted((k, sorted(v.items(), key=lambda kv: kv[0])) for k, v in res.items()))
            if len(set(results.values())) > 1:
                bad += 1
                if bad <= 5: print('ORDER-DEPENDENT', S, pend, results)
print('mode', 'fixed' if FIXED else 'pinned', 'cases', tot, 'order-dependent', bad)
