/-! SPIKE ONLY.  Same as OtCore.lean but with the update/update rule planned for repair F15
    (total order on (timestamp, value)).  `vlt` is left opaque here with two temporary
    axioms standing for "strict total order"; in the real model it is the concrete order on
    `Option String` and those two statements are theorems — the delivered proofs contain no
    axioms.  What this file shows: tp1 / rebase1_correct go through unchanged, and
    `transform_symm` holds for ALL pairs of operations under the repaired rule. -/
/-! Spike: OT core -/
namespace Tc2

abbrev TaskMap := String → Option String
abbrev DB := Nat → Option TaskMap

inductive SyncOp where
  | create (u : Nat)
  | delete (u : Nat)
  | update (u : Nat) (k : String) (v : Option String) (ts : Int)
deriving DecidableEq, Repr

def emptyTask : TaskMap := fun _ => none

def setProp (t : TaskMap) (k : String) (v : Option String) : TaskMap :=
  fun k' => if k' = k then v else t k'

def setTask (db : DB) (u : Nat) (t : Option TaskMap) : DB :=
  fun u' => if u' = u then t else db u'

/-- tolerant application (apply_op with errors ignored) -/
def apply (db : DB) : SyncOp → DB
  | .create u => setTask db u (some ((db u).getD emptyTask))
  | .delete u => setTask db u none
  | .update u k v _ => setTask db u ((db u).map (fun t => setProp t k v))

def applyO (db : DB) : Option SyncOp → DB
  | none => db
  | some o => apply db o

def valid (db : DB) : SyncOp → Prop
  | .create u => db u = none
  | .delete u => (db u).isSome
  | .update u _ _ _ => (db u).isSome

def validO (db : DB) : Option SyncOp → Prop
  | none => True
  | some o => valid db o

/-- strict order on values used to break timestamp ties (repair F15); `none < some _` -/
opaque vlt : Option String → Option String → Bool
axiom vlt_asymm : ∀ a b, vlt a b = true → vlt b a = false
axiom vlt_total : ∀ a b, a ≠ b → vlt a b = true ∨ vlt b a = true

def transform (a b : SyncOp) : Option SyncOp × Option SyncOp :=
  match a, b with
  | .create u1, .create u2 => if u1 = u2 then (none, none) else (some a, some b)
  | .delete u1, .delete u2 => if u1 = u2 then (none, none) else (some a, some b)
  | .create u1, .delete u2 => if u1 = u2 then (some a, none) else (some a, some b)
  | .delete u1, .create u2 => if u1 = u2 then (none, some b) else (some a, some b)
  | .update u1 _ _ _, .create u2 => if u1 = u2 then (some a, none) else (some a, some b)
  | .create u1, .update u2 _ _ _ => if u1 = u2 then (none, some b) else (some a, some b)
  | .update u1 _ _ _, .delete u2 => if u1 = u2 then (none, some b) else (some a, some b)
  | .delete u1, .update u2 _ _ _ => if u1 = u2 then (some a, none) else (some a, some b)
  | .update u1 k1 v1 t1, .update u2 k2 v2 t2 =>
      if u1 = u2 ∧ k1 = k2 then
        if t1 < t2 then (none, some b)
        else if t2 < t1 then (some a, none)
        else if v1 = v2 then (none, none)
        else if vlt v1 v2 then (none, some b)
        else (some a, none)
      else (some a, some b)

@[simp] theorem setProp_setProp (t : TaskMap) (k : String) (v v' : Option String) :
    setProp (setProp t k v) k v' = setProp t k v' := by
  funext x; simp only [setProp]; split <;> rfl

theorem setProp_comm (t : TaskMap) (k k' : String) (v v' : Option String) (h : k ≠ k') :
    setProp (setProp t k v) k' v' = setProp (setProp t k' v') k v := by
  funext x; simp only [setProp]; grind

@[simp] theorem setTask_same (db : DB) (u : Nat) (a b : Option TaskMap) :
    setTask (setTask db u a) u b = setTask db u b := by
  funext x; simp only [setTask]; split <;> rfl

theorem setTask_comm (db : DB) (u u' : Nat) (a b : Option TaskMap) (h : u ≠ u') :
    setTask (setTask db u a) u' b = setTask (setTask db u' b) u a := by
  funext x; simp only [setTask]; grind

@[simp] theorem setTask_get (db : DB) (u : Nat) (a : Option TaskMap) : setTask db u a u = a := by
  simp [setTask]

theorem setTask_get_ne (db : DB) (u u' : Nat) (a : Option TaskMap) (h : u' ≠ u) :
    setTask db u a u' = db u' := by
  simp [setTask, h]

theorem setTask_self (db : DB) (u : Nat) : setTask db u (db u) = db := by
  funext x; simp only [setTask]; split <;> simp_all

def SyncOp.uuid : SyncOp → Nat
  | .create u => u | .delete u => u | .update u _ _ _ => u

/-- the effect of an op on the one task it touches -/
def SyncOp.eff : SyncOp → Option TaskMap → Option TaskMap
  | .create _ => fun t => some (t.getD emptyTask)
  | .delete _ => fun _ => none
  | .update _ k v _ => fun t => t.map (fun t => setProp t k v)

theorem apply_eq (db : DB) (o : SyncOp) : apply db o = setTask db o.uuid (o.eff (db o.uuid)) := by
  cases o <;> rfl

theorem transform_ne (a b : SyncOp) (h : a.uuid ≠ b.uuid) : transform a b = (some a, some b) := by
  cases a <;> cases b <;> simp_all [transform, SyncOp.uuid]

theorem valid_iff (db : DB) (o : SyncOp) :
    valid db o ↔ (match o with | .create _ => db o.uuid = none | _ => (db o.uuid).isSome) := by
  cases o <;> simp [valid, SyncOp.uuid]

theorem valid_apply_ne (db : DB) (a b : SyncOp) (h : a.uuid ≠ b.uuid) :
    valid (apply db a) b ↔ valid db b := by
  rw [apply_eq]
  cases b <;> simp only [valid, SyncOp.uuid] at * <;> rw [setTask_get_ne _ _ _ _ (Ne.symm h)]

theorem tp1 (db : DB) (a b : SyncOp) (ha : valid db a) (hb : valid db b) :
    applyO (apply db a) (transform a b).2 = applyO (apply db b) (transform a b).1
    ∧ validO (apply db a) (transform a b).2 ∧ validO (apply db b) (transform a b).1 := by
  by_cases hu : a.uuid = b.uuid
  · -- same task: reason about the single slot
    cases a <;> cases b <;> simp only [SyncOp.uuid] at hu <;> subst hu <;>
      simp only [transform, valid] at * <;>
      (repeat' split) <;>
      simp_all [applyO, apply, validO, valid] <;>
      (try (rcases hdb : db _ with _ | t <;> simp_all [setProp_comm]))
    all_goals (rw [setProp_comm _ _ _ _ _ (by assumption)])
  · rw [transform_ne a b hu]
    simp only [applyO, validO]
    refine ⟨?_, ?_, ?_⟩
    · simp only [apply_eq]
      rw [setTask_get_ne _ _ _ _ (Ne.symm hu), setTask_get_ne _ _ _ _ hu, setTask_comm _ _ _ _ _ hu]
    · exact (valid_apply_ne db a b hu).mpr hb
    · exact (valid_apply_ne db b a (Ne.symm hu)).mpr ha

/-- Rebase one server op over a local list (inner loop of apply_version). -/
def rebase1 : Option SyncOp → List SyncOp → Option SyncOp × List SyncOp
  | s, [] => (s, [])
  | none, l :: ls => (none, l :: ls)
  | some s, l :: ls =>
      let (s', l') := transform s l
      let (s'', ls') := rebase1 s' ls
      (s'', match l' with | some x => x :: ls' | none => ls')

def applyL (db : DB) (l : List SyncOp) : DB := l.foldl apply db

def validL : DB → List SyncOp → Prop
  | _, [] => True
  | db, o :: os => valid db o ∧ validL (apply db o) os

theorem rebase1_correct (s : Option SyncOp) (ls : List SyncOp) (db : DB)
    (hs : validO db s) (hl : validL db ls) :
    applyO (applyL db ls) (rebase1 s ls).1 = applyL (applyO db s) (rebase1 s ls).2
    ∧ validL (applyO db s) (rebase1 s ls).2 ∧ validO (applyL db ls) (rebase1 s ls).1 := by
  induction ls generalizing s db with
  | nil => cases s <;> simp [rebase1, applyL, validL, hs]
  | cons l ls ih =>
    cases s with
    | none => simp [rebase1, applyO, validO, hl]
    | some s =>
      obtain ⟨hl1, hl2⟩ := hl
      have h := tp1 db s l hs hl1
      simp only [rebase1]
      rcases htr : transform s l with ⟨s', l'⟩
      rw [htr] at h
      simp only at h
      obtain ⟨heq, hvl, hvs⟩ := h
      have ih' := ih s' (apply db l) hvs hl2
      rcases hrb : rebase1 s' ls with ⟨s'', ls'⟩
      rw [hrb] at ih'
      simp only at ih' ⊢
      obtain ⟨ih1, ih2, ih3⟩ := ih'
      have hA : applyL db (l :: ls) = applyL (apply db l) ls := rfl
      have hS : applyO db (some s) = apply db s := rfl
      rw [hA, hS]
      refine ⟨?_, ?_, ih3⟩
      · rw [ih1, ← heq]
        cases l' <;> rfl
      · rw [← heq] at ih2
        cases l' with
        | none => exact ih2
        | some x => exact ⟨hvl, ih2⟩

end Tc2



namespace Tc2

theorem transform_symm (a b : SyncOp) : transform b a = ((transform a b).2, (transform a b).1) := by
  cases a with
  | create u1 => cases b <;> simp only [transform] <;> (repeat' split) <;> simp_all
  | delete u1 => cases b <;> simp only [transform] <;> (repeat' split) <;> simp_all
  | update u1 k1 v1 t1 =>
    cases b with
    | create u2 => simp only [transform]; (repeat' split) <;> simp_all
    | delete u2 => simp only [transform]; (repeat' split) <;> simp_all
    | update u2 k2 v2 t2 =>
      simp only [transform]
      by_cases hu : u1 = u2 ∧ k1 = k2
      · obtain ⟨rfl, rfl⟩ := hu
        simp only [and_self, if_true]
        by_cases h12 : t1 < t2
        · have : ¬ t2 < t1 := by omega
          simp [h12, this]
        · by_cases h21 : t2 < t1
          · simp [h12, h21]
          · simp only [h12, h21, if_false]
            by_cases hv : v1 = v2
            · simp [hv]
            · have hv' : ¬ v2 = v1 := fun e => hv e.symm
              simp only [hv, hv', if_false]
              rcases vlt_total v1 v2 hv with h | h
              · simp [h, vlt_asymm _ _ h]
              · simp [h, vlt_asymm _ _ h]
      · have hu' : ¬ (u2 = u1 ∧ k2 = k1) := fun e => hu ⟨e.1.symm, e.2.symm⟩
        simp [hu, hu']

end Tc2
