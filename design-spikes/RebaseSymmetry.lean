import Lsp3.Tp2
/-! Spike: symmetry of rebasing under the repaired rule — rebasing `V` over `L` and `L` over `V`
    produce the same two lists (so the result of a two-replica conflict does not depend on who
    synchronises first).  Done on option-valued operations (`none` = consumed), where the grid
    of diamonds is regular. -/
namespace Tc2

def transformO : Option SyncOp → Option SyncOp → Option SyncOp × Option SyncOp
  | none, b => (none, b)
  | a, none => (a, none)
  | some a, some b => transform a b

theorem transformO_symm (a b : Option SyncOp) : transformO b a = ((transformO a b).2, (transformO a b).1) := by
  cases a <;> cases b <;> simp only [transformO]
  exact transform_symm _ _

/-- one operation through a list: (the operation afterwards, the list afterwards) -/
def row (s : Option SyncOp) : List (Option SyncOp) → Option SyncOp × List (Option SyncOp)
  | [] => (s, [])
  | l :: ls =>
      let t := transformO s l
      let r := row t.1 ls
      (r.1, t.2 :: r.2)

/-- a list through a list, row by row: (first list afterwards, second list afterwards) -/
def grid : List (Option SyncOp) → List (Option SyncOp) → List (Option SyncOp) × List (Option SyncOp)
  | [], ls => ([], ls)
  | s :: ss, ls =>
      let r := row s ls
      let g := grid ss r.2
      (r.1 :: g.1, g.2)

/-- a list through one operation, column-wise: (the list afterwards, the operation afterwards) -/
def col : List (Option SyncOp) → Option SyncOp → List (Option SyncOp) × Option SyncOp
  | [], l => ([], l)
  | s :: ss, l =>
      let t := transformO s l
      let c := col ss t.2
      (t.1 :: c.1, c.2)

theorem col_row (v : List (Option SyncOp)) (l : Option SyncOp) :
    col v l = ((row l v).2, (row l v).1) := by
  induction v generalizing l with
  | nil => rfl
  | cons s ss ih =>
    simp only [col, row, ih, transformO_symm s l]

theorem grid_nil_right (v : List (Option SyncOp)) : grid v [] = (v, []) := by
  induction v with
  | nil => rfl
  | cons s ss ih => simp [grid, row, ih]

theorem grid_cons_right (v : List (Option SyncOp)) (l : Option SyncOp) (ls : List (Option SyncOp)) :
    grid v (l :: ls) = ((grid (col v l).1 ls).1, (col v l).2 :: (grid (col v l).1 ls).2) := by
  induction v generalizing l ls with
  | nil => simp [grid, col]
  | cons s ss ih =>
    simp only [grid, row, col]
    rw [ih]

/-- rebasing is symmetric: the grid computed row by row from either side is the same -/
theorem grid_symm (v l : List (Option SyncOp)) : grid l v = ((grid v l).2, (grid v l).1) := by
  induction l generalizing v with
  | nil => simp [grid, grid_nil_right]
  | cons x xs ih =>
    rw [grid_cons_right v x xs]
    simp only [grid]
    rw [col_row v x]
    simp only []
    rw [ih]

end Tc2
#print axioms Tc2.grid_symm
