import Lsp3.OtCore
/-! Spike: the (repaired) sync loop as a small-step machine over an abstract version chain,
    interleaved at the granularity of single server requests, with aborts (faults). -/
namespace Tc

/-! ### list-level facts about apply / valid -/

theorem applyL_append (db : DB) (a b : List SyncOp) : applyL db (a ++ b) = applyL (applyL db a) b := by
  simp [applyL, List.foldl_append]

theorem validL_append (db : DB) (a b : List SyncOp) :
    validL db (a ++ b) ↔ validL db a ∧ validL (applyL db a) b := by
  induction a generalizing db with
  | nil => simp [validL, applyL]
  | cons x xs ih =>
    simp only [List.cons_append, validL, ih, applyL, List.foldl_cons]
    exact and_assoc.symm

/-- Rebase a whole server version over the local list (outer loop of `apply_version`):
    returns the server ops to apply locally and the new local list. -/
def rebase : List SyncOp → List SyncOp → List SyncOp × List SyncOp
  | [], ls => ([], ls)
  | s :: ss, ls =>
      let (s', ls') := rebase1 (some s) ls
      let (ss', ls'') := rebase ss ls'
      (match s' with | some x => x :: ss' | none => ss', ls'')

theorem rebase_correct (vs ls : List SyncOp) (db : DB) (hv : validL db vs) (hl : validL db ls) :
    applyL (applyL db ls) (rebase vs ls).1 = applyL (applyL db vs) (rebase vs ls).2
    ∧ validL (applyL db vs) (rebase vs ls).2 := by
  induction vs generalizing ls db with
  | nil => exact ⟨rfl, hl⟩
  | cons s ss ih =>
    obtain ⟨hs, hss⟩ := hv
    have h1 := rebase1_correct (some s) ls db hs hl
    simp only [rebase]
    rcases hr1 : rebase1 (some s) ls with ⟨s', ls'⟩
    rw [hr1] at h1
    obtain ⟨e1, v1, _⟩ := h1
    simp only [applyO] at e1 v1
    have h2 := ih ls' (apply db s) hss v1
    rcases hr2 : rebase ss ls' with ⟨ss', ls''⟩
    rw [hr2] at h2
    obtain ⟨e2, v2⟩ := h2
    simp only at e1 e2 v2 ⊢
    have hA : applyL db (s :: ss) = applyL (apply db s) ss := rfl
    rw [hA]
    refine ⟨?_, v2⟩
    rw [← e2, ← e1]
    cases s' <;> rfl

end Tc

namespace Tc

def emptyDB : DB := fun _ => none

/-- state of the server after its first `k` versions -/
def cs (chain : List (List SyncOp)) (k : Nat) : DB := (chain.take k).foldl applyL emptyDB

theorem cs_succ (chain : List (List SyncOp)) (k : Nat) (h : k < chain.length) :
    cs chain (k + 1) = applyL (cs chain k) chain[k] := by
  unfold cs
  rw [List.take_add_one, List.getElem?_eq_getElem h, List.foldl_append]
  rfl

theorem cs_append_le (chain : List (List SyncOp)) (v : List SyncOp) (k : Nat) (h : k ≤ chain.length) :
    cs (chain ++ [v]) k = cs chain k := by
  unfold cs
  rw [List.take_append_of_le_length h]

theorem cs_append_new (chain : List (List SyncOp)) (v : List SyncOp) :
    cs (chain ++ [v]) (chain.length + 1) = applyL (cs chain chain.length) v := by
  have h : chain.length < (chain ++ [v]).length := by simp
  rw [cs_succ _ _ h, cs_append_le _ _ _ (Nat.le_refl _)]
  congr 1
  simp

structure Flight where
  k : Nat
  L : List SyncOp
  T : DB
  requested : Option Nat
  pulled : Bool

structure Rep where
  k : Nat
  L : List SyncOp
  T : DB
  fl : Option Flight

structure Sys where
  chain : List (List SyncOp)
  reps : Nat → Rep
  err : Bool

def Flight.start (x : Rep) : Flight :=
  { k := x.k, L := x.L, T := x.T, requested := none, pulled := false }
def Flight.pull (f : Flight) (v : List SyncOp) : Flight :=
  { f with k := f.k + 1, L := (rebase v f.L).2, T := applyL f.T (rebase v f.L).1, pulled := false }
def Flight.pushed (f : Flight) (n : Nat) : Flight :=
  { f with k := f.k + 1, L := f.L.drop n, pulled := false }
def Flight.rejected (f : Flight) (p : Nat) : Flight :=
  { f with requested := some p, pulled := false }

def setRep (S : Sys) (r : Nat) (x : Rep) : Sys :=
  { S with reps := fun j => if j = r then x else S.reps j }

inductive Step : Sys → Sys → Prop where
  /-- a local commit of valid operations (only while the replica is not syncing) -/
  | commit (S : Sys) (r : Nat) (ops : List SyncOp) (h : (S.reps r).fl = none)
      (hv : validL (S.reps r).T ops) :
      Step S (setRep S r { (S.reps r) with L := (S.reps r).L ++ ops, T := applyL (S.reps r).T ops })
  | begin (S : Sys) (r : Nat) (h : (S.reps r).fl = none) :
      Step S (setRep S r { (S.reps r) with fl := some (Flight.start (S.reps r)) })
  /-- GetChildVersion answered with a version: rebase all pending ops, apply the transformed server ops -/
  | pullHit (S : Sys) (r : Nat) (f : Flight) (h : (S.reps r).fl = some f) (hk : f.k < S.chain.length) :
      Step S (setRep S r { (S.reps r) with fl := some (f.pull (S.chain[f.k]'hk)) })
  /-- GetChildVersion answered NoSuchVersion -/
  | pullMiss (S : Sys) (r : Nat) (f : Flight) (h : (S.reps r).fl = some f) (hk : ¬ f.k < S.chain.length) :
      Step S (setRep S r { (S.reps r) with fl := some { f with pulled := true } })
  /-- AddVersion accepted: the batch is any non-empty prefix of the pending list -/
  | pushOk (S : Sys) (r : Nat) (f : Flight) (n : Nat) (h : (S.reps r).fl = some f) (hp : f.pulled = true)
      (hn : 0 < n) (hn' : n ≤ f.L.length) (hk : f.k = S.chain.length) :
      Step S (setRep { S with chain := S.chain ++ [f.L.take n] } r { (S.reps r) with fl := some (f.pushed n) })
  /-- AddVersion rejected with ExpectedParentVersion(latest) -/
  | pushReject (S : Sys) (r : Nat) (f : Flight) (h : (S.reps r).fl = some f) (hp : f.pulled = true)
      (hne : f.L ≠ []) (hk : f.k ≠ S.chain.length) :
      Step S (if f.requested = some S.chain.length then { S with err := true }
              else setRep S r { (S.reps r) with fl := some (f.rejected S.chain.length) })
  /-- nothing left to send: the transaction commits -/
  | finish (S : Sys) (r : Nat) (f : Flight) (h : (S.reps r).fl = some f) (hp : f.pulled = true)
      (he : f.L = []) :
      Step S (setRep S r { k := f.k, L := [], T := f.T, fl := none })
  /-- any fault: the transaction is dropped -/
  | abort (S : Sys) (r : Nat) (f : Flight) (h : (S.reps r).fl = some f) :
      Step S (setRep S r { (S.reps r) with fl := none })

def Good (chain : List (List SyncOp)) (k : Nat) (L : List SyncOp) (T : DB) : Prop :=
  k ≤ chain.length ∧ validL (cs chain k) L ∧ T = applyL (cs chain k) L

structure Inv (S : Sys) : Prop where
  chain_valid : ∀ k (h : k < S.chain.length), validL (cs S.chain k) S.chain[k]
  rep_good : ∀ r, Good S.chain (S.reps r).k (S.reps r).L (S.reps r).T
  fl_good : ∀ r f, (S.reps r).fl = some f → Good S.chain f.k f.L f.T
  fl_req : ∀ r f p, (S.reps r).fl = some f → f.requested = some p →
      p ≤ S.chain.length ∧ (f.pulled = true → p ≤ f.k)
  no_err : S.err = false

theorem setRep_reps (S : Sys) (r : Nat) (x : Rep) (j : Nat) :
    (setRep S r x).reps j = if j = r then x else S.reps j := rfl

/-- replacing one replica's record while the chain stays the same -/
theorem inv_setRep {S : Sys} (hI : Inv S) (r : Nat) (x : Rep)
    (hg : Good S.chain x.k x.L x.T)
    (hf : ∀ f, x.fl = some f → Good S.chain f.k f.L f.T)
    (hq : ∀ f p, x.fl = some f → f.requested = some p →
      p ≤ S.chain.length ∧ (f.pulled = true → p ≤ f.k)) :
    Inv (setRep S r x) := by
  refine { chain_valid := hI.chain_valid, rep_good := ?_, fl_good := ?_, fl_req := ?_, no_err := hI.no_err }
  · intro j; rw [setRep_reps]; split
    · exact hg
    · exact hI.rep_good j
  · intro j f; rw [setRep_reps]; split
    · exact hf f
    · exact hI.fl_good j f
  · intro j f p; rw [setRep_reps]; split
    · exact hq f p
    · exact hI.fl_req j f p

theorem Good_append {chain : List (List SyncOp)} {k : Nat} {L : List SyncOp} {T : DB}
    (v : List SyncOp) (h : Good chain k L T) : Good (chain ++ [v]) k L T := by
  obtain ⟨h1, h2, h3⟩ := h
  refine ⟨by simp; omega, ?_, ?_⟩ <;> rw [cs_append_le _ _ _ h1] <;> assumption

theorem inv_step {S S' : Sys} (hI : Inv S) (hs : Step S S') : Inv S' := by
  cases hs with
  | commit r ops h hv =>
    obtain ⟨g1, g2, g3⟩ := hI.rep_good r
    apply inv_setRep hI
    · refine ⟨g1, ?_, ?_⟩
      · rw [validL_append]; exact ⟨g2, by rw [← g3]; exact hv⟩
      · show applyL (S.reps r).T ops = _
        rw [applyL_append, ← g3]
    · intro f hf; simp only [h] at hf; cases hf
    · intro f p hf; simp only [h] at hf; cases hf
  | begin r h =>
    apply inv_setRep hI
    · exact hI.rep_good r
    · intro f hf; cases hf; exact hI.rep_good r
    · intro f p hf hp; cases hf; cases hp
  | pullHit r f h hk =>
    obtain ⟨g1, g2, g3⟩ := hI.fl_good r f h
    have hv := hI.chain_valid f.k hk
    obtain ⟨e, v⟩ := rebase_correct (S.chain[f.k]) f.L (cs S.chain f.k) hv g2
    apply inv_setRep hI
    · exact hI.rep_good r
    · intro f' hf'; cases hf'
      refine ⟨hk, ?_, ?_⟩
      · show validL (cs S.chain (f.k + 1)) _
        rw [cs_succ _ _ hk]; exact v
      · show applyL f.T _ = applyL (cs S.chain (f.k + 1)) _
        rw [cs_succ _ _ hk, g3]; exact e
    · intro f' p hf' hp; cases hf'
      exact ⟨(hI.fl_req r f p h hp).1, fun hh => by cases hh⟩
  | pullMiss r f h hk =>
    apply inv_setRep hI
    · exact hI.rep_good r
    · intro f' hf'; cases hf'; exact hI.fl_good r f h
    · intro f' p hf' hp; cases hf'
      have := (hI.fl_req r f p h hp).1
      exact ⟨this, fun _ => by show p ≤ f.k; omega⟩
  | pushOk r f n h hp hn hn' hk =>
    obtain ⟨g1, g2, g3⟩ := hI.fl_good r f h
    have hsplit : f.L = f.L.take n ++ f.L.drop n := (List.take_append_drop n f.L).symm
    have g2' := g2; rw [hsplit, validL_append] at g2'
    -- first establish the invariant for the extended chain with the old replica records
    have hI1 : Inv { S with chain := S.chain ++ [f.L.take n] } := by
      refine { chain_valid := ?_, rep_good := fun j => Good_append _ (hI.rep_good j),
               fl_good := fun j f' hf' => Good_append _ (hI.fl_good j f' hf'),
               fl_req := ?_, no_err := hI.no_err }
      · intro k hk'
        simp only [List.length_append, List.length_singleton] at hk'
        by_cases hlt : k < S.chain.length
        · rw [cs_append_le _ _ _ (Nat.le_of_lt hlt)]
          simp only [List.getElem_append_left hlt]
          exact hI.chain_valid k hlt
        · have : k = S.chain.length := by omega
          subst this
          rw [cs_append_le _ _ _ (Nat.le_refl _)]
          simp only [List.getElem_concat_length]
          rw [← hk]; exact g2'.1
      · intro j f' p hf' hp'
        have := hI.fl_req j f' p hf' hp'
        exact ⟨by simp; omega, this.2⟩
    apply inv_setRep hI1
    · exact hI1.rep_good r
    · intro f' hf'; cases hf'
      refine ⟨by simp [Flight.pushed]; omega, ?_, ?_⟩
      · show validL (cs (S.chain ++ [f.L.take n]) (f.k + 1)) (f.L.drop n)
        rw [hk, cs_append_new, ← hk]; exact g2'.2
      · show f.T = applyL (cs (S.chain ++ [f.L.take n]) (f.k + 1)) (f.L.drop n)
        rw [hk, cs_append_new, ← hk, ← applyL_append, ← hsplit]; exact g3
    · intro f' p hf' hp'; cases hf'
      have := (hI.fl_req r f p h hp').1
      exact ⟨by simp; omega, fun hh => by cases hh⟩
  | pushReject r f h hp hne hk =>
    obtain ⟨g1, _, _⟩ := hI.fl_good r f h
    have hlt : f.k < S.chain.length := by omega
    split
    · rename_i hreq
      have := (hI.fl_req r f _ h hreq).2 hp
      omega
    · apply inv_setRep hI
      · exact hI.rep_good r
      · intro f' hf'; cases hf'; exact hI.fl_good r f h
      · intro f' p hf' hp'; cases hf'; cases hp'
        exact ⟨Nat.le_refl _, fun hh => by cases hh⟩
  | finish r f h hp he =>
    obtain ⟨g1, g2, g3⟩ := hI.fl_good r f h
    apply inv_setRep hI
    · refine ⟨g1, trivial, ?_⟩
      show f.T = applyL _ []
      rw [g3, he]
    · intro f' hf'; cases hf'
    · intro f' p hf'; cases hf'
  | abort r f h =>
    apply inv_setRep hI
    · exact hI.rep_good r
    · intro f' hf'; cases hf'
    · intro f' p hf'; cases hf'


/-! ### reachable states and the property statements -/

def init : Sys :=
  { chain := [], reps := fun _ => { k := 0, L := [], T := emptyDB, fl := none }, err := false }

theorem inv_init : Inv init := by
  refine { chain_valid := ?_, rep_good := ?_, fl_good := ?_, fl_req := ?_, no_err := rfl }
  · intro k h; simp [init] at h
  · intro r; exact ⟨Nat.le_refl _, trivial, rfl⟩
  · intro r f h; simp [init] at h
  · intro r f p h; simp [init] at h

inductive Reachable : Sys → Prop where
  | init : Reachable init
  | step {S S'} : Reachable S → Step S S' → Reachable S'

theorem reachable_inv {S : Sys} (h : Reachable S) : Inv S := by
  induction h with
  | init => exact inv_init
  | step _ hs ih => exact inv_step ih hs

/-- C02: with a correct server no interleaving of requests of any number of replicas, with any
    aborts in between, ever makes a sync fail with OutOfSync. -/
theorem no_out_of_sync {S : Sys} (h : Reachable S) : S.err = false := (reachable_inv h).no_err

/-- the replay of the whole chain -/
def replay (S : Sys) : DB := cs S.chain S.chain.length

/-- C01/C02/C04: in every reachable state (whatever interleaving, batching and aborts led to
    it), a replica that is synchronized with nothing left to send holds exactly the replay of
    the server's chain; so all such replicas agree. -/
theorem converged {S : Sys} (h : Reachable S) (r : Nat)
    (hL : (S.reps r).L = []) (hk : (S.reps r).k = S.chain.length) :
    (S.reps r).T = replay S := by
  obtain ⟨_, _, g3⟩ := (reachable_inv h).rep_good r
  rw [g3, hL, hk]; rfl

/-- the replica invariant of sync-model.md, at all times -/
theorem replica_invariant {S : Sys} (h : Reachable S) (r : Nat) :
    (S.reps r).T = applyL (cs S.chain (S.reps r).k) (S.reps r).L :=
  ((reachable_inv h).rep_good r).2.2

/-- every version on the chain consists of operations valid in the state they meet -/
theorem chain_always_valid {S : Sys} (h : Reachable S) (k : Nat) (hk : k < S.chain.length) :
    validL (cs S.chain k) S.chain[k] := (reachable_inv h).chain_valid k hk

end Tc

#print axioms Tc.no_out_of_sync
#print axioms Tc.converged
