import Lsp4.Crypto
open Crypto
def main : IO Unit := do
  -- SHA-256("abc")
  IO.println s!"sha256 abc  {hex (sha256 "abc".toUTF8.toList)}"
  IO.println "   expected ba7816bf8f01cfea414140de5dae2223b00361a396177a9cb410ff61f20015ad"
  -- RFC 4231 test case 2
  IO.println s!"hmac        {hex (hmac "Jefe".toUTF8.toList "what do ya want for nothing?".toUTF8.toList)}"
  IO.println "   expected 5bdcc146bf60754e6a042426089575c75a003f089d2739839dec58b964ec3843"
  -- RFC 7914 §11: PBKDF2-HMAC-SHA-256 (P="passwd", S="salt", c=1, dkLen=64)
  IO.println s!"pbkdf2 c=1  {hex (pbkdf2 "passwd".toUTF8.toList "salt".toUTF8.toList 1 64)}"
  IO.println "   expected 55ac046e56e3089fec1691c22544b605f94185216dde0465e68b9d57c20dacbc49ca9cccf179b645991664b39d77ef317c71b845b1e30bd509112041d3a19783"
  -- RFC 7914: P="Password", S="NaCl", c=80000, dkLen=64
  IO.println s!"pbkdf2 80k  {hex (pbkdf2 "Password".toUTF8.toList "NaCl".toUTF8.toList 80000 64)}"
  IO.println "   expected 4ddcd8f60b98be21830cee5ef22701f9641a4418d04c0414aeff08876b34ab56a1d425a1225833549adb841b51c9b3176a272bdebba1d078478f62b397f33c8d"
  -- RFC 8439 §2.8.2 AEAD test vector
  let key := unhex "808182838485868788898a8b8c8d8e8f909192939495969798999a9b9c9d9e9f"
  let nonce := unhex "070000004041424344454647"
  let aad := unhex "50515253c0c1c2c3c4c5c6c7"
  let pt := "Ladies and Gentlemen of the class of '99: If I could offer you only one tip for the future, sunscreen would be it.".toUTF8.toList
  let sealed := aeadSeal key nonce aad pt
  IO.println s!"aead ct[..16] {hex (sealed.take 16)}  tag {hex (sealed.drop (sealed.length - 16))}"
  IO.println "   expected   d31a8d34648e60db7b86afbc53ef7ec2  tag 1ae10b594f09e26a7e902ecbd0600691"
  IO.println s!"aead open ok: {aeadOpen key nonce aad sealed == some pt}"
  let t0 ← IO.monoMsNow
  let k := deriveKey "secret".toUTF8.toList (uuidBytes 0xabc)
  let t1 ← IO.monoMsNow
  IO.println s!"derived key {hex k} in {t1 - t0} ms"
