import random, itertools, sys
sys.argv = ['x', sys.argv[1]]
src = open('conf.py').read().split("import random\nNP = 1")[0]
exec(src)
NP = 2; VALS = ('a','b', None); TSS = (1,2)
random.seed(int(sys.argv[1] == 'fixed') + 7)
u='t'
bad = 0; tot = 0
for S in ({}, {u:{}}, {u:{'p':'a'}}):
    lists = [L for L in oplists(S, 3) if L]
    print('lists', len(lists))
    for _ in range(40000):
        nrep = random.choice((3,3,4))
        pend = tuple(random.choice(lists) for _ in range(nrep))
        tot += 1
        results = set()
        for order in itertools.permutations(range(nrep)):
            res = run(S, pend, order)
            results.add(repr(sorted((k, sorted(v.items(), key=lambda kv: kv[0])) for k, v in res.items())))
        if len(results) > 1:
            bad += 1
            if bad <= 3: print('ORDER-DEPENDENT', S, pend, results)
print('mode', 'fixed' if FIXED else 'pinned', 'cases', tot, 'order-dependent', bad)
