import Lsp4.Crypto
open Crypto
def main : IO Unit := do
  -- envelope produced by the real taskchampion HTTP client:
  -- secret "secret", salt = client id 0xabc (16 bytes), bound to parent version id 0x1111, payload "child-of-q"
  let env := unhex "01f490032a5292cbfc2670fd466d304ce566f6e86aa9fa3b6f72778e1353ab040deebe78c598ee"
  let key := deriveKey "secret".toUTF8.toList (uuidBytes 0xabc)
  IO.println s!"envelope bytes: {env.length} (payload 10 + 29 = 39 expected)"
  match unsealEnv key 0x1111 env with
  | .ok pt => IO.println s!"Lean opened Rust's envelope: {String.fromUTF8! pt.toByteArray}"
  | .error e => IO.println s!"FAILED: {repr e}"
  match unsealEnv key 0x1112 env with
  | .ok _ => IO.println "wrong version id accepted (BAD)"
  | .error e => IO.println s!"wrong version id rejected: {repr e}"
  let key2 := pbkdf2 "secret".toUTF8.toList (uuidBytes 0xabc) 599999 32
  match unsealEnv key2 0x1111 env with
  | .ok _ => IO.println "wrong iteration count accepted (BAD)"
  | .error e => IO.println s!"key from 599999 iterations rejected: {repr e}"
