import Lsp3.OtCore
/-! Spike: `apply_operations` with its per-task write cache equals the one-at-a-time fold (C05). -/
namespace Tc

/-- local operations; only what application needs (old values are irrelevant for `apply`) -/
inductive LOp where
  | create (u : Nat)
  | delete (u : Nat)
  | update (u : Nat) (k : String) (v : Option String)
  | undoPoint

def applyLocal (db : DB) : LOp → DB
  | .create u => setTask db u (some ((db u).getD emptyTask))
  | .delete u => setTask db u none
  | .update u k v => setTask db u ((db u).map (fun t => setProp t k v))
  | .undoPoint => db

/-- cache entry: `none` = vacant, `some none` = known absent, `some (some t)` = pending write -/
abbrev Cache := Nat → Option (Option TaskMap)

def setCache (c : Cache) (u : Nat) (x : Option (Option TaskMap)) : Cache :=
  fun u' => if u' = u then x else c u'

/-- `flush_cache(uuid)`: write a pending map, drop the entry -/
def flush (db : DB) (c : Cache) (u : Nat) : DB × Cache :=
  match c u with
  | some (some t) => (setTask db u (some t), setCache c u none)
  | _ => (db, setCache c u none)

/-- one iteration of the loop in `apply_operations`, over the storage calls
    `get_task / set_task / create_task / delete_task` -/
def cstep (s : DB × Cache) : LOp → DB × Cache
  | .create u =>
      let (db, c) := flush s.1 s.2 u
      -- create_task: does nothing if the task exists
      (match db u with | some _ => db | none => setTask db u (some emptyTask), c)
  | .delete u => (setTask s.1 u none, setCache s.2 u (some none))
  | .update u k v =>
      -- get_cache
      let c := match s.2 u with | none => setCache s.2 u (some (s.1 u)) | some _ => s.2
      match c u with
      | some (some t) => (s.1, setCache c u (some (some (setProp t k v))))
      | _ => (s.1, c)
  | .undoPoint => s

/-- final "flush any remaining tasks" -/
def flushAll (s : DB × Cache) : DB :=
  fun u => match s.2 u with | some (some t) => some t | _ => s.1 u

def applyCached (db : DB) (ops : List LOp) : DB :=
  flushAll (ops.foldl cstep (db, fun _ => none))

/-- what a reader going through the cache would see -/
def view (s : DB × Cache) : DB :=
  fun u => match s.2 u with | none => s.1 u | some x => x

def CacheOk (s : DB × Cache) : Prop := ∀ u, s.2 u = some none → s.1 u = none

@[simp] theorem setCache_same (c : Cache) (u : Nat) (x) : setCache c u x u = x := by simp [setCache]
theorem setCache_ne (c : Cache) (u u' : Nat) (x) (h : u' ≠ u) : setCache c u x u' = c u' := by
  simp [setCache, h]

theorem cstep_view (s : DB × Cache) (op : LOp) (h : CacheOk s) :
    view (cstep s op) = applyLocal (view s) op ∧ CacheOk (cstep s op) := by
  obtain ⟨db, c⟩ := s
  cases op with
  | undoPoint => exact ⟨rfl, h⟩
  | delete u =>
    constructor
    · funext x
      by_cases hx : x = u
      · subst hx; simp [cstep, view, applyLocal]
      · simp [cstep, view, applyLocal, setCache_ne _ _ _ _ hx, setTask_get_ne _ _ _ _ hx]
    · intro x
      by_cases hx : x = u
      · subst hx; simp [cstep]
      · simp only [cstep, setCache_ne _ _ _ _ hx, setTask_get_ne _ _ _ _ hx]; exact h x
  | create u =>
    have hu := h u
    constructor
    · funext x
      by_cases hx : x = u
      · subst hx
        rcases hc : c x with _ | _ | t <;> rcases hd : db x with _ | t' <;>
          simp_all [cstep, flush, view, applyLocal]
      · rcases hc : c u with _ | _ | t <;> rcases hd : db u with _ | t' <;>
          simp_all [cstep, flush, view, applyLocal, setCache_ne _ _ _ _ hx, setTask_get_ne _ _ _ _ hx]
    · intro x
      have hxx := h x
      by_cases hx : x = u
      · subst hx
        rcases hc : c x with _ | _ | t <;> rcases hd : db x with _ | t' <;>
          simp_all [cstep, flush, CacheOk]
      · rcases hc : c u with _ | _ | t <;> rcases hd : db u with _ | t' <;>
          simp_all [cstep, flush, CacheOk, setCache_ne _ _ _ _ hx, setTask_get_ne _ _ _ _ hx]
  | update u k v =>
    have hu := h u
    constructor
    · funext x
      by_cases hx : x = u
      · subst hx
        rcases hc : c x with _ | _ | t <;> rcases hd : db x with _ | t' <;>
          simp_all [cstep, view, applyLocal]
      · rcases hc : c u with _ | _ | t <;> rcases hd : db u with _ | t' <;>
          simp_all [cstep, view, applyLocal, setCache_ne _ _ _ _ hx, setTask_get_ne _ _ _ _ hx]
    · intro x
      have hxx := h x
      by_cases hx : x = u
      · subst hx
        rcases hc : c x with _ | _ | t <;> rcases hd : db x with _ | t' <;>
          simp_all [cstep, CacheOk]
      · rcases hc : c u with _ | _ | t <;> rcases hd : db u with _ | t' <;>
          simp_all [cstep, CacheOk, setCache_ne _ _ _ _ hx, setTask_get_ne _ _ _ _ hx]

theorem foldl_view (ops : List LOp) (s : DB × Cache) (h : CacheOk s) :
    view (ops.foldl cstep s) = ops.foldl applyLocal (view s) ∧ CacheOk (ops.foldl cstep s) := by
  induction ops generalizing s with
  | nil => exact ⟨rfl, h⟩
  | cons op ops ih =>
    obtain ⟨e, h'⟩ := cstep_view s op h
    simp only [List.foldl_cons]
    rw [← e]
    exact ih _ h'

theorem flushAll_eq_view (s : DB × Cache) (h : CacheOk s) : flushAll s = view s := by
  funext u
  simp only [flushAll, view]
  rcases hc : s.2 u with _ | _ | t
  · rfl
  · exact h u hc
  · rfl

/-- C05: batch application through the write cache = applying the operations one at a time,
    for every batch (valid or not) and every prior task set. -/
theorem cached_eq_fold (db : DB) (ops : List LOp) :
    applyCached db ops = ops.foldl applyLocal db := by
  have h0 : CacheOk (db, fun _ => none) := by intro u hu; cases hu
  obtain ⟨e, h⟩ := foldl_view ops (db, fun _ => none) h0
  unfold applyCached
  rw [flushAll_eq_view _ h, e]
  rfl

end Tc

#print axioms Tc.cached_eq_fold
