import itertools, sys
sys.argv=['x','fixed']
src=open('/verif/design-spikes/ot_confluence_bruteforce.py').read().split("import random\nNP = 1")[0]
exec(src)
u='t'
def tr1(s, L):
    Vp, L2 = rebase([s], L)
    return (Vp[0] if Vp else None), L2
bad=0; tot=0; badstate=0
for S in ({}, {u:{}}, {u:{'p':'a'}}, {u:{'p':'a','q':'b'}}):
    alphabet = [('C', u), ('D', u)] + [('U', u, p, v, ts) for p in ('p','q') for v in ('a','b',None) for ts in (1,2)]
    ops=[o for o in alphabet if valid(S,o)]
    for a,b,c in itertools.product(ops, repeat=3):
        ab, ba = transform(a,b)   # ab = a past b, ba = b past a
        seq1 = [a] + ([ba] if ba else [])
        seq2 = [b] + ([ab] if ab else [])
        c1,_ = (lambda r: r)(rebase([c], seq1)[0:1][0]), None
        V1, _ = rebase([c], seq1); V2, _ = rebase([c], seq2)
        tot+=1
        if V1 != V2:
            bad+=1
            X1 = applys(applys(S, seq1), V1); X2 = applys(applys(S, seq2), V2)
            if X1 != X2:
                badstate+=1
                if badstate<=5: print('STATE-DIFF', S, a,b,c, V1, V2)
            elif bad<=5: print('syntactic TP2 diff (same state)', S, a,b,c, V1, V2)
print('triples',tot,'syntactic TP2 failures',bad,'state-level failures',badstate)
