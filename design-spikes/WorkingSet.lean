/-! Spike: working-set rebuild (repaired algorithm) — C15.
    `old` is the stored working set without its index-0 slot; `mem u` = task `u` exists and is
    pending/recurring; `all` = the store's enumeration of all tasks (any order, no duplicates). -/
namespace Ws

variable (mem : Nat → Bool)

def keep (e : Option Nat) : Option Nat :=
  match e with
  | some u => if mem u then some u else none
  | none => none

/-- survivors of the scan, in place (not renumbering) -/
def scanInPlace (old : List (Option Nat)) : List (Option Nat) := old.map (keep mem)

/-- survivors of the scan, compacted (renumbering) -/
def scanCompact (old : List (Option Nat)) : List Nat := old.filterMap (keep mem)

def stripTrailing : List (Option Nat) → List (Option Nat)
  | [] => []
  | e :: es => match stripTrailing es, e with
      | [], none => []
      | r, e => e :: r

def newcomers (old : List (Option Nat)) (all : List Nat) : List Nat :=
  all.filter (fun u => mem u && !(old.contains (some u)))

/-- the stored working set after `rebuild` (slot 0 prepended) -/
def rebuild (renumber : Bool) (old : List (Option Nat)) (all : List Nat) : List (Option Nat) :=
  none :: ((if renumber then (scanCompact mem old).map some
            else stripTrailing (scanInPlace mem old)) ++ (newcomers mem old all).map some)

/-! #### facts -/

theorem stripTrailing_getElem? (l : List (Option Nat)) (i : Nat) (u : Nat)
    (h : l[i]? = some (some u)) : (stripTrailing l)[i]? = some (some u) := by
  induction l generalizing i with
  | nil => simp at h
  | cons e es ih =>
    cases i with
    | zero =>
      simp only [List.getElem?_cons_zero, Option.some.injEq] at h
      subst h
      simp only [stripTrailing]
      split <;> simp_all
    | succ i =>
      simp only [List.getElem?_cons_succ] at h
      have := ih i h
      simp only [stripTrailing]
      split
      · simp_all
      · simp [this]

theorem stripTrailing_length_le (l : List (Option Nat)) : (stripTrailing l).length ≤ l.length := by
  induction l with
  | nil => simp [stripTrailing]
  | cons e es ih =>
    simp only [stripTrailing]
    split <;> simp <;> omega

/-- C15, not renumbering: every task that remains keeps its number. -/
theorem no_renumber_stable (old : List (Option Nat)) (all : List Nat) (i : Nat) (u : Nat)
    (h : old[i]? = some (some u)) (hm : mem u = true) :
    (rebuild mem false old all)[i + 1]? = some (some u) := by
  simp only [rebuild, Bool.false_eq_true, if_false, List.getElem?_cons_succ]
  have h1 : (scanInPlace mem old)[i]? = some (some u) := by
    simp [scanInPlace, List.getElem?_map, h, keep, hm]
  have h2 := stripTrailing_getElem? _ i u h1
  rw [List.getElem?_append_left]
  · exact h2
  · exact (List.getElem?_eq_some_iff.mp h2).1

/-- C15, not renumbering: newcomers are placed after every number still in use. -/
theorem no_renumber_newcomers_after (old : List (Option Nat)) (all : List Nat) (i j : Nat) (u n : Nat)
    (h : old[i]? = some (some u)) (hm : mem u = true)
    (hn : n ∈ newcomers mem old all)
    (hj : (rebuild mem false old all)[j + 1]? = some (some n)) : i < j := by
  -- `n` is not an old member, so it cannot sit in the scanned part
  simp only [rebuild, Bool.false_eq_true, if_false, List.getElem?_cons_succ] at hj
  have h1 : (scanInPlace mem old)[i]? = some (some u) := by
    simp [scanInPlace, List.getElem?_map, h, keep, hm]
  have h2 := stripTrailing_getElem? _ i u h1
  have hi : i < (stripTrailing (scanInPlace mem old)).length := (List.getElem?_eq_some_iff.mp h2).1
  by_cases hjl : j < (stripTrailing (scanInPlace mem old)).length
  · -- impossible: position j of the scanned part holds an old entry
    exfalso
    rw [List.getElem?_append_left hjl] at hj
    have hnold : old.contains (some n) = false := by
      simp only [newcomers, List.mem_filter, Bool.and_eq_true, Bool.not_eq_true'] at hn
      exact hn.2.2
    -- every `some` in the stripped scan comes from `old`
    have : ∀ (l : List (Option Nat)) (k : Nat) (x : Nat), (stripTrailing l)[k]? = some (some x) → l[k]? = some (some x) := by
      intro l
      induction l with
      | nil => intro k x hk; simp [stripTrailing] at hk
      | cons e es ih =>
        intro k x hk
        simp only [stripTrailing] at hk
        split at hk
        · simp at hk
        · cases k with
          | zero => simpa using hk
          | succ k => simp only [List.getElem?_cons_succ] at hk ⊢; exact ih k x hk
    have hs := this _ j n hj
    simp only [scanInPlace, List.getElem?_map] at hs
    cases ho : old[j]? with
    | none => simp [ho] at hs
    | some e =>
      simp only [ho, Option.map_some, Option.some.injEq] at hs
      cases e with
      | none => simp [keep] at hs
      | some w =>
        simp only [keep] at hs
        split at hs
        · simp only [Option.some.injEq] at hs; subst hs
          have : some w ∈ old := List.mem_of_getElem? ho
          simp [List.contains_iff_mem, this] at hnold
        · simp at hs
  · omega

/-- C15, renumbering: no gaps after slot 0. -/
theorem renumber_compact (old : List (Option Nat)) (all : List Nat) :
    ∀ e ∈ (rebuild mem true old all).tail, e ≠ none := by
  intro e he
  simp only [rebuild, if_true, List.tail_cons] at he
  rcases List.mem_append.mp he with h | h <;> obtain ⟨x, _, rfl⟩ := List.mem_map.mp h <;> simp

/-- C15: slot 0 is always empty. -/
theorem slot0 (r : Bool) (old : List (Option Nat)) (all : List Nat) :
    (rebuild mem r old all)[0]? = some none := by simp [rebuild]

end Ws

#print axioms Ws.no_renumber_stable
#print axioms Ws.no_renumber_newcomers_after
