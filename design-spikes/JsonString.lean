/-! Spike: JSON string literal — serde_json's printer and a parser for the documented grammar;
    round trip for every string (C14 / C12). -/
namespace Json

def hexDigitChar (n : Nat) : Char :=
  if n < 10 then Char.ofNat (48 + n) else Char.ofNat (87 + n)

def hexVal (c : Char) : Option Nat :=
  if '0' ≤ c ∧ c ≤ '9' then some (c.toNat - 48)
  else if 'a' ≤ c ∧ c ≤ 'f' then some (c.toNat - 87)
  else if 'A' ≤ c ∧ c ≤ 'F' then some (c.toNat - 55)
  else none

/-- serde_json's escaping of one character -/
def escChar (c : Char) : List Char :=
  if c = '"' then ['\\', '"']
  else if c = '\\' then ['\\', '\\']
  else if c = '\x08' then ['\\', 'b']
  else if c = '\t' then ['\\', 't']
  else if c = '\n' then ['\\', 'n']
  else if c = '\x0c' then ['\\', 'f']
  else if c = '\r' then ['\\', 'r']
  else if c.toNat < 0x20 then ['\\', 'u', '0', '0', hexDigitChar (c.toNat / 16), hexDigitChar (c.toNat % 16)]
  else [c]

def printBody (s : List Char) : List Char := s.flatMap escChar

/-- parse the inside of a string literal up to and including the closing quote -/
def parseBody : List Char → Option (List Char × List Char)
  | [] => none
  | '"' :: rest => some ([], rest)
  | '\\' :: 'u' :: a :: b :: c :: d :: rest =>
      match hexVal a, hexVal b, hexVal c, hexVal d with
      | some a, some b, some c, some d =>
          let n := ((a * 16 + b) * 16 + c) * 16 + d
          -- (surrogate pairs are handled in the full model; a lone surrogate is an error)
          if 0xD800 ≤ n ∧ n ≤ 0xDFFF then none
          else (parseBody rest).map (fun (s, r) => (Char.ofNat n :: s, r))
      | _, _, _, _ => none
  | '\\' :: e :: rest =>
      let ch : Option Char :=
        if e = '"' then some '"' else if e = '\\' then some '\\' else if e = '/' then some '/'
        else if e = 'b' then some '\x08' else if e = 'f' then some '\x0c' else if e = 'n' then some '\n'
        else if e = 'r' then some '\r' else if e = 't' then some '\t' else none
      match ch with
      | some ch => (parseBody rest).map (fun (s, r) => (ch :: s, r))
      | none => none
  | c :: rest =>
      if c.toNat < 0x20 then none
      else (parseBody rest).map (fun (s, r) => (c :: s, r))

end Json

namespace Json

theorem parseBody_plain (c : Char) (tail : List Char) (h1 : c ≠ '"') (h2 : c ≠ '\\')
    (h3 : ¬ c.toNat < 0x20) :
    parseBody (c :: tail) = (parseBody tail).map (fun (s, r) => (c :: s, r)) := by
  conv => lhs; unfold parseBody
  split <;> simp_all
  omega

end Json

namespace Json

theorem hexVal_hexDigitChar : ∀ k : Fin 16, hexVal (hexDigitChar k.val) = some k.val := by decide

theorem hexVal_zero : hexVal '0' = some 0 := by decide

/-- parsing what `escChar c` printed yields `c` again, whatever follows -/
theorem parseBody_esc (c : Char) (tail : List Char) :
    parseBody (escChar c ++ tail) = (parseBody tail).map (fun (s, r) => (c :: s, r)) := by
  unfold escChar
  split
  · subst_vars; conv => lhs; simp only [List.cons_append, List.nil_append]; unfold parseBody
    simp
  · split
    · subst_vars; conv => lhs; simp only [List.cons_append, List.nil_append]; unfold parseBody
      simp
    · split
      · subst_vars; conv => lhs; simp only [List.cons_append, List.nil_append]; unfold parseBody
        simp
      · split
        · subst_vars; conv => lhs; simp only [List.cons_append, List.nil_append]; unfold parseBody
          simp
        · split
          · subst_vars; conv => lhs; simp only [List.cons_append, List.nil_append]; unfold parseBody
            simp
          · split
            · subst_vars; conv => lhs; simp only [List.cons_append, List.nil_append]; unfold parseBody
              simp
            · split
              · subst_vars; conv => lhs; simp only [List.cons_append, List.nil_append]; unfold parseBody
                simp
              · split
                · -- other control characters: \u00XX
                  rename_i hlt
                  have h16 : c.toNat / 16 < 16 := by omega
                  have hm : c.toNat % 16 < 16 := by omega
                  have e1 := hexVal_hexDigitChar ⟨c.toNat / 16, h16⟩
                  have e2 := hexVal_hexDigitChar ⟨c.toNat % 16, hm⟩
                  simp only at e1 e2
                  conv => lhs; simp only [List.cons_append, List.nil_append]; unfold parseBody
                  simp only [hexVal_zero, e1, e2]
                  have hn : ((0 * 16 + 0) * 16 + c.toNat / 16) * 16 + c.toNat % 16 = c.toNat := by omega
                  simp only [hn]
                  have hs : ¬ (0xD800 ≤ c.toNat ∧ c.toNat ≤ 0xDFFF) := by omega
                  simp only [hs, if_false, Char.ofNat_toNat]
                · rename_i h1 h2 _ _ _ _ _ h3
                  simpa using parseBody_plain c tail h1 h2 h3

/-- C14/C12: every string survives print-then-parse, whatever characters it contains and
    whatever follows the closing quote. -/
theorem parse_print (s rest : List Char) :
    parseBody (printBody s ++ '"' :: rest) = some (s, rest) := by
  induction s with
  | nil => simp [printBody, parseBody]
  | cons c s ih =>
    have : printBody (c :: s) ++ '"' :: rest = escChar c ++ (printBody s ++ '"' :: rest) := by
      simp [printBody]
    rw [this, parseBody_esc, ih]
    rfl

end Json

#print axioms Json.parse_print
