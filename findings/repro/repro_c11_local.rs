use taskchampion::storage::inmemory::InMemoryStorage;
use taskchampion::{Operations, Replica, ServerConfig, Uuid, TaskData};
use tempfile::TempDir;

#[tokio::test]
async fn c11_local_crash_between_statements() {
    let tmp = TempDir::new().unwrap();
    let mk = || async { ServerConfig::Local { server_dir: tmp.path().to_path_buf() }.into_server().await.unwrap() };
    let mut server = mk().await;
    let mut a = Replica::new(InMemoryStorage::new());
    let mut b = Replica::new(InMemoryStorage::new());
    let u = Uuid::new_v4();
    let mut ops = Operations::new();
    TaskData::create(u, &mut ops);
    a.commit_operations(ops).await.unwrap();
    a.sync(&mut server, false).await.unwrap();
    b.sync(&mut server, false).await.unwrap();
    // A makes a change; its add_version "crashes" after inserting the version row, before updating latest.
    let mut ops = Operations::new();
    let mut t = a.get_task_data(u).await.unwrap().unwrap();
    t.update("p", Some("fromA".into()), &mut ops);
    a.commit_operations(ops).await.unwrap();
    drop(server);
    {
        let con = rusqlite::Connection::open(tmp.path().join("taskchampion-local-sync-server.sqlite3")).unwrap();
        let latest: String = con.query_row("SELECT value FROM data WHERE key='latest_version_id'", [], |r| r.get(0)).unwrap();
        let hs = format!(r#"{{"operations":[{{"Update":{{"uuid":"{}","property":"p","value":"fromA","timestamp":"2024-01-01T00:00:00Z"}}}}]}}"#, u);
        con.execute("INSERT INTO versions (version_id, parent_version_id, data) VALUES (?, ?, ?)",
            rusqlite::params![Uuid::new_v4().to_string(), latest, hs.into_bytes()]).unwrap();
    }
    let mut server = mk().await;
    // A retries and goes on working
    let r1 = a.sync(&mut server, false).await;
    println!("A resync: {:?}", r1.as_ref().map_err(|e| e.to_string()));
    let mut ops = Operations::new();
    let mut t = a.get_task_data(u).await.unwrap().unwrap();
    t.update("q", Some("more".into()), &mut ops);
    a.commit_operations(ops).await.unwrap();
    let r2 = a.sync(&mut server, false).await;
    println!("A sync after further change: {:?}", r2.as_ref().map_err(|e| format!("{e:#}")));
    let r3 = b.sync(&mut server, false).await;
    println!("B sync: {:?}", r3.as_ref().map_err(|e| format!("{e:#}")));
    assert!(r2.is_ok());
}
