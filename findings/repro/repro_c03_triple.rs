#![cfg(feature = "server-local")]
use taskchampion::chrono::{TimeZone, Utc, Duration};
use taskchampion::storage::inmemory::InMemoryStorage;
use taskchampion::{Operation, Operations, Replica, ServerConfig, Uuid, TaskData};
use tempfile::TempDir;

async fn run(order: [usize;3]) -> Option<String> {
    let tmp = TempDir::new().unwrap();
    let mut server = ServerConfig::Local { server_dir: tmp.path().to_path_buf() }.into_server().await.unwrap();
    let mut reps = vec![Replica::new(InMemoryStorage::new()), Replica::new(InMemoryStorage::new()), Replica::new(InMemoryStorage::new())];
    let u = Uuid::from_u128(7);
    let mut ops = Operations::new();
    TaskData::create(u, &mut ops);
    reps[0].commit_operations(ops).await.unwrap();
    for r in reps.iter_mut() { r.sync(&mut server, false).await.unwrap(); }
    let t = Utc.with_ymd_and_hms(2024,1,1,0,0,0).unwrap();
    let mk = |v: &str, s: i64| vec![Operation::Update{uuid:u, property:"p".into(), old_value:None, value:Some(v.into()), timestamp:t + Duration::seconds(s)}];
    reps[0].commit_operations(mk("x", 1)).await.unwrap();
    reps[1].commit_operations(mk("x", 9)).await.unwrap();
    reps[2].commit_operations(mk("y", 5)).await.unwrap();
    for i in order { reps[i].sync(&mut server, false).await.unwrap(); }
    for r in reps.iter_mut() { r.sync(&mut server, false).await.unwrap(); }
    let mut vals = vec![];
    for r in reps.iter_mut() { vals.push(r.get_task_data(u).await.unwrap().unwrap().get("p").map(|s| s.to_string())); }
    assert!(vals[0] == vals[1] && vals[1] == vals[2]);
    vals[0].clone()
}
#[tokio::test]
async fn triple_winner_depends_on_sync_order() {
    let x = run([0,1,2]).await; let y = run([1,0,2]).await;
    println!("order A,B,C -> {x:?}; order B,A,C -> {y:?}  (latest timestamp is x@9)");
    assert_eq!(x, y);
}
