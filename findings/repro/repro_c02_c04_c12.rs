use std::cell::RefCell;
use std::rc::Rc;
use async_trait::async_trait;
use taskchampion::chrono::{TimeZone, Utc, Duration};
use taskchampion::storage::inmemory::InMemoryStorage;
use taskchampion::server::{AddVersionResult, GetVersionResult, HistorySegment, Snapshot, SnapshotUrgency, VersionId};
use taskchampion::{Operation, Operations, Replica, Server, Uuid, TaskData};

#[derive(Default)]
struct Chain { versions: Vec<(VersionId, VersionId, Vec<u8>)>, snapshots: Vec<(VersionId, Vec<u8>)>, urgency: Option<SnapshotUrgency>,
   // inject: before the nth add_version call (global count), run closure
   pre_add_inject: Vec<(usize, Vec<u8>)>, add_calls: usize, lose_reply_on_add: Option<usize> }
struct Srv(Rc<RefCell<Chain>>);
impl Chain { fn latest(&self) -> VersionId { self.versions.last().map(|v| v.0).unwrap_or(Uuid::nil()) } }
#[async_trait(?Send)]
impl Server for Srv {
    async fn add_version(&mut self, parent: VersionId, hs: HistorySegment) -> Result<(AddVersionResult, SnapshotUrgency), taskchampion::Error> {
        let mut c = self.0.borrow_mut();
        c.add_calls += 1;
        let n = c.add_calls;
        let inj: Vec<Vec<u8>> = c.pre_add_inject.iter().filter(|(k,_)| *k==n).map(|(_,b)| b.clone()).collect();
        for b in inj { let p = c.latest(); c.versions.push((Uuid::new_v4(), p, b)); }
        let latest = c.latest();
        if !c.versions.is_empty() && latest != parent { return Ok((AddVersionResult::ExpectedParentVersion(latest), SnapshotUrgency::None)); }
        let id = Uuid::new_v4();
        c.versions.push((id, parent, hs));
        if c.lose_reply_on_add == Some(n) { return Err(taskchampion::Error::Server("lost reply".into())); }
        Ok((AddVersionResult::Ok(id), c.urgency.unwrap_or(SnapshotUrgency::None)))
    }
    async fn get_child_version(&mut self, parent: VersionId) -> Result<GetVersionResult, taskchampion::Error> {
        let c = self.0.borrow();
        for (id,p,b) in &c.versions { if *p == parent { return Ok(GetVersionResult::Version{version_id:*id,parent_version_id:*p,history_segment:b.clone()}); } }
        Ok(GetVersionResult::NoSuchVersion)
    }
    async fn add_snapshot(&mut self, v: VersionId, s: Snapshot) -> Result<(), taskchampion::Error> { self.0.borrow_mut().snapshots.push((v,s)); Ok(()) }
    async fn get_snapshot(&mut self) -> Result<Option<(VersionId, Snapshot)>, taskchampion::Error> { Ok(self.0.borrow().snapshots.last().cloned()) }
}
fn sorted(m: std::collections::HashMap<Uuid, TaskData>) -> Vec<(Uuid, Vec<(String,String)>)> {
    let mut v: Vec<_> = m.into_iter().map(|(u,t)| { let mut p: Vec<_> = t.iter().map(|(a,b)|(a.clone(), if b.len()>20 {format!("<{}>", b.len())} else {b.clone()})).collect(); p.sort(); (u,p)}).collect();
    v.sort(); v
}
fn upd(u: Uuid, p: &str, v: &str, ts: i64) -> Operation {
    Operation::Update{uuid:u, property:p.into(), old_value:None, value:Some(v.into()), timestamp: Utc.with_ymd_and_hms(2024,1,1,0,0,0).unwrap() + Duration::seconds(ts)}
}

#[tokio::test]
async fn c02_retry_resends_lost_op() {
    let chain = Rc::new(RefCell::new(Chain::default()));
    let mut sa: Box<dyn Server> = Box::new(Srv(chain.clone()));
    let mut sb: Box<dyn Server> = Box::new(Srv(chain.clone()));
    let mut a = Replica::new(InMemoryStorage::new());
    let mut b = Replica::new(InMemoryStorage::new());
    let u = Uuid::new_v4(); let u2 = Uuid::new_v4();
    let mut ops = Operations::new();
    TaskData::create(u, &mut ops); TaskData::create(u2, &mut ops);
    a.commit_operations(ops).await.unwrap();
    a.sync(&mut sa, false).await.unwrap();
    b.sync(&mut sb, false).await.unwrap();
    // B: p=fromB later ts; synced to server.
    b.commit_operations(vec![upd(u,"p","fromB",10)]).await.unwrap();
    b.sync(&mut sb, false).await.unwrap();
    // A: p=fromA earlier ts + unrelated q
    a.commit_operations(vec![upd(u,"p","fromA",0), upd(u2,"q","z",0)]).await.unwrap();
    // third replica's version lands between A's pull and its push: inject an unrelated version at A's next add_version
    let n = chain.borrow().add_calls + 1;
    let third = format!(r#"{{"operations":[{{"Update":{{"uuid":"{}","property":"r","value":"third","timestamp":"2024-01-01T00:00:05Z"}}}}]}}"#, u2);
    chain.borrow_mut().pre_add_inject.push((n, third.into_bytes()));
    a.sync(&mut sa, false).await.unwrap();
    b.sync(&mut sb, false).await.unwrap();
    a.sync(&mut sa, false).await.unwrap();
    let ta = sorted(a.all_task_data().await.unwrap());
    let tb = sorted(b.all_task_data().await.unwrap());
    println!("A={ta:?}\nB={tb:?}");
    for (i,(_,_,b)) in chain.borrow().versions.iter().enumerate() { println!("v{i}: {}", String::from_utf8_lossy(b)); }
    assert_eq!(ta, tb);
}

#[tokio::test]
async fn c04_lost_reply_with_batches_loses_ops() {
    let chain = Rc::new(RefCell::new(Chain::default()));
    let mut sa: Box<dyn Server> = Box::new(Srv(chain.clone()));
    let mut sb: Box<dyn Server> = Box::new(Srv(chain.clone()));
    let mut a = Replica::new(InMemoryStorage::new());
    let mut b = Replica::new(InMemoryStorage::new());
    let u = Uuid::new_v4();
    let mut ops = Operations::new();
    TaskData::create(u, &mut ops);
    let big = "x".repeat(600_000);
    ops.push(upd(u,"big1",&big,0)); ops.push(upd(u,"big2",&big,0)); ops.push(upd(u,"p","tail",0));
    a.commit_operations(ops).await.unwrap();
    // first add_version reply is lost
    chain.borrow_mut().lose_reply_on_add = Some(1);
    let r = a.sync(&mut sa, false).await;
    println!("first sync: {:?}", r.is_err());
    a.sync(&mut sa, false).await.unwrap();
    a.sync(&mut sa, false).await.unwrap();
    b.sync(&mut sb, false).await.unwrap();
    let ta = sorted(a.all_task_data().await.unwrap());
    let tb = sorted(b.all_task_data().await.unwrap());
    println!("A={ta:?}\nB={tb:?}\nnum local ops A={}", a.num_local_operations().await.unwrap());
    assert_eq!(ta, tb);
}

#[tokio::test]
async fn c12_snapshot_between_batches() {
    let chain = Rc::new(RefCell::new(Chain::default()));
    chain.borrow_mut().urgency = Some(SnapshotUrgency::High);
    let mut sa: Box<dyn Server> = Box::new(Srv(chain.clone()));
    let mut a = Replica::new(InMemoryStorage::new());
    let u = Uuid::new_v4();
    let mut ops = Operations::new();
    TaskData::create(u, &mut ops);
    let big = "x".repeat(600_000);
    ops.push(upd(u,"big1",&big,0)); ops.push(upd(u,"big2",&big,0)); ops.push(upd(u,"p","tail",0));
    a.commit_operations(ops).await.unwrap();
    a.sync(&mut sa, false).await.unwrap();
    let c = chain.borrow();
    println!("versions={} snapshots={}", c.versions.len(), c.snapshots.len());
    use std::io::Read;
    for (v, s) in &c.snapshots {
        let mut d = flate2::read::ZlibDecoder::new(&s[..]); let mut out = String::new(); d.read_to_string(&mut out).unwrap();
        let idx = c.versions.iter().position(|x| x.0 == *v).unwrap();
        println!("snapshot at version index {idx}: has p? {} has big2? {}", out.contains("\"p\""), out.contains("big2"));
    }
    // snapshot at version 0 must not contain "p" (sent in a later version)
    let (v0, s0) = &c.snapshots[0];
    let mut d = flate2::read::ZlibDecoder::new(&s0[..]); let mut out = String::new(); d.read_to_string(&mut out).unwrap();
    assert!(c.versions[0].0 == *v0);
    assert!(!out.contains("\"p\""));
}
