#![cfg(feature = "server-local")]
use taskchampion::chrono::{TimeZone, Utc};
use taskchampion::storage::inmemory::InMemoryStorage;
use taskchampion::{Operation, Operations, Replica, ServerConfig, Uuid, TaskData};
use tempfile::TempDir;

async fn run(a_first: bool) -> Option<String> {
    let tmp = TempDir::new().unwrap();
    let mut server = ServerConfig::Local { server_dir: tmp.path().to_path_buf() }.into_server().await.unwrap();
    let mut a = Replica::new(InMemoryStorage::new());
    let mut b = Replica::new(InMemoryStorage::new());
    let u = Uuid::from_u128(7);
    let mut ops = Operations::new();
    TaskData::create(u, &mut ops);
    a.commit_operations(ops).await.unwrap();
    a.sync(&mut server, false).await.unwrap();
    b.sync(&mut server, false).await.unwrap();
    let t = Utc.with_ymd_and_hms(2024,1,1,0,0,0).unwrap();
    a.commit_operations(vec![Operation::Update{uuid:u, property:"p".into(), old_value:None, value:Some("fromA".into()), timestamp:t}]).await.unwrap();
    b.commit_operations(vec![Operation::Update{uuid:u, property:"p".into(), old_value:None, value:Some("fromB".into()), timestamp:t}]).await.unwrap();
    if a_first { a.sync(&mut server,false).await.unwrap(); b.sync(&mut server,false).await.unwrap(); a.sync(&mut server,false).await.unwrap(); }
    else { b.sync(&mut server,false).await.unwrap(); a.sync(&mut server,false).await.unwrap(); b.sync(&mut server,false).await.unwrap(); }
    let va = a.get_task_data(u).await.unwrap().unwrap().get("p").map(|s| s.to_string());
    let vb = b.get_task_data(u).await.unwrap().unwrap().get("p").map(|s| s.to_string());
    assert_eq!(va, vb);
    va
}
#[tokio::test]
async fn tie_winner_depends_on_sync_order() {
    let x = run(true).await; let y = run(false).await;
    println!("A first -> {x:?}; B first -> {y:?}");
    assert_eq!(x, y);
}
