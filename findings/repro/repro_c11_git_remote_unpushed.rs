use taskchampion::storage::inmemory::InMemoryStorage;
use taskchampion::{Operations, Replica, ServerConfig, Uuid, TaskData, Server};
use tempfile::TempDir;
use std::process::Command;

async fn mk(p: &std::path::Path, remote: &str, local_only: bool) -> Box<dyn Server> {
    ServerConfig::Git { local_path: p.to_path_buf(), branch: "main".into(), remote: Some(remote.to_string()), local_only, encryption_secret: b"s".to_vec(), git_path: None }.into_server().await.unwrap()
}

#[tokio::test]
async fn git_remote_crash_between_commit_and_push() {
    let tmp = TempDir::new().unwrap();
    let bare = tmp.path().join("bare.git");
    assert!(Command::new("git").args(["init","--bare","-b","main", bare.to_str().unwrap()]).output().unwrap().status.success());
    let url = bare.to_str().unwrap().to_string();
    let ca = tmp.path().join("a"); let cb = tmp.path().join("b");
    let mut sa = mk(&ca, &url, false).await;
    let mut ra = Replica::new(InMemoryStorage::new());
    let mut rb = Replica::new(InMemoryStorage::new());
    let u = Uuid::from_u128(5);
    let mut ops = Operations::new(); TaskData::create(u, &mut ops);
    ra.commit_operations(ops).await.unwrap();
    ra.sync(&mut sa, false).await.unwrap();
    let mut sb = mk(&cb, &url, false).await;
    rb.sync(&mut sb, false).await.unwrap();
    assert!(rb.get_task_data(u).await.unwrap().is_some());

    // RA changes p; its add_version commits locally and the process stops before `git push`.
    let mut ops = Operations::new();
    let mut t = ra.get_task_data(u).await.unwrap().unwrap();
    t.update("p", Some("x".into()), &mut ops);
    let ts = match &ops[0] { taskchampion::Operation::Update{timestamp,..} => *timestamp, _ => unreachable!() };
    ra.commit_operations(ops).await.unwrap();
    drop(sa);
    {
        // emulate: same code path with pushing disabled = state after commit, before push
        let mut sa_nopush = mk(&ca, &url, true).await;
        let meta: serde_json::Value = serde_json::from_str(&std::fs::read_to_string(ca.join("meta")).unwrap()).unwrap();
        let latest = Uuid::parse_str(meta["latest_version"].as_str().unwrap()).unwrap();
        let hs = serde_json::json!({"operations":[{"Update":{"uuid":u,"property":"p","value":"x","timestamp":ts}}]}).to_string();
        let r = sa_nopush.add_version(latest, hs.into_bytes()).await.unwrap();
        println!("interrupted add_version (committed, not pushed): {:?}", r.0);
    }
    // restart
    let mut sa = mk(&ca, &url, false).await;
    println!("RA sync after restart: {:?}", ra.sync(&mut sa, false).await.map_err(|e| format!("{e:#}")));
    println!("RA local ops after: {}", ra.num_local_operations().await.unwrap());
    // RB pushes something
    let mut ops = Operations::new();
    let mut t = rb.get_task_data(u).await.unwrap().unwrap();
    t.update("q", Some("y".into()), &mut ops);
    rb.commit_operations(ops).await.unwrap();
    println!("RB sync: {:?}", rb.sync(&mut sb, false).await.map_err(|e| format!("{e:#}")));
    // RA goes on
    let mut ops = Operations::new();
    let mut t = ra.get_task_data(u).await.unwrap().unwrap();
    t.update("r", Some("z".into()), &mut ops);
    ra.commit_operations(ops).await.unwrap();
    let r = ra.sync(&mut sa, false).await.map_err(|e| format!("{e:#}"));
    println!("RA sync after further change: {r:?}");
    let _ = rb.sync(&mut sb, false).await;
    println!("RA p={:?}  RB p={:?}", ra.get_task_data(u).await.unwrap().unwrap().get("p").map(String::from), rb.get_task_data(u).await.unwrap().unwrap().get("p").map(String::from));
    assert!(r.is_ok());
}
