#![cfg(feature = "server-local")]
use taskchampion::chrono::{TimeZone, Utc, Duration};
use taskchampion::storage::inmemory::InMemoryStorage;
use taskchampion::storage::{Storage};
use taskchampion::{Operation, Operations, Replica, ServerConfig, Status, Uuid, TaskData};
use tempfile::TempDir;

async fn mkserver(tmp: &TempDir) -> Box<dyn taskchampion::Server> {
    ServerConfig::Local { server_dir: tmp.path().to_path_buf() }.into_server().await.unwrap()
}

fn sorted(m: std::collections::HashMap<Uuid, TaskData>) -> Vec<(Uuid, Vec<(String,String)>)> {
    let mut v: Vec<_> = m.into_iter().map(|(u,t)| { let mut p: Vec<_> = t.iter().map(|(a,b)|(a.clone(), if b.len()>20 {format!("<{}>", b.len())} else {b.clone()})).collect(); p.sort(); (u,p)}).collect();
    v.sort(); v
}

#[tokio::test]
async fn c01_two_batches_one_remote_update() {
    let tmp = TempDir::new().unwrap();
    let mut server = mkserver(&tmp).await;
    let mut a = Replica::new(InMemoryStorage::new());
    let mut b = Replica::new(InMemoryStorage::new());
    let u = Uuid::new_v4();
    let mut ops = Operations::new();
    TaskData::create(u, &mut ops);
    a.commit_operations(ops).await.unwrap();
    a.sync(&mut server, false).await.unwrap();
    b.sync(&mut server, false).await.unwrap();
    // A: big batch then small update to p
    let t0 = Utc.with_ymd_and_hms(2024,1,1,0,0,0).unwrap();
    let big = "x".repeat(600_000);
    let mut ops = Operations::new();
    ops.push(Operation::Update{uuid:u, property:"big1".into(), old_value:None, value:Some(big.clone()), timestamp:t0});
    ops.push(Operation::Update{uuid:u, property:"big2".into(), old_value:None, value:Some(big.clone()), timestamp:t0});
    ops.push(Operation::Update{uuid:u, property:"p".into(), old_value:None, value:Some("fromA".into()), timestamp:t0});
    a.commit_operations(ops).await.unwrap();
    // B: update p with later timestamp, sync first
    let mut ops = Operations::new();
    ops.push(Operation::Update{uuid:u, property:"p".into(), old_value:None, value:Some("fromB".into()), timestamp:t0 + Duration::seconds(10)});
    b.commit_operations(ops).await.unwrap();
    b.sync(&mut server, false).await.unwrap();
    a.sync(&mut server, false).await.unwrap();
    b.sync(&mut server, false).await.unwrap();
    a.sync(&mut server, false).await.unwrap();
    let ta = sorted(a.all_task_data().await.unwrap());
    let tb = sorted(b.all_task_data().await.unwrap());
    println!("A={ta:?}\nB={tb:?}");
    assert_eq!(ta, tb);
}

#[tokio::test]
async fn c15_ws_gap_renumber() {
    let mut r = Replica::new(InMemoryStorage::new());
    let mut us = vec![];
    for _ in 0..3 { let u = Uuid::new_v4(); us.push(u);
        let mut ops = Operations::new();
        let mut t = r.create_task(u, &mut ops).await.unwrap();
        t.set_status(Status::Pending, &mut ops).unwrap();
        r.commit_operations(ops).await.unwrap(); }
    // complete #2
    let mut ops = Operations::new();
    let mut t = r.get_task(us[1]).await.unwrap().unwrap();
    t.set_status(Status::Completed, &mut ops).unwrap();
    r.commit_operations(ops).await.unwrap();
    r.rebuild_working_set(false).await.unwrap();
    let ws = r.working_set().await.unwrap();
    println!("after no-renumber: {:?}", ws.iter().collect::<Vec<_>>());
    r.rebuild_working_set(true).await.unwrap();
    let ws = r.working_set().await.unwrap();
    let v: Vec<_> = ws.iter().map(|(i,_)| i).collect();
    println!("after renumber: {:?}", v);
    assert_eq!(v, vec![1,2]);
}

#[tokio::test]
async fn c15_ws_missing_task_shifts() {
    let mut r = Replica::new(InMemoryStorage::new());
    let mut us = vec![];
    for _ in 0..3 { let u = Uuid::new_v4(); us.push(u);
        let mut ops = Operations::new();
        let mut t = r.create_task(u, &mut ops).await.unwrap();
        t.set_status(Status::Pending, &mut ops).unwrap();
        r.commit_operations(ops).await.unwrap(); }
    // delete #2 outright
    let mut ops = Operations::new();
    let mut t = r.get_task_data(us[1]).await.unwrap().unwrap();
    t.delete(&mut ops);
    r.commit_operations(ops).await.unwrap();
    r.rebuild_working_set(false).await.unwrap();
    let ws = r.working_set().await.unwrap();
    println!("after no-renumber w/ missing: {:?}", ws.iter().collect::<Vec<_>>());
    assert_eq!(ws.by_uuid(us[2]), Some(3));
}

#[tokio::test]
async fn c16_inmem_add_ws_index() {
    let mut s = InMemoryStorage::new();
    let mut txn = s.txn().await.unwrap();
    let i = txn.add_to_working_set(Uuid::new_v4()).await.unwrap();
    let ws = txn.get_working_set().await.unwrap();
    println!("returned {i}, ws len {}", ws.len());
    assert_eq!(i, 1);
}

#[tokio::test]
async fn c18_panic_big_ts() {
    let mut r = Replica::new(InMemoryStorage::new());
    let u = Uuid::new_v4();
    let mut ops = Operations::new();
    let mut t = TaskData::create(u, &mut ops);
    t.update("due", Some("99999999999999999".into()), &mut ops);
    r.commit_operations(ops).await.unwrap();
    let t = r.get_task(u).await.unwrap().unwrap();
    let res = std::panic::catch_unwind(std::panic::AssertUnwindSafe(|| t.get_due()));
    println!("get_due panicked: {}", res.is_err());
    assert!(res.is_ok());
}
