use taskchampion::storage::inmemory::InMemoryStorage;
use taskchampion::{Operations, Replica, ServerConfig, Uuid, TaskData};
use tempfile::TempDir;

async fn mk(p: &std::path::Path, remote: Option<String>) -> Box<dyn taskchampion::Server> {
    ServerConfig::Git { local_path: p.to_path_buf(), branch: "main".into(), remote: remote.clone(), local_only: remote.is_none(), encryption_secret: b"s".to_vec(), git_path: None }.into_server().await.unwrap()
}

#[tokio::test]
async fn git_local_crash_after_write_meta() {
    let tmp = TempDir::new().unwrap();
    let dir = tmp.path().join("repo");
    let mut server = mk(&dir, None).await;
    let mut a = Replica::new(InMemoryStorage::new());
    let u = Uuid::new_v4();
    let mut ops = Operations::new();
    TaskData::create(u, &mut ops);
    a.commit_operations(ops).await.unwrap();
    a.sync(&mut server, false).await.unwrap();
    drop(server);
    // emulate: add_version wrote a version file and the meta file, then the process stopped before `git commit`
    let meta = std::fs::read_to_string(dir.join("meta")).unwrap();
    println!("meta before: {meta}");
    let v: serde_json::Value = serde_json::from_str(&meta).unwrap();
    let latest = v["latest_version"].as_str().unwrap().to_string();
    let newid = Uuid::new_v4().simple().to_string();
    std::fs::write(dir.join(format!("v-{latest}-{newid}")), b"garbage").unwrap();
    std::fs::write(dir.join("meta"), meta.replace(&latest, &newid)).unwrap();
    // restart
    let mut server = mk(&dir, None).await;
    println!("files after reopen: {:?}", std::fs::read_dir(&dir).unwrap().map(|e| e.unwrap().file_name()).collect::<Vec<_>>());
    println!("meta after reopen: {}", std::fs::read_to_string(dir.join("meta")).unwrap());
    let mut ops = Operations::new();
    let mut t = a.get_task_data(u).await.unwrap().unwrap();
    t.update("p", Some("x".into()), &mut ops);
    a.commit_operations(ops).await.unwrap();
    let r = a.sync(&mut server, false).await;
    println!("sync after restart: {:?}", r.as_ref().map_err(|e| format!("{e:#}")));
    assert!(r.is_ok());
}

#[tokio::test]
async fn git_two_handles_same_dir_stale_meta() {
    let tmp = TempDir::new().unwrap();
    let dir = tmp.path().join("repo");
    let mut h1 = mk(&dir, None).await;
    let mut h2 = mk(&dir, None).await;
    let r1 = h1.add_version(Uuid::nil(), b"one".to_vec()).await.unwrap();
    let r2 = h2.add_version(Uuid::nil(), b"two".to_vec()).await.unwrap();
    println!("h1: {:?}\nh2: {:?}", r1.0, r2.0);
    assert!(matches!(r2.0, taskchampion::server::AddVersionResult::ExpectedParentVersion(_)));
}
