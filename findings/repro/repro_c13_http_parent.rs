#![cfg(feature = "server-sync")]
use std::io::{Read, Write};
use std::net::TcpListener;
use std::sync::{Arc, Mutex};
use taskchampion::server::{GetVersionResult};
use taskchampion::{ServerConfig, Uuid};

fn read_req(s: &mut std::net::TcpStream) -> (String, Vec<u8>) {
    let mut buf = Vec::new(); let mut tmp = [0u8; 4096];
    loop {
        let n = s.read(&mut tmp).unwrap(); if n == 0 { break; }
        buf.extend_from_slice(&tmp[..n]);
        if let Some(pos) = buf.windows(4).position(|w| w == b"\r\n\r\n") {
            let head = String::from_utf8_lossy(&buf[..pos]).to_string();
            let cl = head.lines().find_map(|l| { let l = l.to_ascii_lowercase(); l.strip_prefix("content-length:").map(|v| v.trim().parse::<usize>().unwrap()) }).unwrap_or(0);
            let mut body = buf[pos+4..].to_vec();
            while body.len() < cl { let n = s.read(&mut tmp).unwrap(); body.extend_from_slice(&tmp[..n]); }
            return (head, body);
        }
    }
    (String::new(), vec![])
}

#[tokio::test(flavor = "multi_thread", worker_threads = 2)]
async fn http_child_of_other_parent_is_accepted() {
    for v in ["HTTP_PROXY","http_proxy","HTTPS_PROXY","https_proxy"] { std::env::remove_var(v); }
    let listener = TcpListener::bind("127.0.0.1:0").unwrap();
    let port = listener.local_addr().unwrap().port();
    let q = Uuid::from_u128(0x1111); let r = Uuid::from_u128(0x2222);
    let stored: Arc<Mutex<Option<Vec<u8>>>> = Arc::new(Mutex::new(None));
    let st = stored.clone();
    std::thread::spawn(move || {
        for conn in listener.incoming() {
            let mut s = conn.unwrap();
            let (head, body) = read_req(&mut s);
            let first = head.lines().next().unwrap_or("").to_string();
            if first.starts_with("POST /v1/client/add-version/") {
                *st.lock().unwrap() = Some(body);
                let resp = format!("HTTP/1.1 200 OK\r\nX-Version-Id: {r}\r\nContent-Length: 0\r\nConnection: close\r\n\r\n");
                s.write_all(resp.as_bytes()).unwrap();
            } else if first.starts_with("GET /v1/client/get-child-version/") {
                // whatever parent was asked for, answer with the genuine child of q, honestly labelled
                let body = st.lock().unwrap().clone().unwrap();
                let resp = format!("HTTP/1.1 200 OK\r\nX-Version-Id: {r}\r\nX-Parent-Version-Id: {q}\r\nContent-Type: application/vnd.taskchampion.history-segment\r\nContent-Length: {}\r\nConnection: close\r\n\r\n", body.len());
                s.write_all(resp.as_bytes()).unwrap(); s.write_all(&body).unwrap();
            }
        }
    });
    let mut srv = ServerConfig::Remote { url: format!("http://127.0.0.1:{port}"), client_id: Uuid::from_u128(0xabc), encryption_secret: b"secret".to_vec() }.into_server().await.unwrap();
    srv.add_version(q, b"child-of-q".to_vec()).await.unwrap();
    let p = Uuid::from_u128(0x9999);
    let res = srv.get_child_version(p).await;
    println!("asked for child of {p}, got: {res:?}");
    match res { Ok(GetVersionResult::Version{..}) => panic!("accepted a version that is not a child of the requested parent"), _ => {} }
}
