mod backend;
mod common;
mod hist;
mod obs_storage;
mod refserver;
mod rep;
mod seal;
mod wire;
mod cloudconc;
mod sqlconc;
mod store;
mod task;

use common::*;
use std::io::Write;
use std::path::PathBuf;

pub fn work_dir() -> PathBuf {
    let d = std::env::var("TCH_WORK").unwrap_or_else(|_| "/verif/.work/tmp".into());
    std::fs::create_dir_all(&d).ok();
    PathBuf::from(d)
}

struct Args {
    seed: u64,
    cases: usize,
    max_len: usize,
    out: PathBuf,
    corpus: Option<PathBuf>,
    replay: Option<PathBuf>,
    flags: Vec<String>,
}

fn parse_args(a: &[String]) -> Args {
    let mut args = Args {
        seed: 1,
        cases: 100,
        max_len: 30,
        out: PathBuf::from("/verif/.work/out"),
        corpus: None,
        replay: None,
        flags: vec![],
    };
    let mut i = 0;
    while i < a.len() {
        match a[i].as_str() {
            "--seed" => { args.seed = a[i + 1].parse().unwrap(); i += 1; }
            "--cases" => { args.cases = a[i + 1].parse().unwrap(); i += 1; }
            "--max-len" => { args.max_len = a[i + 1].parse().unwrap(); i += 1; }
            "--out" => { args.out = PathBuf::from(&a[i + 1]); i += 1; }
            "--corpus" => { args.corpus = Some(PathBuf::from(&a[i + 1])); i += 1; }
            "--replay" => { args.replay = Some(PathBuf::from(&a[i + 1])); i += 1; }
            f => args.flags.push(f.to_string()),
        }
        i += 1;
    }
    args
}

/// read cases from a protocol file: a case is the lines after a `# case` header
fn read_cases(path: &std::path::Path) -> Vec<(String, Vec<String>)> {
    let text = std::fs::read_to_string(path).unwrap_or_default();
    let mut cases: Vec<(String, Vec<String>)> = Vec::new();
    for l in text.lines() {
        if l.starts_with("# case") {
            cases.push((l.to_string(), Vec::new()));
        } else if l.starts_with('#') || l.trim().is_empty() {
            continue;
        } else {
            if cases.is_empty() {
                cases.push(("# case file".to_string(), Vec::new()));
            }
            cases.last_mut().unwrap().1.push(l.to_string());
        }
    }
    cases
}

fn run_hist(args: &Args) {
    std::fs::create_dir_all(&args.out).unwrap();
    let mut ops = std::io::BufWriter::new(std::fs::File::create(args.out.join("ops.txt")).unwrap());
    let mut imp = std::io::BufWriter::new(std::fs::File::create(args.out.join("impl.out")).unwrap());
    let mut stats: std::collections::HashMap<String, u64> = std::collections::HashMap::new();
    let cfg = hist::GenCfg {
        max_len: args.max_len,
        stepped: args.flags.iter().any(|f| f == "--stepped"),
        faults: args.flags.iter().any(|f| f == "--faults"),
        snapshots: args.flags.iter().any(|f| f == "--snapshots"),
        foreign: args.flags.iter().any(|f| f == "--foreign"),
    };
    let mut todo: Vec<(String, usize, u64, Vec<String>)> = Vec::new();
    let mut files: Vec<PathBuf> = Vec::new();
    if let Some(r) = &args.replay {
        files.push(r.clone());
    } else if let Some(c) = &args.corpus {
        if let Ok(rd) = std::fs::read_dir(c) {
            let mut fs: Vec<PathBuf> = rd.filter_map(|e| e.ok().map(|e| e.path())).collect();
            fs.sort();
            files.extend(fs);
        }
    }
    for f in &files {
        for (ci, (hdr, lines)) in read_cases(f).into_iter().enumerate() {
            let nreps = lines
                .iter()
                .find_map(|l| l.strip_prefix("R ").and_then(|n| n.trim().parse::<usize>().ok()))
                .unwrap_or(2);
            let mask = hdr
                .split_whitespace()
                .find_map(|t| t.strip_prefix("sqlite=").and_then(|m| m.parse::<u64>().ok()))
                .unwrap_or(0);
            let name = f.file_name().unwrap().to_string_lossy().to_string();
            let group = hdr
                .split_whitespace()
                .find(|t| t.starts_with("group="))
                .map(|g| format!(" {}", g))
                .unwrap_or_default();
            let foreign = if lines.iter().any(|l| l.starts_with("W ")) { " foreign=1" } else { "" };
            todo.push((format!("# case corpus:{}#{} sqlite={}{}{}", name, ci, mask, group, foreign), nreps, mask, lines));
        }
    }
    if args.replay.is_none() && args.flags.iter().any(|f| f == "--conflicts") {
        let mut rng = Rng::new(args.seed);
        for i in 0..args.cases {
            let mut crng = rng.fork();
            for (tag, nreps, lines) in hist::gen_conflict_group(&mut crng) {
                todo.push((format!("# case {}.{} seed={} sqlite=0 group={}", i, tag, args.seed, i), nreps, 0, lines));
            }
        }
    } else if args.replay.is_none() {
        let mut rng = Rng::new(args.seed);
        for i in 0..args.cases {
            let mut crng = rng.fork();
            let (nreps, mask, lines) = hist::gen_case(&mut crng, &cfg);
            let foreign = if lines.iter().any(|l| l.starts_with("W ")) { " foreign=1" } else { "" };
            todo.push((format!("# case {} seed={} sqlite={}{}", i, args.seed, mask, foreign), nreps, mask, lines));
        }
    }
    let trace = std::env::var("TCH_TRACE").is_ok();
    for (hdr, nreps, mask, lines) in todo {
        if trace {
            eprintln!("{}", hdr);
            for l in &lines {
                eprintln!("  {}", l);
            }
        }
        writeln!(ops, "{}", hdr).unwrap();
        writeln!(imp, "{}", hdr).unwrap();
        let result = std::panic::catch_unwind(std::panic::AssertUnwindSafe(|| {
            let mut h = hist::Hist::new(nreps, mask);
            let mut o = Vec::new();
            let mut i = Vec::new();
            let mut all = lines.clone();
            if all.last().map(|l| l != "Q").unwrap_or(true) {
                all.push("Q".into());
            }
            for l in &all {
                let (nl, outs) = h.exec(l);
                i.push(format!("> {}", nl));
                o.push(nl);
                i.extend(outs);
            }
            (o, i, h.stats.clone())
        }));
        match result {
            Ok((o, i, st)) => {
                for l in o { writeln!(ops, "{}", l).unwrap(); }
                for l in i { writeln!(imp, "{}", l).unwrap(); }
                for (k, v) in st { *stats.entry(k).or_insert(0) += v; }
                *stats.entry("cases".into()).or_insert(0) += 1;
            }
            Err(_) => {
                for l in &lines { writeln!(ops, "{}", l).unwrap(); }
                writeln!(imp, "panic").unwrap();
                *stats.entry("panics".into()).or_insert(0) += 1;
            }
        }
    }
    let mut keys: Vec<&String> = stats.keys().collect();
    keys.sort();
    let body: Vec<String> = keys.iter().map(|k| format!("\"{}\": {}", k, stats[*k])).collect();
    std::fs::write(args.out.join("stats.json"), format!("{{{}}}\n", body.join(", "))).unwrap();
}

fn run_rep(args: &Args) {
    std::fs::create_dir_all(&args.out).unwrap();
    let mut ops = std::io::BufWriter::new(std::fs::File::create(args.out.join("ops.txt")).unwrap());
    let mut imp = std::io::BufWriter::new(std::fs::File::create(args.out.join("impl.out")).unwrap());
    let mut stats: std::collections::HashMap<String, u64> = std::collections::HashMap::new();
    let crash = args.flags.iter().any(|f| f == "--crash");
    // replay / corpus cases first
    let mut fixed: Vec<(String, bool, Vec<String>)> = Vec::new();
    let mut files: Vec<PathBuf> = Vec::new();
    if let Some(r) = &args.replay {
        files.push(r.clone());
    } else if let Some(c) = &args.corpus {
        if let Ok(rd) = std::fs::read_dir(c) {
            let mut fs: Vec<PathBuf> = rd.filter_map(|e| e.ok().map(|e| e.path())).collect();
            fs.sort();
            files.extend(fs);
        }
    }
    for f in &files {
        for (ci, (hdr, lines)) in read_cases(f).into_iter().enumerate() {
            let sql = hdr.contains("sqlite=1");
            let name = f.file_name().unwrap().to_string_lossy().to_string();
            let wild = if hdr.contains("wild=1") { " wild=1" } else { "" };
            fixed.push((format!("# case corpus:{}#{} sqlite={}{}", name, ci, sql as u8, wild), sql, lines));
        }
    }
    let mut run_case = |hdr: String, sql: bool, lines: Option<Vec<String>>, crng: Option<Rng>, len: usize| {
        let wild = hdr.contains("wild=1");
        writeln!(ops, "{}", hdr).unwrap();
        writeln!(imp, "{}", hdr).unwrap();
        let result = std::panic::catch_unwind(std::panic::AssertUnwindSafe(|| {
            let mut h = rep::RepRun::new(sql);
            h.wild = wild;
            let mut o = Vec::new();
            let mut i = Vec::new();
            let mut crng = crng;
            let total = lines.as_ref().map(|l| l.len()).unwrap_or(len);
            for k in 0..total {
                let l = match &lines {
                    Some(ls) => ls[k].clone(),
                    None => {
                        let l = h.gen_line(crng.as_mut().unwrap());
                        let r = crng.as_mut().unwrap();
                        if crash && !l.starts_with('G') && !l.starts_with('Q') && r.below(2) == 0 {
                            format!("F {}{} {}", 1 + r.below(16), if r.below(3) == 0 { "n" } else { "" }, l)
                        } else {
                            l
                        }
                    }
                };
                let (nl, outs) = h.exec(&l);
                // a sync that was interrupted may have reached the (private) server although nothing was
                // committed locally; this family's model has no server, so the sync is completed before
                // anything else happens (an undo could no longer take back what the server has)
                let resync = nl.starts_with("F ") && (nl.contains(" before Y") || nl.contains(" mid Y"));
                i.push(format!("> {}", nl));
                o.push(nl);
                i.extend(outs);
                if resync {
                    let (nl, outs) = h.exec("Q");
                    i.push("> Q".to_string());
                    o.push(nl);
                    i.extend(outs);
                    let (nl, outs) = h.exec("Y");
                    i.push(format!("> {}", nl));
                    o.push(nl);
                    i.extend(outs);
                }
                // every action is followed by a dump
                if l != "Q" && l != "G" {
                    let (nl, outs) = h.exec("Q");
                    i.push("> Q".to_string());
                    o.push(nl);
                    i.extend(outs);
                }
            }
            (o, i, h.stats.clone())
        }));
        match result {
            Ok((o, i, st)) => {
                for l in o { writeln!(ops, "{}", l).unwrap(); }
                for l in i { writeln!(imp, "{}", l).unwrap(); }
                for (k, v) in st { *stats.entry(k).or_insert(0) += v; }
                *stats.entry("cases".into()).or_insert(0) += 1;
            }
            Err(_) => {
                writeln!(imp, "panic").unwrap();
                *stats.entry("panics".into()).or_insert(0) += 1;
            }
        }
    };
    for (hdr, sql, lines) in fixed {
        let lines: Vec<String> = lines.into_iter().filter(|l| l != "Q").collect();
        run_case(hdr, sql, Some(lines), None, 0);
    }
    if args.replay.is_none() {
        let mut rng = Rng::new(args.seed);
        for i in 0..args.cases {
            let mut crng = rng.fork();
            let sql = crng.chance(1, 3) || crash;
            let len = 3 + crng.below(args.max_len as u64 - 2) as usize;
            let wild = crng.chance(1, 4) && !crash;
            run_case(format!("# case {} seed={} sqlite={} wild={}", i, args.seed, sql as u8, wild as u8), sql, None, Some(crng), len);
        }
    }
    let mut keys: Vec<&String> = stats.keys().collect();
    keys.sort();
    let body: Vec<String> = keys.iter().map(|k| format!("\"{}\": {}", k, stats[*k])).collect();
    std::fs::write(args.out.join("stats.json"), format!("{{{}}}\n", body.join(", "))).unwrap();
}

fn run_backend(args: &Args) {
    std::fs::create_dir_all(&args.out).unwrap();
    for v in ["HTTP_PROXY", "http_proxy", "HTTPS_PROXY", "https_proxy", "ALL_PROXY", "all_proxy"] {
        std::env::remove_var(v);
    }
    let mut ops = std::io::BufWriter::new(std::fs::File::create(args.out.join("ops.txt")).unwrap());
    let mut imp = std::io::BufWriter::new(std::fs::File::create(args.out.join("impl.out")).unwrap());
    let mut stats: std::collections::HashMap<String, u64> = std::collections::HashMap::new();
    let kinds: Vec<backend::Kind> = args
        .flags
        .iter()
        .filter_map(|f| f.strip_prefix("--kind=").and_then(backend::Kind::parse))
        .collect();
    let kinds = if kinds.is_empty() {
        vec![backend::Kind::Local, backend::Kind::Cloud, backend::Kind::Http, backend::Kind::GitLocal, backend::Kind::GitRemote]
    } else {
        kinds
    };
    let sealed_check = args.flags.iter().any(|f| f == "--sealed-check");
    let kinds_len = kinds.len();
    let crash = args.flags.iter().any(|f| f == "--crash");
    let kinds: Vec<backend::Kind> = if crash { kinds.into_iter().filter(|k| *k != backend::Kind::Http).collect() } else { kinds };
    let kinds_len = kinds.len();
    let mut rng = Rng::new(args.seed);
    // (header, kind, handles, recorded lines)
    let mut cases: Vec<(String, backend::Kind, usize, Option<Vec<String>>, Rng, usize)> = Vec::new();
    let mut files: Vec<PathBuf> = Vec::new();
    if let Some(r) = &args.replay {
        files.push(r.clone());
    } else if let Some(c) = &args.corpus {
        if let Ok(rd) = std::fs::read_dir(c) {
            let mut fs: Vec<PathBuf> = rd.filter_map(|e| e.ok().map(|e| e.path())).collect();
            fs.sort();
            files.extend(fs);
        }
    }
    for f in &files {
        for (ci, (h, lines)) in read_cases(f).into_iter().enumerate() {
            let name = f.file_name().unwrap().to_string_lossy().to_string();
            let get = |key: &str| h.split_whitespace().find_map(|w| w.strip_prefix(key).map(|x| x.to_string()));
            let kind = get("backend=").and_then(|k| backend::Kind::parse(&k)).unwrap_or(backend::Kind::Local);
            let nh: usize = get("handles=").and_then(|x| x.parse().ok()).unwrap_or(1);
            if crash != lines.iter().any(|l| l.starts_with("FP ") || l.starts_with("EP ")) && args.replay.is_none() {
                continue;
            }
            cases.push((format!("# case corpus:{}#{} backend={} handles={}", name, ci, kind.name(), nh), kind, nh, Some(lines), Rng::new(0), 0));
        }
    }
    if args.replay.is_none() {
        for i in 0..args.cases {
            let mut crng = rng.fork();
            let kind = kinds[i % kinds.len()];
            // git is slow (every call forks git several times): shorter cases
            let len = match kind {
                backend::Kind::GitLocal | backend::Kind::GitRemote => 4 + crng.below(args.max_len as u64 / 4 + 1) as usize,
                _ => 5 + crng.below(args.max_len as u64) as usize,
            };
            let nh = 1 + crng.below(3) as usize;
            cases.push((format!("# case {} seed={} backend={} handles={}", i, args.seed, kind.name(), nh), kind, nh, None, crng, len));
        }
    }
    for (i, (hdr, kind, nh, fixed, crng, len)) in cases.into_iter().enumerate() {
        let mut crng = crng;
        writeln!(ops, "{}", hdr).unwrap();
        writeln!(imp, "{}", hdr).unwrap();
        let r = std::panic::catch_unwind(std::panic::AssertUnwindSafe(|| {
            let mut run = backend::BackendRun::new(kind, nh);
            run.sealed_check = sealed_check && (i < kinds_len || i % 4 == 0);
            let mut lines = vec![(format!("BACKEND {}", kind.name()), String::new(), Vec::new())];
            let mut nver = 0;
            let specs = backend::fault_specs(kind);
            if let Some(fixed) = &fixed {
                for l in fixed.iter().filter(|l| !l.starts_with("BACKEND") && !l.starts_with("KEY") && !l.starts_with("OPEN")) {
                    // results recorded in a replayed line are recomputed
                    let l = l.split(" !").next().unwrap().to_string();
                    let l = if l.starts_with("EP ") { l.split(" -> ").next().unwrap().to_string() } else { l };
                    let l = if l.starts_with("GS ") { l.split(" -> ").next().unwrap().to_string() } else { l };
                    let (nl, o) = run.exec(&l);
                    lines.push((nl, o, std::mem::take(&mut run.extra_ops)));
                }
            } else if crash && (i / kinds_len) % 2 == 1 {
                // replica-level rounds: whole replicas synchronize through the backend while it is interrupted
                for k in 0..(3 + crng.below(5)) {
                    let r = crng.below(2);
                    let spec = if crng.below(4) == 0 { "none".to_string() } else { crng.pick(&specs[..]).clone() };
                    let (nl, o) = run.exec(&format!("EP {} {} {}", r, spec, k));
                    lines.push((nl, o, Vec::new()));
                }
                let (nl, o) = run.exec("EPEND");
                lines.push((nl, o, Vec::new()));
            } else {
                if kind == backend::Kind::GitRemote && nh >= 2 && crng.below(2) == 0 {
                    // one clone is restarted before anything was added: restarting publishes its first
                    // commit (the meta file), so the other clones' first push meets a remote that moved
                    // without gaining a version
                    let (nl, o) = run.exec(&format!("REOPEN {}", crng.below(nh as u64)));
                    lines.push((nl, o, Vec::new()));
                }
                for _ in 0..len {
                    let mut l = backend::gen_line(&mut run, &mut crng, nh, &mut nver);
                    if crash && (l.starts_with("AV") || l.starts_with("AS")) && crng.below(2) == 0 {
                        let h: usize = l.split(' ').nth(1).unwrap().parse().unwrap();
                        // mostly interrupt a request that would be accepted
                        if l.starts_with("AV") && crng.below(3) > 0 {
                            let latest = if run.accepted.is_empty() { "nil".to_string() } else { format!("v{}", run.accepted.len()) };
                            let b = l.split(' ').nth(3).unwrap().to_string();
                            l = format!("AV {} {} {}", h, latest, b);
                        }
                        let (nl, o) = run.exec(&format!("FP {} {}", h, crng.pick(&specs[..])));
                        lines.push((nl, o, Vec::new()));
                    }
                    let (nl, o) = run.exec(&l);
                    lines.push((nl, o, std::mem::take(&mut run.extra_ops)));
                }
            }
            (lines, run.stats.clone())
        }));
        match r {
            Ok((lines, st)) => {
                for (l, o, extra) in lines {
                    writeln!(ops, "{}", l).unwrap();
                    for e in extra {
                        writeln!(ops, "{}", e).unwrap();
                    }
                    writeln!(imp, "> {}", l).unwrap();
                    for ol in o.split('\n') {
                        if !ol.is_empty() {
                            writeln!(imp, "{}", ol).unwrap();
                        }
                    }
                }
                for (k, v) in st {
                    *stats.entry(format!("{}.{}", kind.name(), k)).or_insert(0) += v;
                }
            }
            Err(_) => {
                writeln!(imp, "panic").unwrap();
            }
        }
        *stats.entry("cases".into()).or_insert(0) += 1;
    }
    let mut keys: Vec<&String> = stats.keys().collect();
    keys.sort();
    let body: Vec<String> = keys.iter().map(|k| format!("\"{}\": {}", k, stats[*k])).collect();
    std::fs::write(args.out.join("stats.json"), format!("{{{}}}\n", body.join(", "))).unwrap();
}

fn run_cloudconc(args: &Args) {
    std::fs::create_dir_all(&args.out).unwrap();
    let mut ops = std::io::BufWriter::new(std::fs::File::create(args.out.join("ops.txt")).unwrap());
    let mut imp = std::io::BufWriter::new(std::fs::File::create(args.out.join("impl.out")).unwrap());
    let mut stats: std::collections::HashMap<String, u64> = std::collections::HashMap::new();
    let cleanup = args.flags.iter().any(|f| f == "--cleanup") || std::env::args().nth(1).as_deref() == Some("cleanconc");
    let mut cases: Vec<(String, Option<Vec<String>>, Rng, usize)> = Vec::new();
    let mut files: Vec<PathBuf> = Vec::new();
    if let Some(r) = &args.replay {
        files.push(r.clone());
    } else if let Some(c) = &args.corpus {
        if let Ok(rd) = std::fs::read_dir(c) {
            let mut fs: Vec<PathBuf> = rd.filter_map(|e| e.ok().map(|e| e.path())).collect();
            fs.sort();
            files.extend(fs);
        }
    }
    for f in &files {
        for (ci, (_, lines)) in read_cases(f).into_iter().enumerate() {
            let name = f.file_name().unwrap().to_string_lossy().to_string();
            if args.replay.is_none() && cleanup != lines.iter().any(|l| l.contains(" CLEAN")) {
                continue;
            }
            cases.push((format!("# case corpus:{}#{}", name, ci), Some(lines), Rng::new(0), 0));
        }
    }
    if args.replay.is_none() {
        let mut rng = Rng::new(args.seed);
        for i in 0..args.cases {
            let mut crng = rng.fork();
            let len = 10 + crng.below(args.max_len as u64) as usize;
            cases.push((format!("# case {} seed={}", i, args.seed), None, crng, len));
        }
    }
    for (hdr, fixed, mut crng, len) in cases {
        let r = std::panic::catch_unwind(std::panic::AssertUnwindSafe(|| {
            let mut lines: Vec<String> = Vec::new();
            let mut outs: Vec<String> = Vec::new();
            let (n, todo): (usize, Option<Vec<String>>) = match &fixed {
                Some(ls) => {
                    let n = ls.iter().find_map(|l| l.strip_prefix("CLIENTS ").and_then(|x| x.trim().parse().ok())).unwrap_or(2);
                    (n, Some(ls.iter().filter(|l| !l.starts_with("CLIENTS") && !l.starts_with("END")).map(|l| l.split(" :: ").next().unwrap().to_string()).collect()))
                }
                None => (2 + crng.below(3) as usize, None),
            };
            let mut run = cloudconc::Conc::new(n, cleanup, &mut crng);
            lines.push(format!("CLIENTS {}", n));
            outs.push(String::new());
            let mut g = cloudconc::ConcGen { n, acked: Vec::new(), nd: 0, cleanup, cleaning: vec![false; n], snap_next: vec![None; n] };
            let mut feed = |l: String, run: &mut cloudconc::Conc, g: &mut cloudconc::ConcGen, lines: &mut Vec<String>, outs: &mut Vec<String>| {
                if let Some(rest) = l.strip_prefix("BEGIN ") {
                    let t: Vec<&str> = rest.split(' ').collect();
                    if t.len() == 2 && t[1] == "CLEAN" {
                        if let Ok(c) = t[0].parse::<usize>() {
                            if c < g.cleaning.len() {
                                g.cleaning[c] = true;
                            }
                        }
                    }
                }
                let (nl, o) = run.exec(&l);
                for e in nl.split(" :: ") {
                    if let Some(rest) = e.strip_prefix("ret ") {
                        let t: Vec<&str> = rest.split(' ').collect();
                        if t.len() >= 3 && t[1] == "ok" {
                            g.acked.push(t[2].to_string());
                            if let Ok(c) = t[0].parse::<usize>() {
                                if c < g.snap_next.len() {
                                    g.snap_next[c] = Some(t[2].to_string());
                                }
                            }
                        }
                    }
                }
                lines.push(nl);
                outs.push(o);
            };
            match todo {
                Some(ls) => {
                    for l in ls {
                        feed(l, &mut run, &mut g, &mut lines, &mut outs);
                    }
                }
                None => {
                    for _ in 0..len {
                        let l = cloudconc::gen_line(&mut g, &run, &mut crng);
                        feed(l, &mut run, &mut g, &mut lines, &mut outs);
                    }
                    // let everybody finish, in random order
                    let mut guard = 0;
                    while (0..n).any(|c| run.busy(c)) && guard < 2000 {
                        let busy: Vec<usize> = (0..n).filter(|c| run.busy(*c)).collect();
                        let c = *crng.pick(&busy[..]);
                        feed(format!("STEP {}", c), &mut run, &mut g, &mut lines, &mut outs);
                        guard += 1;
                    }
                }
            }
            feed("END".to_string(), &mut run, &mut g, &mut lines, &mut outs);
            cloudconc::annotate_lists(&mut lines);
            (lines, outs, run.stats.clone())
        }));
        writeln!(ops, "{}", hdr).unwrap();
        writeln!(imp, "{}", hdr).unwrap();
        match r {
            Ok((lines, outs, st)) => {
                for (l, o) in lines.iter().zip(outs.iter()) {
                    writeln!(ops, "{}", l).unwrap();
                    writeln!(imp, "> {}", l).unwrap();
                    if !o.is_empty() {
                        writeln!(imp, "{}", o).unwrap();
                    }
                }
                for (k, v) in st {
                    *stats.entry(k).or_insert(0) += v;
                }
            }
            Err(_) => {
                writeln!(imp, "panic").unwrap();
            }
        }
        *stats.entry("cases".into()).or_insert(0) += 1;
    }
    let mut keys: Vec<&String> = stats.keys().collect();
    keys.sort();
    let body: Vec<String> = keys.iter().map(|k| format!("\"{}\": {}", k, stats[*k])).collect();
    std::fs::write(args.out.join("stats.json"), format!("{{{}}}\n", body.join(", "))).unwrap();
}

/// child process of `sqlkill`: replica actions on the SQLite database in --out, announced before
/// and acknowledged after each one, until killed
fn run_sqlchild(args: &Args) {
    use std::io::Write as _;
    let mut h = rep::RepRun::new_at(Some(args.out.clone()));
    h.big = true;
    let mut rng = Rng::new(args.seed);
    let so = std::io::stdout();
    for _ in 0..args.max_len {
        let l = loop {
            let l = h.gen_line(&mut rng);
            if !l.starts_with('E') && !l.starts_with('Y') {
                break l;
            }
        };
        {
            let mut o = so.lock();
            writeln!(o, "about {}", l).unwrap();
            o.flush().unwrap();
        }
        let (nl, outs) = h.exec(&l);
        let mut o = so.lock();
        writeln!(o, "done {} :: {}", nl, outs.join(" | ")).unwrap();
        o.flush().unwrap();
    }
}

/// Family `sqlkill`: a child process works on a SQLite replica and is killed (SIGKILL) at a random
/// instant; the database is then opened by a fresh handle.  Acknowledged actions must all be there;
/// the action in flight must have happened entirely or not at all.
fn run_sqlkill(args: &Args) {
    use std::io::BufRead as _;
    std::fs::create_dir_all(&args.out).unwrap();
    let mut ops = std::io::BufWriter::new(std::fs::File::create(args.out.join("ops.txt")).unwrap());
    let mut imp = std::io::BufWriter::new(std::fs::File::create(args.out.join("impl.out")).unwrap());
    let mut stats: std::collections::HashMap<String, u64> = std::collections::HashMap::new();
    let exe = std::env::current_exe().unwrap();
    let mut rng = Rng::new(args.seed);
    // replayed / corpus cases are plain `rep` cases (the kill is recorded as an F line)
    let mut fixed: Vec<(String, Vec<String>)> = Vec::new();
    if let Some(r) = &args.replay {
        for (hdr, lines) in read_cases(r) {
            fixed.push((hdr, lines));
        }
    }
    for (hdr, lines) in fixed {
        writeln!(ops, "{}", hdr).unwrap();
        writeln!(imp, "{}", hdr).unwrap();
        let mut h = rep::RepRun::new(true);
        for l in lines {
            let (nl, outs) = h.exec(&l);
            writeln!(ops, "{}", nl).unwrap();
            writeln!(imp, "> {}", nl).unwrap();
            for o in outs {
                writeln!(imp, "{}", o).unwrap();
            }
        }
    }
    if args.replay.is_some() {
        return;
    }
    for i in 0..args.cases {
        let mut crng = rng.fork();
        let dir = tempfile::TempDir::new_in(work_dir()).unwrap();
        let seed = crng.next();
        let mut child = std::process::Command::new(&exe)
            .arg("sqlchild")
            .arg("--seed")
            .arg(format!("{}", seed))
            .arg("--max-len")
            .arg(format!("{}", args.max_len))
            .arg("--out")
            .arg(dir.path())
            .stdout(std::process::Stdio::piped())
            .stderr(std::process::Stdio::null())
            .spawn()
            .expect("spawn child");
        let stdout = child.stdout.take().unwrap();
        let (tx, rx) = std::sync::mpsc::channel::<String>();
        let reader = std::thread::spawn(move || {
            for l in std::io::BufReader::new(stdout).lines() {
                match l {
                    Ok(l) => {
                        if tx.send(l).is_err() {
                            break;
                        }
                    }
                    Err(_) => break,
                }
            }
        });
        // wait for the first announcement, then a random time, then SIGKILL
        let mut lines: Vec<String> = Vec::new();
        if let Ok(l) = rx.recv_timeout(std::time::Duration::from_secs(20)) {
            lines.push(l);
        }
        let wait_us = match crng.below(4) {
            0 => crng.below(2_000),
            1 => crng.below(20_000),
            _ => crng.below(150_000),
        };
        std::thread::sleep(std::time::Duration::from_micros(wait_us));
        let _ = child.kill();
        let _ = child.wait();
        let _ = reader.join();
        while let Ok(l) = rx.try_recv() {
            lines.push(l);
        }
        // acknowledged actions, and the one in flight
        let mut acked: Vec<(String, Vec<String>)> = Vec::new();
        let mut inflight: Option<String> = None;
        for l in &lines {
            if let Some(a) = l.strip_prefix("about ") {
                inflight = Some(a.to_string());
            } else if let Some(d) = l.strip_prefix("done ") {
                let (nl, outs) = d.split_once(" :: ").unwrap_or((d, ""));
                acked.push((nl.to_string(), outs.split(" | ").filter(|x| !x.is_empty()).map(|x| x.to_string()).collect()));
                inflight = None;
            }
        }
        let hdr = format!("# case {} seed={} sqlite=1 wild=0 kill-after-us={} acked={} inflight={}", i, args.seed, wait_us, acked.len(), inflight.is_some() as u8);
        writeln!(ops, "{}", hdr).unwrap();
        writeln!(imp, "{}", hdr).unwrap();
        let res = std::panic::catch_unwind(std::panic::AssertUnwindSafe(|| {
            // what a fresh handle finds; in every other case a read-only handle looks first (what was
            // committed must be visible to it as well, before any read-write open has tidied up)
            let actual_ro = if i % 2 == 1 {
                let p = dir.path().to_path_buf();
                let r = std::panic::catch_unwind(std::panic::AssertUnwindSafe(|| {
                    let mut ro = rep::RepRun::new_at_mode(Some(p), true);
                    ro.dump()
                }));
                Some(r.unwrap_or_else(|_| vec!["read-only handle could not read the database".to_string()]))
            } else {
                None
            };
            // (a database that cannot be opened or read after the kill is a finding, not a harness failure)
            let actual = {
                let p = dir.path().to_path_buf();
                let r = std::panic::catch_unwind(std::panic::AssertUnwindSafe(|| {
                    let mut fresh = rep::RepRun::new_at(Some(p));
                    fresh.dump()
                }));
                r.unwrap_or_else(|_| vec!["durable-violation the database cannot be opened or read after the kill".to_string()])
            };
            // the acknowledged actions on a scratch replica (same code, also on SQLite: the working-set
            // rebuild follows the storage's enumeration order, which differs between the backends)
            let mut scratch = rep::RepRun::new(true);
            let mut o: Vec<String> = Vec::new();
            let mut im: Vec<String> = Vec::new();
            for (nl, outs) in &acked {
                let _ = scratch.exec(nl);
                o.push(nl.clone());
                im.push(format!("> {}", nl));
                im.extend(outs.iter().cloned());
            }
            if let Some(l) = &inflight {
                let before = scratch.dump();
                let (nl, outs) = scratch.exec(l);
                let after = scratch.dump();
                let label = if actual == after { "after" } else if actual == before { "before" } else { "mid" };
                let line = format!("F kill {} {}", label, nl);
                o.push(line.clone());
                im.push(format!("> {}", line));
                if label == "after" {
                    im.extend(outs);
                } else {
                    im.push(format!("interrupted {}", label));
                }
                if let Some(ro) = actual_ro {
                    if ro != actual {
                        im.push("durable-violation a read-only handle opened right after the kill does not see what a read-write handle sees".into());
                    }
                    o.push("Q".into());
                    im.push("> Q".into());
                    im.extend(ro);
                }
                o.push("Q".into());
                im.push("> Q".into());
                im.extend(actual);
                label.to_string()
            } else {
                // nothing was in flight: every acknowledged action must be there, and nothing else
                if scratch.dump() != actual {
                    im.push("durable-violation the reopened database is not the state after the acknowledged actions".into());
                }
                if let Some(ro) = actual_ro {
                    if ro != actual {
                        im.push("durable-violation a read-only handle opened right after the kill does not see what a read-write handle sees".into());
                    }
                    o.push("Q".into());
                    im.push("> Q".into());
                    im.extend(ro);
                }
                o.push("Q".into());
                im.push("> Q".into());
                im.extend(actual);
                "none".to_string()
            };
            (o, im)
        }));
        match res {
            Ok((o, im)) => {
                for l in &o {
                    writeln!(ops, "{}", l).unwrap();
                }
                for l in &im {
                    writeln!(imp, "{}", l).unwrap();
                }
                let lab = o.iter().find_map(|l| l.strip_prefix("F kill ").map(|x| x.split(' ').next().unwrap().to_string())).unwrap_or("none".into());
                *stats.entry(format!("inflight.{}", lab)).or_insert(0) += 1;
                *stats.entry("acked_actions".into()).or_insert(0) += acked.len() as u64;
            }
            Err(_) => {
                writeln!(imp, "panic").unwrap();
            }
        }
        *stats.entry("cases".into()).or_insert(0) += 1;
    }
    let mut keys: Vec<&String> = stats.keys().collect();
    keys.sort();
    let body: Vec<String> = keys.iter().map(|k| format!("\"{}\": {}", k, stats[*k])).collect();
    std::fs::write(args.out.join("stats.json"), format!("{{{}}}\n", body.join(", "))).unwrap();
}

fn run_sqlconc(args: &Args) {
    std::fs::create_dir_all(&args.out).unwrap();
    let mut ops = std::io::BufWriter::new(std::fs::File::create(args.out.join("ops.txt")).unwrap());
    let mut imp = std::io::BufWriter::new(std::fs::File::create(args.out.join("impl.out")).unwrap());
    let mut stats: std::collections::HashMap<String, u64> = std::collections::HashMap::new();
    let mut rng = Rng::new(args.seed);
    // a replayed case is the recorded worker logs and audit: they are re-judged, not re-run (the
    // schedule that produced them cannot be forced)
    if let Some(r) = &args.replay {
        for (hdr, lines) in read_cases(r) {
            writeln!(ops, "{}", hdr).unwrap();
            writeln!(imp, "{}", hdr).unwrap();
            for l in lines {
                writeln!(ops, "{}", l).unwrap();
                writeln!(imp, "> {}", l).unwrap();
            }
        }
        return;
    }
    for i in 0..args.cases {
        let mut crng = rng.fork();
        let hdr = format!("# case {} seed={}", i, args.seed);
        writeln!(ops, "{}", hdr).unwrap();
        writeln!(imp, "{}", hdr).unwrap();
        match std::panic::catch_unwind(std::panic::AssertUnwindSafe(|| sqlconc::run_case_kind(&mut crng, args.max_len, i % 4 == 3))) {
            Ok(o) => {
                for l in &o.lines {
                    writeln!(ops, "{}", l).unwrap();
                    writeln!(imp, "> {}", l).unwrap();
                }
                writeln!(ops, "{}", o.audit_line).unwrap();
                writeln!(imp, "> {}", o.audit_line).unwrap();
                for l in &o.audit_out {
                    writeln!(imp, "{}", l).unwrap();
                }
                for (k, v) in o.stats {
                    *stats.entry(k).or_insert(0) += v;
                }
            }
            Err(_) => {
                writeln!(imp, "panic").unwrap();
            }
        }
        *stats.entry("cases".into()).or_insert(0) += 1;
    }
    let mut keys: Vec<&String> = stats.keys().collect();
    keys.sort();
    let body: Vec<String> = keys.iter().map(|k| format!("\"{}\": {}", k, stats[*k])).collect();
    std::fs::write(args.out.join("stats.json"), format!("{{{}}}\n", body.join(", "))).unwrap();
}

fn run_wire(args: &Args) {
    std::fs::create_dir_all(&args.out).unwrap();
    let mut ops = std::io::BufWriter::new(std::fs::File::create(args.out.join("ops.txt")).unwrap());
    let mut imp = std::io::BufWriter::new(std::fs::File::create(args.out.join("impl.out")).unwrap());
    let mut stats: std::collections::HashMap<String, u64> = std::collections::HashMap::new();
    let mut cases: Vec<(String, Vec<String>)> = Vec::new();
    let mut files: Vec<PathBuf> = Vec::new();
    if let Some(r) = &args.replay {
        files.push(r.clone());
    } else if let Some(c) = &args.corpus {
        if let Ok(rd) = std::fs::read_dir(c) {
            let mut fs: Vec<PathBuf> = rd.filter_map(|e| e.ok().map(|e| e.path())).collect();
            fs.sort();
            files.extend(fs);
        }
    }
    for f in &files {
        for (ci, (_, lines)) in read_cases(f).into_iter().enumerate() {
            let name = f.file_name().unwrap().to_string_lossy().to_string();
            cases.push((format!("# case corpus:{}#{}", name, ci), lines));
        }
    }
    if args.replay.is_none() {
        let mut rng = Rng::new(args.seed);
        for i in 0..args.cases {
            let mut crng = rng.fork();
            let mut lines = Vec::new();
            for _ in 0..6 {
                lines.push(match crng.below(6) {
                    0 | 1 => wire::gen_enc(&mut crng, args.max_len),
                    2 | 3 | 4 => wire::gen_dec(&mut crng, args.max_len, false),
                    _ => wire::gen_dec(&mut crng, args.max_len, true),
                });
            }
            cases.push((format!("# case {} seed={}", i, args.seed), lines));
        }
    }
    for (hdr, lines) in cases {
        writeln!(ops, "{}", hdr).unwrap();
        writeln!(imp, "{}", hdr).unwrap();
        for l in lines {
            let o = wire::exec(&l);
            let k = format!("{}.{}", l.split(' ').next().unwrap_or("?"), o.split(' ').next().unwrap_or("?"));
            *stats.entry(k).or_insert(0) += 1;
            writeln!(ops, "{}", l).unwrap();
            writeln!(imp, "> {}", l).unwrap();
            writeln!(imp, "{}", o).unwrap();
        }
        *stats.entry("cases".into()).or_insert(0) += 1;
    }
    let mut keys: Vec<&String> = stats.keys().collect();
    keys.sort();
    let body: Vec<String> = keys.iter().map(|k| format!("\"{}\": {}", k, stats[*k])).collect();
    std::fs::write(args.out.join("stats.json"), format!("{{{}}}\n", body.join(", "))).unwrap();
}

fn run_seal(args: &Args) {
    std::fs::create_dir_all(&args.out).unwrap();
    let mut ops = std::io::BufWriter::new(std::fs::File::create(args.out.join("ops.txt")).unwrap());
    let mut imp = std::io::BufWriter::new(std::fs::File::create(args.out.join("impl.out")).unwrap());
    let tcmodel = std::env::var("TCMODEL").unwrap_or_else(|_| "/verif/lean/.lake/build/bin/tcmodel".into());
    let bits: Vec<u8> = if args.flags.iter().any(|f| f == "--all-bits") { (0..8).collect() } else { vec![0] };
    let mut rng = Rng::new(args.seed);
    let mut stats: std::collections::HashMap<String, u64> = std::collections::HashMap::new();
    // cases = number of keys; max_len = envelopes per key
    let per_case_keys = 1;
    for i in 0..args.cases {
        let mut crng = rng.fork();
        let r = seal::run_case(&mut crng, per_case_keys, args.max_len, &bits, &tcmodel);
        let hdr = format!("# case {} seed={}", i, args.seed);
        writeln!(ops, "{}", hdr).unwrap();
        writeln!(imp, "{}", hdr).unwrap();
        for (l, o) in r.lines {
            writeln!(ops, "{}", l).unwrap();
            writeln!(imp, "> {}", shorten(&l)).unwrap();
            writeln!(imp, "{}", o).unwrap();
        }
        for (k, v) in r.stats {
            *stats.entry(k).or_insert(0) += v;
        }
        *stats.entry("cases".into()).or_insert(0) += 1;
    }
    let mut keys: Vec<&String> = stats.keys().collect();
    keys.sort();
    let body: Vec<String> = keys.iter().map(|k| format!("\"{}\": {}", k, stats[*k])).collect();
    std::fs::write(args.out.join("stats.json"), format!("{{{}}}\n", body.join(", "))).unwrap();
}

fn run_task(args: &Args) {
    std::fs::create_dir_all(&args.out).unwrap();
    let mut ops = std::io::BufWriter::new(std::fs::File::create(args.out.join("ops.txt")).unwrap());
    let mut imp = std::io::BufWriter::new(std::fs::File::create(args.out.join("impl.out")).unwrap());
    let mut stats: std::collections::HashMap<String, u64> = std::collections::HashMap::new();
    let mut cases: Vec<(String, Option<Vec<String>>, Option<Rng>, usize)> = Vec::new();
    let mut files: Vec<PathBuf> = Vec::new();
    if let Some(r) = &args.replay {
        files.push(r.clone());
    } else if let Some(c) = &args.corpus {
        if let Ok(rd) = std::fs::read_dir(c) {
            let mut fs: Vec<PathBuf> = rd.filter_map(|e| e.ok().map(|e| e.path())).collect();
            fs.sort();
            files.extend(fs);
        }
    }
    for f in &files {
        for (ci, (_, lines)) in read_cases(f).into_iter().enumerate() {
            let name = f.file_name().unwrap().to_string_lossy().to_string();
            cases.push((format!("# case corpus:{}#{}", name, ci), Some(lines), None, 0));
        }
    }
    if args.replay.is_none() {
        let mut rng = Rng::new(args.seed);
        for i in 0..args.cases {
            let mut crng = rng.fork();
            let len = 5 + crng.below(args.max_len as u64) as usize;
            cases.push((format!("# case {} seed={}", i, args.seed), None, Some(crng), len));
        }
    }
    // panics inside the library are caught per call; keep their messages out of the way
    std::panic::set_hook(Box::new(|_| {}));
    for (hdr, lines, crng, len) in cases {
        writeln!(ops, "{}", hdr).unwrap();
        writeln!(imp, "{}", hdr).unwrap();
        let mut h = task::TaskRun::new();
        let mut crng = crng;
        let total = lines.as_ref().map(|l| l.len()).unwrap_or(len);
        for k in 0..total {
            let l = match &lines {
                Some(ls) => ls[k].clone(),
                None => h.gen_line(crng.as_mut().unwrap()),
            };
            let r = std::panic::catch_unwind(std::panic::AssertUnwindSafe(|| h.exec(&l)));
            match r {
                Ok((nl, outs)) => {
                    writeln!(ops, "{}", nl).unwrap();
                    writeln!(imp, "> {}", nl).unwrap();
                    for o in outs {
                        writeln!(imp, "{}", o).unwrap();
                    }
                }
                Err(_) => {
                    // a panic outside the guarded accessor calls (e.g. inside get_task): the case ends here
                    writeln!(ops, "{}", l).unwrap();
                    writeln!(imp, "> {}", l).unwrap();
                    writeln!(imp, "panic:{}", l.split_whitespace().next().unwrap_or("?")).unwrap();
                    break;
                }
            }
        }
        for (k, v) in h.stats.iter() {
            *stats.entry(k.clone()).or_insert(0) += v;
        }
        *stats.entry("cases".into()).or_insert(0) += 1;
    }
    let mut keys: Vec<&String> = stats.keys().collect();
    keys.sort();
    let body: Vec<String> = keys.iter().map(|k| format!("\"{}\": {}", k, stats[*k])).collect();
    std::fs::write(args.out.join("stats.json"), format!("{{{}}}\n", body.join(", "))).unwrap();
}

fn run_store(args: &Args) {
    std::fs::create_dir_all(&args.out).unwrap();
    let mut ops = std::io::BufWriter::new(std::fs::File::create(args.out.join("ops.txt")).unwrap());
    let mut imp = std::io::BufWriter::new(std::fs::File::create(args.out.join("impl.out")).unwrap());
    let mut stats: std::collections::HashMap<String, u64> = std::collections::HashMap::new();
    let mut emit = |hdr: &str, lines: &[String], outs: &[String]| {
        writeln!(ops, "{}", hdr).unwrap();
        writeln!(imp, "{}", hdr).unwrap();
        for (l, o) in lines.iter().zip(outs.iter()) {
            writeln!(ops, "{}", l).unwrap();
            writeln!(imp, "> {}", l).unwrap();
            writeln!(imp, "{}", o).unwrap();
        }
    };
    let replay_on = |sql: bool, lines: &[String]| -> Vec<String> {
        let r = std::panic::catch_unwind(std::panic::AssertUnwindSafe(|| {
            let mut run = store::StoreRun::new(sql);
            lines.iter().map(|l| run.exec(l)).collect::<Vec<String>>()
        }));
        r.unwrap_or_else(|_| lines.iter().map(|_| "panic".to_string()).collect())
    };
    let mut files: Vec<PathBuf> = Vec::new();
    if let Some(r) = &args.replay {
        files.push(r.clone());
    } else if let Some(c) = &args.corpus {
        if let Ok(rd) = std::fs::read_dir(c) {
            let mut fs: Vec<PathBuf> = rd.filter_map(|e| e.ok().map(|e| e.path())).collect();
            fs.sort();
            files.extend(fs);
        }
    }
    let mut gid = 0;
    for f in &files {
        // every distinct line list in the file is run on both backends as one group
        let mut seen: Vec<Vec<String>> = Vec::new();
        for (_, lines) in read_cases(f) {
            if seen.contains(&lines) {
                continue;
            }
            seen.push(lines.clone());
            gid += 1;
            let ro = lines.iter().any(|l| l == "REOPEN_RO");
            if !ro {
                let o = replay_on(false, &lines);
                emit(&format!("# case c{}.mem backend=mem group=c{}", gid, gid), &lines, &o);
            }
            let o = replay_on(true, &lines);
            emit(&format!("# case c{}.sql backend=sql group=c{}", gid, gid), &lines, &o);
        }
    }
    if args.replay.is_none() {
        let mut rng = Rng::new(args.seed);
        for i in 0..args.cases {
            let mut crng = rng.fork();
            let len = 5 + crng.below(args.max_len as u64) as usize;
            let ro_case = crng.chance(1, 8);
            // generate while executing on the in-memory backend
            // (read-only cases exist on SQLite only and are generated there)
            let mut run = store::StoreRun::new(ro_case);
            let mut lines = Vec::new();
            let mut outs = Vec::new();
            for k in 0..len {
                let l = if ro_case && k == len / 2 {
                    "REOPEN_RO".to_string()
                } else {
                    store::gen_line(&mut run, &mut crng, !ro_case)
                };
                let o = run.exec(&l);
                lines.push(l);
                outs.push(o);
            }
            drop(run);
            if !ro_case {
                emit(&format!("# case {}.mem seed={} backend=mem group={}", i, args.seed, i), &lines, &outs);
                *stats.entry("groups".into()).or_insert(0) += 1;
            } else {
                *stats.entry("read_only_cases".into()).or_insert(0) += 1;
            }
            let o = if ro_case { outs.clone() } else { replay_on(true, &lines) };
            for (l, _) in lines.iter().zip(o.iter()) {
                *stats.entry(format!("call_{}", l.split_whitespace().next().unwrap_or(""))).or_insert(0) += 1;
            }
            emit(&format!("# case {}.sql seed={} backend=sql group={}", i, args.seed, i), &lines, &o);
            *stats.entry("cases".into()).or_insert(0) += 1;
        }
    }
    let mut keys: Vec<&String> = stats.keys().collect();
    keys.sort();
    let body: Vec<String> = keys.iter().map(|k| format!("\"{}\": {}", k, stats[*k])).collect();
    std::fs::write(args.out.join("stats.json"), format!("{{{}}}\n", body.join(", "))).unwrap();
}

fn main() {
    // scratch directories live under /verif/.work, i.e. inside /verif's own git repository: keep
    // the git backend from mistaking that repository for its own
    std::env::set_var("GIT_CEILING_DIRECTORIES", work_dir());
    let a: Vec<String> = std::env::args().skip(1).collect();
    if a.is_empty() {
        eprintln!("usage: tcharness <family> [--seed N] [--cases N] [--max-len N] [--out DIR] [--corpus DIR] [--replay FILE]");
        std::process::exit(2);
    }
    let args = parse_args(&a[1..]);
    match a[0].as_str() {
        "hist" => run_hist(&args),
        "rep" => run_rep(&args),
        "store" => run_store(&args),
        "task" => run_task(&args),
        "seal" => run_seal(&args),
        "backend" => run_backend(&args),
        "wire" => run_wire(&args),
        "cloudconc" | "cleanconc" => run_cloudconc(&args),
        "sqlchild" => run_sqlchild(&args),
        "sqlkill" => run_sqlkill(&args),
        "sqlconc" => run_sqlconc(&args),
        f => {
            eprintln!("unknown family {}", f);
            std::process::exit(2);
        }
    }
}
