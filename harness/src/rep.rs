//! Family `rep`: one replica — arbitrary operation batches, undo, working-set rebuilds, expiry,
//! syncs against a private server.  Lines are generated while executing (accurate old values
//! need the current state).
use crate::common::*;
use crate::hist::{snap_fmt, AnyStorage, Rep};
use crate::obs_storage::*;
use crate::refserver::*;
use chrono::{DateTime, TimeZone, Utc};
use std::collections::HashMap;
use taskchampion::storage::inmemory::InMemoryStorage;
use taskchampion::storage::{AccessMode, TaskMap};
use taskchampion::{Operation, Replica, Server, SqliteStorage};
use uuid::Uuid;

pub struct RepRun {
    replica: Rep,
    server: Box<dyn Server>,
    obs: ObsHandle,
    _dir: Option<tempfile::TempDir>,
    /// where the SQLite database lives (None: in memory)
    pub path: Option<std::path::PathBuf>,
    pub stats: HashMap<String, u64>,
    stale_undo: Option<Vec<Operation>>,
    /// the generator just made a task look expirable (or nearly so): expire before it changes again
    expire_next: bool,
    /// also generate commits of several megabytes (more than SQLite's page cache holds: dirty pages
    /// reach the database file before the commit)
    pub big: bool,
    /// lines the generator has decided on in advance
    script: std::collections::VecDeque<String>,
    /// this case may commit operations with untrue old values / invalid operations
    pub wild: bool,
}

fn ts(secs: i64, nanos: u32) -> DateTime<Utc> {
    Utc.timestamp_opt(secs, nanos).single().expect("timestamp in range")
}

fn fmt_opt(v: &Option<String>) -> String {
    match v {
        Some(s) => enc_str(s),
        None => "-".into(),
    }
}

pub fn fmt_old_map(m: &TaskMap) -> String {
    let mut e: Vec<String> = m.iter().map(|(k, v)| format!("{}={}", enc_str(k), enc_str(v))).collect();
    e.sort();
    e.dedup();
    format!("{{{}}}", e.join(","))
}

pub fn lop_toks(op: &Operation) -> String {
    match op {
        Operation::Create { uuid } => format!("create {}", uuid.as_u128()),
        Operation::UndoPoint => "undo".into(),
        Operation::Delete { uuid, old_task } => format!("delete {} {}", uuid.as_u128(), fmt_old_map(old_task)),
        Operation::Update { uuid, property, old_value, value, timestamp } => format!(
            "update {} {} {} {} {} {}",
            uuid.as_u128(),
            enc_str(property),
            fmt_opt(old_value),
            fmt_opt(value),
            timestamp.timestamp(),
            timestamp.timestamp_subsec_nanos()
        ),
    }
}

pub fn fmt_op_list(l: &[Operation]) -> String {
    let mut s = format!("{}", l.len());
    for o in l {
        s.push_str(" ; ");
        s.push_str(&lop_toks(o));
    }
    s
}

pub fn parse_old_map_pub(tok: &str) -> Option<TaskMap> {
    parse_old_map(tok)
}

fn parse_old_map(tok: &str) -> Option<TaskMap> {
    let inner = tok.strip_prefix('{')?.strip_suffix('}')?;
    let mut m = TaskMap::new();
    if inner.is_empty() {
        return Some(m);
    }
    for kv in inner.split(',') {
        let mut it = kv.splitn(2, '=');
        m.insert(dec_str(it.next()?)?, dec_str(it.next()?)?);
    }
    Some(m)
}

pub fn parse_lop(toks: &[&str]) -> Option<Operation> {
    match toks {
        ["create", u] => Some(Operation::Create { uuid: uuid_of(u.parse().ok()?) }),
        ["undo"] => Some(Operation::UndoPoint),
        ["delete", u, m] => Some(Operation::Delete { uuid: uuid_of(u.parse().ok()?), old_task: parse_old_map(m)? }),
        ["update", u, k, old, v, s, n] => Some(Operation::Update {
            uuid: uuid_of(u.parse().ok()?),
            property: dec_str(k)?,
            old_value: dec_opt_str(old)?,
            value: dec_opt_str(v)?,
            timestamp: ts(s.parse().ok()?, n.parse().ok()?),
        }),
        _ => None,
    }
}

fn parse_op_groups(toks: &[&str]) -> Option<Vec<Operation>> {
    let mut out = Vec::new();
    for grp in toks.split(|t| *t == ";") {
        if grp.is_empty() {
            continue;
        }
        out.push(parse_lop(grp)?);
    }
    Some(out)
}

impl RepRun {
    pub fn new(sqlite: bool) -> RepRun {
        if sqlite {
            let dir = tempfile::TempDir::new_in(crate::work_dir()).unwrap();
            let p = dir.path().to_path_buf();
            let mut r = RepRun::new_at(Some(p));
            r._dir = Some(dir);
            r
        } else {
            RepRun::new_at(None)
        }
    }

    /// a replica on the SQLite database in `path` (created if missing), or in memory
    pub fn new_at(path: Option<std::path::PathBuf>) -> RepRun {
        RepRun::new_at_mode(path, false)
    }

    /// as `new_at`; `read_only`: the database must exist and is opened with `AccessMode::ReadOnly`
    pub fn new_at_mode(path: Option<std::path::PathBuf>, read_only: bool) -> RepRun {
        let chain = new_chain(1, snap_fmt);
        let st = match &path {
            Some(p) if read_only => AnyStorage::Sql(block_on(SqliteStorage::new(p, AccessMode::ReadOnly, false)).unwrap()),
            Some(p) => AnyStorage::Sql(block_on(SqliteStorage::new(p, AccessMode::ReadWrite, true)).unwrap()),
            None => AnyStorage::Mem(InMemoryStorage::new()),
        };
        let (os, obs) = ObsStorage::new(st);
        RepRun {
            replica: Replica::new(os),
            server: Box::new(RefHandle { chain, rid: 0 }),
            obs,
            _dir: None,
            path,
            stats: HashMap::new(),
            stale_undo: None,
            expire_next: false,
            script: Default::default(),
            big: false,
            wild: false,
        }
    }

    /// the process restarts: everything in memory is gone, the database is opened again
    pub fn reopen(&mut self) {
        let Some(p) = self.path.clone() else { return };
        let st = AnyStorage::Sql(block_on(SqliteStorage::new(&p, AccessMode::ReadWrite, true)).unwrap());
        let (os, obs) = ObsStorage::new(st);
        self.replica = Replica::new(os);
        self.obs = obs;
        self.obs.lock().unwrap().probe = true;
    }

    fn stat(&mut self, k: &str) {
        *self.stats.entry(k.to_string()).or_insert(0) += 1;
    }

    fn order(&self) -> String {
        let o = self.obs.lock().unwrap();
        let v: Vec<String> = o.last_all_order.iter().map(|u| format!("{}", u.as_u128())).collect();
        v.join(" ")
    }

    fn tasks(&mut self) -> HashMap<Uuid, TaskMap> {
        block_on(self.replica.all_task_data())
            .unwrap()
            .into_iter()
            .map(|(u, td)| (u, td.iter().map(|(k, v)| (k.clone(), v.clone())).collect()))
            .collect()
    }

    pub fn dump(&mut self) -> Vec<String> {
        let tasks = self.tasks();
        let ws = block_on(self.replica.working_set()).unwrap();
        let mut wsl = String::from("ws");
        for i in 0..=ws.largest_index() {
            match ws.by_index(i) {
                Some(u) => wsl.push_str(&format!(" {}", u.as_u128())),
                None => wsl.push_str(" -"),
            }
        }
        self.obs.lock().unwrap().probe = true;
        let nops = block_on(self.replica.num_local_operations()).unwrap();
        let nundo = block_on(self.replica.num_undo_points()).unwrap();
        let uns = self.obs.lock().unwrap().unsynced.clone();
        vec![
            format!("tasks={}", canon_db(&tasks)),
            wsl,
            format!("nops={} nundo={}", nops, nundo),
            format!("unsynced {}", fmt_op_list(&uns)),
        ]
    }

    fn undo_result(&mut self, ops: Vec<Operation>) -> String {
        self.obs.lock().unwrap().last_all_order.clear();
        match block_on(self.replica.commit_reversed_operations(ops)) {
            Ok(true) => "true".into(),
            Ok(false) => "false".into(),
            Err(_) => "error".into(),
        }
    }

    /// execute one line; returns (line for ops.txt, outputs)
    pub fn exec(&mut self, line: &str) -> (String, Vec<String>) {
        let toks: Vec<&str> = line.split_whitespace().collect();
        let bad = || (line.to_string(), vec!["bad-op".to_string()]);
        match toks.as_slice() {
            ["N", ..] => (line.to_string(), vec!["new".into()]),
            ["F", k, rest @ ..] => {
                // the action `rest` with the k-th storage call from now failing (the transaction is
                // abandoned), then a restart: what is stored is the state before the action, after it,
                // or — for actions made of two transactions — in between
                // `<k>n`: no restart — the same replica object goes on after the failed call (what an
                // abandoned transaction wrote must be invisible to the handle that abandoned it, too)
                let keep = k.ends_with('n');
                let ktok = k.to_string();
                let k: usize = k.trim_end_matches('n').parse().unwrap_or(1);
                let rest: Vec<&str> = if ["before", "after", "mid"].contains(rest.first().unwrap_or(&"")) { rest[1..].to_vec() } else { rest.to_vec() };
                let commits0 = {
                    let mut o = self.obs.lock().unwrap();
                    o.failed = false;
                    o.fail_at = Some(o.calls + k);
                    o.commits
                };
                let (nl, outs) = self.exec(&rest.join(" "));
                let (failed, commits) = {
                    let mut o = self.obs.lock().unwrap();
                    o.fail_at = None;
                    (o.failed, o.commits)
                };
                let outcome = if !failed { "after" } else if commits == commits0 { "before" } else { "mid" };
                self.stat(&format!("fault.{}{}", outcome, if keep { ".same-handle" } else { "" }));
                if !keep {
                    self.reopen();
                }
                let outs = if outcome == "after" { outs } else { vec![format!("interrupted {}", outcome)] };
                (format!("F {} {} {}", ktok, outcome, nl), outs)
            }
            ["X", _n, rest @ ..] => match parse_op_groups(rest) {
                Some(ops) => {
                    let r = block_on(self.replica.commit_operations(ops));
                    self.stat("batch");
                    (line.to_string(), vec![if r.is_ok() { "ok".into() } else { format!("err:{:?}", r.err()) }])
                }
                None => bad(),
            },
            ["G"] => {
                let ops = block_on(self.replica.get_undo_operations()).unwrap();
                self.stale_undo = Some(ops.clone());
                (line.to_string(), vec![format!("undo {}", fmt_op_list(&ops))])
            }
            ["U", ..] => {
                let ops = match block_on(self.replica.get_undo_operations()) {
                    Ok(o) => o,
                    Err(_) => return (line.to_string(), vec!["error".into()]),
                };
                let r = self.undo_result(ops);
                self.stat(&format!("undo_{}", r));
                (format!("U : {}", self.order()).trim_end().to_string(), vec![r])
            }
            ["V", _n, rest @ ..] => {
                let optoks: Vec<&str> = rest.iter().take_while(|t| **t != ":").cloned().collect();
                match parse_op_groups(&optoks) {
                    Some(ops) => {
                        let n = ops.len();
                        let txt = fmt_op_list(&ops);
                        let r = self.undo_result(ops);
                        self.stat(&format!("undo_explicit_{}", r));
                        let _ = n;
                        (format!("V {} : {}", txt, self.order()).trim_end().to_string(), vec![r])
                    }
                    None => bad(),
                }
            }
            ["W", r, ..] => {
                self.obs.lock().unwrap().last_all_order.clear();
                let res = block_on(self.replica.rebuild_working_set(*r == "1"));
                self.stat(&format!("rebuild_{}", r));
                (
                    format!("W {} : {}", r, self.order()).trim_end().to_string(),
                    vec![if res.is_ok() { "rebuilt ok".into() } else { "rebuilt err".into() }],
                )
            }
            ["Y", ..] => {
                self.obs.lock().unwrap().last_all_order.clear();
                let res = block_on(self.replica.sync(&mut self.server, false));
                self.stat("sync");
                (
                    format!("Y : {}", self.order()).trim_end().to_string(),
                    vec![if res.is_ok() { "synced".into() } else { format!("sync err:{:?}", res.err()) }],
                )
            }
            ["E", ..] => {
                let before = self.obs.lock().unwrap().unsynced.len();
                let now = Utc::now().timestamp();
                let res = block_on(self.replica.expire_tasks());
                let uns = self.obs.lock().unwrap().unsynced.clone();
                let mut deleted = Vec::new();
                if uns.len() >= before {
                    for o in &uns[before..] {
                        if let Operation::Delete { uuid, .. } = o {
                            deleted.push(format!("{}", uuid.as_u128()));
                        }
                    }
                }
                self.stat("expire");
                if !deleted.is_empty() {
                    self.stat("expire_nonempty");
                }
                (
                    format!("E {} : {}", now, deleted.join(" ")).trim_end().to_string(),
                    vec![if res.is_ok() { format!("expire ok {}", deleted.len()) } else { "expire err".into() }],
                )
            }
            ["Q"] => (line.to_string(), self.dump()),
            [] => (line.to_string(), vec![]),
            _ => bad(),
        }
    }

    /// generate the next line from the current state
    pub fn gen_line(&mut self, rng: &mut Rng) -> String {
        if self.expire_next {
            self.expire_next = false;
            return "E".into();
        }
        if let Some(l) = self.script.pop_front() {
            return l;
        }
        if self.big && rng.chance(1, 10) {
            return self.gen_big_batch(rng);
        }
        if rng.chance(1, 30) {
            // the replica returns to empty: every task deleted and the deletions synchronized (nothing
            // is left in storage), then it synchronizes again — and must stay empty, whatever snapshot
            // the server holds from earlier
            let cur = self.tasks();
            if !cur.is_empty() {
                let mut ids: Vec<(u128, TaskMap)> = cur.into_iter().map(|(u, t)| (u.as_u128(), t)).collect();
                ids.sort_by_key(|x| x.0);
                let parts: Vec<String> = ids.iter().map(|(u, t)| format!("delete {} {}", u, fmt_old_map(t))).collect();
                self.script.push_back("Y".into());
                self.script.push_back("Y".into());
                if rng.chance(1, 2) {
                    self.script.push_back(format!("W {}", rng.below(2)));
                    self.script.push_back("Y".into());
                }
                return format!("X {} ; {}", parts.len(), parts.join(" ; "));
            }
        }
        let roll = rng.below(100);
        if roll < 8 {
            self.expire_next = rng.chance(1, 2);
            self.gen_expirable(rng)
        } else if roll < 18 {
            self.gen_pending_burst(rng)
        } else if roll < 55 {
            self.gen_batch(rng)
        } else if roll < 60 {
            "G".into()
        } else if roll < 72 {
            "U".into()
        } else if roll < 76 {
            match &self.stale_undo {
                Some(ops) if !ops.is_empty() => format!("V {}", fmt_op_list(ops)),
                _ => "G".into(),
            }
        } else if roll < 86 {
            format!("W {}", rng.below(2))
        } else if roll < 92 {
            "E".into()
        } else {
            "Y".into()
        }
    }

    /// one commit of 2–4 MB: long values for several tasks (a run of one character, written `~n~hex`)
    fn gen_big_batch(&mut self, rng: &mut Rng) -> String {
        fn tok(s: &Option<String>) -> String {
            match s {
                None => "-".into(),
                Some(s) if s.len() > 1000 && s.bytes().all(|b| b == s.as_bytes()[0]) => {
                    format!("~{}~{:02x}", s.len(), s.as_bytes()[0])
                }
                Some(s) => enc_str(s),
            }
        }
        let cur = self.tasks();
        let mut parts = vec!["undo".to_string()];
        let n = 4 + rng.below(3);
        let ch = *rng.pick(&[b'x', b'y', b'z']);
        for i in 0..n {
            let un = 1 + (rng.below(8) + i) % 8;
            let u = uuid_of(un as u128);
            let key = *rng.pick(&["k", "description"]);
            let old = match cur.get(&u) {
                Some(t) => t.get(key).cloned(),
                None => {
                    if !parts.iter().any(|p| p == &format!("create {}", un)) {
                        parts.push(format!("create {}", un));
                    }
                    None
                }
            };
            // (the same task and key twice in one batch would need the first new value as old value)
            if parts.iter().any(|p| p.starts_with(&format!("update {} {} ", un, enc_str(key)))) {
                continue;
            }
            let len = 400_000 + rng.below(300_000) as usize;
            parts.push(format!("update {} {} {} ~{}~{:02x} 100 0", un, enc_str(key), tok(&old), len, ch));
        }
        format!("X {} ; {}", parts.len(), parts.join(" ; "))
    }

    /// an accurate batch that makes one existing (or new) task look long deleted (or nearly so)
    fn gen_expirable(&mut self, rng: &mut Rng) -> String {
        let now = Utc::now().timestamp();
        let day = 86400;
        let un = 1 + rng.below(4);
        let u = uuid_of(un as u128);
        let cur = self.tasks();
        let mut parts = vec!["undo".to_string()];
        let mut tm = match cur.get(&u) {
            Some(t) => t.clone(),
            None => {
                parts.push(format!("create {}", un));
                TaskMap::new()
            }
        };
        let status = *rng.pick(&["deleted", "deleted", "deleted", "completed", "pending"]);
        let modified = match rng.below(8) {
            0 => format!("{}", now - 179 * day),
            1 => format!("{}", now - 181 * day),
            2 => "never".to_string(),
            // numbers that parse as i64 but are no instant chrono can represent (kept), and the two
            // ends of its range (the lower one is long ago: purged)
            3 => rng
                .pick(&[
                    "-8334601228801",
                    "-9000000000000000",
                    "-9223372036854775808",
                    "9223372036854775807",
                    "8210266876800",
                    "-8334601228800",
                    "8210266876799",
                    "-9223372036854775809",
                    "-62135596801",
                    "-1",
                ])
                .to_string(),
            _ => format!("{}", now - (200 + rng.below(1000) as i64) * day),
        };
        for (k, v) in [("status", status.to_string()), ("modified", modified)] {
            let old = tm.get(k).cloned();
            tm.insert(k.to_string(), v.clone());
            parts.push(format!("update {} {} {} {} 100 0", un, enc_str(k), fmt_opt(&old), enc_str(&v)));
        }
        format!("X {} ; {}", parts.len(), parts.join(" ; "))
    }

    /// one commit in which tasks enter and leave the pending state several times, interleaved with
    /// each other (every task that ends up pending must be in the working set exactly once)
    fn gen_flip_flop(&mut self, rng: &mut Rng) -> String {
        let cur = self.tasks();
        let mut parts = vec!["undo".to_string()];
        let ids: Vec<u64> = {
            let a = 1 + rng.below(8);
            let mut b = 1 + rng.below(8);
            if b == a {
                b = a % 8 + 1;
            }
            vec![a, b]
        };
        let mut status: HashMap<u64, Option<String>> = HashMap::new();
        for un in &ids {
            let u = uuid_of(*un as u128);
            match cur.get(&u) {
                Some(t) => {
                    status.insert(*un, t.get("status").cloned());
                }
                None => {
                    parts.push(format!("create {}", un));
                    status.insert(*un, None);
                }
            }
        }
        let n = 3 + rng.below(4);
        for i in 0..n {
            // a pending, a completed, b pending, a pending, ...
            let un = if i % 3 == 2 { ids[1] } else { ids[0] };
            let st = if i % 3 == 1 { *rng.pick(&["completed", "deleted"]) } else { *rng.pick(&["pending", "pending", "recurring"]) };
            let old = status.get(&un).cloned().flatten();
            parts.push(format!("update {} {} {} {} {} 0", un, enc_str("status"), fmt_opt(&old), enc_str(st), 100 + i));
            status.insert(un, Some(st.to_string()));
        }
        format!("X {} ; {}", parts.len(), parts.join(" ; "))
    }

    /// an accurate batch that makes several tasks pending / recurring or takes some out again
    fn gen_pending_burst(&mut self, rng: &mut Rng) -> String {
        if rng.chance(1, 4) {
            return self.gen_flip_flop(rng);
        }
        let cur = self.tasks();
        let mut parts = vec!["undo".to_string()];
        let n = 1 + rng.below(4);
        let mut seen = Vec::new();
        for _ in 0..n {
            let un = 1 + rng.below(8);
            if seen.contains(&un) {
                continue;
            }
            seen.push(un);
            let u = uuid_of(un as u128);
            let old = match cur.get(&u) {
                Some(t) => t.get("status").cloned(),
                None => {
                    parts.push(format!("create {}", un));
                    None
                }
            };
            let st = *rng.pick(&["pending", "pending", "recurring", "completed", "pending"]);
            parts.push(format!("update {} {} {} {} 100 0", un, enc_str("status"), fmt_opt(&old), enc_str(st)));
        }
        format!("X {} ; {}", parts.len(), parts.join(" ; "))
    }

    fn gen_batch(&mut self, rng: &mut Rng) -> String {
        let now = Utc::now().timestamp();
        let day = 86400;
        let keys = ["status", "status", "modified", "k", "description", "é✓"];
        let statuses = ["pending", "completed", "deleted", "recurring", "junk", "pending", "deleted"];
        let modifieds = [
            format!("{}", now - 200 * day),
            format!("{}", now - 181 * day),
            format!("{}", now - 179 * day),
            format!("{}", now - 100 * day),
            format!("{}", now + 10 * day),
            "soon".to_string(),
            "".to_string(),
            "99999999999999999".to_string(),
            "-8334601228801".to_string(),
            "+5".to_string(),
            "0".to_string(),
        ];
        let vals = ["", "v", "w", "\u{1F600}\u{7}", "x y"];
        let wild = self.wild && rng.chance(1, 3);
        if wild && rng.chance(1, 3) {
            // a batch that touches a task before it exists, creates it, and goes on: every operation
            // must act as if applied one at a time (the ones on the missing task change nothing)
            let cur = self.tasks();
            let absent: Vec<u64> = (1..=8u64).filter(|n| !cur.contains_key(&uuid_of(*n as u128))).collect();
            if let Some(un) = absent.first().cloned() {
                let mut parts = Vec::new();
                if rng.chance(1, 2) {
                    parts.push(format!("delete {} {{}}", un));
                }
                parts.push(format!("update {} {} - {} 100 0", un, enc_str("k"), enc_str(*rng.pick(&vals))));
                parts.push(format!("create {}", un));
                parts.push(format!("update {} {} - {} 101 0", un, enc_str(*rng.pick(&["k", "status", "description"])), enc_str(*rng.pick(&["pending", "v", "w"]))));
                if rng.chance(1, 2) {
                    parts.push(format!("update {} {} - {} 102 0", un, enc_str("description"), enc_str("x y")));
                }
                return format!("X {} ; {}", parts.len(), parts.join(" ; "));
            }
        }
        let n = 1 + rng.below(5);
        let mut view: HashMap<Uuid, Option<TaskMap>> = HashMap::new();
        let cur = self.tasks();
        let mut parts = Vec::new();
        for _ in 0..n {
            let un = 1 + rng.below(8);
            let u = uuid_of(un as u128);
            let st = view.entry(u).or_insert_with(|| cur.get(&u).cloned());
            let r = rng.below(100);
            if r < 8 {
                parts.push("undo".to_string());
            } else if r < 30 {
                // create (valid only if absent; wild batches do not care)
                if st.is_some() && !wild {
                    // make it a delete+create or skip
                    continue;
                }
                if st.is_none() {
                    *st = Some(TaskMap::new());
                }
                parts.push(format!("create {}", un));
            } else if r < 42 {
                if st.is_none() && !wild {
                    continue;
                }
                let old = st.take().unwrap_or_default();
                let old = if wild && rng.chance(1, 2) { TaskMap::new() } else { old };
                parts.push(format!("delete {} {}", un, fmt_old_map(&old)));
            } else {
                if st.is_none() && !wild {
                    continue;
                }
                let k = *rng.pick(&keys);
                let v: Option<String> = if rng.chance(1, 7) {
                    None
                } else if k == "status" {
                    Some(rng.pick(&statuses).to_string())
                } else if k == "modified" {
                    Some(rng.pick(&modifieds).clone())
                } else {
                    Some(rng.pick(&vals).to_string())
                };
                let old = match st {
                    Some(tm) => {
                        let o = tm.get(k).cloned();
                        match &v {
                            Some(v) => {
                                tm.insert(k.to_string(), v.clone());
                            }
                            None => {
                                tm.remove(k);
                            }
                        }
                        o
                    }
                    None => None,
                };
                // (untrue previous values: a made-up one, or "it already had this value")
                let old = if wild && rng.chance(1, 3) {
                    if rng.chance(1, 2) { Some("bogus".to_string()) } else { v.clone() }
                } else {
                    old
                };
                parts.push(format!(
                    "update {} {} {} {} {} {}",
                    un,
                    enc_str(k),
                    fmt_opt(&old),
                    fmt_opt(&v),
                    100 + rng.below(3),
                    rng.below(2) * 500
                ));
            }
        }
        if parts.is_empty() {
            parts.push("undo".to_string());
        }
        format!("X {} ; {}", parts.len(), parts.join(" ; "))
    }
}
