//! Family `sqlconc`: 2–8 threads, each with its OWN SqliteStorage handle on one database directory,
//! commit batches, undo, rebuild the working set and read at the same time (C17).  Afterwards the
//! database is audited through a fresh handle.
use crate::common::*;
use crate::rep::{fmt_op_list, lop_toks};
use chrono::{TimeZone, Utc};
use std::sync::{Arc, Barrier};
use taskchampion::storage::{AccessMode, Storage};
use taskchampion::{Operation, Replica, SqliteStorage};
use uuid::Uuid;

pub struct ConcOut {
    pub lines: Vec<String>,
    pub audit_line: String,
    pub audit_out: Vec<String>,
    pub stats: std::collections::HashMap<String, u64>,
}

pub fn run_case(rng: &mut Rng, max_len: usize) -> ConcOut {
    run_case_kind(rng, max_len, false)
}

/// `storm`: in rounds, one worker takes the shared task out of the working set (completed + rebuild),
/// then all workers make it pending at the same moment
pub fn run_case_kind(rng: &mut Rng, max_len: usize, storm: bool) -> ConcOut {
    let n = 2 + rng.below(7) as usize;
    let steps = 3 + rng.below(max_len as u64) as usize;
    let dir = tempfile::TempDir::new_in(crate::work_dir()).unwrap();
    let path = dir.path().to_path_buf();
    // the database exists before the workers start, with one task they all write to
    {
        let st = block_on(SqliteStorage::new(&path, AccessMode::ReadWrite, true)).unwrap();
        let mut r = Replica::new(st);
        block_on(r.commit_operations(vec![Operation::UndoPoint, Operation::Create { uuid: Uuid::from_u128(1) }, Operation::Create { uuid: Uuid::from_u128(2) }])).unwrap();
    }
    let barrier = Arc::new(Barrier::new(n));
    let mut handles = Vec::new();
    for w in 0..n {
        let path = path.clone();
        let barrier = barrier.clone();
        let mut wrng = rng.fork();
        handles.push(std::thread::spawn(move || {
            let mut log: Vec<String> = Vec::new();
            let st = match block_on(SqliteStorage::new(&path, AccessMode::ReadWrite, false)) {
                Ok(s) => s,
                Err(e) => {
                    barrier.wait();
                    if storm {
                        // keep in step with the others' barriers
                        for _ in 0..12 {
                            barrier.wait();
                        }
                    }
                    log.push(format!("W {} OPEN -> err:{}", w, e.to_string().replace(' ', "_")));
                    return log;
                }
            };
            let mut r = Replica::new(st);
            let mut seq = 0u64;
            let mut shared_val: Option<String> = None;
            let mut mine: Vec<(Uuid, Option<String>, Option<String>)> = Vec::new(); // own tasks: status, value of `n`
            barrier.wait();
            if storm {
                for round in 0..6u32 {
                    let ts = Utc.timestamp_opt(1_700_000_000 + round as i64, (w as u32) * 1000).unwrap();
                    if w == 0 {
                        let ops = vec![Operation::UndoPoint, Operation::Update { uuid: Uuid::from_u128(2), property: "status".into(), old_value: Some("pending".into()), value: Some(format!("completed")), timestamp: ts }];
                        let txt = fmt_op_list(&ops);
                        let res = block_on(r.commit_operations(ops));
                        log.push(format!("W {} C {} -> {}", w, txt, if res.is_ok() { "ok" } else { "err" }));
                        let res = block_on(r.rebuild_working_set(false));
                        log.push(format!("W {} R 0 -> {}", w, if res.is_ok() { "ok" } else { "err" }));
                    }
                    barrier.wait();
                    let ops = vec![Operation::UndoPoint, Operation::Update { uuid: Uuid::from_u128(2), property: "status".into(), old_value: Some("completed".into()), value: Some("pending".into()), timestamp: ts },
                        Operation::Update { uuid: Uuid::from_u128(2), property: format!("p{}", w), old_value: None, value: Some(format!("r{}", round)), timestamp: ts }];
                    let txt = fmt_op_list(&ops);
                    let res = block_on(r.commit_operations(ops));
                    log.push(format!("W {} C {} -> {}", w, txt, if res.is_ok() { "ok" } else { "err" }));
                    barrier.wait();
                }
                return log;
            }
            for _ in 0..steps {
                match wrng.below(10) {
                    0..=5 => {
                        seq += 1;
                        let ts = Utc.timestamp_opt(1_700_000_000 + seq as i64, (w as u32) * 1000).unwrap();
                        let mut ops = vec![Operation::UndoPoint];
                        match wrng.below(5) {
                            4 => {
                                // one task whose status everybody changes (what the previous value was is a
                                // guess: such a batch is never undone, and replay does not depend on it)
                                let (old, new) = if wrng.below(3) > 0 { ("completed", "pending") } else { ("pending", "completed") };
                                ops.push(Operation::Update { uuid: Uuid::from_u128(2), property: "status".into(), old_value: Some(old.into()), value: Some(new.into()), timestamp: ts });
                            }
                            0 | 1 => {
                                let uuid = Uuid::from_u128((w as u128 + 1) * 100_000 + seq as u128);
                                ops.push(Operation::Create { uuid });
                                ops.push(Operation::Update { uuid, property: "description".into(), old_value: None, value: Some(format!("w{}s{}", w, seq)), timestamp: ts });
                                let status = if wrng.below(2) == 0 { "pending" } else { "completed" };
                                ops.push(Operation::Update { uuid, property: "status".into(), old_value: None, value: Some(status.into()), timestamp: ts });
                                mine.push((uuid, Some(status.to_string()), None));
                            }
                            2 => {
                                // every worker has its own property of the shared task
                                let v = format!("w{}s{}", w, seq);
                                ops.push(Operation::Update { uuid: Uuid::from_u128(1), property: format!("p{}", w), old_value: shared_val.clone(), value: Some(v.clone()), timestamp: ts });
                                shared_val = Some(v);
                            }
                            _ => {
                                if let Some((uuid, st, nv)) = mine.last_mut() {
                                    let new = if st.as_deref() == Some("pending") { "completed" } else { "pending" };
                                    let v = format!("w{}s{}", w, seq);
                                    ops.push(Operation::Update { uuid: *uuid, property: "status".into(), old_value: st.clone(), value: Some(new.into()), timestamp: ts });
                                    ops.push(Operation::Update { uuid: *uuid, property: "n".into(), old_value: nv.clone(), value: Some(v.clone()), timestamp: ts });
                                    *st = Some(new.to_string());
                                    *nv = Some(v);
                                } else {
                                    let v = format!("w{}s{}", w, seq);
                                    ops.push(Operation::Update { uuid: Uuid::from_u128(1), property: format!("p{}", w), old_value: shared_val.clone(), value: Some(v.clone()), timestamp: ts });
                                    shared_val = Some(v);
                                }
                            }
                        }
                        let txt = fmt_op_list(&ops);
                        let res = block_on(r.commit_operations(ops));
                        log.push(format!("W {} C {} -> {}", w, txt, if res.is_ok() { "ok".to_string() } else { "err".to_string() }));
                        if res.is_err() {
                            // what this worker believes about its own data is no longer reliable: stop writing to it
                            mine.clear();
                            shared_val = None;
                            break;
                        }
                    }
                    6 => {
                        let got = block_on(r.get_undo_operations());
                        match got {
                            Ok(ops) => {
                                // a worker only takes back its OWN last batch: what it recorded as old values
                                // stays true only if nobody else removes its operations behind its back
                                // (read-then-write races between applications are not the storage's business)
                                let own = ops.iter().all(|o| match o {
                                    Operation::UndoPoint => true,
                                    Operation::Create { uuid } | Operation::Delete { uuid, .. } => uuid.as_u128() / 100_000 == w as u128 + 1,
                                    Operation::Update { uuid, property, .. } => {
                                        uuid.as_u128() / 100_000 == w as u128 + 1 || (uuid.as_u128() == 1 && *property == format!("p{}", w))
                                    }
                                });
                                if !own || ops.len() < 2 {
                                    log.push(format!("W {} Q -> ok", w));
                                    continue;
                                }
                                let txt = fmt_op_list(&ops);
                                let res = block_on(r.commit_reversed_operations(ops));
                                let rs = match res {
                                    Ok(true) => "true",
                                    Ok(false) => "false",
                                    Err(_) => "err",
                                };
                                log.push(format!("W {} U {} -> {}", w, txt, rs));
                                if rs == "true" {
                                    // somebody's last batch is gone, maybe this worker's: its bookkeeping of old values is void
                                    break;
                                }
                            }
                            Err(_) => log.push(format!("W {} U -> err", w)),
                        }
                    }
                    7 => {
                        let ren = wrng.below(2);
                        let res = block_on(r.rebuild_working_set(ren == 1));
                        log.push(format!("W {} R {} -> {}", w, ren, if res.is_ok() { "ok" } else { "err" }));
                    }
                    _ => {
                        let res = block_on(r.all_task_data());
                        log.push(format!("W {} Q -> {}", w, if res.is_ok() { "ok" } else { "err" }));
                    }
                }
            }
            log
        }));
    }
    let mut lines = vec![format!("WORKERS {}", n)];
    let mut stats = std::collections::HashMap::new();
    for h in handles {
        match h.join() {
            Ok(log) => {
                for l in &log {
                    let k = format!("{}.{}", l.split(' ').nth(2).unwrap_or("?"), l.rsplit(' ').next().unwrap_or("?"));
                    *stats.entry(k).or_insert(0u64) += 1;
                }
                lines.extend(log);
            }
            Err(_) => lines.push("W ? PANIC".into()),
        }
    }
    // audit through a fresh handle
    let mut st = block_on(SqliteStorage::new(&path, AccessMode::ReadWrite, false)).unwrap();
    let (ops, ws) = {
        let mut t = block_on(st.txn()).unwrap();
        let ops = block_on(t.unsynced_operations()).unwrap();
        let ws = block_on(t.get_working_set()).unwrap();
        (ops, ws)
    };
    let mut r = Replica::new(st);
    let tasks: std::collections::HashMap<Uuid, taskchampion::storage::TaskMap> = block_on(r.all_task_data())
        .unwrap()
        .into_iter()
        .map(|(u, td)| (u, td.iter().map(|(k, v)| (k.clone(), v.clone())).collect()))
        .collect();
    let wsl: Vec<String> = ws.iter().map(|e| match e { Some(u) => format!("{}", u.as_u128()), None => "-".into() }).collect();
    let _ = lop_toks;
    ConcOut {
        lines,
        audit_line: format!("AUDIT ws {} ops {}", wsl.join(","), fmt_op_list(&ops)),
        audit_out: vec![format!("tasks={}", canon_db(&tasks))],
        stats,
    }
}
