//! Family `hist`: histories of local commits and syncs on several replicas against one
//! harness-side server — sequential syncs, stepped (interleaved) syncs, faulty syncs.
use crate::common::*;
use crate::obs_storage::*;
use crate::refserver::*;
use async_trait::async_trait;
use chrono::{DateTime, TimeZone, Utc};
use std::collections::HashMap;
use std::future::Future;
use std::io::Read;
use std::pin::Pin;
use taskchampion::server::SnapshotUrgency;
use taskchampion::storage::inmemory::InMemoryStorage;
use taskchampion::storage::{AccessMode, Storage, StorageTxn, TaskMap};
use taskchampion::{Error, Operation, Replica, Server, SqliteStorage};
use uuid::Uuid;

pub enum AnyStorage {
    Mem(InMemoryStorage),
    Sql(SqliteStorage),
}

#[async_trait]
impl Storage for AnyStorage {
    async fn txn<'a>(&'a mut self) -> Result<Box<dyn StorageTxn + Send + 'a>, Error> {
        match self {
            AnyStorage::Mem(s) => s.txn().await,
            AnyStorage::Sql(s) => s.txn().await,
        }
    }
}

pub type Rep = Replica<ObsStorage<AnyStorage>>;

pub fn snap_fmt(b: &[u8]) -> String {
    let mut d = flate2::read::ZlibDecoder::new(b);
    let mut s = String::new();
    if d.read_to_string(&mut s).is_err() {
        return "<bad-zlib>".into();
    }
    let v: serde_json::Value = match serde_json::from_str(&s) {
        Ok(v) => v,
        Err(_) => return "<bad-json>".into(),
    };
    let mut tasks: HashMap<Uuid, TaskMap> = HashMap::new();
    if let Some(m) = v.as_object() {
        for (k, tv) in m {
            let u = match Uuid::parse_str(k) {
                Ok(u) => u,
                Err(_) => return "<bad-uuid>".into(),
            };
            let mut tm = TaskMap::new();
            if let Some(o) = tv.as_object() {
                for (pk, pv) in o {
                    tm.insert(pk.clone(), pv.as_str().unwrap_or("<non-string>").to_string());
                }
            }
            tasks.insert(u, tm);
        }
    } else {
        return "<not-a-map>".into();
    }
    canon_db(&tasks)
}

struct Slot {
    replica: *mut Rep,
    server: *mut Box<dyn Server>,
    obs: ObsHandle,
    fut: Option<Pin<Box<dyn Future<Output = Result<(), Error>>>>>,
    _dir: Option<tempfile::TempDir>,
}

impl Drop for Slot {
    fn drop(&mut self) {
        self.fut = None;
        unsafe {
            drop(Box::from_raw(self.replica));
            drop(Box::from_raw(self.server));
        }
    }
}

pub struct Hist {
    chain: Shared,
    slots: Vec<Slot>,
    pub stats: HashMap<String, u64>,
}

fn ts(secs: i64, nanos: u32) -> DateTime<Utc> {
    Utc.timestamp_opt(secs, nanos).single().expect("timestamp in range")
}

fn parse_urg(s: &str) -> SnapshotUrgency {
    match s {
        "h" => SnapshotUrgency::High,
        "l" => SnapshotUrgency::Low,
        _ => SnapshotUrgency::None,
    }
}

#[derive(Clone, Debug)]
pub enum POp {
    Create(Uuid),
    Delete(Uuid),
    Update(Uuid, String, Option<String>, DateTime<Utc>),
}

pub fn parse_pop(toks: &[&str]) -> Option<POp> {
    match toks {
        ["create", u] => Some(POp::Create(uuid_of(u.parse().ok()?))),
        ["delete", u] => Some(POp::Delete(uuid_of(u.parse().ok()?))),
        ["update", u, k, v, s, n] => Some(POp::Update(
            uuid_of(u.parse().ok()?),
            dec_str(k)?,
            dec_opt_str(v)?,
            ts(s.parse().ok()?, n.parse().ok()?),
        )),
        _ => None,
    }
}

/// protocol rendering of a stored operation (undo points have none)
pub fn op_toks(op: &Operation) -> Option<String> {
    match op {
        Operation::Create { uuid } => Some(format!("create {}", uuid.as_u128())),
        Operation::Delete { uuid, .. } => Some(format!("delete {}", uuid.as_u128())),
        Operation::Update {
            uuid,
            property,
            value,
            timestamp,
            ..
        } => Some(format!(
            "update {} {} {} {} {}",
            uuid.as_u128(),
            enc_str(property),
            match value {
                Some(v) => enc_str(v),
                None => "-".into(),
            },
            timestamp.timestamp(),
            timestamp.timestamp_subsec_nanos()
        )),
        Operation::UndoPoint => None,
    }
}

fn sync_result(r: &Result<(), Error>) -> String {
    match r {
        Ok(()) => "sync ok".into(),
        Err(e) => {
            let msg = format!("{:#}", anyhow::anyhow!("{}", full_chain(e)));
            if msg.contains("out of sync") {
                "sync out-of-sync".into()
            } else if msg.contains("injected-fault") {
                "sync aborted".into()
            } else {
                format!("sync err:{}", msg.replace('\n', " "))
            }
        }
    }
}

fn full_chain(e: &Error) -> String {
    let mut s = e.to_string();
    let mut src = std::error::Error::source(e);
    while let Some(x) = src {
        s.push_str(" / ");
        s.push_str(&x.to_string());
        src = x.source();
    }
    s
}

impl Hist {
    pub fn new(nreps: usize, sqlite_mask: u64) -> Hist {
        let chain = new_chain(nreps, snap_fmt);
        let mut slots = Vec::new();
        for i in 0..nreps {
            let (st, dir) = if (sqlite_mask >> i) & 1 == 1 {
                let dir = tempfile::TempDir::new_in(crate::work_dir()).unwrap();
                let s = block_on(SqliteStorage::new(dir.path(), AccessMode::ReadWrite, true)).unwrap();
                (AnyStorage::Sql(s), Some(dir))
            } else {
                (AnyStorage::Mem(InMemoryStorage::new()), None)
            };
            let (os, obs) = ObsStorage::new(st);
            obs.lock().unwrap().stopped = Some(chain.borrow().handles[i].stopped.clone());
            let replica = Box::into_raw(Box::new(Replica::new(os)));
            let server: Box<dyn Server> = Box::new(RefHandle {
                chain: chain.clone(),
                rid: i,
            });
            let server = Box::into_raw(Box::new(server));
            slots.push(Slot {
                replica,
                server,
                obs,
                fut: None,
                _dir: dir,
            });
        }
        Hist {
            chain,
            slots,
            stats: HashMap::new(),
        }
    }

    /// install / remove triggers that make every write to the `tasks` table of replica r's SQLite
    /// file fail (through a second connection); false if the replica is not on SQLite
    fn sqlite_triggers(&mut self, r: usize, on: bool) -> bool {
        let path = match &self.slots[r]._dir {
            Some(d) => d.path().join("taskchampion.sqlite3"),
            None => return false,
        };
        let con = match rusqlite::Connection::open(&path) {
            Ok(c) => c,
            Err(_) => return false,
        };
        let _ = con.busy_timeout(std::time::Duration::from_secs(5));
        let sql = if on {
            "CREATE TRIGGER IF NOT EXISTS tch_f1 BEFORE INSERT ON tasks BEGIN SELECT RAISE(ABORT, 'injected-fault'); END;
             CREATE TRIGGER IF NOT EXISTS tch_f2 BEFORE UPDATE ON tasks BEGIN SELECT RAISE(ABORT, 'injected-fault'); END;
             CREATE TRIGGER IF NOT EXISTS tch_f3 BEFORE DELETE ON tasks BEGIN SELECT RAISE(ABORT, 'injected-fault'); END;"
        } else {
            "DROP TRIGGER IF EXISTS tch_f1; DROP TRIGGER IF EXISTS tch_f2; DROP TRIGGER IF EXISTS tch_f3;"
        };
        con.execute_batch(sql).is_ok()
    }

    fn stat(&mut self, k: &str) {
        *self.stats.entry(k.to_string()).or_insert(0) += 1;
    }

    fn rep(&mut self, r: usize) -> &mut Rep {
        unsafe { &mut *self.slots[r].replica }
    }

    fn task_map(&mut self, r: usize, u: Uuid) -> Option<TaskMap> {
        let td = block_on(self.rep(r).get_task_data(u)).unwrap();
        td.map(|t| t.iter().map(|(k, v)| (k.clone(), v.clone())).collect())
    }

    /// turn protocol ops into accurate `Operation`s against a scratch view of the replica;
    /// None if some op is invalid where it stands
    fn accurate(&mut self, r: usize, pops: &[POp]) -> Option<Vec<Operation>> {
        let mut view: HashMap<Uuid, Option<TaskMap>> = HashMap::new();
        let mut out = Vec::new();
        for p in pops {
            let u = match p {
                POp::Create(u) | POp::Delete(u) | POp::Update(u, ..) => *u,
            };
            if !view.contains_key(&u) {
                let t = self.task_map(r, u);
                view.insert(u, t);
            }
            let cur = view.get_mut(&u).unwrap();
            match p {
                POp::Create(_) => {
                    if cur.is_some() {
                        return None;
                    }
                    *cur = Some(TaskMap::new());
                    out.push(Operation::Create { uuid: u });
                }
                POp::Delete(_) => {
                    let old = cur.take()?;
                    out.push(Operation::Delete {
                        uuid: u,
                        old_task: old,
                    });
                }
                POp::Update(_, k, v, t) => {
                    let tm = cur.as_mut()?;
                    let old = tm.get(k).cloned();
                    match v {
                        Some(v) => {
                            tm.insert(k.clone(), v.clone());
                        }
                        None => {
                            tm.remove(k);
                        }
                    }
                    out.push(Operation::Update {
                        uuid: u,
                        property: k.clone(),
                        old_value: old,
                        value: v.clone(),
                        timestamp: *t,
                    });
                }
            }
        }
        Some(out)
    }

    fn commit(&mut self, r: usize, pops: &[POp]) -> String {
        if self.slots[r].fut.is_some() {
            return "busy".into();
        }
        match self.accurate(r, pops) {
            Some(ops) => match block_on(self.rep(r).commit_operations(ops)) {
                Ok(()) => "ok".into(),
                Err(e) => format!("err:{}", full_chain(&e)),
            },
            None => "skip".into(),
        }
    }

    fn prepare_sync(&mut self, r: usize, urg: &str, stepped: bool, fault: Option<(usize, FaultKind)>) {
        let mut c = self.chain.borrow_mut();
        let h = &mut c.handles[r];
        h.stepped = stepped;
        h.permits = 0;
        h.at_gate = false;
        h.nreq = 0;
        h.fault = fault;
        h.log.clear();
        h.urgency = Some(parse_urg(urg));
    }

    fn take_log(&mut self, r: usize) -> Vec<String> {
        std::mem::take(&mut self.chain.borrow_mut().handles[r].log)
    }

    fn start_future(&mut self, r: usize, avoid: bool) {
        let rep: &'static mut Rep = unsafe { &mut *self.slots[r].replica };
        let srv: &'static mut Box<dyn Server> = unsafe { &mut *self.slots[r].server };
        self.slots[r].fut = Some(Box::pin(async move { rep.sync(srv, avoid).await }));
    }

    /// poll r's sync until it parks at its gate (None) or completes (Some)
    fn drive(&mut self, r: usize) -> Option<Result<(), Error>> {
        let chain = self.chain.clone();
        let mut fut = self.slots[r].fut.take()?;
        let res = poll_until(&mut fut, &|| chain.borrow().handles[r].at_gate);
        if res.is_none() {
            self.slots[r].fut = Some(fut);
        }
        res
    }

    /// one whole sync; returns output lines
    fn sync_whole(&mut self, r: usize, avoid: bool, urg: &str, fault: Option<(usize, FaultKind)>,
                  storage_fail: Option<(usize, bool)>) -> (Vec<String>, bool) {
        if self.slots[r].fut.is_some() {
            return (vec!["busy".into()], false);
        }
        self.prepare_sync(r, urg, false, fault);
        let commits_before;
        {
            let mut o = self.slots[r].obs.lock().unwrap();
            o.calls = 0;
            o.fail_at = storage_fail.map(|x| x.0);
            o.sticky = storage_fail.map(|x| x.1).unwrap_or(false);
            o.failed = false;
            commits_before = o.commits;
        }
        self.start_future(r, avoid);
        let res = self.drive(r).expect("unstepped sync completes");
        let committed;
        {
            let mut o = self.slots[r].obs.lock().unwrap();
            o.fail_at = None;
            o.sticky = false;
            o.failed = false;
            committed = o.commits > commits_before;
        }
        self.chain.borrow().handles[r]
            .stopped
            .store(false, std::sync::atomic::Ordering::SeqCst);
        self.chain.borrow_mut().handles[r].fault = None;
        let mut out = self.take_log(r);
        let mut line = sync_result(&res);
        if line == "sync aborted" && committed {
            // the fault hit after the sync transaction had committed (working-set rebuild)
            line = "sync ok".into();
        }
        out.push(line);
        (out, committed)
    }

    pub fn dump(&mut self) -> Vec<String> {
        let mut out = Vec::new();
        for r in 0..self.slots.len() {
            if self.slots[r].fut.is_some() {
                // a sync is in flight: its transaction is open, the replica cannot be read
                out.push(format!("rep {} busy", r));
                continue;
            }
            let tasks: HashMap<Uuid, TaskMap> = block_on(self.rep(r).all_task_data())
                .unwrap()
                .into_iter()
                .map(|(u, td)| (u, td.iter().map(|(k, v)| (k.clone(), v.clone())).collect()))
                .collect();
            self.slots[r].obs.lock().unwrap().probe = true;
            let nops = block_on(self.rep(r).num_local_operations()).unwrap();
            let base = self.slots[r].obs.lock().unwrap().base;
            out.push(format!(
                "rep {} base={} nops={} tasks={}",
                r,
                vidx(base),
                nops,
                canon_db(&tasks)
            ));
        }
        for r in 0..self.slots.len() {
            if self.slots[r].fut.is_some() {
                out.push(format!("pend {} busy", r));
                continue;
            }
            let ops: Vec<String> = self.slots[r]
                .obs
                .lock()
                .unwrap()
                .unsynced
                .iter()
                .filter_map(op_toks)
                .collect();
            let mut line = format!("pend {} {}", r, ops.len());
            for o in ops {
                line.push_str(" ; ");
                line.push_str(&o);
            }
            out.push(line);
        }
        let c = self.chain.borrow();
        out.push(format!("chain len={}", c.versions.len()));
        for (i, v) in c.versions.iter().enumerate() {
            out.push(format!("v{} {}", i + 1, String::from_utf8_lossy(v)));
        }
        match &c.snapshot {
            None => out.push("snap none".into()),
            Some((i, s)) => out.push(format!("snap {} {}", i, snap_fmt(s))),
        }
        out
    }

    /// execute one protocol line; returns (the line as it goes to ops.txt, output lines)
    pub fn exec(&mut self, line: &str) -> (String, Vec<String>) {
        if std::env::var("TCH_TRACE").is_ok() {
            eprintln!("exec {}", line);
        }
        let toks: Vec<&str> = line.split_whitespace().collect();
        let bad = || (line.to_string(), vec!["bad-op".to_string()]);
        match toks.as_slice() {
            ["R", _] => (line.to_string(), vec![]),
            ["C", r, rest @ ..] => {
                let r: usize = r.parse().unwrap();
                match parse_pop(rest) {
                    Some(p) => {
                        let o = self.commit(r, &[p]);
                        self.stat(&format!("commit_{}", o.split(':').next().unwrap()));
                        (line.to_string(), vec![o])
                    }
                    None => bad(),
                }
            }
            ["W", rest @ ..] => {
                // a version written by somebody else (another implementation of the documented
                // format) lands on the server: its operations need not be valid where they stand — a
                // Create of a task that exists, an Update of one that does not
                let mut ops = Vec::new();
                for grp in rest.split(|t| *t == ";") {
                    if grp.is_empty() {
                        continue;
                    }
                    match parse_pop(grp) {
                        Some(POp::Create(uuid)) => ops.push(Operation::Create { uuid }),
                        Some(POp::Delete(uuid)) => ops.push(Operation::Delete { uuid, old_task: TaskMap::new() }),
                        Some(POp::Update(uuid, property, value, timestamp)) => ops.push(Operation::Update { uuid, property, old_value: None, value, timestamp }),
                        None => return bad(),
                    }
                }
                let doc = taskchampion::server::verif::encode_version(ops);
                let mut c = self.chain.borrow_mut();
                c.versions.push(doc);
                let n = c.versions.len();
                (line.to_string(), vec![format!("foreign v{}", n)])
            }
            ["X", r, _n, rest @ ..] => {
                let r: usize = r.parse().unwrap();
                let mut pops = Vec::new();
                for grp in rest.split(|t| *t == ";") {
                    if grp.is_empty() {
                        continue;
                    }
                    match parse_pop(grp) {
                        Some(p) => pops.push(p),
                        None => return bad(),
                    }
                }
                let o = self.commit(r, &pops);
                self.stat(&format!("batch_{}", o.split(':').next().unwrap()));
                (line.to_string(), vec![o])
            }
            ["P", r] => {
                let r: usize = r.parse().unwrap();
                if self.slots[r].fut.is_some() {
                    return (line.to_string(), vec!["busy".into()]);
                }
                let res = block_on(self.rep(r).commit_operations(vec![Operation::UndoPoint]));
                (line.to_string(), vec![if res.is_ok() { "ok".into() } else { "err".into() }])
            }
            ["S", r, avoid, urg] => {
                let r: usize = r.parse().unwrap();
                let (out, _) = self.sync_whole(r, *avoid == "1", urg, None, None);
                self.stat("sync");
                if out.iter().filter(|l| l.starts_with("av ")).count() >= 2 {
                    self.stat("sync_multi_batch");
                }
                (line.to_string(), out)
            }
            ["F", r, avoid, urg, _m, kind, idx] => {
                let r: usize = r.parse().unwrap();
                let idx: usize = idx.parse().unwrap();
                let (fault, sfail) = match *kind {
                    "before" => (Some((idx, FaultKind::Before)), None),
                    "after" => (Some((idx, FaultKind::After)), None),
                    "storage" => (None, Some((idx, true))),
                    "storage-error" => (None, Some((idx, false))),
                    // SQLite only: the backend itself fails every write to the tasks table
                    "sqlite-abort" => (None, None),
                    _ => return bad(),
                };
                let trig = *kind == "sqlite-abort" && self.sqlite_triggers(r, true);
                let (out, committed) = self.sync_whole(r, *avoid == "1", urg, fault, sfail);
                if trig {
                    self.sqlite_triggers(r, false);
                }
                self.stat(&format!("fault_{}", kind));
                let aborted = out.last().map(|l| l == "sync aborted").unwrap_or(false);
                if aborted {
                    self.stat("fault_hit");
                }
                let nreq = out.len() - 1;
                let newline = if committed || !aborted {
                    // the fault point lies beyond the end of this sync's transaction: for the
                    // model it is an ordinary sync
                    format!("F {} {} {} done {} {}", r, avoid, urg, kind, idx)
                } else {
                    let m = match *kind {
                        "before" => idx - 1,
                        _ => nreq,
                    };
                    format!("F {} {} {} {} {} {}", r, avoid, urg, m, kind, idx)
                };
                (newline, out)
            }
            ["B", r, avoid] => {
                let r: usize = r.parse().unwrap();
                if self.slots[r].fut.is_some() {
                    return (line.to_string(), vec!["begun".into()]);
                }
                self.prepare_sync(r, "n", true, None);
                self.start_future(r, *avoid == "1");
                // run up to the first gate
                if let Some(res) = self.drive(r) {
                    // finished without any request: cannot happen (a sync always asks for a child)
                    return (line.to_string(), vec![format!("begun-finished {}", sync_result(&res))]);
                }
                self.stat("begin_stepped");
                (line.to_string(), vec!["begun".into()])
            }
            ["T", r, urg] => {
                let r: usize = r.parse().unwrap();
                if self.slots[r].fut.is_none() {
                    return (line.to_string(), vec!["idle".into()]);
                }
                {
                    let mut c = self.chain.borrow_mut();
                    c.handles[r].permits = 1;
                    c.handles[r].urgency = Some(parse_urg(urg));
                }
                let res = self.drive(r);
                let mut out = self.take_log(r);
                self.stat("step");
                match res {
                    None => {
                        if out.is_empty() {
                            out.push("no-request".into());
                        }
                    }
                    Some(res) => {
                        // the sync ended: after its last response it commits without another
                        // request, so the end is reported together with that request
                        out.push(sync_result(&res));
                    }
                }
                (line.to_string(), out)
            }
            ["A", r] => {
                let r: usize = r.parse().unwrap();
                self.slots[r].fut = None;
                let _ = self.take_log(r);
                (line.to_string(), vec!["sync aborted".into()])
            }
            ["D"] => {
                // the server discards every version before its snapshot's version
                let mut c = self.chain.borrow_mut();
                let v = c.snapshot.as_ref().map(|x| x.0).unwrap_or(0);
                c.discarded = v;
                (line.to_string(), vec![format!("discarded {}", v)])
            }
            ["Q"] => (line.to_string(), self.dump()),
            [] => (line.to_string(), vec![]),
            _ => bad(),
        }
    }
}

pub struct GenCfg {
    pub max_len: usize,
    pub stepped: bool,
    pub faults: bool,
    pub snapshots: bool,
    /// versions written by another implementation land on the server now and then
    pub foreign: bool,
}

fn gen_str(rng: &mut Rng, pool: &[&str]) -> String {
    enc_str(*rng.pick(pool))
}

/// generate one history (protocol lines, without `Q` at the end)
pub fn gen_case(rng: &mut Rng, cfg: &GenCfg) -> (usize, u64, Vec<String>) {
    let mut nreps = 2 + rng.below(3) as usize;
    if cfg.snapshots && nreps < 3 {
        nreps = 3;
    }
    // with --snapshots the last replica joins late, after the server discarded old versions
    let active = if cfg.snapshots { nreps - 1 } else { nreps };
    let discard_at = if cfg.snapshots { 2 + rng.below(cfg.max_len as u64 / 2) as usize } else { usize::MAX };
    let mut joined = !cfg.snapshots;
    let sqlite_mask = if rng.chance(1, 5) { rng.below(1 << nreps) } else { 0 };
    let ntasks = 1 + rng.below(3);
    let keys = ["k", "description", "p\"q\\\n", "é✓"];
    let vals = ["", "v", "w", "long value with spaces", "\u{1F600}\u{7}", "x"];
    let times: Vec<(i64, u32)> = vec![(100, 0), (100, 0), (200, 500), (50, 123000000), (1700000000, 999999999), (200, 500)];
    // (with --snapshots big values matter twice: a sync in several versions sees several urgency
    // statements, and a snapshot larger than any internal buffer must still decode exactly)
    let big = rng.chance(1, if cfg.snapshots || cfg.stepped { 8 } else { 25 });
    let len = 3 + rng.below(cfg.max_len as u64 - 2) as usize;
    let mut lines = vec![format!("R {}", nreps)];
    let mut stepping: Vec<bool> = vec![false; nreps];
    for step in 0..len {
        if step == discard_at {
            // quiesce the active replicas, make one of them upload a snapshot, discard
            for r in 0..active {
                if stepping[r] {
                    lines.push(format!("A {}", r));
                    stepping[r] = false;
                }
            }
            for _ in 0..2 {
                for r in 0..active {
                    lines.push(format!("S {} 0 n", r));
                }
            }
            lines.push(format!("C 0 create {}", 1 + rng.below(ntasks)));
            lines.push(format!("C 0 update {} {} {} 7 0", 1 + rng.below(ntasks), gen_str(rng, &keys), gen_str(rng, &vals)));
            if big {
                // the snapshot that is about to be made is large and full of multi-byte characters
                let v = if rng.chance(1, 2) {
                    format!("~{}~{}", 30000 + rng.below(60000), hex("é".as_bytes()))
                } else {
                    format!("~{}~{}", 20000 + rng.below(30000), hex("a\u{1F600}".as_bytes()))
                };
                lines.push(format!("C 0 update {} {} {} 8 0", 1 + rng.below(ntasks), gen_str(rng, &keys), v));
            }
            lines.push("S 0 0 h".to_string());
            for r in 1..active {
                lines.push(format!("S {} 1 n", r));
            }
            lines.push("D".to_string());
            // the late joiner starts empty: its first action is a sync (it gets the snapshot)
            lines.push(format!("S {} {} n", nreps - 1, rng.below(2)));
            joined = true;
        }
        let r = rng.below(if joined { nreps } else { active } as u64) as usize;
        let u = 1 + rng.below(ntasks);
        let roll = rng.below(100);
        if stepping[r] {
            // a replica inside a stepped sync only steps (or, rarely, aborts)
            if rng.chance(1, 15) {
                lines.push(format!("A {}", r));
                stepping[r] = false;
            } else {
                let urg = *rng.pick(&["n", "n", "l", "h"]);
                lines.push(format!("T {} {}", r, urg));
            }
            continue;
        }
        if cfg.stepped && rng.chance(1, 12) {
            // a race: r pulls to the tip, another replica's version lands, r's push is rejected
            // (among the replicas that take part already: the late joiner of --snapshots stays out until
            // the server has discarded the old versions)
            let pool = if joined { nreps } else { active };
            let q = if pool > 1 { (r + 1 + rng.below(pool as u64 - 1) as usize) % pool } else { r };
            if q != r && !stepping[q] {
                let (s, n) = *rng.pick(&times);
                lines.push(format!("C {} update {} {} {} {} {}", r, u, gen_str(rng, &keys), gen_str(rng, &vals), s, n));
                lines.push(format!("C {} update {} {} {} {} {}", q, u, gen_str(rng, &keys), gen_str(rng, &vals), s, n));
                lines.push(format!("B {} 0", r));
                for _ in 0..(1 + rng.below(4)) {
                    lines.push(format!("T {} n", r));
                }
                lines.push(format!("S {} 0 n", q));
                stepping[r] = true;
                continue;
            }
        }
        if cfg.snapshots && cfg.stepped && !stepping[r] && rng.chance(1, 150) {
            // a sync that sends two versions; the server asks for a snapshot with the first one only
            // (or with the second one only): what counts is what it says with the last one
            let (first, last) = *rng.pick(&[("h", "n"), ("l", "n"), ("n", "h"), ("h", "l")]);
            lines.push(format!("S {} 0 n", r));
            lines.push(format!("C {} create {}", r, u));
            lines.push(format!("C {} update {} {} ~{}~{} 9 0", r, u, gen_str(rng, &keys), 600000 + rng.below(200000), hex(b"a")));
            lines.push(format!("C {} update {} {} ~{}~{} 9 1", r, u, gen_str(rng, &keys), 600000 + rng.below(200000), hex(b"b")));
            lines.push(format!("B {} {}", r, rng.below(2)));
            lines.push(format!("T {} n", r));
            lines.push(format!("T {} {}", r, first));
            lines.push(format!("T {} {}", r, last));
            for _ in 0..4 {
                lines.push(format!("T {} n", r));
            }
            stepping[r] = true;
            continue;
        }
        if cfg.faults && rng.chance(1, 12) {
            // the reply to an accepted version is lost, the same property is edited again with a
            // timestamp that is not later (the clock stepped back, or the same second), then the
            // replica synchronizes: it meets its own version with more pending behind it
            let k = gen_str(rng, &keys);
            let (s1, n1) = *rng.pick(&times);
            let (s2, n2) = if rng.chance(1, 2) { (s1, n1) } else { *rng.pick(&times) };
            lines.push(format!("C {} create {}", r, u));
            lines.push(format!("S {} 0 n", r));
            lines.push(format!("C {} update {} {} {} {} {}", r, u, k, gen_str(rng, &vals), s1, n1));
            lines.push(format!("F {} 0 n 0 after 2", r));
            lines.push("Q".to_string());
            lines.push(format!("C {} update {} {} {} {} {}", r, u, k, gen_str(rng, &vals), s2, n2));
            lines.push(format!("S {} 0 n", r));
            continue;
        }
        if cfg.foreign && rng.chance(1, 14) {
            let (s, n) = *rng.pick(&times);
            let mut parts = vec![format!("create {}", u)];
            if rng.chance(1, 2) {
                parts.push(format!("update {} {} {} {} {}", u, gen_str(rng, &keys), gen_str(rng, &vals), s, n));
            }
            if rng.chance(1, 4) {
                parts.push(format!("create {}", 1 + rng.below(ntasks)));
            }
            lines.push(format!("W {}", parts.join(" ; ")));
            continue;
        }
        if roll < 18 {
            lines.push(format!("C {} create {}", r, u));
        } else if roll < 58 {
            let (s, n) = *rng.pick(&times);
            let v = if rng.chance(1, 6) {
                "-".to_string()
            } else if big && rng.chance(1, 2) {
                // long runs of 1-, 2- and 4-byte characters (200–700 kB)
                match rng.below(4) {
                    0 => format!("~{}~{}", 100000 + rng.below(150000), hex("é".as_bytes())),
                    1 => format!("~{}~{}", 50000 + rng.below(80000), hex("a\u{1F600}".as_bytes())),
                    _ => format!("~{}~{}", 400000 + rng.below(300000), hex(rng.pick(&["a", "b"]).as_bytes())),
                }
            } else {
                gen_str(rng, &vals)
            };
            lines.push(format!("C {} update {} {} {} {} {}", r, u, gen_str(rng, &keys), v, s, n));
        } else if roll < 65 {
            lines.push(format!("C {} delete {}", r, u));
        } else if roll < 68 {
            lines.push(format!("P {}", r));
        } else if roll < 72 {
            // a small raw batch
            let n = 2 + rng.below(3);
            let mut parts = Vec::new();
            for _ in 0..n {
                let u = 1 + rng.below(ntasks);
                match rng.below(4) {
                    0 => parts.push(format!("create {}", u)),
                    1 => parts.push(format!("delete {}", u)),
                    _ => {
                        let (s, nn) = *rng.pick(&times);
                        parts.push(format!("update {} {} {} {} {}", u, gen_str(rng, &keys), gen_str(rng, &vals), s, nn));
                    }
                }
            }
            lines.push(format!("X {} {} ; {}", r, n, parts.join(" ; ")));
        } else {
            let avoid = if rng.chance(1, 4) { 1 } else { 0 };
            let urg = *rng.pick(&["n", "n", "l", "h"]);
            if cfg.stepped && rng.chance(1, 2) {
                lines.push(format!("B {} {}", r, avoid));
                stepping[r] = true;
            } else if cfg.faults && rng.chance(1, 3) {
                let kind = *rng.pick(&["before", "after", "storage", "storage", "storage-error", "sqlite-abort"]);
                let idx = if kind.starts_with("storage") { 1 + rng.below(40) } else { 1 + rng.below(6) };
                lines.push(format!("F {} {} {} 0 {} {}", r, avoid, urg, kind, idx));
                lines.push("Q".to_string());
            } else {
                lines.push(format!("S {} {} {}", r, avoid, urg));
            }
        }
    }
    // let every stepped sync finish, then bring everybody to quiescence
    for r in 0..nreps {
        if stepping[r] {
            for _ in 0..40 {
                lines.push(format!("T {} n", r));
            }
        }
    }
    for _ in 0..2 {
        for r in 0..nreps {
            lines.push(format!("S {} 0 n", r));
        }
    }
    (nreps, sqlite_mask, lines)
}


fn permutations(n: usize) -> Vec<Vec<usize>> {
    if n == 1 {
        return vec![vec![0]];
    }
    let mut out = Vec::new();
    for p in permutations(n - 1) {
        for i in 0..n {
            let mut q = p.clone();
            q.insert(i, n - 1);
            out.push(q);
        }
    }
    out
}

/// one conflict group: the same concurrent changes, synchronized in every order
pub fn gen_conflict_group(rng: &mut Rng) -> Vec<(String, usize, Vec<String>)> {
    let nreps = 2 + rng.below(2) as usize;
    let keys = ["p", "q"];
    let vals = ["x", "y", "x", "", "old"];
    let times: [(i64, u32); 4] = [(100, 0), (100, 0), (200, 0), (100, 5)];
    let mut setup = vec![format!("R {}", nreps)];
    // task 1 exists everywhere (sometimes with a value), task 2 exists nowhere yet
    setup.push("C 0 create 1".to_string());
    if rng.chance(1, 2) {
        setup.push(format!("C 0 update 1 {} {} 50 0", enc_str("p"), enc_str("old")));
    }
    if rng.chance(1, 3) {
        setup.push("C 0 create 3".to_string());
    }
    for r in 0..nreps {
        setup.push(format!("S {} 0 n", r));
    }
    for r in 0..nreps {
        setup.push(format!("S {} 0 n", r));
    }
    // concurrent changes
    let mut pending = Vec::new();
    for r in 0..nreps {
        let n = 1 + rng.below(3);
        for _ in 0..n {
            let u = *rng.pick(&[1u32, 1, 1, 2, 3]);
            let roll = rng.below(10);
            if roll < 6 {
                let (s, nn) = *rng.pick(&times);
                let v = if rng.chance(1, 6) { "-".to_string() } else { enc_str(*rng.pick(&vals)) };
                pending.push(format!("C {} update {} {} {} {} {}", r, u, enc_str(*rng.pick(&keys)), v, s, nn));
            } else if roll < 8 {
                pending.push(format!("C {} delete {}", r, u));
            } else {
                pending.push(format!("C {} create {}", r, u));
            }
        }
    }
    // sometimes one replica makes a further change after seeing another's (causal order)
    let causal = rng.chance(1, 4);
    let mut out = Vec::new();
    for (pi, perm) in permutations(nreps).iter().enumerate() {
        let mut lines = setup.clone();
        lines.extend(pending.iter().cloned());
        for r in perm {
            lines.push(format!("S {} 0 n", r));
        }
        if causal {
            let r = perm[nreps - 1];
            lines.push(format!("C {} update 1 {} {} 10 0", r, enc_str("p"), enc_str("after")));
        }
        for _ in 0..2 {
            for r in 0..nreps {
                lines.push(format!("S {} 0 n", r));
            }
        }
        out.push((format!("perm={} setup={} pend={}", pi, setup.len(), pending.len()), nreps, lines));
    }
    out
}
