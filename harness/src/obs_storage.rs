//! `ObsStorage`: wraps any `Storage` by value (a `Replica` owns its storage), publishes what a
//! transaction holds immediately before each successful commit, counts `StorageTxn` calls and
//! can fail the k-th call of the next transaction(s).
use async_trait::async_trait;
use std::collections::HashMap;
use std::sync::{Arc, Mutex};
use taskchampion::storage::{Storage, StorageTxn, TaskMap};
use taskchampion::{Error, Operation};
use uuid::Uuid;

#[derive(Default, Clone)]
pub struct Obs {
    pub tasks: HashMap<Uuid, TaskMap>,
    pub base: Uuid,
    pub unsynced: Vec<Operation>,
    pub working_set: Vec<Option<Uuid>>,
    pub commits: usize,
    /// calls made so far by transactions since `reset_calls`
    pub calls: usize,
    /// fail the call with this 1-based index (counted like `calls`)
    pub fail_at: Option<usize>,
    pub failed: bool,
    /// the injected failure emulates a process stop: every later storage call fails as well
    /// (and, through `stopped`, every later server request)
    pub sticky: bool,
    /// the next transaction publishes the committed base / unsynced / working set at its start
    pub probe: bool,
    /// the order in which the most recent `all_tasks()` call enumerated the tasks
    pub last_all_order: Vec<Uuid>,
    pub stopped: Option<std::sync::Arc<std::sync::atomic::AtomicBool>>,
}

pub type ObsHandle = Arc<Mutex<Obs>>;

pub struct ObsStorage<S: Storage> {
    inner: S,
    pub obs: ObsHandle,
}

impl<S: Storage> ObsStorage<S> {
    pub fn new(inner: S) -> (Self, ObsHandle) {
        let obs: ObsHandle = Arc::new(Mutex::new(Obs::default()));
        (
            ObsStorage {
                inner,
                obs: obs.clone(),
            },
            obs,
        )
    }
}

struct ObsTxn<'a> {
    inner: Box<dyn StorageTxn + Send + 'a>,
    obs: ObsHandle,
}

impl ObsTxn<'_> {
    fn tick(&self) -> Result<(), Error> {
        let mut o = self.obs.lock().unwrap();
        o.calls += 1;
        if o.sticky && o.failed {
            return Err(Error::Other(anyhow::anyhow!("injected-fault (stopped)")));
        }
        if o.fail_at == Some(o.calls) {
            o.failed = true;
            if o.sticky {
                if let Some(f) = &o.stopped {
                    f.store(true, std::sync::atomic::Ordering::SeqCst);
                }
            }
            return Err(Error::Other(anyhow::anyhow!("injected-fault")));
        }
        Ok(())
    }
}

#[async_trait]
impl<S: Storage> Storage for ObsStorage<S> {
    async fn txn<'a>(&'a mut self) -> Result<Box<dyn StorageTxn + Send + 'a>, Error> {
        let mut inner = self.inner.txn().await?;
        // what a new transaction sees is what is committed: publish it (reads only), so that the
        // harness observes the stored base version / operations / working set even when they
        // changed without a commit going through this wrapper
        if self.obs.lock().unwrap().probe {
            let base = inner.base_version().await?;
            let unsynced = inner.unsynced_operations().await?;
            let working_set = inner.get_working_set().await?;
            let mut o = self.obs.lock().unwrap();
            o.base = base;
            o.unsynced = unsynced;
            o.working_set = working_set;
            o.probe = false;
        }
        Ok(Box::new(ObsTxn {
            inner,
            obs: self.obs.clone(),
        }))
    }
}

#[async_trait]
impl StorageTxn for ObsTxn<'_> {
    async fn get_task(&mut self, uuid: Uuid) -> Result<Option<TaskMap>, Error> {
        self.tick()?;
        self.inner.get_task(uuid).await
    }
    async fn get_pending_tasks(&mut self) -> Result<Vec<(Uuid, TaskMap)>, Error> {
        self.tick()?;
        self.inner.get_pending_tasks().await
    }
    async fn create_task(&mut self, uuid: Uuid) -> Result<bool, Error> {
        self.tick()?;
        self.inner.create_task(uuid).await
    }
    async fn set_task(&mut self, uuid: Uuid, task: TaskMap) -> Result<(), Error> {
        self.tick()?;
        self.inner.set_task(uuid, task).await
    }
    async fn delete_task(&mut self, uuid: Uuid) -> Result<bool, Error> {
        self.tick()?;
        self.inner.delete_task(uuid).await
    }
    async fn all_tasks(&mut self) -> Result<Vec<(Uuid, TaskMap)>, Error> {
        self.tick()?;
        let r = self.inner.all_tasks().await?;
        self.obs.lock().unwrap().last_all_order = r.iter().map(|(u, _)| *u).collect();
        Ok(r)
    }
    async fn all_task_uuids(&mut self) -> Result<Vec<Uuid>, Error> {
        self.tick()?;
        self.inner.all_task_uuids().await
    }
    async fn base_version(&mut self) -> Result<Uuid, Error> {
        self.tick()?;
        self.inner.base_version().await
    }
    async fn set_base_version(&mut self, version: Uuid) -> Result<(), Error> {
        self.tick()?;
        self.inner.set_base_version(version).await
    }
    async fn get_task_operations(&mut self, uuid: Uuid) -> Result<Vec<Operation>, Error> {
        self.tick()?;
        self.inner.get_task_operations(uuid).await
    }
    async fn unsynced_operations(&mut self) -> Result<Vec<Operation>, Error> {
        self.tick()?;
        self.inner.unsynced_operations().await
    }
    async fn num_unsynced_operations(&mut self) -> Result<usize, Error> {
        self.tick()?;
        self.inner.num_unsynced_operations().await
    }
    async fn add_operation(&mut self, op: Operation) -> Result<(), Error> {
        self.tick()?;
        self.inner.add_operation(op).await
    }
    async fn remove_operation(&mut self, op: Operation) -> Result<(), Error> {
        self.tick()?;
        self.inner.remove_operation(op).await
    }
    async fn sync_complete(&mut self) -> Result<(), Error> {
        self.tick()?;
        self.inner.sync_complete().await
    }
    async fn get_working_set(&mut self) -> Result<Vec<Option<Uuid>>, Error> {
        self.tick()?;
        self.inner.get_working_set().await
    }
    async fn add_to_working_set(&mut self, uuid: Uuid) -> Result<usize, Error> {
        self.tick()?;
        self.inner.add_to_working_set(uuid).await
    }
    async fn set_working_set_item(&mut self, index: usize, uuid: Option<Uuid>) -> Result<(), Error> {
        self.tick()?;
        self.inner.set_working_set_item(index, uuid).await
    }
    async fn clear_working_set(&mut self) -> Result<(), Error> {
        self.tick()?;
        self.inner.clear_working_set().await
    }
    async fn is_empty(&mut self) -> Result<bool, Error> {
        self.tick()?;
        self.inner.is_empty().await
    }
    async fn commit(&mut self) -> Result<(), Error> {
        self.tick()?;
        // what the transaction holds right now is what becomes visible
        let tasks: HashMap<Uuid, TaskMap> = self.inner.all_tasks().await?.into_iter().collect();
        let base = self.inner.base_version().await?;
        let unsynced = self.inner.unsynced_operations().await?;
        let working_set = self.inner.get_working_set().await?;
        self.inner.commit().await?;
        let mut o = self.obs.lock().unwrap();
        o.tasks = tasks;
        o.base = base;
        o.unsynced = unsynced;
        o.working_set = working_set;
        o.commits += 1;
        Ok(())
    }
}
