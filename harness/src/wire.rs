//! Family `wire`: the history-segment format (C14).
//!   ENC <op> ; <op> …   local operations (undo points, old values, deleted tasks' contents
//!                        included) -> the history segment TaskDb::sync sends for them
//!   DEC <hex>            a document written by somebody else -> the operations TaskDb::sync reads
//!                        from it, or `rejected`
use crate::common::*;
use crate::hist::{op_toks, parse_pop, POp};
use taskchampion::server::verif::{decode_version, encode_version};
use taskchampion::Operation;
use uuid::Uuid;

pub fn exec(line: &str) -> String {
    let toks: Vec<&str> = line.split_whitespace().collect();
    match toks.as_slice() {
        ["ENC", rest @ ..] => {
            let mut ops = Vec::new();
            for o in rest.split(|t| *t == ";") {
                if o.is_empty() {
                    continue;
                }
                let old: Option<String> = o.iter().find_map(|t| t.strip_prefix("old=")).and_then(dec_str);
                let core: Vec<&str> = o.iter().filter(|t| !t.starts_with("old=")).cloned().collect();
                if core == ["undo"] {
                    ops.push(Operation::UndoPoint);
                    continue;
                }
                match parse_pop(&core) {
                    Some(POp::Create(uuid)) => ops.push(Operation::Create { uuid }),
                    Some(POp::Delete(uuid)) => {
                        let mut old_task = taskchampion::storage::TaskMap::new();
                        if let Some(o) = &old {
                            old_task.insert("description".into(), o.clone());
                            old_task.insert(o.clone(), "secret-key".into());
                        }
                        ops.push(Operation::Delete { uuid, old_task })
                    }
                    Some(POp::Update(uuid, property, value, timestamp)) => ops.push(Operation::Update {
                        uuid,
                        property,
                        old_value: old,
                        value,
                        timestamp,
                    }),
                    None => return "bad-op".into(),
                }
            }
            let doc = encode_version(ops);
            // and read back by the real reader
            let back = match decode_version(&doc) {
                Ok(ops) => {
                    let toks: Vec<String> = ops.iter().filter_map(op_toks).collect();
                    format!("back {}", toks.join(" ; ")).trim_end().to_string()
                }
                Err(_) => "back rejected".into(),
            };
            format!("doc {}\n{}", if doc.is_empty() { ".".to_string() } else { hex(&doc) }, back)
        }
        ["DEC", h] => {
            let bytes = if *h == "." { vec![] } else { unhex(h).unwrap_or_default() };
            match std::panic::catch_unwind(|| decode_version(&bytes)) {
                Ok(Ok(ops)) => {
                    let toks: Vec<String> = ops.iter().filter_map(op_toks).collect();
                    format!("ops {}", toks.join(" ; ")).trim_end().to_string()
                }
                Ok(Err(_)) => "rejected".into(),
                Err(_) => "panic".into(),
            }
        }
        _ => "bad-op".into(),
    }
}

fn strings(rng: &mut Rng) -> String {
    let pool = [
        "", "description", "a", "buy milk", "tag_next", "dep_123", "\"quoted\"", "back\\slash", "tab\tnew\nline\r", "\u{8}\u{c}\u{1}\u{1f}",
        "é ü ß", "日本語", "\u{1F600} emoji", "\u{7f}\u{80}\u{2028}\u{2029}", "/slash/", "null", "{\"operations\":[]}", "old_value",
        "\u{feff}bom", "\u{10FFFF}", "a\u{0}b",
    ];
    let mut s = rng.pick(&pool[..]).to_string();
    if rng.chance(1, 4) {
        let extra: &str = *rng.pick(&pool[..]);
        s.push_str(extra);
    }
    if rng.chance(1, 30) {
        s = s.repeat(50);
    }
    s
}

fn gen_ts(rng: &mut Rng) -> (i64, u32) {
    let secs: i64 = match rng.below(8) {
        0 => 0,
        1 => 951_782_400,                // 2000-02-29
        2 => 4_102_444_799,              // 2099-12-31T23:59:59
        3 => -1,                         // 1969-12-31T23:59:59
        4 => 253_402_300_799,            // 9999-12-31T23:59:59
        5 => -62_167_219_200,            // 0000-01-01
        _ => 1_600_000_000 + rng.below(200_000_000) as i64,
    };
    let nanos: u32 = match rng.below(5) {
        0 => 0,
        1 => 500_000_000,
        2 => 123_456_789,
        3 => 1,
        _ => (rng.below(1000) * 1_000_000) as u32,
    };
    (secs, nanos)
}

pub fn gen_enc(rng: &mut Rng, max_len: usize) -> String {
    let n = rng.below(max_len as u64 + 1);
    let mut ops = Vec::new();
    for _ in 0..n {
        let u = rng.below(5) as u128 + if rng.chance(1, 6) { u128::MAX - 10 } else { 1 };
        ops.push(match rng.below(10) {
            0 | 1 => format!("create {}", u),
            2 => format!("delete {} old={}", u, enc_str(&format!("old-secret{}", strings(rng)))),
            3 => "undo".to_string(),
            _ => {
                let (s, ns) = gen_ts(rng);
                let v = if rng.chance(1, 5) { "-".to_string() } else { enc_str(&strings(rng)) };
                let old = if rng.chance(1, 2) { format!(" old={}", enc_str(&format!("old-secret{}", strings(rng)))) } else { String::new() };
                format!("update {} {} {} {} {}{}", u, enc_str(&strings(rng)), v, s, ns, old)
            }
        });
    }
    format!("ENC {}", ops.join(" ; ")).trim_end().to_string()
}

// ------------------------------------------------------------ a foreign writer of the documented format

fn fstr(rng: &mut Rng, s: &str) -> String {
    let mut o = String::from("\"");
    for c in s.chars() {
        let style = rng.below(6);
        match c {
            '"' => o.push_str("\\\""),
            '\\' => o.push_str("\\\\"),
            '/' if style == 0 => o.push_str("\\/"),
            '\n' if style < 3 => o.push_str("\\n"),
            '\t' if style < 3 => o.push_str("\\t"),
            '\r' if style < 3 => o.push_str("\\r"),
            '\u{8}' if style < 3 => o.push_str("\\b"),
            '\u{c}' if style < 3 => o.push_str("\\f"),
            c if (c as u32) < 0x20 => o.push_str(&format!("\\u{:04x}", c as u32)),
            c if style == 1 && (c as u32) < 0x10000 => {
                // any character may be written as an escape; upper- or lower-case hex
                if rng.chance(1, 2) { o.push_str(&format!("\\u{:04X}", c as u32)) } else { o.push_str(&format!("\\u{:04x}", c as u32)) }
            }
            c if style == 1 => {
                let v = c as u32 - 0x10000;
                o.push_str(&format!("\\u{:04x}\\u{:04x}", 0xD800 + (v >> 10), 0xDC00 + (v & 0x3ff)));
            }
            c => o.push(c),
        }
    }
    o.push('"');
    o
}

fn civil(days: i64) -> (i64, u32, u32) {
    let z = days + 719468;
    let era = z.div_euclid(146097);
    let doe = z.rem_euclid(146097);
    let yoe = (doe - doe / 1460 + doe / 36524 - doe / 146096) / 365;
    let y = yoe + era * 400;
    let doy = doe - (365 * yoe + yoe / 4 - yoe / 100);
    let mp = (5 * doy + 2) / 153;
    let d = (doy - (153 * mp + 2) / 5 + 1) as u32;
    let m = if mp < 10 { mp + 3 } else { mp - 9 } as u32;
    (if m <= 2 { y + 1 } else { y }, m, d)
}

fn fts(rng: &mut Rng, secs: i64, nanos: u32) -> String {
    // an offset other than UTC shifts the printed wall-clock time
    let (off, offtxt): (i64, String) = match rng.below(6) {
        0 => (0, "+00:00".into()),
        1 => (0, "-00:00".into()),
        2 => (2 * 3600, "+02:00".into()),
        3 => (-(5 * 3600 + 30 * 60), "-05:30".into()),
        _ => (0, "Z".into()),
    };
    let local = secs + off;
    let days = local.div_euclid(86400);
    let sod = local.rem_euclid(86400);
    let (y, m, d) = civil(days);
    let frac = match rng.below(5) {
        _ if nanos == 0 && rng.chance(1, 2) => String::new(),
        0 => format!(".{:09}", nanos),
        1 => format!(".{:09}", nanos).trim_end_matches('0').to_string(),
        2 if nanos % 1_000_000 == 0 => format!(".{:03}", nanos / 1_000_000),
        3 if nanos % 1000 == 0 => format!(".{:06}", nanos / 1000),
        _ => format!(".{:09}", nanos),
    };
    let frac = if frac == "." { ".0".to_string() } else { frac };
    format!("{:04}-{:02}-{:02}T{:02}:{:02}:{:02}{}{}", y, m, d, sod / 3600, (sod / 60) % 60, sod % 60, frac, offtxt)
}

fn ws(rng: &mut Rng) -> &'static str {
    *rng.pick(&["", "", "", " ", "\n", "\t ", "\r\n  "][..])
}

/// a well-formed document of the documented format as another implementation might write it,
/// or (malformed = true) one with a single defect
pub fn gen_dec(rng: &mut Rng, max_len: usize, malformed: bool) -> String {
    let n = rng.below(max_len as u64 + 1) as usize;
    let defect_at = if malformed && n > 0 { Some(rng.below(n as u64) as usize) } else { None };
    let mut ops = Vec::new();
    for i in 0..n {
        let u = Uuid::from_u128(rng.below(5) as u128 + if rng.chance(1, 6) { u128::MAX - 10 } else { 1 });
        let ustr = match rng.below(4) {
            0 => u.simple().to_string(),
            1 => u.hyphenated().to_string().to_uppercase(),
            _ => u.hyphenated().to_string(),
        };
        let defect = if defect_at == Some(i) { 1 + rng.below(14) } else { 0 };
        let ustr = match defect {
            1 => ustr[..ustr.len() - 1].to_string(),
            2 => format!("{{{}}}", ustr),
            13 => format!("urn:uuid:{}", ustr),
            14 => ustr.replace('0', "g"),
            _ => ustr,
        };
        let mut fields: Vec<String> = vec![format!("\"uuid\"{}:{}\"{}\"", ws(rng), ws(rng), ustr)];
        let kind = rng.below(10);
        let tag = match kind {
            0 | 1 => "Create",
            2 => "Delete",
            _ => "Update",
        };
        if tag == "Update" {
            let (s, ns) = gen_ts(rng);
            let s = s.clamp(-62_135_596_800, 253_402_300_799 - 86400);
            let v = if rng.chance(1, 5) { "null".to_string() } else { { let x = strings(rng); fstr(rng, &x) } };
            fields.push(format!("\"property\":{}{}", ws(rng), { let x = strings(rng); fstr(rng, &x) }));
            if defect != 3 {
                fields.push(format!("\"value\"{}:{}", ws(rng), v));
            }
            let t = fts(rng, s, ns);
            let t = match defect {
                4 => t.replace('T', "_"),
                5 => t.trim_end_matches('Z').trim_end_matches("+00:00").trim_end_matches("-00:00").trim_end_matches("+02:00").trim_end_matches("-05:30").to_string(),
                6 => t.replacen("-", "-13-", 1),
                _ => t,
            };
            if defect == 7 {
                fields.push(format!("\"timestamp\":{}", s));
            } else {
                fields.push(format!("\"timestamp\":{}\"{}\"", ws(rng), t));
            }
            if defect == 8 {
                fields.push("\"value\":null".into());
            }
        }
        if defect == 9 {
            fields.remove(0);
        }
        if defect == 10 {
            fields.push("\"old_value\":\"x\"".into());
        }
        // any field order
        for k in (1..fields.len()).rev() {
            let j = rng.below(k as u64 + 1) as usize;
            fields.swap(k, j);
        }
        let tag = if defect == 11 { "UndoPoint" } else { tag };
        let body = format!("{{{}{}{}}}", ws(rng), fields.join(&format!("{},{}", ws(rng), ws(rng))), ws(rng));
        let body = if defect == 12 { format!("[{}]", body) } else { body };
        ops.push(format!("{{{}\"{}\"{}:{}{}}}", ws(rng), tag, ws(rng), ws(rng), body));
    }
    let mut doc = format!("{}{{{}\"operations\"{}:{}[{}{}{}]{}}}{}", ws(rng), ws(rng), ws(rng), ws(rng), ws(rng), ops.join(&format!("{},{}", ws(rng), ws(rng))), ws(rng), ws(rng), ws(rng));
    if malformed && defect_at.is_none() {
        doc = match rng.below(6) {
            0 => doc[..doc.len() / 2].to_string(),
            1 => doc.replace("operations", "operation"),
            2 => format!("{} x", doc),
            3 => "[]".to_string(),
            4 => String::new(),
            _ => doc.replace('[', "{").replace(']', "}"),
        };
    }
    let mut bytes = doc.into_bytes();
    if malformed && rng.chance(1, 10) {
        bytes.push(0xff);
    }
    format!("DEC {}", if bytes.is_empty() { ".".to_string() } else { hex(&bytes) })
}
