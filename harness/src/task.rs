//! Family `task`: Task / TaskData mutators and every read accessor, on one in-memory replica.
use crate::common::*;
use crate::hist::{AnyStorage, Rep};
use crate::obs_storage::*;
use crate::rep::{fmt_old_map, parse_old_map_pub};
use chrono::{TimeZone, Utc};
use std::collections::HashMap;
use std::panic::{catch_unwind, AssertUnwindSafe};
use std::str::FromStr;
use taskchampion::storage::inmemory::InMemoryStorage;
use taskchampion::storage::TaskMap;
use taskchampion::{Annotation, Operation, Operations, Replica, Status, Tag, Task, TaskData};
use uuid::Uuid;

pub enum Obj {
    T(Task),
    D(TaskData),
}

pub struct TaskRun {
    replica: Rep,
    obs: ObsHandle,
    obj: Option<Obj>,
    ops: Operations,
    pub stats: HashMap<String, u64>,
}

/// wait until the clock is safely inside a second, return that second
pub fn aligned_now() -> i64 {
    loop {
        let n = Utc::now();
        if n.timestamp_subsec_millis() < 850 {
            return n.timestamp();
        }
        std::thread::sleep(std::time::Duration::from_millis(30));
    }
}

fn fmt_list(mut l: Vec<String>) -> String {
    l.sort();
    l.dedup();
    format!("[{}]", l.join(","))
}

fn opt_ts(t: Option<chrono::DateTime<Utc>>) -> String {
    match t {
        Some(t) => format!("{}", t.timestamp()),
        None => "-".into(),
    }
}

fn status_str(s: &Status) -> String {
    match s {
        Status::Pending => "pending".into(),
        Status::Completed => "completed".into(),
        Status::Deleted => "deleted".into(),
        Status::Recurring => "recurring".into(),
        Status::Unknown(v) => format!("unknown:{}", v),
    }
}

pub fn fmt_view(t: &Task) -> String {
    let mut tags = Vec::new();
    for tag in t.get_tags() {
        let s: &str = tag.as_ref();
        if tag.is_synthetic() {
            if !["BLOCKED", "UNBLOCKED", "BLOCKING"].contains(&s) {
                tags.push(format!("s:{}", s));
            }
        } else {
            tags.push(format!("u:{}", enc_str(s)));
        }
    }
    let ann: Vec<String> = t
        .get_annotations()
        .map(|a| format!("{}:{}", a.entry.timestamp(), enc_str(&a.description)))
        .collect();
    let udas: Vec<String> = t
        .get_user_defined_attributes()
        .map(|(k, v)| format!("{}={}", enc_str(k), enc_str(v)))
        .collect();
    let deps: Vec<String> = t.get_dependencies().map(|u| format!("{}", u.as_u128())).collect();
    let map: TaskMap = t.clone().into_task_data().iter().map(|(k, v)| (k.clone(), v.clone())).collect();
    format!(
        "view status={} desc={} prio={} entry={} wait={} modified={} due={} active={} waiting={} tags={} ann={} udas={} deps={} map={}",
        enc_str(&status_str(&t.get_status())),
        enc_str(t.get_description()),
        enc_str(t.get_priority()),
        opt_ts(t.get_entry()),
        opt_ts(t.get_wait()),
        opt_ts(t.get_modified()),
        opt_ts(t.get_due()),
        t.is_active(),
        t.is_waiting(),
        fmt_list(tags),
        fmt_list(ann),
        fmt_list(udas),
        fmt_list(deps),
        fmt_old_map(&map)
    )
}

fn op_no_ts(op: &Operation) -> String {
    let fo = |v: &Option<String>| match v {
        Some(s) => enc_str(s),
        None => "-".into(),
    };
    match op {
        Operation::Create { uuid } => format!("create {}", uuid.as_u128()),
        Operation::UndoPoint => "undo".into(),
        Operation::Delete { uuid, old_task } => format!("delete {} {}", uuid.as_u128(), fmt_old_map(old_task)),
        Operation::Update { uuid, property, old_value, value, .. } => {
            format!("update {} {} {} {}", uuid.as_u128(), enc_str(property), fo(old_value), fo(value))
        }
    }
}

fn fmt_ops(ops: &Operations) -> String {
    let mut s = format!("ops {}", ops.len());
    for o in ops.iter() {
        s.push_str(" ; ");
        s.push_str(&op_no_ts(o));
    }
    s
}

fn ts_of(secs: i64) -> Option<chrono::DateTime<Utc>> {
    Utc.timestamp_opt(secs, 0).single()
}

impl TaskRun {
    pub fn new() -> TaskRun {
        let (os, obs) = ObsStorage::new(AnyStorage::Mem(InMemoryStorage::new()));
        TaskRun { replica: Replica::new(os), obs, obj: None, ops: Operations::new(), stats: HashMap::new() }
    }

    fn stat(&mut self, k: &str) {
        *self.stats.entry(k.to_string()).or_insert(0) += 1;
    }

    fn stored(&mut self, u: Uuid) -> Option<TaskMap> {
        block_on(self.replica.get_task_data(u))
            .unwrap()
            .map(|t| t.iter().map(|(k, v)| (k.clone(), v.clone())).collect())
    }

    fn apply_mut(&mut self, toks: &[&str]) -> Option<Result<(), taskchampion::Error>> {
        // low-level TaskData mutators: the object becomes (stays) a TaskData
        match toks {
            ["td_update", k, v] => {
                let (k, v) = (dec_str(k)?, dec_opt_str(v)?);
                let mut td = match self.obj.take()? {
                    Obj::T(t) => t.into_task_data(),
                    Obj::D(d) => d,
                };
                td.update(k, v, &mut self.ops);
                self.obj = Some(Obj::D(td));
                return Some(Ok(()));
            }
            ["td_delete"] => {
                let mut td = match self.obj.take()? {
                    Obj::T(t) => t.into_task_data(),
                    Obj::D(d) => d,
                };
                td.delete(&mut self.ops);
                self.obj = Some(Obj::D(td));
                return Some(Ok(()));
            }
            _ => {}
        }
        let t = match self.obj.as_mut()? {
            Obj::T(t) => t,
            Obj::D(_) => return Some(Err(taskchampion::Error::Database("needs-task".into()))),
        };
        let ops = &mut self.ops;
        let opt_i = |s: &str| -> Option<Option<chrono::DateTime<Utc>>> {
            if s == "-" { Some(None) } else { Some(Some(ts_of(s.parse().ok()?)?)) }
        };
        Some(match toks {
            ["set_status", s] => {
                let s = dec_str(s)?;
                let st = match s.as_str() {
                    "pending" => Status::Pending,
                    "completed" => Status::Completed,
                    "deleted" => Status::Deleted,
                    "recurring" => Status::Recurring,
                    v => Status::Unknown(v.to_string()),
                };
                t.set_status(st, ops)
            }
            ["set_description", v] => t.set_description(dec_str(v)?, ops),
            ["set_priority", v] => t.set_priority(dec_str(v)?, ops),
            ["set_entry", v] => t.set_entry(opt_i(v)?, ops),
            ["set_wait", v] => t.set_wait(opt_i(v)?, ops),
            ["set_due", v] => t.set_due(opt_i(v)?, ops),
            ["set_modified", v] => t.set_modified(ts_of(v.parse().ok()?)?, ops),
            ["set_value", k, v] => t.set_value(dec_str(k)?, dec_opt_str(v)?, ops),
            ["start"] => t.start(ops),
            ["stop"] => t.stop(ops),
            ["done"] => t.done(ops),
            ["add_tag", s] => t.add_tag(&Tag::from_str(&dec_str(s)?).ok()?, ops),
            ["remove_tag", s] => t.remove_tag(&Tag::from_str(&dec_str(s)?).ok()?, ops),
            ["add_annotation", e, d] => t.add_annotation(
                Annotation { entry: ts_of(e.parse().ok()?)?, description: dec_str(d)? },
                ops,
            ),
            ["remove_annotation", e] => t.remove_annotation(ts_of(e.parse().ok()?)?, ops),
            ["set_uda", k, v] => t.set_user_defined_attribute(dec_str(k)?, dec_str(v)?, ops),
            ["remove_uda", k] => t.remove_user_defined_attribute(dec_str(k)?, ops),
            ["add_dependency", u] => t.add_dependency(uuid_of(u.parse().ok()?), ops),
            ["remove_dependency", u] => t.remove_dependency(uuid_of(u.parse().ok()?), ops),
            _ => return None,
        })
    }

    pub fn exec(&mut self, line: &str) -> (String, Vec<String>) {
        let toks: Vec<&str> = line.split_whitespace().collect();
        let bad = || (line.to_string(), vec!["bad-op".to_string()]);
        match toks.as_slice() {
            ["N"] => (line.to_string(), vec!["new".into()]),
            ["R", u, m] => {
                let uuid = uuid_of(u.parse().unwrap_or(0));
                let want = match parse_old_map_pub(m) {
                    Some(m) => m,
                    None => return bad(),
                };
                let mut ops = Operations::new();
                let cur = match self.stored(uuid) {
                    Some(c) => c,
                    None => {
                        ops.push(Operation::Create { uuid });
                        TaskMap::new()
                    }
                };
                let now = Utc::now();
                for (k, v) in want.iter() {
                    if cur.get(k) != Some(v) {
                        ops.push(Operation::Update { uuid, property: k.clone(), old_value: cur.get(k).cloned(), value: Some(v.clone()), timestamp: now });
                    }
                }
                for (k, v) in cur.iter() {
                    if !want.contains_key(k) {
                        ops.push(Operation::Update { uuid, property: k.clone(), old_value: Some(v.clone()), value: None, timestamp: now });
                    }
                }
                // committed through the TaskDb without the working-set hook of Replica: use
                // TaskData-level commit via the replica (adds to the working set like any commit)
                let r = block_on(self.replica.commit_operations(ops));
                self.stat("raw_task");
                (line.to_string(), vec![if r.is_ok() { "ok".into() } else { "err".into() }])
            }
            ["K", _now, u] => {
                let now = aligned_now();
                let line = &format!("K {} {}", now, u);
                let uuid = uuid_of(u.parse().unwrap_or(0));
                let existed = self.stored(uuid).is_some();
                let n = self.ops.len();
                let t = block_on(self.replica.create_task(uuid, &mut self.ops)).unwrap();
                self.obj = Some(Obj::T(t));
                let created = self.ops.len() > n;
                self.stat("create_task");
                let _ = existed;
                let v = catch_unwind(AssertUnwindSafe(|| fmt_obj(self.obj.as_ref().unwrap()))).unwrap_or_else(|_| "panic:view".into());
                (line.to_string(), vec![if created { "obj new".into() } else { "obj existing".into() }, fmt_ops(&self.ops), v])
            }
            ["L", _now, u] => {
                let now = aligned_now();
                let line = &format!("L {} {}", now, u);
                let uuid = uuid_of(u.parse().unwrap_or(0));
                self.obj = block_on(self.replica.get_task(uuid)).unwrap().map(Obj::T);
                match &self.obj {
                    Some(o) => {
                        let v = catch_unwind(AssertUnwindSafe(|| fmt_obj(o))).unwrap_or_else(|_| "panic:view".into());
                        (line.to_string(), vec!["obj loaded".into(), fmt_ops(&self.ops), v])
                    }
                    None => (line.to_string(), vec!["obj none".into()]),
                }
            }
            ["I", _now, u] => {
                let now = aligned_now();
                let line = &format!("I {} {}", now, u);
                let uuid = uuid_of(u.parse().unwrap_or(0));
                self.obs.lock().unwrap().probe = true;
                let _ = block_on(self.replica.num_local_operations());
                let before = self.obs.lock().unwrap().unsynced.len();
                #[allow(deprecated)]
                let t = block_on(self.replica.import_task_with_uuid(uuid)).unwrap();
                self.obj = Some(Obj::T(t));
                self.stat("import");
                self.obs.lock().unwrap().probe = true;
                let _ = block_on(self.replica.num_local_operations());
                let uns = self.obs.lock().unwrap().unsynced.clone();
                let mut iops = Operations::new();
                for o in uns.iter().skip(before) {
                    iops.push(o.clone());
                }
                let v = catch_unwind(AssertUnwindSafe(|| fmt_obj(self.obj.as_ref().unwrap()))).unwrap_or_else(|_| "panic:view".into());
                (line.to_string(), vec!["obj imported".into(), format!("i{}", fmt_ops(&iops)), fmt_ops(&self.ops), v])
            }
            ["M", _now, rest @ ..] => {
                if self.obj.is_none() {
                    return (line.to_string(), vec!["no-object".into()]);
                }
                let now = aligned_now();
                let newline = format!("M {} {}", now, rest.join(" "));
                let r = catch_unwind(AssertUnwindSafe(|| self.apply_mut(rest)));
                self.stat(&format!("mut_{}", rest.first().unwrap_or(&"")));
                match r {
                    Err(_) => (newline, vec!["panic:mutator".into()]),
                    Ok(None) => (newline, vec!["bad-arg".into()]),
                    Ok(Some(res)) => {
                        let head = match res {
                            Ok(()) => "ok".to_string(),
                            Err(taskchampion::Error::Usage(_)) => "usage-error".to_string(),
                            Err(taskchampion::Error::Database(m)) if m == "needs-task" => return (newline, vec!["needs-task".into()]),
                            Err(e) => format!("err:{}", e),
                        };
                        let view = catch_unwind(AssertUnwindSafe(|| fmt_obj(self.obj.as_ref().unwrap())))
                            .unwrap_or_else(|_| "panic:view".into());
                        if rest.first() == Some(&"td_delete") {
                            // "the TaskData value … should be dropped"
                            self.obj = None;
                        }
                        (newline, vec![head, fmt_ops(&self.ops), view])
                    }
                }
            }
            ["P"] => {
                let ops = std::mem::take(&mut self.ops);
                let r = block_on(self.replica.commit_operations(ops));
                if r.is_err() {
                    return (line.to_string(), vec!["commit-err".into()]);
                }
                self.stat("commit");
                match &self.obj {
                    Some(o) => {
                        let (u, map) = obj_map(o);
                        let st = self.stored(u);
                        (
                            line.to_string(),
                            vec![format!(
                                "stored {} object {}",
                                st.map(|m| fmt_old_map(&m)).unwrap_or("none".into()),
                                fmt_old_map(&map)
                            )],
                        )
                    }
                    None => (line.to_string(), vec!["stored - object -".into()]),
                }
            }
            ["V", _now] => {
                let now = aligned_now();
                match &self.obj {
                    Some(t) => {
                        let v = catch_unwind(AssertUnwindSafe(|| fmt_obj(t))).unwrap_or_else(|_| "panic:view".into());
                        (format!("V {}", now), vec![v])
                    }
                    None => (format!("V {}", now), vec!["no-object".into()]),
                }
            }
            ["A", _now] => {
                let now = aligned_now();
                let mut out = Vec::new();
                let r = catch_unwind(AssertUnwindSafe(|| {
                    let mut out = Vec::new();
                    let all = block_on(self.replica.all_tasks()).unwrap();
                    let mut us: Vec<&Uuid> = all.keys().collect();
                    us.sort_by_key(|u| u.as_u128());
                    for u in us {
                        out.push(format!("task {} {}", u.as_u128(), fmt_view(&all[u])));
                    }
                    // the cached map (what Task objects carry) must be the fresh one
                    let dmc = block_on(self.replica.dependency_map(false)).unwrap();
                    let mut cedges = Vec::new();
                    for a in all.keys() {
                        for b in dmc.dependencies(*a) {
                            cedges.push(format!("{}>{}", a.as_u128(), b.as_u128()));
                        }
                    }
                    out.push(format!("depmap-cached {}", fmt_list(cedges)));
                    let dm = block_on(self.replica.dependency_map(true)).unwrap();
                    let mut edges = Vec::new();
                    for a in all.keys() {
                        for b in dm.dependencies(*a) {
                            edges.push(format!("{}>{}", a.as_u128(), b.as_u128()));
                        }
                    }
                    // the other read paths must not panic either
                    let _ = block_on(self.replica.pending_tasks()).unwrap().len();
                    let _ = block_on(self.replica.pending_task_data()).unwrap().len();
                    let _ = block_on(self.replica.all_task_uuids()).unwrap().len();
                    let ws = block_on(self.replica.working_set()).unwrap();
                    let _ = (ws.len(), ws.is_empty(), ws.iter().count(), ws.by_uuid(Uuid::nil()));
                    for a in all.keys() {
                        let _ = dm.dependents(*a).count();
                        let t = &all[a];
                        #[allow(deprecated)]
                        let _ = (t.is_blocked(), t.is_blocking(), t.get_udas().count(), t.get_legacy_udas().count(), t.get_taskmap().len());
                        let _ = t.has_tag(&Tag::from_str("PENDING").unwrap());
                        let _ = t.get_value("status");
                    }
                    out.push(format!("depmap {}", fmt_list(edges)));
                    // (positions are C15's business; here the members as a set)
                    let members: Vec<String> = ws.iter().map(|(_, u)| format!("{}", u.as_u128())).collect();
                    out.push(format!("wsset {}", fmt_list(members)));
                    out
                }));
                match r {
                    Ok(o) => out.extend(o),
                    Err(_) => out.push("panic:accessors".into()),
                }
                self.stat("accessor_sweep");
                (format!("A {}", now), out)
            }
            ["W", r] => {
                let _ = block_on(self.replica.rebuild_working_set(*r == "1"));
                (line.to_string(), vec!["rebuilt".into()])
            }
            [] => (line.to_string(), vec![]),
            _ => bad(),
        }
    }

    pub fn gen_line(&mut self, rng: &mut Rng) -> String {
        let now = Utc::now().timestamp();
        let keys = [
            "status", "description", "due", "modified", "start", "wait", "end", "entry", "priority",
            "tag_next", "tag_PENDING", "tag_9x", "tag_", "tag_a:b", "tag_x y", "tag_+x", "tag_é",
            "annotation_1700000000", "annotation_x", "annotation_99999999999999999", "annotation_-5", "annotation_",
            "dep_00000000-0000-0000-0000-000000000002", "dep_00000000000000000000000000000003", "dep_x",
            "dep_{00000000-0000-0000-0000-000000000004}", "dep_urn:uuid:00000000-0000-0000-0000-000000000001", "dep_",
            "uda", "github.id", "k", "",
            "tag_aéééééééééééééééééééééééééééééééééééééééé x", "tag_ééééééééééééééééééééééééééééééééééééééééé:y",
        ];
        let vals: Vec<String> = vec![
            "".into(), "0".into(), "-1".into(), "+5".into(), " 7".into(), "1e3".into(), "9223372036854775807".into(),
            "9223372036854775808".into(), "8210266876799".into(), "8210266876800".into(), "-8334601228800".into(),
            "-8334601228801".into(), "٣".into(), "pending".into(), "completed".into(), "deleted".into(), "recurring".into(),
            "weird".into(), format!("{}", now + 100000), format!("{}", now - 100000), "x".repeat(70000), "a,b=c;d".into(), "H".into(),
        ];
        let roll = rng.below(100);
        let un = 1 + rng.below(4);
        if roll < 14 {
            // arbitrary stored content
            let mut m = TaskMap::new();
            for _ in 0..rng.below(7) {
                m.insert(rng.pick(&keys).to_string(), rng.pick(&vals).clone());
            }
            if rng.chance(2, 3) {
                m.insert("status".into(), rng.pick(&["pending", "pending", "recurring", "completed", "junk"]).to_string());
            }
            return format!("R {} {}", un, fmt_old_map(&m));
        }
        if roll < 22 {
            return format!("K {} {}", now, un);
        }
        if roll < 30 {
            return format!("L {} {}", now, un);
        }
        if roll < 33 {
            return format!("I {} {}", now, un);
        }
        if roll < 43 {
            return "P".into();
        }
        if roll < 50 {
            return format!("A {}", now);
        }
        if roll < 53 {
            return format!("W {}", rng.below(2));
        }
        if roll < 57 {
            return format!("V {}", now);
        }
        if self.obj.is_none() {
            return format!("K {} {}", now, un);
        }
        // a mutator
        let tags = ["next", "a:b", "9x", "+x", "PENDING", "BLOCKED", "", " x", "é", "x y", "home", "NOTSYNTH", "x\u{3000}y"];
        let secs = [0i64, 1700000000, now + 100000, now - 100000, 8210266876799, -8334601228800, 5];
        let opt_secs = |rng: &mut Rng| if rng.chance(1, 4) { "-".to_string() } else { format!("{}", rng.pick(&secs)) };
        let strv = |rng: &mut Rng| enc_str(rng.pick(&vals[..]).as_str());
        let m = match rng.below(24) {
            0 | 1 => format!("set_status {}", enc_str(*rng.pick(&["pending", "completed", "deleted", "recurring", "odd"]))),
            2 => format!("set_description {}", strv(rng)),
            3 => format!("set_priority {}", strv(rng)),
            4 => format!("set_entry {}", opt_secs(rng)),
            5 => format!("set_wait {}", opt_secs(rng)),
            6 => format!("set_due {}", opt_secs(rng)),
            7 => format!("set_modified {}", rng.pick(&secs)),
            8 | 9 => format!("set_value {} {}", enc_str(*rng.pick(&keys)), if rng.chance(1, 4) { "-".to_string() } else { strv(rng) }),
            10 => "start".into(),
            11 => "stop".into(),
            12 => "done".into(),
            13 | 14 => format!("add_tag {}", enc_str(*rng.pick(&tags))),
            15 => format!("remove_tag {}", enc_str(*rng.pick(&tags))),
            16 => format!("add_annotation {} {}", rng.pick(&secs), strv(rng)),
            17 => format!("remove_annotation {}", rng.pick(&secs)),
            18 => format!("set_uda {} {}", enc_str(*rng.pick(&keys)), strv(rng)),
            19 => format!("remove_uda {}", enc_str(*rng.pick(&keys))),
            20 => format!("add_dependency {}", 1 + rng.below(4)),
            21 => format!("remove_dependency {}", 1 + rng.below(4)),
            22 => format!("td_update {} {}", enc_str(*rng.pick(&keys)), if rng.chance(1, 4) { "-".to_string() } else { strv(rng) }),
            _ => "td_delete".into(),
        };
        format!("M {} {}", now, m)
    }
}

fn obj_map(o: &Obj) -> (Uuid, TaskMap) {
    match o {
        Obj::T(t) => (t.get_uuid(), t.clone().into_task_data().iter().map(|(k, v)| (k.clone(), v.clone())).collect()),
        Obj::D(d) => (d.get_uuid(), d.iter().map(|(k, v)| (k.clone(), v.clone())).collect()),
    }
}

fn fmt_obj(o: &Obj) -> String {
    match o {
        Obj::T(t) => fmt_view(t),
        Obj::D(d) => {
            let map: TaskMap = d.iter().map(|(k, v)| (k.clone(), v.clone())).collect();
            format!("dview map={}", fmt_old_map(&map))
        }
    }
}
