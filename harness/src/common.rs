//! Shared helpers: PRNG, hex coding, canonical printing, a tiny polling executor.
use std::collections::HashMap;
use std::future::Future;
use std::pin::Pin;
use std::sync::atomic::{AtomicBool, Ordering};
use std::sync::Arc;
use std::task::{Context, Poll, Wake, Waker};
use taskchampion::storage::TaskMap;
use uuid::Uuid;

/// SplitMix64: every random choice of a run derives from one state.
#[derive(Clone)]
pub struct Rng(pub u64);
impl Rng {
    pub fn new(seed: u64) -> Rng {
        Rng(seed.wrapping_mul(0x9E3779B97F4A7C15) ^ 0xD1B54A32D192ED03)
    }
    pub fn next(&mut self) -> u64 {
        self.0 = self.0.wrapping_add(0x9E3779B97F4A7C15);
        let mut z = self.0;
        z = (z ^ (z >> 30)).wrapping_mul(0xBF58476D1CE4E5B9);
        z = (z ^ (z >> 27)).wrapping_mul(0x94D049BB133111EB);
        z ^ (z >> 31)
    }
    pub fn below(&mut self, n: u64) -> u64 {
        if n == 0 {
            0
        } else {
            self.next() % n
        }
    }
    pub fn chance(&mut self, num: u64, den: u64) -> bool {
        self.below(den) < num
    }
    pub fn pick<'a, T>(&mut self, xs: &'a [T]) -> &'a T {
        &xs[self.below(xs.len() as u64) as usize]
    }
    pub fn fork(&mut self) -> Rng {
        Rng::new(self.next())
    }
}

pub fn hex(b: &[u8]) -> String {
    let mut s = String::with_capacity(b.len() * 2);
    for x in b {
        s.push_str(&format!("{:02x}", x));
    }
    s
}

pub fn unhex(s: &str) -> Option<Vec<u8>> {
    if s.len() % 2 != 0 {
        return None;
    }
    let b = s.as_bytes();
    let mut out = Vec::with_capacity(b.len() / 2);
    for i in (0..b.len()).step_by(2) {
        let h = (b[i] as char).to_digit(16)?;
        let l = (b[i + 1] as char).to_digit(16)?;
        out.push((h * 16 + l) as u8);
    }
    Some(out)
}

/// strings on the wire: `.` empty, hex of the UTF-8 bytes otherwise
pub fn enc_str(s: &str) -> String {
    if s.is_empty() {
        ".".into()
    } else {
        hex(s.as_bytes())
    }
}

/// token → string: `.`, `<hex>`, or `~<n>~<hex>` (repeat)
pub fn dec_str(tok: &str) -> Option<String> {
    if tok == "." {
        return Some(String::new());
    }
    if let Some(rest) = tok.strip_prefix('~') {
        let mut it = rest.splitn(2, '~');
        let n: usize = it.next()?.parse().ok()?;
        let h = it.next()?;
        let s = String::from_utf8(unhex(h)?).ok()?;
        return Some(s.repeat(n));
    }
    String::from_utf8(unhex(tok)?).ok()
}

pub fn dec_opt_str(tok: &str) -> Option<Option<String>> {
    if tok == "-" {
        Some(None)
    } else {
        dec_str(tok).map(Some)
    }
}

pub fn fnv1a(b: &[u8]) -> u64 {
    let mut h: u64 = 0xcbf29ce484222325;
    for x in b {
        h = (h ^ (*x as u64)).wrapping_mul(0x100000001b3);
    }
    h
}

/// long payloads are abbreviated identically on both sides
pub fn shorten(s: &str) -> String {
    if s.len() <= 4000 {
        s.to_string()
    } else {
        format!("<len={} fnv={}>", s.len(), fnv1a(s.as_bytes()))
    }
}

pub fn uuid_of(n: u128) -> Uuid {
    Uuid::from_u128(n)
}

pub fn canon_task(t: &TaskMap) -> String {
    let mut entries: Vec<String> = t
        .iter()
        .map(|(k, v)| format!("{}={}", enc_str(k), enc_str(v)))
        .collect();
    entries.sort();
    format!("{{{}}}", entries.join(","))
}

/// canonical rendering of a task set: sorted by uuid value
pub fn canon_db(tasks: &HashMap<Uuid, TaskMap>) -> String {
    let mut us: Vec<&Uuid> = tasks.keys().collect();
    us.sort_by_key(|u| u.as_u128());
    let parts: Vec<String> = us
        .iter()
        .map(|u| format!("{}{}", u.as_u128(), canon_task(&tasks[u])))
        .collect();
    format!("[{}]", parts.join(";"))
}

struct FlagWaker {
    woken: AtomicBool,
    thread: std::thread::Thread,
}
impl Wake for FlagWaker {
    fn wake(self: Arc<Self>) {
        self.woken.store(true, Ordering::SeqCst);
        self.thread.unpark();
    }
}

/// Poll a future until it is ready or `stop()` says it is parked at a harness gate.
pub fn poll_until<T>(
    fut: &mut Pin<Box<dyn Future<Output = T> + '_>>,
    stop: &dyn Fn() -> bool,
) -> Option<T> {
    let fw = Arc::new(FlagWaker {
        woken: AtomicBool::new(true),
        thread: std::thread::current(),
    });
    let waker = Waker::from(fw.clone());
    let mut cx = Context::from_waker(&waker);
    loop {
        fw.woken.store(false, Ordering::SeqCst);
        match fut.as_mut().poll(&mut cx) {
            Poll::Ready(v) => return Some(v),
            Poll::Pending => {
                if stop() {
                    return None;
                }
                if !fw.woken.load(Ordering::SeqCst) {
                    std::thread::park_timeout(std::time::Duration::from_millis(20));
                }
            }
        }
    }
}

/// Run a future to completion on the current thread.
pub fn block_on<T>(fut: impl Future<Output = T>) -> T {
    let mut boxed: Pin<Box<dyn Future<Output = T> + '_>> = Box::pin(fut);
    poll_until(&mut boxed, &|| false).unwrap()
}
