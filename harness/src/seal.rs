//! Family `seal`: the real sealing code (through the hooks) against Lean's RFC-level
//! implementation: Rust seals → Lean opens; Lean seals → Rust opens; both must reject the same
//! tampered / truncated / re-labelled / foreign envelopes.
use crate::common::*;
use std::io::Write;
use std::process::{Command, Stdio};
use taskchampion::server::verif::Key;
use uuid::Uuid;

fn h(b: &[u8]) -> String {
    if b.is_empty() {
        ".".into()
    } else {
        hex(b)
    }
}

fn open_line(key: &Key, vid: u128, env: &[u8]) -> (String, String) {
    verb_line("OPEN", key, vid, env)
}

/// `TAMPER` = an OPEN of something that is not a genuine envelope for this key and id
fn tamper_line(key: &Key, vid: u128, env: &[u8]) -> (String, String) {
    verb_line("TAMPER", key, vid, env)
}

fn verb_line(verb: &str, key: &Key, vid: u128, env: &[u8]) -> (String, String) {
    let r = key.unseal(Uuid::from_u128(vid), env.to_vec());
    (
        format!("{} {} {}", verb, vid, h(env)),
        match r {
            Ok(p) => format!("ok {}", h(&p)),
            Err(_) => "err".into(),
        },
    )
}

pub struct SealOut {
    pub lines: Vec<(String, String)>,
    pub stats: std::collections::HashMap<String, u64>,
}

pub fn run_case(rng: &mut Rng, nkeys: usize, envs_per_key: usize, bits: &[u8], tcmodel: &str) -> SealOut {
    let mut out = Vec::new();
    let mut stats = std::collections::HashMap::new();
    let mut bump = |k: &str, n: u64| *stats.entry(k.to_string()).or_insert(0) += n;
    let payload_pool: Vec<Vec<u8>> = vec![
        vec![],
        b"x".to_vec(),
        b"{\"operations\":[{\"Create\":{\"uuid\":\"00000000-0000-0000-0000-000000000001\"}}]}".to_vec(),
        (0..=255u8).collect(),
        vec![0xff, 0xfe, 0x00, 0x80],
        "description=buy milk \u{1F600}".as_bytes().to_vec(),
        vec![b'a'; 200],
    ];
    let mut all_nonces = std::collections::HashSet::new();
    let mut nseals = 0u64;
    let mut leak = false;
    for ki in 0..nkeys {
        let secret: Vec<u8> = match ki % 3 {
            0 => b"secret".to_vec(),
            1 => (0..rng.below(40) + 1).map(|_| rng.below(256) as u8).collect(),
            _ => vec![],
        };
        let salt: Vec<u8> = if ki % 2 == 0 { (0..16).map(|_| rng.below(256) as u8).collect() } else { Uuid::from_u128(rng.next() as u128).as_bytes().to_vec() };
        let key = Key::derive(&salt, &secret).unwrap();
        out.push((format!("KEY {} {}", h(&secret), h(&salt)), "key".to_string()));
        // a second key for "wrong secret / salt"
        let mut secret2 = secret.clone();
        secret2.push(1);
        let key2 = Key::derive(&salt, &secret2).unwrap();
        let mut gen_lines = vec![format!("KEY {} {}", h(&secret), h(&salt))];
        for _ in 0..envs_per_key {
            let vid: u128 = if rng.chance(1, 5) { 0 } else { rng.next() as u128 | ((rng.next() as u128) << 64) };
            let payload = rng.pick(&payload_pool[..]).clone();
            // 1. Rust seals, Lean opens
            let env = key.seal(Uuid::from_u128(vid), payload.clone()).unwrap();
            nseals += 1;
            all_nonces.insert(env[1..13].to_vec());
            if payload.len() >= 8 && env.windows(8).any(|w| payload.windows(8).any(|p| p == w)) {
                leak = true;
            }
            out.push((format!("LAYOUT {} {}", h(&env), payload.len()), "layout first=1 len-ok=true".to_string()));
            out.push(open_line(&key, vid, &env));
            bump("rust_sealed", 1);
            // 3. tamper sweep: every byte, the given bit positions; every truncation
            for i in 0..env.len() {
                for b in bits {
                    let mut e = env.clone();
                    e[i] ^= 1 << b;
                    out.push(tamper_line(&key, vid, &e));
                    bump("tamper_flip", 1);
                }
            }
            for n in 0..env.len() {
                out.push(tamper_line(&key, vid, &env[..n]));
                bump("tamper_truncate", 1);
            }
            let mut longer = env.clone();
            longer.push(0);
            out.push(tamper_line(&key, vid, &longer));
            // wrong version id, wrong key
            out.push(tamper_line(&key, vid ^ 1, &env));
            out.push(tamper_line(&key, vid.wrapping_add(1 << 64), &env));
            bump("relabel", 2);
            // 2. Lean seals, Rust opens
            let nonce: Vec<u8> = (0..12).map(|_| rng.below(256) as u8).collect();
            gen_lines.push(format!("GEN {} {} {}", vid, h(&nonce), h(&payload)));
            // (foreign key is exercised right after)
            let _ = &key2;
        }
        // ask the model for its envelopes
        let mut child = Command::new(tcmodel)
            .arg("sealgen")
            .stdin(Stdio::piped())
            .stdout(Stdio::piped())
            .spawn()
            .expect("tcmodel sealgen");
        {
            let mut si = child.stdin.take().unwrap();
            for l in &gen_lines {
                writeln!(si, "{}", l).unwrap();
            }
        }
        let o = child.wait_with_output().unwrap();
        for l in String::from_utf8_lossy(&o.stdout).lines() {
            if let Some(rest) = l.strip_prefix("OPEN ") {
                let mut it = rest.split(' ');
                let vid: u128 = it.next().unwrap().parse().unwrap();
                let env = if let Some(x) = it.next() { if x == "." { vec![] } else { unhex(x).unwrap() } } else { vec![] };
                out.push(open_line(&key, vid, &env));
                bump("lean_sealed", 1);
                // the same envelope under the foreign key: must be rejected
                let (l2, r2) = tamper_line(&key2, vid, &env);
                out.push((format!("KEY {} {}", h(&secret2), h(&salt)), "key".into()));
                out.push((l2, r2));
                out.push((format!("KEY {} {}", h(&secret), h(&salt)), "key".into()));
                bump("foreign_key", 1);
            }
        }
    }
    // the same bytes split differently into (salt, secret): a different key. Both derived in this
    // process, one right after the other (the backends read the salt from the remote, so its length
    // is whatever is stored there)
    {
        let all: Vec<u8> = (0..24).map(|_| rng.below(256) as u8).collect();
        let (salt_a, secret_a) = (all[..16].to_vec(), all[16..].to_vec());
        let (salt_b, secret_b) = (all[..17].to_vec(), all[17..].to_vec());
        let key_a = Key::derive(&salt_a, &secret_a).unwrap();
        let key_b = Key::derive(&salt_b, &secret_b).unwrap();
        let vid = rng.next() as u128;
        let env_a = key_a.seal(Uuid::from_u128(vid), b"boundary a".to_vec()).unwrap();
        let env_b = key_b.seal(Uuid::from_u128(vid), b"boundary b".to_vec()).unwrap();
        out.push((format!("KEY {} {}", h(&secret_a), h(&salt_a)), "key".into()));
        out.push(open_line(&key_a, vid, &env_a));
        out.push(tamper_line(&key_a, vid, &env_b));
        out.push((format!("KEY {} {}", h(&secret_b), h(&salt_b)), "key".into()));
        out.push(open_line(&key_b, vid, &env_b));
        out.push(tamper_line(&key_b, vid, &env_a));
        bump("boundary_pairs", 1);
    }
    out.push(("LEAKCHECK".into(), if leak { "leak FOUND".into() } else { "leak none".into() }));
    out.push((
        "NONCECHECK".into(),
        if all_nonces.len() as u64 == nseals { "nonces distinct".into() } else { format!("nonces REPEATED {} of {}", all_nonces.len(), nseals) },
    ));
    SealOut { lines: out, stats }
}
