//! Family `backend`: the same Server-trait call sequences against every real backend — local
//! (SQLite file), git (local-only, and clones sharing a bare remote), object store (the real
//! CloudServer over the in-memory store of the hooks), HTTP client against an in-harness server
//! that implements docs/http.md over a plain chain.
use crate::common::*;
use std::collections::HashMap;
use std::io::{Read, Write};
use std::net::TcpListener;
use std::path::PathBuf;
use std::sync::{Arc, Mutex};
use taskchampion::server::verif::{arm_failpoint, disarm_failpoint, new_store, Fault, Store, VerifCloud};
use taskchampion::storage::inmemory::InMemoryStorage;
use taskchampion::{Operation, Replica};
use taskchampion::server::{AddVersionResult, GetVersionResult};
use taskchampion::{Server, ServerConfig};
use uuid::Uuid;

#[derive(Clone, Copy, PartialEq, Debug)]
pub enum Kind {
    Local,
    GitLocal,
    GitRemote,
    Cloud,
    Http,
}

impl Kind {
    pub fn name(&self) -> &'static str {
        match self {
            Kind::Local => "local",
            Kind::GitLocal => "git-local",
            Kind::GitRemote => "git-remote",
            Kind::Cloud => "cloud",
            Kind::Http => "http",
        }
    }
    pub fn parse(s: &str) -> Option<Kind> {
        Some(match s {
            "local" => Kind::Local,
            "git-local" => Kind::GitLocal,
            "git-remote" => Kind::GitRemote,
            "cloud" => Kind::Cloud,
            "http" => Kind::Http,
            _ => return None,
        })
    }
}

// ------------------------------------------------------------------ the in-harness HTTP server

#[derive(Default)]
pub struct HttpState {
    /// (version id, parent id, sealed body as received)
    pub versions: Vec<(Uuid, Uuid, Vec<u8>)>,
    pub snapshot: Option<(Uuid, Vec<u8>)>,
    pub bodies: Vec<(String, Vec<u8>)>,
}

fn read_req(s: &mut std::net::TcpStream) -> Option<(String, Vec<u8>)> {
    let mut buf = Vec::new();
    let mut tmp = [0u8; 65536];
    loop {
        let n = s.read(&mut tmp).ok()?;
        if n == 0 {
            return None;
        }
        buf.extend_from_slice(&tmp[..n]);
        if let Some(pos) = buf.windows(4).position(|w| w == b"\r\n\r\n") {
            let head = String::from_utf8_lossy(&buf[..pos]).to_string();
            let cl = head
                .lines()
                .find_map(|l| {
                    let l = l.to_ascii_lowercase();
                    l.strip_prefix("content-length:").map(|v| v.trim().parse::<usize>().unwrap_or(0))
                })
                .unwrap_or(0);
            let mut body = buf[pos + 4..].to_vec();
            while body.len() < cl {
                let n = s.read(&mut tmp).ok()?;
                if n == 0 {
                    break;
                }
                body.extend_from_slice(&tmp[..n]);
            }
            return Some((head, body));
        }
    }
}

pub fn start_http(state: Arc<Mutex<HttpState>>) -> u16 {
    let listener = TcpListener::bind("127.0.0.1:0").unwrap();
    let port = listener.local_addr().unwrap().port();
    std::thread::spawn(move || {
        for conn in listener.incoming() {
            let mut s = match conn {
                Ok(s) => s,
                Err(_) => continue,
            };
            let (head, body) = match read_req(&mut s) {
                Some(x) => x,
                None => continue,
            };
            let first = head.lines().next().unwrap_or("").to_string();
            let mut parts = first.split(' ');
            let method = parts.next().unwrap_or("");
            let path = parts.next().unwrap_or("");
            let mut st = state.lock().unwrap();
            let resp: Vec<u8> = if method == "POST" && path.starts_with("/v1/client/add-version/") {
                let parent = Uuid::parse_str(&path["/v1/client/add-version/".len()..]).unwrap_or(Uuid::nil());
                let latest = st.versions.last().map(|v| v.0);
                if latest.is_none() || latest == Some(parent) {
                    let id = Uuid::new_v4();
                    st.bodies.push((format!("version {}", parent.simple()), body.clone()));
                    st.versions.push((id, parent, body));
                    format!("HTTP/1.1 200 OK\r\nX-Version-Id: {id}\r\nContent-Length: 0\r\nConnection: close\r\n\r\n").into_bytes()
                } else {
                    format!("HTTP/1.1 409 Conflict\r\nX-Parent-Version-Id: {}\r\nContent-Length: 0\r\nConnection: close\r\n\r\n", latest.unwrap()).into_bytes()
                }
            } else if method == "GET" && path.starts_with("/v1/client/get-child-version/") {
                let parent = Uuid::parse_str(&path["/v1/client/get-child-version/".len()..]).unwrap_or(Uuid::nil());
                match st.versions.iter().find(|v| v.1 == parent) {
                    Some((id, p, b)) => {
                        let mut r = format!("HTTP/1.1 200 OK\r\nX-Version-Id: {id}\r\nX-Parent-Version-Id: {p}\r\nContent-Type: application/vnd.taskchampion.history-segment\r\nContent-Length: {}\r\nConnection: close\r\n\r\n", b.len()).into_bytes();
                        r.extend_from_slice(b);
                        r
                    }
                    None => b"HTTP/1.1 404 Not Found\r\nContent-Length: 0\r\nConnection: close\r\n\r\n".to_vec(),
                }
            } else if method == "POST" && path.starts_with("/v1/client/add-snapshot/") {
                let v = Uuid::parse_str(&path["/v1/client/add-snapshot/".len()..]).unwrap_or(Uuid::nil());
                st.bodies.push((format!("snapshot {}", v.simple()), body.clone()));
                st.snapshot = Some((v, body));
                b"HTTP/1.1 200 OK\r\nContent-Length: 0\r\nConnection: close\r\n\r\n".to_vec()
            } else if method == "GET" && path == "/v1/client/snapshot" {
                match &st.snapshot {
                    Some((v, b)) => {
                        let mut r = format!("HTTP/1.1 200 OK\r\nX-Version-Id: {v}\r\nContent-Type: application/vnd.taskchampion.snapshot\r\nContent-Length: {}\r\nConnection: close\r\n\r\n", b.len()).into_bytes();
                        r.extend_from_slice(b);
                        r
                    }
                    None => b"HTTP/1.1 404 Not Found\r\nContent-Length: 0\r\nConnection: close\r\n\r\n".to_vec(),
                }
            } else {
                b"HTTP/1.1 400 Bad Request\r\nContent-Length: 0\r\nConnection: close\r\n\r\n".to_vec()
            };
            drop(st);
            let _ = s.write_all(&resp);
        }
    });
    port
}

// ------------------------------------------------------------------ one backend instance

pub struct BackendRun {
    pub kind: Kind,
    handles: Vec<Option<Box<dyn Server>>>,
    rt: tokio::runtime::Runtime,
    _dir: tempfile::TempDir,
    dirs: Vec<PathBuf>,
    bare: Option<PathBuf>,
    pub store: Option<Store>,
    pub http: Option<(Arc<Mutex<HttpState>>, u16)>,
    pub secret: Vec<u8>,
    pub client_id: Uuid,
    /// accepted versions in order: index k-1 ↔ symbolic v<k>
    pub accepted: Vec<Uuid>,
    unknown: HashMap<u64, Uuid>,
    pub stats: HashMap<String, u64>,
    /// emit one `STORED` line (what was really stored for a version, for the sealing check)
    pub sealed_check: bool,
    sealed_done: bool,
    /// protocol lines to append to ops.txt after the current one
    pub extra_ops: Vec<String>,
    /// per handle: how many versions were accepted when the handle last made a call (what a handle
    /// that caches the chain head would still believe)
    pub seen: Vec<usize>,
    /// handles whose process has stopped and was not started again yet
    pub down: Vec<bool>,
    /// per handle: the interrupted add_version (parent, payload, symbols) that showed no trace so far
    pub pending: Vec<Option<(Uuid, Vec<u8>, String, String)>>,
    /// fault armed for the next add_version / add_snapshot / sync of a handle: (handle, spec)
    pub armed: Option<(usize, String)>,
    /// replicas of the replica-level rounds (`EP` lines), created on first use
    pub replicas: Vec<Replica<InMemoryStorage>>,
}

fn git(dir: &std::path::Path, args: &[&str]) {
    let _ = std::process::Command::new("git").args(args).current_dir(dir).output();
}

fn b64dec(s: &str) -> Vec<u8> {
    let tbl = b"ABCDEFGHIJKLMNOPQRSTUVWXYZabcdefghijklmnopqrstuvwxyz0123456789+/";
    let mut out = Vec::new();
    let mut acc = 0u32;
    let mut bits = 0;
    for c in s.bytes() {
        if c == b'=' {
            break;
        }
        if let Some(i) = tbl.iter().position(|x| *x == c) {
            acc = (acc << 6) | i as u32;
            bits += 6;
            if bits >= 8 {
                bits -= 8;
                out.push((acc >> bits) as u8);
                acc &= (1 << bits) - 1;
            }
        }
    }
    out
}

impl BackendRun {
    /// what the backend really stored for the version `child` of `parent`: (bound id, salt, bytes)
    pub fn stored_version(&self, h: usize, parent: Uuid, child: Uuid) -> Option<(Uuid, Vec<u8>, Vec<u8>)> {
        match self.kind {
            Kind::Cloud => {
                let st = self.store.as_ref()?.lock().unwrap();
                let name = format!("v-{}-{}", parent.simple(), child.simple());
                let bytes = st.objects.get(&name)?.1.clone();
                let salt = st.objects.get("salt")?.1.clone();
                Some((child, salt, bytes))
            }
            Kind::GitLocal | Kind::GitRemote => {
                let dir = &self.dirs[h];
                let bytes = std::fs::read(dir.join(format!("v-{}-{}", parent.simple(), child.simple()))).ok()?;
                let meta: serde_json::Value = serde_json::from_slice(&std::fs::read(dir.join("meta")).ok()?).ok()?;
                let salt = b64dec(meta.get("salt")?.as_str()?);
                Some((child, salt, bytes))
            }
            Kind::Http => {
                let st = self.http.as_ref()?.0.lock().unwrap();
                let v = st.versions.iter().find(|v| v.0 == child)?;
                // the HTTP client seals versions for the PARENT id; the salt is the client id
                Some((parent, self.client_id.as_bytes().to_vec(), v.2.clone()))
            }
            Kind::Local => None,
        }
    }

    pub fn new(kind: Kind, nhandles: usize) -> BackendRun {
        let dir = tempfile::TempDir::new_in(crate::work_dir()).unwrap();
        let rt = tokio::runtime::Builder::new_current_thread().enable_all().build().unwrap();
        let secret = b"harness secret".to_vec();
        let client_id = Uuid::from_u128(0xabcdef0123456789abcdef0123456789);
        let mut b = BackendRun {
            kind,
            handles: Vec::new(),
            rt,
            _dir: dir,
            dirs: Vec::new(),
            bare: None,
            store: None,
            http: None,
            secret,
            client_id,
            accepted: Vec::new(),
            unknown: HashMap::new(),
            stats: HashMap::new(),
            sealed_check: false,
            sealed_done: false,
            extra_ops: Vec::new(),
            armed: None,
            replicas: Vec::new(),
            seen: vec![0; nhandles],
            down: vec![false; nhandles],
            pending: vec![None; nhandles],
        };
        match kind {
            Kind::Local | Kind::GitLocal => {
                // several handles on ONE directory
                let d = b._dir.path().join("srv");
                std::fs::create_dir_all(&d).unwrap();
                for _ in 0..nhandles {
                    b.dirs.push(d.clone());
                }
            }
            Kind::GitRemote => {
                let bare = b._dir.path().join("remote.git");
                std::fs::create_dir_all(&bare).unwrap();
                git(&bare, &["init", "--bare", "-b", "main", "."]);
                b.bare = Some(bare);
                for i in 0..nhandles {
                    b.dirs.push(b._dir.path().join(format!("clone{}", i)));
                }
            }
            Kind::Cloud => {
                b.store = Some(new_store(nhandles));
            }
            Kind::Http => {
                let st = Arc::new(Mutex::new(HttpState::default()));
                let port = start_http(st.clone());
                b.http = Some((st, port));
            }
        }
        for i in 0..nhandles {
            b.handles.push(None);
            b.open(i);
        }
        b
    }

    pub fn open(&mut self, i: usize) {
        self.handles[i] = None;
        let cfg = match self.kind {
            Kind::Local => Some(ServerConfig::Local { server_dir: self.dirs[i].clone() }),
            Kind::GitLocal => Some(ServerConfig::Git {
                local_path: self.dirs[i].clone(),
                branch: "main".into(),
                remote: None,
                local_only: true,
                encryption_secret: self.secret.clone(),
                git_path: None,
            }),
            Kind::GitRemote => Some(ServerConfig::Git {
                local_path: self.dirs[i].clone(),
                branch: "main".into(),
                remote: Some(self.bare.as_ref().unwrap().to_string_lossy().to_string()),
                local_only: false,
                encryption_secret: self.secret.clone(),
                git_path: None,
            }),
            Kind::Http => Some(ServerConfig::Remote {
                url: format!("http://127.0.0.1:{}", self.http.as_ref().unwrap().1),
                client_id: self.client_id,
                encryption_secret: self.secret.clone(),
            }),
            Kind::Cloud => None,
        };
        let h: Box<dyn Server> = match cfg {
            Some(cfg) => self.rt.block_on(cfg.into_server()).expect("into_server"),
            None => {
                taskchampion::server::verif::set_rand(Some(255));
                let st = self.store.as_ref().unwrap().clone();
                Box::new(block_on(VerifCloud::new(st, i, self.secret.clone())).expect("cloud server"))
            }
        };
        self.handles[i] = Some(h);
    }

    /// arm the fault `spec` for the next call on handle `h`
    fn arm(&mut self, h: usize) -> bool {
        let Some((ah, spec)) = self.armed.clone() else { return false };
        if ah != h {
            return false;
        }
        self.armed = None;
        if let Some(st) = &self.store {
            let parts: Vec<&str> = spec.split(':').collect();
            let fk = |x: &str| if x == "before" { Some(Fault::Before) } else if x == "after" { Some(Fault::After) } else { None };
            let mut s = st.lock().unwrap();
            match parts.as_slice() {
                [k, m] if fk(k).is_some() => {
                    let c = s.counts[h];
                    s.faults[h] = Some((c + m.parse::<usize>().unwrap_or(1), fk(k).unwrap()));
                }
                // the n-th request of a kind: cas:after:1
                [kind, k, n] if fk(k).is_some() => {
                    s.faults_by_kind[h] = Some((kind.to_string(), n.parse::<usize>().unwrap_or(1), fk(k).unwrap()));
                }
                _ => return false,
            }
        } else {
            arm_failpoint(&spec, 1);
        }
        true
    }

    fn disarm(&mut self, h: usize) {
        if let Some(st) = &self.store {
            let mut s = st.lock().unwrap();
            s.faults[h] = None;
            s.faults_by_kind[h] = None;
        }
        disarm_failpoint();
    }

    /// the process that owned handle `h` stops: the handle is dropped as it is and opened again
    fn crash(&mut self, h: usize) {
        self.handles[h] = None;
        self.down[h] = true;
        self.stat("crash");
        if self.kind == Kind::GitLocal {
            // all handles of this configuration share ONE git working directory, which the git
            // server does not protect against two processes at once (no lock, uncommitted files are
            // visible): the property speaks about the state after restart, so the stopped process is
            // restarted before anybody else looks
            self.ensure_open(h);
        }
    }

    fn ensure_open(&mut self, h: usize) {
        if self.handles[h].is_none() {
            self.open(h);
            self.down[h] = false;
        }
    }

    /// after an interrupted add_version(parent, payload): what every handle now says the child of
    /// `parent` is
    fn resolve_av(&mut self, h: usize, parent: Uuid, payload: &[u8]) -> String {
        let known_child = self.accepted.len();
        let mut seen: Vec<Option<(Uuid, Vec<u8>)>> = Vec::new();
        if self.handles.iter().all(|x| x.is_none()) {
            // nobody else is there to look: the process that just stopped starts again (any OTHER
            // stopped process stays down: its own interrupted request is settled when it restarts)
            self.ensure_open(h);
        }
        for i in 0..self.handles.len() {
            if self.handles[i].is_none() {
                continue;
            }
            let r = self.call(i, |s, rt| rt.block_on(s.get_child_version(parent)));
            match r {
                Ok(GetVersionResult::Version { version_id, history_segment, .. }) => seen.push(Some((version_id, history_segment))),
                Ok(GetVersionResult::NoSuchVersion) => seen.push(None),
                Err(e) => return format!("resolve-error:{}", e).replace(' ', "_"),
            }
        }
        let _ = known_child;
        let first = seen[0].clone();
        if seen.iter().any(|x| *x != first) {
            return "split".into();
        }
        match first {
            None => "absent".into(),
            Some((id, bytes)) => {
                if self.accepted.contains(&id) {
                    // the parent already had a child: the interrupted request added nothing
                    "absent".into()
                } else if bytes == payload {
                    self.accepted.push(id);
                    "accepted".into()
                } else {
                    "corrupt".into()
                }
            }
        }
    }

    fn replica(&mut self, r: usize) -> &mut Replica<InMemoryStorage> {
        while self.replicas.len() <= r {
            self.replicas.push(Replica::new(InMemoryStorage::new()));
        }
        &mut self.replicas[r]
    }

    fn stat(&mut self, k: &str) {
        *self.stats.entry(k.to_string()).or_insert(0) += 1;
    }

    pub fn actual(&mut self, sym: &str) -> Uuid {
        if sym == "nil" {
            return Uuid::nil();
        }
        if let Some(k) = sym.strip_prefix('v') {
            let k: usize = k.parse().unwrap_or(0);
            return self.accepted.get(k.wrapping_sub(1)).cloned().unwrap_or(Uuid::from_u128(0xdead0000 + k as u128));
        }
        let n: u64 = sym[1..].parse().unwrap_or(0);
        *self.unknown.entry(n).or_insert_with(|| Uuid::from_u128(0x7777_0000_0000_0000_0000_0000_0000_0000 + n as u128))
    }

    pub fn sym(&self, id: Uuid) -> String {
        if id.is_nil() {
            return "nil".into();
        }
        if let Some(i) = self.accepted.iter().position(|x| *x == id) {
            return format!("v{}", i + 1);
        }
        for (n, u) in &self.unknown {
            if *u == id {
                return format!("x{}", n);
            }
        }
        format!("?{}", id.simple())
    }

    fn call<T>(&mut self, h: usize, f: impl FnOnce(&mut Box<dyn Server>, &tokio::runtime::Runtime) -> T) -> T {
        taskchampion::server::verif::set_rand(Some(255));
        let mut srv = self.handles[h].take().expect("handle open");
        let r = f(&mut srv, &self.rt);
        self.handles[h] = Some(srv);
        r
    }

    pub fn exec(&mut self, line: &str) -> (String, String) {
        let r = self.exec1(line);
        let toks: Vec<&str> = line.split_whitespace().collect();
        if let (Some(c), Some(h)) = (toks.first(), toks.get(1).and_then(|h| h.parse::<usize>().ok())) {
            if ["AV", "GC", "AS", "GS", "REOPEN"].contains(c) && h < self.seen.len() {
                self.seen[h] = self.accepted.len();
            }
        }
        r
    }

    fn exec1(&mut self, line: &str) -> (String, String) {
        let toks: Vec<&str> = line.split_whitespace().collect();
        if let (Some(c), Some(h)) = (toks.first(), toks.get(1).and_then(|h| h.parse::<usize>().ok())) {
            if ["AV", "GC", "AS", "GS"].contains(c) && h < self.handles.len() && self.handles[h].is_none() {
                // (only replayed / shrunk cases get here: the generator restarts a stopped handle first)
                return self.exec1(&format!("REOPEN {}", h));
            }
        }
        match toks.as_slice() {
            ["H", _] => (line.to_string(), String::new()),
            ["BACKEND", _] => (line.to_string(), String::new()),
            ["FP", h, spec] => {
                self.armed = Some((h.parse().unwrap(), spec.to_string()));
                (line.to_string(), String::new())
            }
            ["EP", r, spec, k, ..] => {
                // replica-level round: replica r creates task k and synchronizes through its handle with
                // the fault armed; a failed sync is followed by a process stop of that handle
                let r: usize = r.parse().unwrap();
                let k: u128 = k.parse().unwrap();
                let h = r % self.handles.len();
                self.ensure_open(h);
                let uuid = Uuid::from_u128(0x5000 + k);
                let ops = vec![
                    Operation::Create { uuid },
                    Operation::Update { uuid, property: "description".into(), old_value: None, value: Some(format!("t{}", k)), timestamp: chrono::DateTime::from_timestamp(1_700_000_000 + k as i64, 0).unwrap() },
                ];
                block_on(self.replica(r).commit_operations(ops)).expect("commit");
                self.armed = Some((h, spec.to_string()));
                self.arm(h);
                taskchampion::server::verif::set_rand(Some(255));
                let mut srv = self.handles[h].take().expect("handle open");
                let mut rep = std::mem::replace(&mut self.replicas[r], Replica::new(InMemoryStorage::new()));
                let res = self.rt.block_on(rep.sync(&mut srv, true));
                self.replicas[r] = rep;
                self.handles[h] = Some(srv);
                self.disarm(h);
                self.stat("ep");
                let out = match res {
                    Ok(()) => "ok",
                    Err(_) => {
                        self.crash(h);
                        self.stat("ep.failed");
                        "err"
                    }
                };
                (format!("EP {} {} {} -> {}", r, spec, k, out), format!("sync {}", out))
            }
            ["EPEND"] => {
                // everybody synchronizes (twice round-robin), then every replica's tasks are printed
                let n = self.replicas.len().max(2);
                let mut out = Vec::new();
                for h in 0..self.handles.len() {
                    self.ensure_open(h);
                }
                for round in 0..2 {
                    for r in 0..n {
                        let h = r % self.handles.len();
                        let _ = self.replica(r);
                        let mut srv = self.handles[h].take().expect("handle open");
                        let mut rep = std::mem::replace(&mut self.replicas[r], Replica::new(InMemoryStorage::new()));
                        let res = self.rt.block_on(rep.sync(&mut srv, true));
                        self.replicas[r] = rep;
                        self.handles[h] = Some(srv);
                        if let Err(e) = res {
                            out.push(format!("err: final sync round {} replica {}: {}", round, r, e));
                        }
                    }
                }
                for r in 0..n {
                    let tasks = block_on(self.replica(r).all_task_data()).expect("all_task_data");
                    let mut ts: Vec<String> = tasks
                        .iter()
                        .map(|(u, t)| format!("{}:{}", u.as_u128() - 0x5000, t.get("description").unwrap_or("?")))
                        .collect();
                    ts.sort();
                    out.push(format!("rep {} [{}]", r, ts.join(",")));
                }
                (line.to_string(), out.join("\n"))
            }
            ["AV", h, p, b] => {
                let h: usize = h.parse().unwrap();
                let parent = self.actual(p);
                let payload = if *b == "." { vec![] } else { unhex(b).unwrap() };
                let armed = self.arm(h);
                let pl2 = payload.clone();
                let r = self.call(h, |s, rt| rt.block_on(s.add_version(parent, payload)));
                self.disarm(h);
                self.stat("add_version");
                if armed {
                    if let Err(e) = &r {
                        self.stat("add_version.interrupted");
                        let _ = e;
                        self.crash(h);
                        let res = self.resolve_av(h, parent, &pl2);
                        if res == "absent" && self.down[h] {
                            self.pending[h] = Some((parent, pl2.clone(), p.to_string(), b.to_string()));
                        }
                        self.stat(&format!("resolved.{}", res.split(':').next().unwrap()));
                        let out = if res == "accepted" { format!("interrupted accepted v{}", self.accepted.len()) } else { format!("interrupted {}", res) };
                        return (format!("AV {} {} {} !{}", h, p, b, res), out);
                    }
                }
                let out = match r {
                    Ok((AddVersionResult::Ok(id), _)) => {
                        self.accepted.push(id);
                        self.stat("accepted");
                        let mut o = format!("ok v{}", self.accepted.len());
                        if self.sealed_check && !self.sealed_done && *b != "." {
                            if let Some((bound, salt, bytes)) = self.stored_version(h, parent, id) {
                                self.sealed_done = true;
                                // a second protocol line rides along: `STORED` is answered by the model
                                // opening the bytes with a key it derives itself
                                o.push_str(&format!(
                                    "\n> KEY {} {}\nkey\n> OPEN {} {}\nok {}",
                                    hex(&self.secret),
                                    hex(&salt),
                                    bound.as_u128(),
                                    hex(&bytes),
                                    b
                                ));
                                self.extra_ops.push(format!("KEY {} {}", hex(&self.secret), hex(&salt)));
                                self.extra_ops.push(format!("OPEN {} {}", bound.as_u128(), hex(&bytes)));
                                let leak = b.len() >= 16 && hex(&bytes).contains(&b[..16.min(b.len())]);
                                if leak {
                                    o.push_str("\nleak FOUND");
                                }
                            }
                        }
                        o
                    }
                    Ok((AddVersionResult::ExpectedParentVersion(l), _)) => {
                        self.stat("rejected");
                        format!("exp {}", self.sym(l))
                    }
                    Err(e) => format!("err:{}", e),
                };
                (line.to_string(), out)
            }
            ["GC", h, p] => {
                let h: usize = h.parse().unwrap();
                let parent = self.actual(p);
                let r = self.call(h, |s, rt| rt.block_on(s.get_child_version(parent)));
                self.stat("get_child_version");
                let out = match r {
                    Ok(GetVersionResult::Version { version_id, parent_version_id, history_segment }) => format!(
                        "{} parent={} {}",
                        self.sym(version_id),
                        self.sym(parent_version_id),
                        if history_segment.is_empty() { ".".to_string() } else { hex(&history_segment) }
                    ),
                    Ok(GetVersionResult::NoSuchVersion) => "none".into(),
                    Err(e) => format!("err:{}", e),
                };
                (line.to_string(), out)
            }
            ["AS", h, v, b] => {
                let h: usize = h.parse().unwrap();
                let vid = self.actual(v);
                let payload = if *b == "." { vec![] } else { unhex(b).unwrap() };
                let armed = self.arm(h);
                let pl2 = payload.clone();
                let r = self.call(h, |s, rt| rt.block_on(s.add_snapshot(vid, payload)));
                self.disarm(h);
                self.stat("add_snapshot");
                if armed && r.is_err() {
                    self.stat("add_snapshot.interrupted");
                    self.crash(h);
                    // stored or not: whatever get_snapshot now returns, from every handle alike
                    let mut seen = Vec::new();
                    if self.handles.iter().all(|x| x.is_none()) {
                        self.ensure_open(h);
                    }
                    for i in 0..self.handles.len() {
                        if self.handles[i].is_none() {
                            continue;
                        }
                        seen.push(self.call(i, |s, rt| rt.block_on(s.get_snapshot())).ok().flatten());
                    }
                    let res = if seen.iter().any(|x| *x != seen[0]) {
                        "split"
                    } else if seen[0] == Some((vid, pl2)) {
                        "stored"
                    } else {
                        "absent"
                    };
                    return (format!("AS {} {} {} !{}", h, v, b, res), format!("interrupted {}", res));
                }
                (line.to_string(), if r.is_ok() { "ok".into() } else { format!("err:{:?}", r.err()) })
            }
            ["GS", h, ..] => {
                let h: usize = h.parse().unwrap();
                let r = self.call(h, |s, rt| rt.block_on(s.get_snapshot()));
                self.stat("get_snapshot");
                match r {
                    Ok(Some((v, b))) => {
                        let sv = self.sym(v);
                        (format!("GS {} -> {}", h, sv), format!("snap {} {}", sv, if b.is_empty() { ".".to_string() } else { hex(&b) }))
                    }
                    Ok(None) => (format!("GS {} -> none", h), "none".into()),
                    Err(e) => (format!("GS {} -> none", h), format!("err:{}", e)),
                }
            }
            ["REOPEN", h, ..] => {
                let h: usize = h.parse().unwrap();
                self.handles[h] = None;
                self.open(h);
                self.down[h] = false;
                // an interrupted add_version of this handle that left no trace so far may be finished
                // now that its process is back (git: the unpushed commit is pushed on open)
                if let Some((parent, payload, psym, bhex)) = self.pending[h].take() {
                    let res = self.resolve_av(h, parent, &payload);
                    if res == "accepted" {
                        self.stat("late-accepted");
                        return (format!("REOPEN {} !accepted {} {}", h, psym, bhex), format!("reopened accepted v{}", self.accepted.len()));
                    } else if res != "absent" {
                        return (format!("REOPEN {} !{}", h, res), format!("reopened {}", res));
                    }
                }
                (format!("REOPEN {}", h), "reopened".into())
            }
            _ => (line.to_string(), "bad-op".into()),
        }
    }
}

pub fn fault_specs(kind: Kind) -> Vec<String> {
    match kind {
        Kind::Local => vec!["local.add_version.between-insert-and-latest".into(), "local.add_version.before-commit".into()],
        Kind::GitLocal | Kind::GitRemote => vec![
            "git.add_version.after-version-file".into(),
            "git.stage_and_commit.after-add".into(),
            "git.add_version.after-meta".into(),
            "git.add_version.after-commit".into(),
        ],
        // add_version: get latest, put version, compare-and-swap latest, (delete on a lost race), snapshot info
        Kind::Cloud => [
            "before:1", "after:1", "before:2", "after:2", "before:3", "after:3", "before:4", "after:4", "after:5", "after:6", "before:8",
            "cas:before:1", "cas:after:1", "cas:after:1", "put:before:1", "put:after:1", "get:after:1", "get:after:2", "get:before:2", "list:after:1", "del:after:1",
        ]
        .iter()
        .map(|s| s.to_string())
        .collect(),
        Kind::Http => vec![],
    }
}

pub fn gen_line(run: &mut BackendRun, rng: &mut Rng, nhandles: usize, nver: &mut usize) -> String {
    let h = rng.below(nhandles as u64);
    let _ = nver;
    if run.down.get(h as usize).cloned().unwrap_or(false) {
        // a stopped process starts again sooner or later; meanwhile the others carry on
        if rng.below(3) > 0 || run.down.iter().all(|d| *d) {
            return format!("REOPEN {}", h);
        }
        let up: Vec<usize> = (0..nhandles).filter(|i| !run.down[*i]).collect();
        let h2 = *rng.pick(&up[..]) as u64;
        return gen_line_on(run, rng, h2, nhandles);
    }
    gen_line_on(run, rng, h, nhandles)
}

fn gen_line_on(run: &mut BackendRun, rng: &mut Rng, h: u64, nhandles: usize) -> String {
    let _ = nhandles;
    let payloads: Vec<Vec<u8>> = vec![
        vec![],
        b"x".to_vec(),
        (0..=255u8).collect(),
        vec![0xff, 0xfe, 0x00, 0x80, 0x0a],
        b"{\"operations\":[]}".to_vec(),
        vec![b'z'; 3000],
    ];
    let pl = |rng: &mut Rng| {
        let p = rng.pick(&payloads[..]).clone();
        if p.is_empty() { ".".to_string() } else { hex(&p) }
    };
    let latest = run.accepted.len();
    let some_parent = |rng: &mut Rng| -> String {
        match rng.below(10) {
            0..=4 => if latest == 0 { "nil".into() } else { format!("v{}", latest) },
            5 => "nil".into(),
            6 | 7 => if latest == 0 { format!("x{}", rng.below(3)) } else { format!("v{}", 1 + rng.below(latest as u64)) },
            _ => format!("x{}", rng.below(3)),
        }
    };
    // what this handle saw as the latest version when it last made a call
    let stale = run.seen.get(h as usize).cloned().unwrap_or(0);
    match rng.below(20) {
        0..=7 => {
            if stale != latest && rng.below(2) == 0 {
                format!("AV {} {} {}", h, if stale == 0 { "nil".to_string() } else { format!("v{}", stale) }, pl(rng))
            } else {
                format!("AV {} {} {}", h, some_parent(rng), pl(rng))
            }
        }
        8..=13 => format!("GC {} {}", h, some_parent(rng)),
        14 | 15 => {
            if run.kind == Kind::Local || latest == 0 {
                format!("GC {} {}", h, some_parent(rng))
            } else {
                format!("AS {} v{} {}", h, 1 + rng.below(latest as u64), pl(rng))
            }
        }
        16 | 17 => format!("GS {}", h),
        _ => format!("REOPEN {}", h),
    }
}
