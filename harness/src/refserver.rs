//! A harness-side `Server`: one in-memory version chain shared by all handles, with a
//! deterministic per-request gate, per-request fault injection and a request log.
use crate::common::*;
use async_trait::async_trait;
use std::cell::RefCell;
use std::future::Future;
use std::pin::Pin;
use std::rc::Rc;
use std::task::{Context, Poll};
use taskchampion::server::{
    AddVersionResult, GetVersionResult, HistorySegment, Snapshot, SnapshotUrgency, VersionId,
};
use taskchampion::{Error, Server};
use uuid::Uuid;

const VBASE: u128 = 1u128 << 100;

/// version index (1-based; 0 = nil) ↔ id
pub fn vid(idx: usize) -> Uuid {
    if idx == 0 {
        Uuid::nil()
    } else {
        Uuid::from_u128(VBASE + idx as u128)
    }
}
pub fn vidx(id: Uuid) -> String {
    if id.is_nil() {
        "0".into()
    } else if id.as_u128() > VBASE && id.as_u128() < VBASE + (1 << 40) {
        format!("{}", id.as_u128() - VBASE)
    } else {
        format!("?{}", id)
    }
}

#[derive(Clone, Copy, PartialEq, Debug)]
pub enum FaultKind {
    Before,
    After,
}

#[derive(Default)]
pub struct HandleCtl {
    pub stepped: bool,
    pub permits: usize,
    pub at_gate: bool,
    pub nreq: usize,
    pub fault: Option<(usize, FaultKind)>, // 1-based request index within the current sync
    pub log: Vec<String>,
    pub urgency: Option<SnapshotUrgency>,
    /// set when the replica's "process" has been stopped by a storage fault: no further request
    /// reaches the server
    pub stopped: std::sync::Arc<std::sync::atomic::AtomicBool>,
}

pub struct Chain {
    pub versions: Vec<Vec<u8>>,
    pub snapshot: Option<(usize, Vec<u8>)>,
    pub handles: Vec<HandleCtl>,
    /// decode a snapshot for logging
    pub snap_fmt: fn(&[u8]) -> String,
    /// number of leading versions the server has discarded (get_child_version below → NoSuchVersion)
    pub discarded: usize,
}

pub type Shared = Rc<RefCell<Chain>>;

pub fn new_chain(n: usize, snap_fmt: fn(&[u8]) -> String) -> Shared {
    let mut handles = Vec::new();
    for _ in 0..n {
        handles.push(HandleCtl::default());
    }
    Rc::new(RefCell::new(Chain {
        versions: Vec::new(),
        snapshot: None,
        handles,
        snap_fmt,
        discarded: 0,
    }))
}

pub struct RefHandle {
    pub chain: Shared,
    pub rid: usize,
}

struct Gate<'a> {
    chain: &'a Shared,
    rid: usize,
}
impl Future for Gate<'_> {
    type Output = ();
    fn poll(self: Pin<&mut Self>, _cx: &mut Context<'_>) -> Poll<()> {
        let mut c = self.chain.borrow_mut();
        let h = &mut c.handles[self.rid];
        if !h.stepped {
            return Poll::Ready(());
        }
        if h.permits > 0 {
            h.permits -= 1;
            h.at_gate = false;
            Poll::Ready(())
        } else {
            h.at_gate = true;
            Poll::Pending
        }
    }
}

impl RefHandle {
    async fn enter(&mut self) -> Option<FaultKind> {
        Gate {
            chain: &self.chain,
            rid: self.rid,
        }
        .await;
        let mut c = self.chain.borrow_mut();
        let h = &mut c.handles[self.rid];
        if h.stopped.load(std::sync::atomic::Ordering::SeqCst) {
            return Some(FaultKind::Before);
        }
        h.nreq += 1;
        match h.fault {
            Some((i, k)) if i == h.nreq => Some(k),
            _ => None,
        }
    }
    fn log(&self, s: String) {
        self.chain.borrow_mut().handles[self.rid].log.push(s);
    }
}

fn injected() -> Error {
    Error::Server("injected-fault".into())
}

#[async_trait(?Send)]
impl Server for RefHandle {
    async fn add_version(
        &mut self,
        parent: VersionId,
        hs: HistorySegment,
    ) -> Result<(AddVersionResult, SnapshotUrgency), Error> {
        let fault = self.enter().await;
        if fault == Some(FaultKind::Before) {
            return Err(injected());
        }
        let text = String::from_utf8_lossy(&hs).to_string();
        let (res, line) = {
            let mut c = self.chain.borrow_mut();
            let latest = c.versions.len();
            if latest == 0 || parent == vid(latest) {
                c.versions.push(hs);
                (
                    AddVersionResult::Ok(vid(latest + 1)),
                    format!("av {} {} -> ok v{}", vidx(parent), shorten(&text), latest + 1),
                )
            } else {
                (
                    AddVersionResult::ExpectedParentVersion(vid(latest)),
                    format!("av {} {} -> exp {}", vidx(parent), shorten(&text), latest),
                )
            }
        };
        self.log(line);
        if fault == Some(FaultKind::After) {
            return Err(injected());
        }
        let urg = self.chain.borrow().handles[self.rid]
            .urgency
            .unwrap_or(SnapshotUrgency::None);
        Ok((res, urg))
    }

    async fn get_child_version(&mut self, parent: VersionId) -> Result<GetVersionResult, Error> {
        let fault = self.enter().await;
        if fault == Some(FaultKind::Before) {
            return Err(injected());
        }
        let (res, line) = {
            let c = self.chain.borrow();
            let mut found = None;
            for i in 0..c.versions.len() {
                if vid(i) == parent && i >= c.discarded {
                    found = Some(i);
                }
            }
            match found {
                Some(i) => (
                    GetVersionResult::Version {
                        version_id: vid(i + 1),
                        parent_version_id: parent,
                        history_segment: c.versions[i].clone(),
                    },
                    format!("gc {} -> v{}", vidx(parent), i + 1),
                ),
                None => (
                    GetVersionResult::NoSuchVersion,
                    format!("gc {} -> none", vidx(parent)),
                ),
            }
        };
        self.log(line);
        if fault == Some(FaultKind::After) {
            return Err(injected());
        }
        Ok(res)
    }

    async fn add_snapshot(&mut self, version_id: VersionId, snapshot: Snapshot) -> Result<(), Error> {
        let fault = self.enter().await;
        if fault == Some(FaultKind::Before) {
            return Err(injected());
        }
        let line = {
            let mut c = self.chain.borrow_mut();
            let f = c.snap_fmt;
            let line = format!("as {} {}", vidx(version_id), f(&snapshot));
            let idx: usize = vidx(version_id).parse().unwrap_or(usize::MAX);
            c.snapshot = Some((idx, snapshot));
            line
        };
        self.log(line);
        if fault == Some(FaultKind::After) {
            return Err(injected());
        }
        Ok(())
    }

    async fn get_snapshot(&mut self) -> Result<Option<(VersionId, Snapshot)>, Error> {
        let fault = self.enter().await;
        if fault == Some(FaultKind::Before) {
            return Err(injected());
        }
        let (res, line) = {
            let c = self.chain.borrow();
            match &c.snapshot {
                Some((i, s)) => (Some((vid(*i), s.clone())), format!("gs -> v{}", i)),
                None => (None, "gs -> none".to_string()),
            }
        };
        self.log(line);
        if fault == Some(FaultKind::After) {
            return Err(injected());
        }
        Ok(res)
    }
}
